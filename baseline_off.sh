#!/bin/bash
# Runs the repository's pinned test suite exactly as BASELINE.json does, with the
# verif build tag OFF (no -tags), so that every hook compiles to nothing.
. "$(dirname "$0")/env.sh"
rc=0
for m in . ./cmd ./estargz ./ipfs; do
  (cd /repo/$m && "$VERIF_GO" test -mod=mod -json -vet=off -count=1 -timeout 25m ./...) || rc=1
done
exit $rc
