#!/bin/bash
# Runs the repository's pinned test suite exactly as BASELINE.json does, with the
# verif build tag OFF (no -tags), so that every hook compiles to nothing. The go test
# -json stream goes to stdout; the exit status is 0 iff every test listed in
# BASELINE.json "stable_pass" passed (4 converter tests need the network and are not in
# that list; they fail offline with or without the hooks).
. "$(dirname "$0")/env.sh"
OUT="$(mktemp /var/tmp/verif-baseline-XXXXXX.json)"
trap 'rm -f "$OUT"' EXIT
for m in . ./cmd ./estargz ./ipfs; do
  (cd /repo/$m && "$VERIF_GO" test -mod=mod -json -vet=off -count=1 -timeout 25m ./...)
done | tee "$OUT"
python3 - "$OUT" >&2 <<'PY'
import json,sys
res={}
for l in open(sys.argv[1]):
    try: e=json.loads(l)
    except Exception: continue
    if e.get('Test') and e.get('Action') in ('pass','fail','skip'):
        res[e['Package']+'::'+e['Test']]=e['Action']
try:
    want=json.load(open('/root/.vp/BASELINE.json'))['stable_pass']
except Exception:
    want=None
if want is None:
    bad=[k for k,v in res.items() if v=='fail']
    print('baseline_off: no BASELINE.json; failed tests:',len(bad)); sys.exit(1 if bad else 0)
bad=[t for t in want if res.get(t)!='pass']
print('baseline_off: %d tests seen, %d/%d stable_pass tests passed'%(len(res),len(want)-len(bad),len(want)))
for t in bad[:30]: print('  NOT PASSED:',t,res.get(t))
sys.exit(1 if bad else 0)
PY
