# Toolchain and offline settings shared by run.sh / build.sh / setup.sh.
# The repository needs go >= 1.25.0; the go1.25.0 toolchain in the module cache is
# the one the baseline suite uses. Fall back to go1.26.8 if it is missing.
VERIF_GO="/root/go/pkg/mod/golang.org/toolchain@v0.0.1-go1.25.0.linux-amd64/bin/go"
if [ ! -x "$VERIF_GO" ]; then
  if [ -x /opt/veriftools/go1.26.8/bin/go ]; then VERIF_GO=/opt/veriftools/go1.26.8/bin/go; else VERIF_GO="$(command -v go1.26.8 || command -v go)"; fi
fi
export VERIF_GO
export GOFLAGS=-mod=mod GOPROXY=off GOSUMDB=off GOTOOLCHAIN=local GONOSUMDB='*' GONOSUMCHECK=1 GOFLAGS=-mod=mod
export CGO_ENABLED=1
