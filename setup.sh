#!/bin/bash
# One-time setup after a fresh restore (offline): build every check binary once so
# that the Go build cache is warm, and record the capability probes.
set -u
VERIF_DIR="$(cd "$(dirname "$0")" && pwd)"
. "$VERIF_DIR/env.sh"
cd "$VERIF_DIR"
mkdir -p bin evidence/replay
checks=$(ls harness/cmd)
./build.sh $checks || { echo "setup: build failed" >&2; exit 1; }
{
  echo "go: $($VERIF_GO version)"
  if unshare -m --propagation private true 2>/dev/null; then echo "unshare: yes"; else echo "unshare: no"; fi
  if [ -c /dev/fuse ]; then echo "fuse-dev: yes"; else echo "fuse-dev: no"; fi
} > bin/capabilities.txt
cat bin/capabilities.txt
