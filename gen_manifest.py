#!/usr/bin/env python3
"""Generates /verif/MANIFEST.json from the table below (kept in one place so the
manifest is always schema-valid). Run: python3 gen_manifest.py"""
import json, os, subprocess, sys

HERE = os.path.dirname(os.path.abspath(__file__))

# id -> (level category, technique, level text, level note, design ref)
CHECKS = {
 "C10": ("exploration",
         "recorded-history checking (porcupine) + event-order/exactly-once monitor + Go race detector",
         "Thousands of short concurrent histories on the real TTLCache/LRUCache in the race build; every history is checked by an eviction-order monitor (callback never before a holder's release call, exactly one callback per value that entered the cache) and by porcupine against a sequential cache model. Holds on the histories executed, nothing more.",
         "Trusted: porcupine v1.3.0, the two 30-line sequential models in harness/cmd/c10, CLOCK_MONOTONIC consistency across CPUs, the Go race detector. Timer-driven expiry is exercised through the verif-tagged VerifFireExpiry shim, which runs exactly the timer callback body.",
         "DESIGN.md section 5 C10"),
 "C13": ("exploration",
         "online trace monitor over build-tagged hook events + state-based quiescence check + Go race detector",
         "Thousands of generated scenarios on the real BackgroundTaskManager (concurrency 1-4, silence 0-30 ms, up to 16 invokers and 8 prioritized clients, bodies that react to cancellation immediately/late/at the end) in the race build. A monitor fed by hook points inside the manager's own critical sections decides: no start while prioritized work is in progress, silence period respected (one-sided-safe stamps), concurrency bound, no self-overlap, nothing running at return, cancellation delivered, completion at quiescence (decided on goroutine state, not on time). Holds on the executions observed.",
         "Trusted: the hook points task.pbegin/pend/start/cancel are placed as DESIGN.md section 5 C13 argues (pend before the decrement => monitor count <= real count); runtime.Stack snapshots for the quiescence decision; CLOCK_MONOTONIC; the Go race detector.",
         "DESIGN.md section 5 C13"),
 "C20": ("exploration",
         "round-trip differential oracle over generated manifests (real writer handlers -> real readers) + request-log monitor on a real FUSE mount",
         "Generated manifests (0-80 layers, non-layer children, repeated digests, URL lists around the label size limit) are enumerated by containerd's real ChildrenHandler, labelled by both real writer flavours and read back by both real readers; every layer descriptor is checked (labels.Validate, same reference/digest/URLs, neighbours a prefix in manifest order each with its own URLs, prefetch size round-trips), every subset of <=3 labels removed/corrupted must be rejected or spell the same source; an L3 stage hands the labels to a real fs.Mount over FUSE and judges the registry request log. Holds on the manifests generated.",
         "Trusted: containerd's images.ChildrenHandler, snapshotters.AppendInfoHandlerWrapper, labels.Validate and FilterInheritedLabels (third-party, used as the real pipeline); the manifest generator's model of what was written. Domain limits: URLs without ',', well-formed references < 1 KiB.",
         "DESIGN.md section 5 C20"),
 "C08": ("exploration",
         "reference-model monitor over generated operation sequences with a recording, fault-scripted backend + Go race detector",
         "Random operation sequences (Prepare with/without target, View, Commit, Mounts, Remove, Cleanup, Walk, Stat, Update, Close+reopen; sync/async remove; scripted Mount/Check/Unmount failures) on the real snapshotter over a recording FileSystem (and a real bind-mount variant read back from /proc/self/mountinfo). After every operation a 100-line model is compared with Walk, the id map, the snapshots/ directory and the backend mount table (clauses a-f of DESIGN.md C08); a concurrent phase runs under the race detector. Holds on the sequences executed.",
         "Trusted: containerd's storage package and bbolt; the reference model in internal/recfs/snapdrv; recfs records at the FileSystem boundary. Error kinds other than those the statement names are not judged.",
         "DESIGN.md section 5 C08"),
 "C09": ("fault_enumeration",
         "crash-image enumeration at build-tagged crash points + restart oracle in child processes",
         "For generated histories a crash image (metadata.db + snapshots/) is taken at EVERY hit of the 14 snap.* crash points and at every operation boundary; each image is restarted in a fresh process under {allow-invalid, strict, no-restore} x {all mounts succeed, k-th mount fails} (plus leftover real bind mounts, in no-restore mode as the live mounts of a surviving filesystem that must stay) and checked: restart result as the mode prescribes, exactly the committed remote snapshots re-mounted with their labels, markers in ordinary snapshots intact, acknowledged snapshots usable/removable, one Cleanup leaves exactly the live ids. Exhaustive over the crash points hit by each history; holds on the histories generated.",
         "Trusted: a file copy of metadata.db taken while no transaction commits equals what a power cut leaves (bbolt writes only at commit); crash points inside containerd's storage package and inside a bbolt commit, and torn sector writes, are not enumerated.",
         "DESIGN.md section 5 C09"),
 "C01": ("exploration",
         "differential oracle against the generator model on altered blobs + hook-gated interleavings + Go race detector",
         "Genuine blobs (gzip, zstd:chunked, external TOC) are served with alterations (bit flips per region, truncation, member swap, same-length recompressed different payload, re-serialised/edited TOC, tampered on-disk cache) through reader.NewReader (L1), layer.Resolver + node reads (L2) and a real fs.Mount over FUSE (L3, label matrix). Oracle: Verify(D) nil => sha256(TOC served) == D; after a successful verification every read is error or genuine bytes; every cached chunk hashes to a genuine chunk digest. Prefetch/VerifyTOC orders are imposed through build-tagged hook points (all permutations; orders the code's locking forbids are recorded as infeasible). All call histories <= 3 over {Verify(D), Verify(D'), SkipVerify} on one cached layer. Holds on the cases executed.",
         "Trusted: the generator model (gen.CheckContent), an independent TOC-digest recomputation (std gzip/tar, klauspost zstd), SHA-256. Kernel FUSE passthrough splice is not covered (the in-process GetPassthroughFd path is).",
         "DESIGN.md section 5 C01"),
 "C03": ("exploration",
         "three independent readings of every built blob (std decompressors + archive/tar, an independent spec reader, recomputed digests) + Go race detector",
         "estargz.Build / Writer.AppendTar (one or two calls) / AppendTarLossLess over generated tars (plain, gzip, multi-member gzip, zstd, already-eStargz input) and an option product (chunk size, min-chunk-size, levels, gzip/zstd:chunked/external TOC, prioritized list, 1-8 workers). Each output is (1) fully decompressed with std/klauspost decoders and compared entry by entry with the input model, (2) parsed by internal/specread written from docs/estargz.md (every chunk read from its own offset/innerOffset, digests checked), (3) checked against recomputed TOC digest / DiffID / uncompressed size; lossless output must start with the input bytes, including bytes after the end-of-archive marker (zero blocks / GNU record padding, plain and gzip sources). Parallel builds are re-run under the race detector. Holds on the cases executed.",
         "Trusted: Go's compress/gzip, archive/tar, encoding/json, klauspost zstd, SHA-256; internal/specread's reading of docs/estargz.md (zstd:chunked footer layout taken from the public format). Domain: whole-second mtimes, names <= 200 bytes, files <= 160 KiB.",
         "DESIGN.md section 5 C03"),
 "C07": ("exploration",
         "reference-model differential oracle (OCI layer application vs overlayfs merge) on permuted Lookup/Readdir orders + kernel overlayfs stage",
         "Generated stacks of 1-5 layers (whiteouts, opaque markers, replaced entries, .wh. look-alikes, landmarks) x {memory, db} x {all, trusted, user opaque mode} x {direct, go-fuse bridge} lookup driver; in every directory the five operations run in a random permutation (all 120 orders are seen in a quick run). Oracle: expected lower view per layer, listed <=> Lookup succeeds, inode agreement/uniqueness/stability, overlayMerge(served) == applyOCI(tars) with independently written functions, state file JSON. A child stage mounts the layers with go-fuse and stacks them with the KERNEL's overlayfs, and an L3 stage mounts through service.NewFileSystem. Holds on the stacks generated.",
         "Trusted: internal/ocistack reference functions (cross-checked against each other on 20 000 stacks by a unit test), the kernel's overlayfs in the thorough stage, containerd's overlayutils.NeedsUserXAttr. Layers carrying both a whiteout and a directory of one name are excluded as the statement does.",
         "DESIGN.md section 5 C07"),
 "C14": ("exploration",
         "independent layout oracle over the decompressed tar and the TOC offsets read by an independent spec reader",
         "estargz.Build with prioritized lists in all spellings (absolute, ./, ../, unclean), directories, hardlinks and targets, duplicates, the root, missing paths, landmark-named inputs, with/without allow-not-found, min-chunk-size streams, 1-8 workers, three compression schemes. Oracle computed from the statement: leading group = per listed path its not-yet-placed ancestors and link-target chain then the path, once each; exactly one landmark of the right kind at a stream boundary; every leading-group data offset below the landmark offset and every other at or above it; remaining entries in input order, nothing lost/duplicated/altered; missing paths abort or are reported exactly. Holds on the cases executed.",
         "Trusted: internal/specread, archive/tar, std/klauspost decompressors. A listed directory that exists only implicitly is left as slack.",
         "DESIGN.md section 5 C14"),
 "C17": ("exploration",
         "reference-model monitor over generated Init/Mount/Check/Unmount/Close/restart histories with recording filesystems + store read-back + Go race detector",
         "The real fusemanager.Server (direct calls, and through the real gRPC server/client for a share of cases) with each Init's filesystem replaced by a generation-tagged recording one via a build-tagged wrap point; failures injected into config JSON, config functions, filesystem construction, restoration mounts, Mount/Check/Unmount; manager death with the store kept. After every operation: served subset-of records, records minus served within the tolerated set of the last failed Init, Check/Unmount delivered to the owning generation, no double mounts, restart re-mounts recorded mountpoints with recorded labels, unknown Unmount succeeds, requests before initialisation fail without crashing (crash isolation in journaled child batches). Concurrent phase under the race detector. Holds on the histories executed.",
         "Trusted: bbolt; the recording filesystem's model of 'served'; the slack reading of 'plus at most those whose restoration failed during the last initialisation' documented in cmd/c17/NOTES.md.",
         "DESIGN.md section 5 C17"),
 "C18": ("exploration",
         "reference-model + porcupine history checking of the CRI keychain; taint scan of a complete request log with hook-gated interleavings + Go race detector",
         "(a) cri.NewCRIKeychain over a fake ImageService: sequential Pull/Remove histories with a full (host, ref) query sweep after every request judged by a 60-line model, concurrent histories checked by porcupine (one register per exact reference). (b) keychain + static credentials -> RegistryHostsFromConfig (mirrors with secret headers) -> remote.Resolver -> Blob ReadAt/Cache/Check/Refresh over a scripted in-memory RoundTripper logging every request at two levels (direct, 302/307 to CDN, expiring tokens, 401 challenges, redirect<->direct switches): every secret names its owner host and may appear only there. The order 'fetch read old URL -> refresh completes -> header read' is imposed via hook points; storms run for the race detector. Holds on the histories executed.",
         "Trusted: porcupine v1.3.0, distribution/reference name normalisation, the taint model (each secret string encodes its owner). Credentials that Go's net/http itself forwards on a same-domain redirect are observed, not judged (not derivable from the statement).",
         "DESIGN.md section 5 C18"),
 "C02": ("exploration",
         "reference-model differential oracle over concurrent random access histories on the full in-process stack + Go race detector",
         "gen.RandomTar archives (prefixed names, implicit parents, hardlink chains, duplicates, multi-chunk files, xattrs, devices) built with random options are served through memreg -> fs/remote -> metadata store (memory|db) -> fs/reader -> fs/layer nodes; 4-16 walkers (lookup, readdir, getattr, readlink, xattrs, boundary reads, passthrough fd) run concurrently with Prefetch, BackgroundFetch, prioritized tasks, cache eviction and registry personalities/outages; every answer is compared with gen.Model immediately. Child stages: race build, hand-minimised probes, db-growth (kept nodes re-judged while the shared bolt file grows), real FUSE mount with a syscall walk. Holds on the histories executed.",
         "Trusted: the tar model (gen.Model) and Go's archive/tar used to serialise it. Not judged: inode numbers, block counts, directory order, directory nlink, attributes of implicit directories. Kernel passthrough splice is not covered.",
         "DESIGN.md section 5 C02"),
 "C05": ("exploration",
         "differential oracle between the two metadata stores over builder-made and hand-assembled spec-conforming blobs + sharing scenarios under the Go race detector",
         "For builder blobs (random options) and hand-assembled TOCs (implicit parents, repeated directory entries, hardlink chains, missing digests, ./ ../ names, empty xattrs, trailing whitespace, shared inner-offset streams, explicit root) both stores are opened and walked in PRNG order over every metadata.Reader method (ChunkEntryForOffset probed at every boundary +-1, ReadAt over every chunk, pre-reader callbacks, Clone); a path-keyed deep comparison must agree, both must accept/reject alike. 2-12 layers share ONE bolt file with concurrent walkers and closes; survivors are re-walked. Holds on the blobs generated.",
         "Trusted: the hand assembler's reading of docs/estargz.md. Slack: ForeachChild order, NumLink 0 == 1 (documented), store-private node ids, error texts, chunk probes outside [0,size).",
         "DESIGN.md section 5 C05"),
 "C06": ("exploration",
         "self-describing-content oracle + fetched-size conservation monitor over scripted server personalities and cache faults + Go race detector",
         "remote.Resolver.Resolve on memreg with a recording/fault-injecting cache (internal/reccache): blob sizes around chunk multiples, chunk and prefetch-chunk sizes, direct/redirect+expiring-token/400-single-range registries, permuted multipart, transient failures before/between/after parts, cache loss and read errors, 1-32 goroutines on hot regions (shared single-flight), cancellable contexts. Every ReadAt is error or exact; an error is flagged only in phases where no fault was delivered; FetchedSize is per-observer monotonic, <= Size and at quiescence equals the distinct bytes committed to the cache. Holds on the scenarios executed.",
         "Trusted: gen.FillContent (content is a function of the offset), reccache's commit table. An error in a phase with any injected fault is always accepted (single-flight hands one failure to every overlapping reader).",
         "DESIGN.md section 5 C06"),
 "C11": ("exploration",
         "self-describing-value oracle on concurrent cache histories + Go race detector",
         "cache.NewDirectoryCache (wired exactly like fs/layer.newCache and with its defaults) x {Direct, SyncAdd, FadvDontNeed} and cache.NewMemoryCache, LRU capacities 1-4, 8-32 goroutines over more keys than both LRUs hold: writers (partial writes, commit/abort/close-only, duplicate adds) and readers (full + random ranges read twice, readers held across evictions). Values carry (key, writer, length) + PRNG body; aborted writers write poison. A hit must be, in full, the value of one writer of that key whose Commit had been called before Get returned; double reads equal; held readers stable. Holds on the rounds executed.",
         "Trusted: the per-writer commit-call stamp (written immediately before Commit is invoked). A miss is always acceptable. PassThrough() selects no code path in cache.go and is only counted.",
         "DESIGN.md section 5 C11"),
 "C12": ("exploration",
         "reference-model monitor on resolver histories with build-tagged expiry, resource quiescence scan (dirs, bolt buckets, fds) + Go race detector",
         "layer.Resolver on memreg with 3-6 layers and up to 8 holders: Resolve (30% under injected faults), Verify, reads, Done, Close, explicit TTL expiry through build-tagged shims, Refresh, Check, prioritized tasks, background fetches, bursts of concurrent first Resolves; sequential histories and a concurrent phase. Holder reads must succeed with genuine bytes while the registry is healthy; a burst yields one resolved instance; at quiescence no cache directory, bolt bucket or fd below the resolver root survives (after two forced GCs, decided on state); a later Resolve works afresh. Holds on the histories executed.",
         "Trusted: gen.Model for read content; /proc/self/fd and directory scans. Memory (as opposed to fd/dir/bucket) reclamation is not observed.",
         "DESIGN.md section 5 C12"),
 "C15": ("exploration",
         "request-log monitor (no traffic after prefetch, coverage of the configured range, offline reads after background fetch) + order-based wait bound",
         "Layers with prefetch landmark / no-prefetch landmark / none on the L2 stack with varied prefetch size, async threshold, chunk sizes, both stores: after Prefetch+Wait (write-behind drained) reading every prioritized file causes no registry request; a no-prefetch layer causes no prefetch traffic; without landmarks min(size, blob) bytes are covered; after a successful BackgroundFetch every file reads with the registry down; Wait returns while a stalled prefetch request is still held (30x watchdog), failures and stalls injected, concurrent/repeated calls, prioritized tasks during background fetch. L3 stage: real Mount -> first Check ordering. Holds on the cases executed.",
         "Trusted: memreg's request log is complete (every request passes its RoundTripper). Clause A' (reads after dropping the compressed-blob cache) goes beyond the statement and is declared as an assumption in the evidence.",
         "DESIGN.md section 5 C15"),
 "C16": ("exploration",
         "history-free reference model over generated lookup/use/release histories, porcupine counter model, real FUSE tree stage + Go race detector",
         "The real store.LayerManager on memreg (2-3 images x 1-4 layers) driven through build-tagged shims: 18 directed minimal scenarios, seeded sequences (use, release incl. at zero, lookup of diff/blob/info, reads through a held layer, explicit TTL expiry, five fault kinds with recovery, unknown digests), concurrent clients checked with porcupine (counter per key) under the race detector, and store.Mount driven by syscalls (stat/open/read, open(use, O_CREAT), rmdir). Oracle: a lookup succeeds iff the image has a layer with that verified TOC digest and no fault is injected now, never for another digest; counts equal the model and never go negative; a layer in use stays readable across cache expiry; after an image's last release no layer or memo of it remains and the next lookup resolves afresh. Holds on the histories executed.",
         "Trusted: porcupine v1.3.0, gen.Model for content, memreg's request log. Error kinds are not judged.",
         "DESIGN.md section 5 C16"),
 "C19": ("exploration",
         "independent recomputation oracle over images converted by containerd's parallel converter in journaled child processes + Go race detector",
         "Images of 1-16 tiny layers (tar/gzip/zstd/already-converted sources, OCI and Docker media types, repeated layers, manifest or index, dangling writers, retries) in a content/local store are converted with containerd's DefaultIndexConvertFunc (parallel layers, one converter instance per image) using all seven constructors of the repo's estargz / zstd:chunked / external-TOC / lossless converters. Every returned descriptor is recomputed from the committed blob: digest/size, media type vs magic bytes, uncompressed-size annotation and containerd.io/uncompressed label vs the decompressed stream, TOC digest vs an independently located TOC and vs the snapshotter's own mount path, per-layer options reflected in that layer's TOC, lossless DiffID unchanged, TOC image mapping every converted layer to the TOC that verifies it. Race build for the shared converter state; fatal errors are attributed through an on-disk journal. Holds on the conversions executed.",
         "Trusted: containerd's content/local store and converter driver, std gzip / klauspost zstd, SHA-256, the check's own footer/TOC locator. The four converter tests of the repo need the network and cannot run offline.",
         "DESIGN.md section 5 C19"),
 "C04": ("exploration",
         "crash/hang monitor over generated hostile inputs pushed through the whole consumer chain in journaled child processes (plain + race/checkptr builds)",
         "Five seeded generators (raw footers with every single-field mutation; structure-aware adversarial TOCs in gzip / zstd:chunked / external-TOC framing: hardlink cycles and DAGs, huge/negative sizes and offsets, overlapping/unsorted/zero-size chunks, null entries, odd names; mutations of genuine blobs; 50+ kinds of hostile registry replies incl. redirect loops, ping-pongs and long chains on one host and across hosts, a share of them through registry hosts built the production way (service/resolver.RegistryHostsFromConfig: retrying client, redirect hook, request timeouts); hostile tar/gzip/zstd builder inputs) are pushed through estargz.Open and every Reader method, each Decompressor, both metadata stores with a full walk, reader.NewReader -> VerifyTOC/SkipVerify -> Cache -> OpenFile/ReadAt/GetPassthroughFd, and the full layer stack (Resolve, Verify, Prefetch, RootNode, node walk, BackgroundFetch). Cases run in child batches with an on-disk journal written before each case; a recovered panic, a process death (attributed through the journal and the crash report) or a hang (decided on CPU time and idleness of the case re-run alone, not on wall-clock) is a violation keyed by kind + normalised message + innermost repository function. Out-of-memory and thread exhaustion are inconclusive. Holds on the inputs generated.",
         "Trusted: the harness walkers are depth- and visit-bounded and only make calls the daemon can make. Memory exhaustion (allocation sizes below the 1 GiB chunk bound, the rlimit of the child) is outside the statement and reported as inconclusive. Quadratic-but-finite behaviour is not judged.",
         "DESIGN.md section 5 C04"),
}

PENDING_REASON = "check not built yet in this session (work in progress; DESIGN.md section 5 describes the planned runtime monitor)"

def main():
    props = [json.loads(l) for l in open(os.path.join(HERE, "properties.jsonl"))]
    hooks = subprocess.run(["git", "-C", "/repo", "log", "--format=%H %s", "--grep=^verif:"], capture_output=True, text=True).stdout.strip().splitlines()
    checks = []
    na = []
    for p in props:
        i = p["id"]
        if i in CHECKS and os.path.isdir(os.path.join(HERE, "harness", "cmd", i.lower())):
            cat, tech, text, note, ref = CHECKS[i]
            checks.append({
                "property_id": i,
                "quick_cmd": f"./run.sh {i} quick",
                "thorough_cmd": f"./run.sh {i} thorough",
                "evidence_file": f"/verif/evidence/{i}.json",
                "replay_cmd_template": "cat {path}",
                "engine": "vcheck",
                "level_claimed": {"category": cat, "text": text, "design_ref": ref},
                "level_note": note,
                "technique": tech,
            })
        else:
            na.append({"property_id": i, "reason": NA.get(i, PENDING_REASON)})
    m = {
        "version": 1,
        "setup_cmd": "./setup.sh",
        "hooks": {
            "guard": "verif (Go build tag)",
            "enable": "go build -tags verif (done by ./build.sh, which run.sh calls on every run against /repo's working tree)",
            "baseline_off_cmd": "./baseline_off.sh",
            "source_commits": [h.split()[0] for h in hooks],
            "add_only": True,
        },
        "engines": [{
            "name": "vcheck",
            "path": "/verif/harness",
            "serves_properties": [c["property_id"] for c in checks],
            "kind_free_text": "Go harness module (one binary per property, built with -tags verif, plain and -race) that drives the real packages of /repo under generated hostile/concurrent workloads; monitors: reference models, recorded-history checkers (porcupine), event-order monitors fed by build-tagged hooks, differential oracles, Go race detector with per-property attribution",
        }],
        "checks": checks,
        "not_applicable": na,
        "notes": "Every check is ./run.sh <id> <tier>; VERIF_SEED selects the deterministic case lists. Exit 0 held / 1 VIOLATION / 3 INCONCLUSIVE (monitors saw less than the floor). Known findings: known_findings.json.",
    }
    json.dump(m, open(os.path.join(HERE, "MANIFEST.json"), "w"), indent=1)
    print("checks:", [c["property_id"] for c in checks], "na:", [n["property_id"] for n in na])

NA = {}

if __name__ == "__main__":
    main()
