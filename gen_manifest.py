#!/usr/bin/env python3
"""Generates /verif/MANIFEST.json from the table below (kept in one place so the
manifest is always schema-valid). Run: python3 gen_manifest.py"""
import json, os, subprocess, sys

HERE = os.path.dirname(os.path.abspath(__file__))

# id -> (level category, technique, level text, level note, design ref)
CHECKS = {
 "C10": ("exploration",
         "recorded-history checking (porcupine) + event-order/exactly-once monitor + Go race detector",
         "Thousands of short concurrent histories on the real TTLCache/LRUCache in the race build; every history is checked by an eviction-order monitor (callback never before a holder's release call, exactly one callback per value that entered the cache) and by porcupine against a sequential cache model. Holds on the histories executed, nothing more.",
         "Trusted: porcupine v1.3.0, the two 30-line sequential models in harness/cmd/c10, CLOCK_MONOTONIC consistency across CPUs, the Go race detector. Timer-driven expiry is exercised through the verif-tagged VerifFireExpiry shim, which runs exactly the timer callback body.",
         "DESIGN.md section 5 C10"),
 "C13": ("exploration",
         "online trace monitor over build-tagged hook events + state-based quiescence check + Go race detector",
         "Thousands of generated scenarios on the real BackgroundTaskManager (concurrency 1-4, silence 0-30 ms, up to 16 invokers and 8 prioritized clients, bodies that react to cancellation immediately/late/at the end) in the race build. A monitor fed by hook points inside the manager's own critical sections decides: no start while prioritized work is in progress, silence period respected (one-sided-safe stamps), concurrency bound, no self-overlap, nothing running at return, cancellation delivered, completion at quiescence (decided on goroutine state, not on time). Holds on the executions observed.",
         "Trusted: the hook points task.pbegin/pend/start/cancel are placed as DESIGN.md section 5 C13 argues (pend before the decrement => monitor count <= real count); runtime.Stack snapshots for the quiescence decision; CLOCK_MONOTONIC; the Go race detector.",
         "DESIGN.md section 5 C13"),
 "C20": ("exploration",
         "round-trip differential oracle over generated manifests (real writer handlers -> real readers) + request-log monitor on a real FUSE mount",
         "Generated manifests (0-80 layers, non-layer children, repeated digests, URL lists around the label size limit) are enumerated by containerd's real ChildrenHandler, labelled by both real writer flavours and read back by both real readers; every layer descriptor is checked (labels.Validate, same reference/digest/URLs, neighbours a prefix in manifest order each with its own URLs, prefetch size round-trips), every subset of <=3 labels removed/corrupted must be rejected or spell the same source; an L3 stage hands the labels to a real fs.Mount over FUSE and judges the registry request log. Holds on the manifests generated.",
         "Trusted: containerd's images.ChildrenHandler, snapshotters.AppendInfoHandlerWrapper, labels.Validate and FilterInheritedLabels (third-party, used as the real pipeline); the manifest generator's model of what was written. Domain limits: URLs without ',', well-formed references < 1 KiB.",
         "DESIGN.md section 5 C20"),
 "C08": ("exploration",
         "reference-model monitor over generated operation sequences with a recording, fault-scripted backend + Go race detector",
         "Random operation sequences (Prepare with/without target, View, Commit, Mounts, Remove, Cleanup, Walk, Stat, Update, Close+reopen; sync/async remove; scripted Mount/Check/Unmount failures) on the real snapshotter over a recording FileSystem (and a real bind-mount variant read back from /proc/self/mountinfo). After every operation a 100-line model is compared with Walk, the id map, the snapshots/ directory and the backend mount table (clauses a-f of DESIGN.md C08); a concurrent phase runs under the race detector. Holds on the sequences executed.",
         "Trusted: containerd's storage package and bbolt; the reference model in internal/recfs/snapdrv; recfs records at the FileSystem boundary. Error kinds other than those the statement names are not judged.",
         "DESIGN.md section 5 C08"),
 "C09": ("fault_enumeration",
         "crash-image enumeration at build-tagged crash points + restart oracle in child processes",
         "For generated histories a crash image (metadata.db + snapshots/) is taken at EVERY hit of the 14 snap.* crash points and at every operation boundary; each image is restarted in a fresh process under {allow-invalid, strict, no-restore} x {all mounts succeed, k-th mount fails} (plus leftover real bind mounts) and checked: restart result as the mode prescribes, exactly the committed remote snapshots re-mounted with their labels, markers in ordinary snapshots intact, acknowledged snapshots usable/removable, one Cleanup leaves exactly the live ids. Exhaustive over the crash points hit by each history; holds on the histories generated.",
         "Trusted: a file copy of metadata.db taken while no transaction commits equals what a power cut leaves (bbolt writes only at commit); crash points inside containerd's storage package and inside a bbolt commit, and torn sector writes, are not enumerated.",
         "DESIGN.md section 5 C09"),
 "C01": ("exploration",
         "differential oracle against the generator model on altered blobs + hook-gated interleavings + Go race detector",
         "Genuine blobs (gzip, zstd:chunked, external TOC) are served with alterations (bit flips per region, truncation, member swap, same-length recompressed different payload, re-serialised/edited TOC, tampered on-disk cache) through reader.NewReader (L1), layer.Resolver + node reads (L2) and a real fs.Mount over FUSE (L3, label matrix). Oracle: Verify(D) nil => sha256(TOC served) == D; after a successful verification every read is error or genuine bytes; every cached chunk hashes to a genuine chunk digest. Prefetch/VerifyTOC orders are imposed through build-tagged hook points (all permutations; orders the code's locking forbids are recorded as infeasible). All call histories <= 3 over {Verify(D), Verify(D'), SkipVerify} on one cached layer. Holds on the cases executed.",
         "Trusted: the generator model (gen.CheckContent), an independent TOC-digest recomputation (std gzip/tar, klauspost zstd), SHA-256. Kernel FUSE passthrough splice is not covered (the in-process GetPassthroughFd path is).",
         "DESIGN.md section 5 C01"),
 "C03": ("exploration",
         "three independent readings of every built blob (std decompressors + archive/tar, an independent spec reader, recomputed digests) + Go race detector",
         "estargz.Build / Writer.AppendTar (one or two calls) / AppendTarLossLess over generated tars (plain, gzip, multi-member gzip, zstd, already-eStargz input) and an option product (chunk size, min-chunk-size, levels, gzip/zstd:chunked/external TOC, prioritized list, 1-8 workers). Each output is (1) fully decompressed with std/klauspost decoders and compared entry by entry with the input model, (2) parsed by internal/specread written from docs/estargz.md (every chunk read from its own offset/innerOffset, digests checked), (3) checked against recomputed TOC digest / DiffID / uncompressed size; lossless output must start with the input bytes. Parallel builds are re-run under the race detector. Holds on the cases executed.",
         "Trusted: Go's compress/gzip, archive/tar, encoding/json, klauspost zstd, SHA-256; internal/specread's reading of docs/estargz.md (zstd:chunked footer layout taken from the public format). Domain: whole-second mtimes, names <= 200 bytes, files <= 160 KiB.",
         "DESIGN.md section 5 C03"),
 "C07": ("exploration",
         "reference-model differential oracle (OCI layer application vs overlayfs merge) on permuted Lookup/Readdir orders + kernel overlayfs stage",
         "Generated stacks of 1-5 layers (whiteouts, opaque markers, replaced entries, .wh. look-alikes, landmarks) x {memory, db} x {all, trusted, user opaque mode} x {direct, go-fuse bridge} lookup driver; in every directory the five operations run in a random permutation (all 120 orders are seen in a quick run). Oracle: expected lower view per layer, listed <=> Lookup succeeds, inode agreement/uniqueness/stability, overlayMerge(served) == applyOCI(tars) with independently written functions, state file JSON. A child stage mounts the layers with go-fuse and stacks them with the KERNEL's overlayfs, and an L3 stage mounts through service.NewFileSystem. Holds on the stacks generated.",
         "Trusted: internal/ocistack reference functions (cross-checked against each other on 20 000 stacks by a unit test), the kernel's overlayfs in the thorough stage, containerd's overlayutils.NeedsUserXAttr. Layers carrying both a whiteout and a directory of one name are excluded as the statement does.",
         "DESIGN.md section 5 C07"),
 "C14": ("exploration",
         "independent layout oracle over the decompressed tar and the TOC offsets read by an independent spec reader",
         "estargz.Build with prioritized lists in all spellings (absolute, ./, ../, unclean), directories, hardlinks and targets, duplicates, the root, missing paths, landmark-named inputs, with/without allow-not-found, min-chunk-size streams, 1-8 workers, three compression schemes. Oracle computed from the statement: leading group = per listed path its not-yet-placed ancestors and link-target chain then the path, once each; exactly one landmark of the right kind at a stream boundary; every leading-group data offset below the landmark offset and every other at or above it; remaining entries in input order, nothing lost/duplicated/altered; missing paths abort or are reported exactly. Holds on the cases executed.",
         "Trusted: internal/specread, archive/tar, std/klauspost decompressors. A listed directory that exists only implicitly is left as slack.",
         "DESIGN.md section 5 C14"),
 "C17": ("exploration",
         "reference-model monitor over generated Init/Mount/Check/Unmount/Close/restart histories with recording filesystems + store read-back + Go race detector",
         "The real fusemanager.Server (direct calls, and through the real gRPC server/client for a share of cases) with each Init's filesystem replaced by a generation-tagged recording one via a build-tagged wrap point; failures injected into config JSON, config functions, filesystem construction, restoration mounts, Mount/Check/Unmount; manager death with the store kept. After every operation: served subset-of records, records minus served within the tolerated set of the last failed Init, Check/Unmount delivered to the owning generation, no double mounts, restart re-mounts recorded mountpoints with recorded labels, unknown Unmount succeeds, requests before initialisation fail without crashing (crash isolation in journaled child batches). Concurrent phase under the race detector. Holds on the histories executed.",
         "Trusted: bbolt; the recording filesystem's model of 'served'; the slack reading of 'plus at most those whose restoration failed during the last initialisation' documented in cmd/c17/NOTES.md.",
         "DESIGN.md section 5 C17"),
 "C18": ("exploration",
         "reference-model + porcupine history checking of the CRI keychain; taint scan of a complete request log with hook-gated interleavings + Go race detector",
         "(a) cri.NewCRIKeychain over a fake ImageService: sequential Pull/Remove histories with a full (host, ref) query sweep after every request judged by a 60-line model, concurrent histories checked by porcupine (one register per exact reference). (b) keychain + static credentials -> RegistryHostsFromConfig (mirrors with secret headers) -> remote.Resolver -> Blob ReadAt/Cache/Check/Refresh over a scripted in-memory RoundTripper logging every request at two levels (direct, 302/307 to CDN, expiring tokens, 401 challenges, redirect<->direct switches): every secret names its owner host and may appear only there. The order 'fetch read old URL -> refresh completes -> header read' is imposed via hook points; storms run for the race detector. Holds on the histories executed.",
         "Trusted: porcupine v1.3.0, distribution/reference name normalisation, the taint model (each secret string encodes its owner). Credentials that Go's net/http itself forwards on a same-domain redirect are observed, not judged (not derivable from the statement).",
         "DESIGN.md section 5 C18"),
}

PENDING_REASON = "check not built yet in this session (work in progress; DESIGN.md section 5 describes the planned runtime monitor)"

def main():
    props = [json.loads(l) for l in open(os.path.join(HERE, "properties.jsonl"))]
    hooks = subprocess.run(["git", "-C", "/repo", "log", "--format=%H %s", "--grep=^verif:"], capture_output=True, text=True).stdout.strip().splitlines()
    checks = []
    na = []
    for p in props:
        i = p["id"]
        if i in CHECKS and os.path.isdir(os.path.join(HERE, "harness", "cmd", i.lower())):
            cat, tech, text, note, ref = CHECKS[i]
            checks.append({
                "property_id": i,
                "quick_cmd": f"./run.sh {i} quick",
                "thorough_cmd": f"./run.sh {i} thorough",
                "evidence_file": f"/verif/evidence/{i}.json",
                "replay_cmd_template": "cat {path}",
                "engine": "vcheck",
                "level_claimed": {"category": cat, "text": text, "design_ref": ref},
                "level_note": note,
                "technique": tech,
            })
        else:
            na.append({"property_id": i, "reason": NA.get(i, PENDING_REASON)})
    m = {
        "version": 1,
        "setup_cmd": "./setup.sh",
        "hooks": {
            "guard": "verif (Go build tag)",
            "enable": "go build -tags verif (done by ./build.sh, which run.sh calls on every run against /repo's working tree)",
            "baseline_off_cmd": "./baseline_off.sh",
            "source_commits": [h.split()[0] for h in hooks],
            "add_only": True,
        },
        "engines": [{
            "name": "vcheck",
            "path": "/verif/harness",
            "serves_properties": [c["property_id"] for c in checks],
            "kind_free_text": "Go harness module (one binary per property, built with -tags verif, plain and -race) that drives the real packages of /repo under generated hostile/concurrent workloads; monitors: reference models, recorded-history checkers (porcupine), event-order monitors fed by build-tagged hooks, differential oracles, Go race detector with per-property attribution",
        }],
        "checks": checks,
        "not_applicable": na,
        "notes": "Every check is ./run.sh <id> <tier>; VERIF_SEED selects the deterministic case lists. Exit 0 held / 1 VIOLATION / 3 INCONCLUSIVE (monitors saw less than the floor). Known findings: known_findings.json.",
    }
    json.dump(m, open(os.path.join(HERE, "MANIFEST.json"), "w"), indent=1)
    print("checks:", [c["property_id"] for c in checks], "na:", [n["property_id"] for n in na])

NA = {}

if __name__ == "__main__":
    main()
