#!/usr/bin/env python3
"""Generates /verif/MANIFEST.json from the table below (kept in one place so the
manifest is always schema-valid). Run: python3 gen_manifest.py"""
import json, os, subprocess, sys

HERE = os.path.dirname(os.path.abspath(__file__))

# id -> (level category, technique, level text, level note, design ref)
CHECKS = {
 "C10": ("exploration",
         "recorded-history checking (porcupine) + event-order/exactly-once monitor + Go race detector",
         "Thousands of short concurrent histories on the real TTLCache/LRUCache in the race build; every history is checked by an eviction-order monitor (callback never before a holder's release call, exactly one callback per value that entered the cache) and by porcupine against a sequential cache model. Holds on the histories executed, nothing more.",
         "Trusted: porcupine v1.3.0, the two 30-line sequential models in harness/cmd/c10, CLOCK_MONOTONIC consistency across CPUs, the Go race detector. Timer-driven expiry is exercised through the verif-tagged VerifFireExpiry shim, which runs exactly the timer callback body.",
         "DESIGN.md section 5 C10"),
 "C13": ("exploration",
         "online trace monitor over build-tagged hook events + state-based quiescence check + Go race detector",
         "Thousands of generated scenarios on the real BackgroundTaskManager (concurrency 1-4, silence 0-30 ms, up to 16 invokers and 8 prioritized clients, bodies that react to cancellation immediately/late/at the end) in the race build. A monitor fed by hook points inside the manager's own critical sections decides: no start while prioritized work is in progress, silence period respected (one-sided-safe stamps), concurrency bound, no self-overlap, nothing running at return, cancellation delivered, completion at quiescence (decided on goroutine state, not on time). Holds on the executions observed.",
         "Trusted: the hook points task.pbegin/pend/start/cancel are placed as DESIGN.md section 5 C13 argues (pend before the decrement => monitor count <= real count); runtime.Stack snapshots for the quiescence decision; CLOCK_MONOTONIC; the Go race detector.",
         "DESIGN.md section 5 C13"),
 "C20": ("exploration",
         "round-trip differential oracle over generated manifests (real writer handlers -> real readers) + request-log monitor on a real FUSE mount",
         "Generated manifests (0-80 layers, non-layer children, repeated digests, URL lists around the label size limit) are enumerated by containerd's real ChildrenHandler, labelled by both real writer flavours and read back by both real readers; every layer descriptor is checked (labels.Validate, same reference/digest/URLs, neighbours a prefix in manifest order each with its own URLs, prefetch size round-trips), every subset of <=3 labels removed/corrupted must be rejected or spell the same source; an L3 stage hands the labels to a real fs.Mount over FUSE and judges the registry request log. Holds on the manifests generated.",
         "Trusted: containerd's images.ChildrenHandler, snapshotters.AppendInfoHandlerWrapper, labels.Validate and FilterInheritedLabels (third-party, used as the real pipeline); the manifest generator's model of what was written. Domain limits: URLs without ',', well-formed references < 1 KiB.",
         "DESIGN.md section 5 C20"),
 "C08": ("exploration",
         "reference-model monitor over generated operation sequences with a recording, fault-scripted backend + Go race detector",
         "Random operation sequences (Prepare with/without target, View, Commit, Mounts, Remove, Cleanup, Walk, Stat, Update, Close+reopen; sync/async remove; scripted Mount/Check/Unmount failures) on the real snapshotter over a recording FileSystem (and a real bind-mount variant read back from /proc/self/mountinfo). After every operation a 100-line model is compared with Walk, the id map, the snapshots/ directory and the backend mount table (clauses a-f of DESIGN.md C08); a concurrent phase runs under the race detector. Holds on the sequences executed.",
         "Trusted: containerd's storage package and bbolt; the reference model in internal/recfs/snapdrv; recfs records at the FileSystem boundary. Error kinds other than those the statement names are not judged.",
         "DESIGN.md section 5 C08"),
 "C09": ("fault_enumeration",
         "crash-image enumeration at build-tagged crash points + restart oracle in child processes",
         "For generated histories a crash image (metadata.db + snapshots/) is taken at EVERY hit of the 14 snap.* crash points and at every operation boundary; each image is restarted in a fresh process under {allow-invalid, strict, no-restore} x {all mounts succeed, k-th mount fails} (plus leftover real bind mounts) and checked: restart result as the mode prescribes, exactly the committed remote snapshots re-mounted with their labels, markers in ordinary snapshots intact, acknowledged snapshots usable/removable, one Cleanup leaves exactly the live ids. Exhaustive over the crash points hit by each history; holds on the histories generated.",
         "Trusted: a file copy of metadata.db taken while no transaction commits equals what a power cut leaves (bbolt writes only at commit); crash points inside containerd's storage package and inside a bbolt commit, and torn sector writes, are not enumerated.",
         "DESIGN.md section 5 C09"),
}

PENDING_REASON = "check not built yet in this session (work in progress; DESIGN.md section 5 describes the planned runtime monitor)"

def main():
    props = [json.loads(l) for l in open(os.path.join(HERE, "properties.jsonl"))]
    hooks = subprocess.run(["git", "-C", "/repo", "log", "--format=%H %s", "--grep=^verif:"], capture_output=True, text=True).stdout.strip().splitlines()
    checks = []
    na = []
    for p in props:
        i = p["id"]
        if i in CHECKS and os.path.isdir(os.path.join(HERE, "harness", "cmd", i.lower())):
            cat, tech, text, note, ref = CHECKS[i]
            checks.append({
                "property_id": i,
                "quick_cmd": f"./run.sh {i} quick",
                "thorough_cmd": f"./run.sh {i} thorough",
                "evidence_file": f"/verif/evidence/{i}.json",
                "replay_cmd_template": "cat {path}",
                "engine": "vcheck",
                "level_claimed": {"category": cat, "text": text, "design_ref": ref},
                "level_note": note,
                "technique": tech,
            })
        else:
            na.append({"property_id": i, "reason": NA.get(i, PENDING_REASON)})
    m = {
        "version": 1,
        "setup_cmd": "./setup.sh",
        "hooks": {
            "guard": "verif (Go build tag)",
            "enable": "go build -tags verif (done by ./build.sh, which run.sh calls on every run against /repo's working tree)",
            "baseline_off_cmd": "./baseline_off.sh",
            "source_commits": [h.split()[0] for h in hooks],
            "add_only": True,
        },
        "engines": [{
            "name": "vcheck",
            "path": "/verif/harness",
            "serves_properties": [c["property_id"] for c in checks],
            "kind_free_text": "Go harness module (one binary per property, built with -tags verif, plain and -race) that drives the real packages of /repo under generated hostile/concurrent workloads; monitors: reference models, recorded-history checkers (porcupine), event-order monitors fed by build-tagged hooks, differential oracles, Go race detector with per-property attribution",
        }],
        "checks": checks,
        "not_applicable": na,
        "notes": "Every check is ./run.sh <id> <tier>; VERIF_SEED selects the deterministic case lists. Exit 0 held / 1 VIOLATION / 3 INCONCLUSIVE (monitors saw less than the floor). Known findings: known_findings.json.",
    }
    json.dump(m, open(os.path.join(HERE, "MANIFEST.json"), "w"), indent=1)
    print("checks:", [c["property_id"] for c in checks], "na:", [n["property_id"] for n in na])

NA = {}

if __name__ == "__main__":
    main()
