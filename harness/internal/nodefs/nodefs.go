// Package nodefs calls the go-fuse node interfaces of a served layer directly (no
// kernel): the same methods the FUSE server would dispatch to.
package nodefs

import (
	"context"
	"fmt"
	"strings"
	"syscall"

	fusefs "github.com/hanwen/go-fuse/v2/fs"
	"github.com/hanwen/go-fuse/v2/fuse"
)

// N wraps one node.
type N struct {
	Ops   fusefs.InodeEmbedder
	Inode *fusefs.Inode
}

// Root initialises the root embedder returned by Layer.RootNode (exactly what
// fs.Mount does through fusefs.NewNodeFS) and wraps it.
func Root(root fusefs.InodeEmbedder) *N {
	fusefs.NewNodeFS(root, &fusefs.Options{})
	return &N{Ops: root, Inode: root.EmbeddedInode()}
}

var bg = context.Background()

func (n *N) Lookup(name string) (*N, fuse.EntryOut, syscall.Errno) {
	var eo fuse.EntryOut
	l, ok := n.Ops.(fusefs.NodeLookuper)
	if !ok {
		return nil, eo, syscall.ENOTDIR
	}
	in, errno := l.Lookup(bg, name, &eo)
	if errno != 0 {
		return nil, eo, errno
	}
	return &N{Ops: in.Operations(), Inode: in}, eo, 0
}

// Readdir returns the listing (without "." and "..").
func (n *N) Readdir() ([]fuse.DirEntry, syscall.Errno) {
	rd, ok := n.Ops.(fusefs.NodeReaddirer)
	if !ok {
		return nil, syscall.ENOTDIR
	}
	ds, errno := rd.Readdir(bg)
	if errno != 0 {
		return nil, errno
	}
	defer ds.Close()
	var res []fuse.DirEntry
	for i := 0; ds.HasNext(); i++ {
		if i > 1<<20 {
			return res, syscall.ELOOP
		}
		e, errno := ds.Next()
		if errno != 0 {
			return res, errno
		}
		res = append(res, e)
	}
	return res, 0
}

func (n *N) Getattr() (fuse.Attr, syscall.Errno) {
	var ao fuse.AttrOut
	g, ok := n.Ops.(fusefs.NodeGetattrer)
	if !ok {
		return ao.Attr, syscall.ENOSYS
	}
	errno := g.Getattr(bg, nil, &ao)
	return ao.Attr, errno
}

func (n *N) Readlink() (string, syscall.Errno) {
	r, ok := n.Ops.(fusefs.NodeReadlinker)
	if !ok {
		return "", syscall.EINVAL
	}
	b, errno := r.Readlink(bg)
	return string(b), errno
}

// Listxattr returns the attribute names.
func (n *N) Listxattr() ([]string, syscall.Errno) {
	l, ok := n.Ops.(fusefs.NodeListxattrer)
	if !ok {
		return nil, syscall.ENOSYS
	}
	sz, errno := l.Listxattr(bg, nil)
	if errno != 0 && errno != syscall.ERANGE {
		return nil, errno
	}
	buf := make([]byte, sz+1)
	got, errno := l.Listxattr(bg, buf)
	if errno != 0 {
		return nil, errno
	}
	var res []string
	for _, s := range strings.Split(string(buf[:got]), "\x00") {
		if s != "" {
			res = append(res, s)
		}
	}
	return res, 0
}

func (n *N) Getxattr(name string) ([]byte, syscall.Errno) {
	g, ok := n.Ops.(fusefs.NodeGetxattrer)
	if !ok {
		return nil, syscall.ENOSYS
	}
	sz, errno := g.Getxattr(bg, name, nil)
	if errno != 0 && errno != syscall.ERANGE {
		return nil, errno
	}
	buf := make([]byte, sz+1)
	got, errno := g.Getxattr(bg, name, buf)
	if errno != 0 {
		return nil, errno
	}
	return buf[:got], 0
}

// Open opens a regular file node.
func (n *N) Open() (fusefs.FileHandle, uint32, syscall.Errno) {
	o, ok := n.Ops.(fusefs.NodeOpener)
	if !ok {
		return nil, 0, syscall.ENOSYS
	}
	return o.Open(bg, 0)
}

// Read reads through a file handle and returns the bytes.
func Read(fh fusefs.FileHandle, off int64, size int) ([]byte, syscall.Errno) {
	r, ok := fh.(fusefs.FileReader)
	if !ok {
		return nil, syscall.ENOSYS
	}
	dest := make([]byte, size)
	rr, errno := r.Read(bg, dest, off)
	if errno != 0 {
		return nil, errno
	}
	b, st := rr.Bytes(dest)
	if st != fuse.OK {
		return nil, syscall.Errno(st)
	}
	out := append([]byte(nil), b...)
	rr.Done()
	return out, 0
}

// Release releases a file handle if it supports it.
func Release(fh fusefs.FileHandle) {
	if r, ok := fh.(fusefs.FileReleaser); ok {
		r.Release(bg)
	}
}

// Walk looks up a clean slash-separated path component-wise ("" = n itself).
func (n *N) Walk(p string) (*N, error) {
	cur := n
	if p == "" {
		return cur, nil
	}
	for _, c := range strings.Split(p, "/") {
		next, _, errno := cur.Lookup(c)
		if errno != 0 {
			return nil, fmt.Errorf("lookup %q in %q: %v", c, p, errno)
		}
		cur = next
	}
	return cur, nil
}
