// Package memreg is an in-memory OCI registry behind an http.RoundTripper with a
// per-request "personality" script (how a range request is answered, redirects,
// failures, stalls) and a request log that serves as the event trace of several checks.
//
// Logging is sharded (random shard per request, monotonic-clock stamps) so that the log
// adds as few happens-before edges as possible between the goroutines of the code under
// test (race builds).
package memreg

import (
	"bytes"
	"context"
	"fmt"
	"io"
	"math/rand/v2"
	"mime/multipart"
	"net/http"
	"net/textproto"
	"sort"
	"strconv"
	"strings"
	"sync"
	"sync/atomic"
	"time"

	"github.com/containerd/containerd/v2/core/remotes/docker"
	"github.com/containerd/containerd/v2/pkg/reference"
	"github.com/containerd/stargz-snapshotter/fs/source"
	digest "github.com/opencontainers/go-digest"
)

// RangeMode says how a (multi-)range GET of a blob is answered.
type RangeMode int

const (
	// Honest: one range -> 206 single part; several -> 206 multipart/byteranges.
	Honest RangeMode = iota
	// FirstOnly: only the first requested range is served (206 single part).
	FirstOnly
	// Squash: one 206 single part covering min(begin)..max(end) of all ranges.
	Squash
	// Whole: 200 with the whole body, ranges ignored.
	Whole
	// MultipartAlways: multipart even for a single range.
	MultipartAlways
)

func (m RangeMode) String() string {
	return [...]string{"honest", "first-only", "squash", "whole", "multipart-always"}[m]
}

// Behaviour is the scripted answer to one request. The zero value is an honest answer.
type Behaviour struct {
	Mode        RangeMode
	Status      int           // != 0: answer with this status and an empty body (e.g. 400, 403, 500, 401)
	Err         error         // != nil: transport error
	RedirectTo  string        // != "": 302 with this Location
	Header      http.Header   // extra response headers
	Stall       <-chan struct{} // != nil: wait until closed (or the request context ends) before answering
	Delay       time.Duration // sleep before answering
	// Hostile knobs (C04): applied to the honest answer.
	MutateBody  func(b []byte) []byte              // rewrite the final body bytes
	MutateResp  func(resp *http.Response)          // rewrite status/headers
	Label       string                             // free text recorded in the log
}

// Request is one logged request.
type Request struct {
	T        int64 // monotonic ns since registry creation (call time)
	Host     string
	Method   string
	Path     string
	Query    string
	Header   http.Header
	Ranges   [][2]int64 // inclusive, as requested
	Kind     string     // "blob" | "manifest" | "cdn" | "other"
	Repo     string
	Digest   string
	Status   int
	Served   int64 // body bytes served
	Mode     string
	Label    string
	Err      string
}

type blobKey struct{ host, repo, dgst string }
type manKey struct{ host, repo, ref string }
type manifest struct {
	mediaType string
	data      []byte
	dgst      digest.Digest
}

// Registry is the in-memory registry.
type Registry struct {
	t0 time.Time

	mu        sync.RWMutex
	blobs     map[blobKey][]byte
	manifests map[manKey]manifest
	script    func(req *Request) Behaviour
	fallback  func(req *http.Request) *http.Response
	tokens    map[string]bool // valid CDN tokens
	down      atomic.Bool

	shards [64]struct {
		mu  sync.Mutex
		log []Request
		_   [40]byte
	}
	nreq atomic.Int64
}

// CDNHost is the host name of the built-in CDN (redirect target).
const CDNHost = "cdn.example.test"

func New() *Registry {
	return &Registry{t0: time.Now(), blobs: map[blobKey][]byte{}, manifests: map[manKey]manifest{}, tokens: map[string]bool{}}
}

// AddBlob stores a blob for (host, repo) and returns its digest. repo is the
// repository path without host ("library/img").
func (r *Registry) AddBlob(host, repo string, data []byte) digest.Digest {
	d := digest.FromBytes(data)
	r.mu.Lock()
	r.blobs[blobKey{host, repo, d.String()}] = data
	r.mu.Unlock()
	return d
}

// AddBlobAs stores data under an explicit digest (for altered blobs served under the genuine digest).
func (r *Registry) AddBlobAs(host, repo string, d digest.Digest, data []byte) {
	r.mu.Lock()
	r.blobs[blobKey{host, repo, d.String()}] = data
	r.mu.Unlock()
}

// AddManifest stores a manifest under ref (tag) and under its digest.
func (r *Registry) AddManifest(host, repo, ref, mediaType string, data []byte) digest.Digest {
	d := digest.FromBytes(data)
	r.mu.Lock()
	m := manifest{mediaType, data, d}
	if ref != "" {
		r.manifests[manKey{host, repo, ref}] = m
	}
	r.manifests[manKey{host, repo, d.String()}] = m
	r.mu.Unlock()
	return d
}

// SetScript installs the personality script (nil = always honest). The script runs on
// the request path of the code under test.
func (r *Registry) SetScript(f func(req *Request) Behaviour) {
	r.mu.Lock()
	r.script = f
	r.mu.Unlock()
}

// SetFallback handles requests that are neither /v2/ nor CDN paths (e.g. a token endpoint).
func (r *Registry) SetFallback(f func(req *http.Request) *http.Response) {
	r.mu.Lock()
	r.fallback = f
	r.mu.Unlock()
}

// SetDown makes every request fail with a transport error (registry unreachable).
func (r *Registry) SetDown(down bool) { r.down.Store(down) }

// CDNURL returns a redirect target on the built-in CDN for a blob; the token must be
// valid (AllowToken) at the time the CDN is asked, otherwise it answers 403.
func (r *Registry) CDNURL(host, repo string, d digest.Digest, token string) string {
	return fmt.Sprintf("https://%s/cdn/%s/%s/%s/%s", CDNHost, token, host, strings.ReplaceAll(repo, "/", "@"), d.String())
}

func (r *Registry) AllowToken(token string, ok bool) {
	r.mu.Lock()
	r.tokens[token] = ok
	r.mu.Unlock()
}

// Hosts returns a source.RegistryHosts that routes every reference to this registry,
// one host per reference host name, with the given extra headers per host.
func (r *Registry) Hosts(headers map[string]http.Header) source.RegistryHosts {
	return func(ref reference.Spec) ([]docker.RegistryHost, error) {
		h := ref.Hostname()
		return []docker.RegistryHost{{
			Client:       &http.Client{Transport: r},
			Host:         h,
			Scheme:       "https",
			Path:         "/v2",
			Capabilities: docker.HostCapabilityPull | docker.HostCapabilityResolve,
			Header:       headers[h],
		}}, nil
	}
}

// Client returns an http.Client on this registry.
func (r *Registry) Client() *http.Client { return &http.Client{Transport: r} }

// Log returns all logged requests ordered by time.
func (r *Registry) Log() []Request {
	var all []Request
	for i := range r.shards {
		s := &r.shards[i]
		s.mu.Lock()
		all = append(all, s.log...)
		s.mu.Unlock()
	}
	sort.Slice(all, func(i, j int) bool { return all[i].T < all[j].T })
	return all
}

// ResetLog drops the log.
func (r *Registry) ResetLog() {
	for i := range r.shards {
		s := &r.shards[i]
		s.mu.Lock()
		s.log = nil
		s.mu.Unlock()
	}
}

// Requests returns the number of requests seen so far.
func (r *Registry) Requests() int64 { return r.nreq.Load() }

func (r *Registry) record(q Request) {
	s := &r.shards[rand.IntN(len(r.shards))]
	s.mu.Lock()
	s.log = append(s.log, q)
	s.mu.Unlock()
}

// ParseRanges parses "bytes=a-b,c-d" (inclusive); open-ended "a-" uses size-1; suffix "-n" supported.
func ParseRanges(h string, size int64) ([][2]int64, bool) {
	if !strings.HasPrefix(h, "bytes=") {
		return nil, false
	}
	var res [][2]int64
	for _, p := range strings.Split(strings.TrimPrefix(h, "bytes="), ",") {
		p = strings.TrimSpace(p)
		i := strings.Index(p, "-")
		if i < 0 {
			return nil, false
		}
		if i == 0 {
			n, err := strconv.ParseInt(p[1:], 10, 64)
			if err != nil {
				return nil, false
			}
			res = append(res, [2]int64{size - n, size - 1})
			continue
		}
		b, err := strconv.ParseInt(p[:i], 10, 64)
		if err != nil {
			return nil, false
		}
		e := size - 1
		if p[i+1:] != "" {
			e, err = strconv.ParseInt(p[i+1:], 10, 64)
			if err != nil {
				return nil, false
			}
		}
		res = append(res, [2]int64{b, e})
	}
	return res, true
}

func resp(req *http.Request, status int, hdr http.Header, body []byte) *http.Response {
	if hdr == nil {
		hdr = http.Header{}
	}
	if hdr.Get("Content-Length") == "" {
		hdr.Set("Content-Length", strconv.Itoa(len(body)))
	}
	cl := int64(len(body))
	if n, err := strconv.ParseInt(hdr.Get("Content-Length"), 10, 64); err == nil {
		cl = n
	}
	return &http.Response{
		Status:        fmt.Sprintf("%d %s", status, http.StatusText(status)),
		StatusCode:    status,
		Proto:         "HTTP/1.1",
		ProtoMajor:    1,
		ProtoMinor:    1,
		Header:        hdr,
		Body:          io.NopCloser(bytes.NewReader(body)),
		ContentLength: cl,
		Request:       req,
	}
}

// RoundTrip implements http.RoundTripper.
func (r *Registry) RoundTrip(req *http.Request) (*http.Response, error) {
	r.nreq.Add(1)
	q := Request{T: int64(time.Since(r.t0)), Host: req.URL.Host, Method: req.Method, Path: req.URL.Path, Query: req.URL.RawQuery, Header: req.Header.Clone(), Kind: "other"}
	if req.Body != nil {
		io.Copy(io.Discard, req.Body)
		req.Body.Close()
	}
	res, err := r.serve(req, &q)
	if err != nil {
		q.Err = err.Error()
	} else {
		q.Status = res.StatusCode
	}
	r.record(q)
	return res, err
}

func (r *Registry) serve(req *http.Request, q *Request) (*http.Response, error) {
	if r.down.Load() {
		return nil, fmt.Errorf("memreg: registry unreachable")
	}
	r.mu.RLock()
	script, fallback := r.script, r.fallback
	r.mu.RUnlock()

	var data []byte
	var found bool
	var man manifest
	p := req.URL.Path
	switch {
	case strings.HasPrefix(p, "/v2/") && strings.Contains(p, "/blobs/"):
		i := strings.Index(p, "/blobs/")
		q.Kind, q.Repo, q.Digest = "blob", p[len("/v2/"):i], p[i+len("/blobs/"):]
		r.mu.RLock()
		data, found = r.blobs[blobKey{req.URL.Host, q.Repo, q.Digest}]
		r.mu.RUnlock()
	case strings.HasPrefix(p, "/v2/") && strings.Contains(p, "/manifests/"):
		i := strings.Index(p, "/manifests/")
		q.Kind, q.Repo, q.Digest = "manifest", p[len("/v2/"):i], p[i+len("/manifests/"):]
		r.mu.RLock()
		man, found = r.manifests[manKey{req.URL.Host, q.Repo, q.Digest}]
		r.mu.RUnlock()
		data = man.data
	case req.URL.Host == CDNHost && strings.HasPrefix(p, "/cdn/"):
		parts := strings.Split(strings.TrimPrefix(p, "/cdn/"), "/")
		q.Kind = "cdn"
		if len(parts) == 4 {
			q.Repo, q.Digest = strings.ReplaceAll(parts[2], "@", "/"), parts[3]
			r.mu.RLock()
			ok := r.tokens[parts[0]]
			data, found = r.blobs[blobKey{parts[1], q.Repo, q.Digest}]
			r.mu.RUnlock()
			if !ok {
				q.Label = "cdn-token-expired"
				return resp(req, http.StatusForbidden, nil, nil), nil
			}
		}
	case p == "/v2/" || p == "/v2":
		return resp(req, 200, nil, nil), nil
	default:
		if fallback != nil {
			if res := fallback(req); res != nil {
				return res, nil
			}
		}
		return resp(req, 404, nil, nil), nil
	}
	if rh := req.Header.Get("Range"); rh != "" && found {
		q.Ranges, _ = ParseRanges(rh, int64(len(data)))
	}

	var b Behaviour
	if script != nil {
		b = script(q)
	}
	q.Mode, q.Label = b.Mode.String(), q.Label+b.Label
	if b.Delay > 0 {
		time.Sleep(b.Delay)
	}
	if b.Stall != nil {
		select {
		case <-b.Stall:
		case <-req.Context().Done():
			return nil, req.Context().Err()
		}
	}
	if err := req.Context().Err(); err != nil {
		return nil, err
	}
	if b.Err != nil {
		return nil, b.Err
	}
	hdr := http.Header{}
	for k, v := range b.Header {
		hdr[k] = v
	}
	finish := func(res *http.Response) (*http.Response, error) {
		if b.MutateResp != nil {
			b.MutateResp(res)
		}
		return res, nil
	}
	if b.RedirectTo != "" {
		hdr.Set("Location", b.RedirectTo)
		return finish(resp(req, http.StatusFound, hdr, nil))
	}
	if b.Status != 0 {
		return finish(resp(req, b.Status, hdr, nil))
	}
	if !found {
		return finish(resp(req, 404, hdr, nil))
	}
	if q.Kind == "manifest" {
		hdr.Set("Content-Type", man.mediaType)
		hdr.Set("Docker-Content-Digest", man.dgst.String())
		body := data
		if req.Method == "HEAD" {
			hdr.Set("Content-Length", strconv.Itoa(len(data)))
			body = nil
		}
		return finish(resp(req, 200, hdr, body))
	}
	size := int64(len(data))
	hdr.Set("Content-Type", "application/octet-stream")
	if req.Method == "HEAD" {
		hdr.Set("Content-Length", strconv.FormatInt(size, 10))
		return finish(resp(req, 200, hdr, nil))
	}
	mut := func(body []byte) []byte {
		if b.MutateBody != nil {
			return b.MutateBody(body)
		}
		return body
	}
	rs := q.Ranges
	if len(rs) == 0 || b.Mode == Whole {
		q.Served = size
		return finish(resp(req, 200, hdr, mut(data)))
	}
	// clamp and validate
	var ok [][2]int64
	for _, x := range rs {
		if x[0] < 0 {
			x[0] = 0
		}
		if x[1] >= size {
			x[1] = size - 1
		}
		if x[0] <= x[1] {
			ok = append(ok, x)
		}
	}
	if len(ok) == 0 {
		hdr.Set("Content-Range", fmt.Sprintf("bytes */%d", size))
		return finish(resp(req, http.StatusRequestedRangeNotSatisfiable, hdr, nil))
	}
	switch b.Mode {
	case FirstOnly:
		ok = ok[:1]
	case Squash:
		lo, hi := ok[0][0], ok[0][1]
		for _, x := range ok {
			if x[0] < lo {
				lo = x[0]
			}
			if x[1] > hi {
				hi = x[1]
			}
		}
		ok = [][2]int64{{lo, hi}}
	}
	if len(ok) == 1 && b.Mode != MultipartAlways {
		x := ok[0]
		hdr.Set("Content-Range", fmt.Sprintf("bytes %d-%d/%d", x[0], x[1], size))
		q.Served = x[1] - x[0] + 1
		return finish(resp(req, http.StatusPartialContent, hdr, mut(data[x[0]:x[1]+1])))
	}
	var buf bytes.Buffer
	mw := multipart.NewWriter(&buf)
	for _, x := range ok {
		ph := textproto.MIMEHeader{}
		ph.Set("Content-Type", "application/octet-stream")
		ph.Set("Content-Range", fmt.Sprintf("bytes %d-%d/%d", x[0], x[1], size))
		w, _ := mw.CreatePart(ph)
		w.Write(data[x[0] : x[1]+1])
		q.Served += x[1] - x[0] + 1
	}
	mw.Close()
	hdr.Set("Content-Type", "multipart/byteranges; boundary="+mw.Boundary())
	return finish(resp(req, http.StatusPartialContent, hdr, mut(buf.Bytes())))
}

// WithTimeoutCtx is a small helper for tests of the registry itself.
func WithTimeoutCtx(d time.Duration) (context.Context, context.CancelFunc) {
	return context.WithTimeout(context.Background(), d)
}
