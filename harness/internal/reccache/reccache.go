// Package reccache is a recording and fault-injecting cache.BlobCache that wraps a real
// cache (cache.NewMemoryCache, cache.NewDirectoryCache, ...). It is placed at the two
// boundaries of /repo that take the chunk cache as a parameter
// (remote.Resolver.Resolve and reader.NewReader) and gives a check
//
//   - an event log of every Add / Write / Commit / Abort / writer-Close / Get / ReadAt /
//     reader-Close / Close with key, sizes, error and monotonic call/return stamps;
//   - the commit table: for every key the length (and FNV-1a hash, optionally the bytes) of
//     the value of its last successful Commit and how often it was committed
//     (CommittedBytes = sum of len(value) over distinct keys ever committed);
//   - fault injection through a per-operation script: Add error, Commit error, Write error
//     after k bytes, Get miss (typically for a key that WAS committed: cache loss between
//     fetch and copy), reader error after k bytes;
//   - eviction on demand (Evict/EvictAll/EvictIf): the wrapper answers Get with a miss until
//     the key is committed again, whatever the inner cache still holds.
//
// Race-build hygiene (AUTHORING rule 4): nothing here is a global lock or a shared atomic
// on the operation path. Events go to one of 64 randomly chosen shards (as memreg does),
// the commit table is sharded 256 ways by key hash (operations on one key synchronise in
// the inner cache anyway), the script pointer is an atomic that only the controlling
// goroutine writes. Counters are derived from the log at quiescence, not kept live.
//
// A Writer or Reader handle is meant to be used by one goroutine at a time, like the
// handles of the real caches.
package reccache

import (
	"errors"
	"fmt"
	"hash/fnv"
	"io"
	"math/rand/v2"
	"sort"
	"sync"
	"sync/atomic"
	"time"

	"github.com/containerd/stargz-snapshotter/cache"
)

// Kind is the kind of a recorded cache operation.
type Kind uint8

const (
	Add     Kind = iota // BlobCache.Add
	Write               // Writer.Write
	Commit              // Writer.Commit
	Abort               // Writer.Abort
	WClose              // Writer.Close
	Get                 // BlobCache.Get
	ReadAt              // Reader.ReadAt (also through GetReaderAt unless Options.RawReaderAt)
	RClose              // Reader.Close
	Close               // BlobCache.Close
	EvictOp             // Evict* called by the harness (not an operation of the code under test)
	nKinds
)

func (k Kind) String() string {
	return [...]string{"Add", "Write", "Commit", "Abort", "WClose", "Get", "ReadAt", "RClose", "Close", "Evict"}[k]
}

// Event is one recorded operation. T is taken before the inner cache is called, R after it
// returned (boundary observation); both are nanoseconds of the monotonic clock since
// Options.T0.
type Event struct {
	T, R   int64
	Kind   Kind
	Key    string
	Handle uint64 // random 64-bit id of the writer / reader handle (0 for Close / Evict); random, not a counter, so that no shared atomic sits on the operation path
	Off    int64  // ReadAt: offset
	Len    int64  // Write / ReadAt: len(p)
	N      int64  // Write: bytes accepted; ReadAt: bytes returned; Commit: total length of the value
	Err    string // error returned to the caller ("" = nil)
	// Injected names the injected fault that produced Err ("add-error", "commit-error",
	// "write-error", "get-miss", "read-error", "evicted"); "" means the answer is the inner
	// cache's own.
	Injected string
}

// Op is what the fault script is asked about, before the inner cache is called.
type Op struct {
	Kind Kind // Add, Commit, Write, Get or ReadAt
	Key  string
	Off  int64 // ReadAt
	Len  int64 // Write / ReadAt: len(p); Commit: bytes written so far
	// Committed: a Commit of this key succeeded through this wrapper earlier (so a Get miss
	// now is "cache loss after a successful commit").
	Committed bool
}

// Fault is the script's answer. The zero value injects nothing.
type Fault struct {
	// Err != nil: the operation fails with Err. Add, Commit (the inner writer is aborted),
	// Get (a miss; the inner cache is not asked): immediately. Write / ReadAt: after the
	// first After bytes (0 <= After <= len(p)) were really written / read.
	Err   error
	After int64
}

// Script decides the fault of one operation. It runs on the operation path of the code
// under test: it must be race-free and should not take locks shared between goroutines.
type Script func(op Op) Fault

// ErrInjected is the base of the errors produced by Rates.
var ErrInjected = errors.New("reccache: injected fault")

// Rates is a ready-made random script: each probability is applied independently per
// operation with the lock-free per-thread generator of math/rand/v2.
type Rates struct {
	AddErr     float64 // Add fails
	CommitErr  float64 // Commit fails (value not stored)
	GetMiss    float64 // Get of a key that was committed misses
	GetMissAny float64 // Get of any key misses (also never-committed ones: indistinguishable from a plain miss)
	ReadErr    float64 // ReadAt fails after a random number of bytes in [0, len(p)]
	// ReadErrPartialOnly: the failing ReadAt always delivers 0 < k < len(p) bytes first (when len(p) >= 2).
	ReadErrPartialOnly bool
}

// Script returns the random script for these rates.
func (ra Rates) Script() Script {
	return func(op Op) Fault {
		switch op.Kind {
		case Add:
			if ra.AddErr > 0 && rand.Float64() < ra.AddErr {
				return Fault{Err: fmt.Errorf("%w: add", ErrInjected)}
			}
		case Commit:
			if ra.CommitErr > 0 && rand.Float64() < ra.CommitErr {
				return Fault{Err: fmt.Errorf("%w: commit", ErrInjected)}
			}
		case Get:
			if op.Committed && ra.GetMiss > 0 && rand.Float64() < ra.GetMiss {
				return Fault{Err: fmt.Errorf("%w: get miss after commit", ErrInjected)}
			}
			if ra.GetMissAny > 0 && rand.Float64() < ra.GetMissAny {
				return Fault{Err: fmt.Errorf("%w: get miss", ErrInjected)}
			}
		case ReadAt:
			if ra.ReadErr > 0 && rand.Float64() < ra.ReadErr {
				k := int64(0)
				if op.Len > 0 {
					k = rand.Int64N(op.Len + 1)
				}
				if ra.ReadErrPartialOnly && op.Len >= 2 {
					k = 1 + rand.Int64N(op.Len-1)
				}
				return Fault{Err: fmt.Errorf("%w: read", ErrInjected), After: k}
			}
		}
		return Fault{}
	}
}

// Options configures a Cache.
type Options struct {
	// T0 is the origin of the event stamps (share it with the harness clock). Zero = time.Now().
	T0 time.Time
	// NoEvents switches the event log off (the commit table is always kept).
	NoEvents bool
	// KeepContent keeps a copy of the bytes of the last committed value per key.
	KeepContent bool
	// RawReaderAt makes Reader.GetReaderAt return the inner reader's (e.g. an *os.File for
	// FUSE passthrough) instead of the recording wrapper.
	RawReaderAt bool
}

// KeyInfo describes what was committed under one key.
type KeyInfo struct {
	Key        string
	Len        int64  // length of the value of the last successful Commit
	Sum        uint64 // FNV-1a 64 of that value
	Commits    int    // successful commits
	LenChanged bool   // two successful commits of this key had different lengths
	SumChanged bool   // ... different content
	Evicted    bool   // currently masked by Evict*
	Content    []byte // Options.KeepContent only
}

type keyState struct {
	KeyInfo
}

type evShard struct {
	mu  sync.Mutex
	log []Event
	_   [40]byte
}

type keyShard struct {
	mu sync.Mutex
	m  map[string]*keyState
	_  [40]byte
}

// Cache is the wrapper. It implements cache.BlobCache.
type Cache struct {
	inner  cache.BlobCache
	opt    Options
	t0     time.Time
	script atomic.Pointer[Script]

	ev   [64]evShard
	keys [256]keyShard
}

var _ cache.BlobCache = (*Cache)(nil)

// New wraps inner.
func New(inner cache.BlobCache, opt Options) *Cache {
	c := &Cache{inner: inner, opt: opt, t0: opt.T0}
	if c.t0.IsZero() {
		c.t0 = time.Now()
	}
	for i := range c.keys {
		c.keys[i].m = map[string]*keyState{}
	}
	return c
}

// Inner returns the wrapped cache.
func (c *Cache) Inner() cache.BlobCache { return c.inner }

// SetScript installs the fault script (nil = no faults). Safe at any time.
func (c *Cache) SetScript(s Script) {
	if s == nil {
		c.script.Store(nil)
		return
	}
	c.script.Store(&s)
}

// SetRates is SetScript(ra.Script()).
func (c *Cache) SetRates(ra Rates) { c.SetScript(ra.Script()) }

func (c *Cache) now() int64 { return int64(time.Since(c.t0)) }

func (c *Cache) ask(op Op) Fault {
	if p := c.script.Load(); p != nil {
		return (*p)(op)
	}
	return Fault{}
}

func (c *Cache) rec(e Event) {
	if c.opt.NoEvents {
		return
	}
	e.R = c.now()
	s := &c.ev[rand.IntN(len(c.ev))]
	s.mu.Lock()
	s.log = append(s.log, e)
	s.mu.Unlock()
}

func errStr(err error) string {
	if err == nil {
		return ""
	}
	return err.Error()
}

func (c *Cache) shard(key string) *keyShard {
	h := fnv.New32a()
	h.Write([]byte(key))
	return &c.keys[h.Sum32()%uint32(len(c.keys))]
}

// state returns (committed, evicted) of key.
func (c *Cache) state(key string) (committed, evicted bool) {
	s := c.shard(key)
	s.mu.Lock()
	if k := s.m[key]; k != nil {
		committed, evicted = k.Commits > 0, k.Evicted
	}
	s.mu.Unlock()
	return
}

// Add implements cache.BlobCache.
func (c *Cache) Add(key string, opts ...cache.Option) (cache.Writer, error) {
	e := Event{T: c.now(), Kind: Add, Key: key, Handle: rand.Uint64() | 1}
	committed, _ := c.state(key)
	if f := c.ask(Op{Kind: Add, Key: key, Committed: committed}); f.Err != nil {
		e.Err, e.Injected = f.Err.Error(), "add-error"
		c.rec(e)
		return nil, f.Err
	}
	w, err := c.inner.Add(key, opts...)
	e.Err = errStr(err)
	c.rec(e)
	if err != nil {
		return nil, err
	}
	rw := &writer{c: c, key: key, id: e.Handle, w: w, sum: fnv.New64a()}
	return rw, nil
}

// Get implements cache.BlobCache.
func (c *Cache) Get(key string, opts ...cache.Option) (cache.Reader, error) {
	e := Event{T: c.now(), Kind: Get, Key: key, Handle: rand.Uint64() | 1}
	committed, evicted := c.state(key)
	if evicted {
		err := fmt.Errorf("reccache: evicted: missed cache %q", key)
		e.Err, e.Injected = err.Error(), "evicted"
		c.rec(e)
		return nil, err
	}
	if f := c.ask(Op{Kind: Get, Key: key, Committed: committed}); f.Err != nil {
		e.Err, e.Injected = f.Err.Error(), "get-miss"
		c.rec(e)
		return nil, f.Err
	}
	r, err := c.inner.Get(key, opts...)
	e.Err = errStr(err)
	c.rec(e)
	if err != nil {
		return nil, err
	}
	return &reader{c: c, key: key, id: e.Handle, r: r}, nil
}

// Close implements cache.BlobCache.
func (c *Cache) Close() error {
	e := Event{T: c.now(), Kind: Close}
	err := c.inner.Close()
	e.Err = errStr(err)
	c.rec(e)
	return err
}

type writer struct {
	c       *Cache
	key     string
	id      uint64
	w       cache.Writer
	written int64
	sum     interface {
		io.Writer
		Sum64() uint64
	}
	content []byte
}

func (w *writer) Write(p []byte) (int, error) {
	e := Event{T: w.c.now(), Kind: Write, Key: w.key, Handle: w.id, Len: int64(len(p))}
	q := p
	var ferr error
	if f := w.c.ask(Op{Kind: Write, Key: w.key, Len: int64(len(p))}); f.Err != nil {
		k := f.After
		if k < 0 {
			k = 0
		}
		if k > int64(len(p)) {
			k = int64(len(p))
		}
		q, ferr = p[:k], f.Err
	}
	n, err := w.w.Write(q)
	if n > 0 {
		w.written += int64(n)
		w.sum.Write(q[:n])
		if w.c.opt.KeepContent {
			w.content = append(w.content, q[:n]...)
		}
	}
	if err == nil && ferr != nil {
		err = ferr
		e.Injected = "write-error"
	}
	e.N, e.Err = int64(n), errStr(err)
	w.c.rec(e)
	return n, err
}

func (w *writer) Commit() error {
	e := Event{T: w.c.now(), Kind: Commit, Key: w.key, Handle: w.id, N: w.written}
	if f := w.c.ask(Op{Kind: Commit, Key: w.key, Len: w.written}); f.Err != nil {
		_ = w.w.Abort()
		e.Err, e.Injected = f.Err.Error(), "commit-error"
		w.c.rec(e)
		return f.Err
	}
	err := w.w.Commit()
	if err == nil {
		s := w.c.shard(w.key)
		s.mu.Lock()
		k := s.m[w.key]
		if k == nil {
			k = &keyState{KeyInfo: KeyInfo{Key: w.key}}
			s.m[w.key] = k
		}
		sum := w.sum.Sum64()
		if k.Commits > 0 {
			if k.Len != w.written {
				k.LenChanged = true
			}
			if k.Sum != sum {
				k.SumChanged = true
			}
		}
		k.Commits++
		k.Len, k.Sum, k.Evicted = w.written, sum, false
		if w.c.opt.KeepContent {
			k.Content = w.content
			w.content = nil
		}
		s.mu.Unlock()
	}
	e.Err = errStr(err)
	w.c.rec(e)
	return err
}

func (w *writer) Abort() error {
	e := Event{T: w.c.now(), Kind: Abort, Key: w.key, Handle: w.id, N: w.written}
	err := w.w.Abort()
	e.Err = errStr(err)
	w.c.rec(e)
	return err
}

func (w *writer) Close() error {
	e := Event{T: w.c.now(), Kind: WClose, Key: w.key, Handle: w.id}
	err := w.w.Close()
	e.Err = errStr(err)
	w.c.rec(e)
	return err
}

type reader struct {
	c   *Cache
	key string
	id  uint64
	r   cache.Reader
}

func (r *reader) ReadAt(p []byte, off int64) (int, error) {
	e := Event{T: r.c.now(), Kind: ReadAt, Key: r.key, Handle: r.id, Off: off, Len: int64(len(p))}
	if f := r.c.ask(Op{Kind: ReadAt, Key: r.key, Off: off, Len: int64(len(p)), Committed: true}); f.Err != nil {
		k := f.After
		if k < 0 {
			k = 0
		}
		if k > int64(len(p)) {
			k = int64(len(p))
		}
		n := 0
		var err error
		if k > 0 {
			n, err = r.r.ReadAt(p[:k], off)
		}
		if err == nil || err == io.EOF {
			err = f.Err
			e.Injected = "read-error"
		}
		e.N, e.Err = int64(n), errStr(err)
		r.c.rec(e)
		return n, err
	}
	n, err := r.r.ReadAt(p, off)
	e.N, e.Err = int64(n), errStr(err)
	r.c.rec(e)
	return n, err
}

func (r *reader) Close() error {
	e := Event{T: r.c.now(), Kind: RClose, Key: r.key, Handle: r.id}
	err := r.r.Close()
	e.Err = errStr(err)
	r.c.rec(e)
	return err
}

func (r *reader) GetReaderAt() io.ReaderAt {
	if r.c.opt.RawReaderAt {
		return r.r.GetReaderAt()
	}
	return r
}

// ---------------------------------------------------------------------------
// eviction

func (c *Cache) evictIf(pred func(key string) bool) int {
	n := 0
	t := c.now()
	for i := range c.keys {
		s := &c.keys[i]
		s.mu.Lock()
		for k, st := range s.m {
			if st.Commits > 0 && !st.Evicted && pred(k) {
				st.Evicted = true
				n++
			}
		}
		s.mu.Unlock()
	}
	c.rec(Event{T: t, Kind: EvictOp, N: int64(n)})
	return n
}

// Evict masks the given keys: Get misses until the key is committed again.
func (c *Cache) Evict(keys ...string) int {
	set := map[string]bool{}
	for _, k := range keys {
		set[k] = true
	}
	return c.evictIf(func(k string) bool { return set[k] })
}

// EvictAll masks every committed key.
func (c *Cache) EvictAll() int { return c.evictIf(func(string) bool { return true }) }

// EvictIf masks the committed keys for which pred is true (pred is called under a shard
// lock: keep it trivial). The order of calls is unspecified; for a deterministic choice
// decide on the key itself (e.g. a hash of it).
func (c *Cache) EvictIf(pred func(key string) bool) int { return c.evictIf(pred) }

// ---------------------------------------------------------------------------
// queries (meant for quiescent points; they are safe, but not atomic snapshots, while
// operations are running)

// Events returns the log ordered by call time.
func (c *Cache) Events() []Event {
	var all []Event
	for i := range c.ev {
		s := &c.ev[i]
		s.mu.Lock()
		all = append(all, s.log...)
		s.mu.Unlock()
	}
	sort.Slice(all, func(i, j int) bool { return all[i].T < all[j].T })
	return all
}

// ResetEvents drops the log (the commit table stays).
func (c *Cache) ResetEvents() {
	for i := range c.ev {
		s := &c.ev[i]
		s.mu.Lock()
		s.log = nil
		s.mu.Unlock()
	}
}

// Stats summarises a slice of events.
type Stats struct {
	ByKind   map[string]int // "Get", "Get!err", ...
	Injected map[string]int // per injected fault name
}

// Summarize counts events per kind (kind+"!err" for failed ones) and per injected fault.
func Summarize(evs []Event) Stats {
	st := Stats{ByKind: map[string]int{}, Injected: map[string]int{}}
	for _, e := range evs {
		st.ByKind[e.Kind.String()]++
		if e.Err != "" {
			st.ByKind[e.Kind.String()+"!err"]++
		}
		if e.Injected != "" {
			st.Injected[e.Injected]++
		}
	}
	return st
}

// InjectedCount returns how many faults were injected according to the events.
func InjectedCount(evs []Event) int {
	n := 0
	for _, e := range evs {
		if e.Injected != "" {
			n++
		}
	}
	return n
}

// Keys returns the commit table (one entry per key ever committed), sorted by key.
func (c *Cache) Keys() []KeyInfo {
	var res []KeyInfo
	for i := range c.keys {
		s := &c.keys[i]
		s.mu.Lock()
		for _, st := range s.m {
			if st.Commits > 0 {
				res = append(res, st.KeyInfo)
			}
		}
		s.mu.Unlock()
	}
	sort.Slice(res, func(i, j int) bool { return res[i].Key < res[j].Key })
	return res
}

// Key returns the commit record of one key.
func (c *Cache) Key(key string) (KeyInfo, bool) {
	s := c.shard(key)
	s.mu.Lock()
	defer s.mu.Unlock()
	if st := s.m[key]; st != nil && st.Commits > 0 {
		return st.KeyInfo, true
	}
	return KeyInfo{}, false
}

// CommittedBytes returns the sum of len(value) over the distinct keys ever committed
// (length of the last commit of each key) and the number of such keys.
func (c *Cache) CommittedBytes() (bytes int64, keys int) {
	for i := range c.keys {
		s := &c.keys[i]
		s.mu.Lock()
		for _, st := range s.m {
			if st.Commits > 0 {
				bytes += st.Len
				keys++
			}
		}
		s.mu.Unlock()
	}
	return
}
