// Package gen produces tar archives from a small model struct that is the ground
// truth of every differential oracle (the repo's code never is). File content is
// self-describing: byte j of content id c is Hash64(c, j/8)>>(8*(j%8)), so any range
// returned by the code under test can be checked without storing the file, and a byte
// from another file, chunk or offset is recognisably wrong.
//
// Domain limits (stated once, DESIGN.md section 3): whole-second mtimes (the TOC stores
// RFC3339 seconds), device numbers < 2^12 / 2^20, uid/gid < 2^31, names <= 200 bytes
// without NUL, hardlink targets are defined earlier in the archive.
package gen

import (
	"archive/tar"
	"bytes"
	"fmt"
	"path"
	"sort"
	"strings"
	"time"

	"verifharness/internal/prng"
)

// Entry is one tar entry as the generator decided it.
type Entry struct {
	Name      string // as spelled in the tar (may carry "./", "../", "/" prefixes)
	Type      byte   // tar.TypeReg, TypeDir, TypeSymlink, TypeLink, TypeChar, TypeBlock, TypeFifo
	Mode      int64  // permission bits | 04000 suid | 02000 sgid | 01000 sticky
	UID, GID  int
	Uname     string
	Gname     string
	ModTime   int64 // unix seconds
	Linkname  string
	Devmajor  int64
	Devminor  int64
	Xattrs    map[string]string
	Size      int64
	ContentID uint64
}

// FillContent writes the self-describing bytes [off, off+len(p)) of content id into p.
func FillContent(id uint64, off int64, p []byte) {
	for i := range p {
		j := off + int64(i)
		w := prng.Hash64(id, uint64(j/8))
		p[i] = byte(w >> (8 * uint(j%8)))
	}
}

// Content returns the whole content of a regular file entry.
func (e *Entry) Content() []byte {
	b := make([]byte, e.Size)
	FillContent(e.ContentID, 0, b)
	return b
}

// CheckContent compares got with bytes [off, off+len(got)) of content id and returns
// the index of the first differing byte or -1.
func CheckContent(id uint64, off int64, got []byte) int {
	const blk = 4096
	buf := make([]byte, blk)
	for done := 0; done < len(got); {
		n := len(got) - done
		if n > blk {
			n = blk
		}
		FillContent(id, off+int64(done), buf[:n])
		if !bytes.Equal(buf[:n], got[done:done+n]) {
			for i := 0; i < n; i++ {
				if buf[i] != got[done+i] {
					return done + i
				}
			}
		}
		done += n
	}
	return -1
}

// Clean is the identity of a name: path.Clean("/"+name) without the leading slash
// ("" is the root).
func Clean(name string) string {
	c := path.Clean("/" + name)
	return strings.TrimPrefix(c, "/")
}

// TarBytes serialises the entries with archive/tar (PAX where needed).
func TarBytes(entries []Entry) []byte {
	var buf bytes.Buffer
	tw := tar.NewWriter(&buf)
	for i := range entries {
		e := &entries[i]
		h := &tar.Header{
			Typeflag: e.Type,
			Name:     e.Name,
			Linkname: e.Linkname,
			Mode:     e.Mode,
			Uid:      e.UID,
			Gid:      e.GID,
			Uname:    e.Uname,
			Gname:    e.Gname,
			ModTime:  time.Unix(e.ModTime, 0),
			Devmajor: e.Devmajor,
			Devminor: e.Devminor,
			Format:   tar.FormatPAX,
		}
		if e.Type == tar.TypeReg {
			h.Size = e.Size
		}
		if len(e.Xattrs) > 0 {
			h.PAXRecords = map[string]string{}
			for k, v := range e.Xattrs {
				h.PAXRecords["SCHILY.xattr."+k] = v
			}
		}
		if err := tw.WriteHeader(h); err != nil {
			panic(fmt.Sprintf("gen: tar header %q: %v", e.Name, err))
		}
		if e.Type == tar.TypeReg && e.Size > 0 {
			if _, err := tw.Write(e.Content()); err != nil {
				panic(err)
			}
		}
	}
	if err := tw.Close(); err != nil {
		panic(err)
	}
	return buf.Bytes()
}

// Opts steers RandomTar.
type Opts struct {
	MaxEntries   int   // default 24
	ChunkSize    int64 // sizes are drawn around multiples of it (default 4096)
	MaxFileSize  int64 // default 5*ChunkSize
	Prefixes     bool  // spell names with ./ ../ / prefixes
	ImplicitDirs bool  // sometimes omit parent directory entries
	Duplicates   bool  // repeat names (last wins)
	Hardlinks    bool
	Specials     bool // devices, fifos
	Xattrs       bool
	RootEntry    bool // may emit an explicit "./" root entry
	LongNames    bool
}

// DefaultOpts enables every feature of the supported domain.
func DefaultOpts(chunk int64) Opts {
	return Opts{MaxEntries: 24, ChunkSize: chunk, Prefixes: true, ImplicitDirs: true, Duplicates: true,
		Hardlinks: true, Specials: true, Xattrs: true, RootEntry: true, LongNames: true}
}

var nameParts = []string{"a", "b", "bin", "etc", "lib", "usr", "x.txt", "data", "conf.d", "z", "file", "dir", "ünï", "sp ace", ".hidden", "UPPER"}

func spell(rng *prng.R, o Opts, clean string, dir bool) string {
	n := clean
	if o.Prefixes {
		switch rng.Intn(6) {
		case 0:
			n = "./" + n
		case 1:
			n = "/" + n
		case 2:
			n = "../" + n
		}
	}
	if dir && rng.Bool() {
		n += "/"
	}
	return n
}

// RandomTar draws an entry list inside the supported domain.
func RandomTar(rng *prng.R, o Opts) []Entry {
	if o.MaxEntries == 0 {
		o.MaxEntries = 24
	}
	if o.ChunkSize == 0 {
		o.ChunkSize = 4096
	}
	if o.MaxFileSize == 0 {
		o.MaxFileSize = 5 * o.ChunkSize
	}
	var es []Entry
	kind := map[string]byte{}      // clean name -> type of the (last) explicit entry or implicit dir
	linkTarget := map[string]bool{} // clean names used as hardlink targets (never duplicated afterwards)
	var dirs []string              // known directories (clean), "" = root
	dirs = append(dirs, "")
	var files []string // regular files and hardlinks (clean)
	nextContent := rng.U64() | 1

	meta := func(e *Entry) {
		e.UID = rng.Pick(0, 0, 1, 1000, 65534, 1<<20)
		e.GID = rng.Pick(0, 0, 5, 1000, 65534)
		if rng.Chance(1, 3) {
			e.Uname = rng.PickS("root", "user", "nobody")
			e.Gname = rng.PickS("root", "staff", "")
		}
		e.ModTime = int64(rng.Pick(0, 1, 1500000000, 1700000000, 2000000000)) + int64(rng.Intn(100000))
		if o.Xattrs && rng.Chance(1, 4) {
			e.Xattrs = map[string]string{}
			for i, n := 0, rng.Range(1, 3); i < n; i++ {
				k := rng.PickS("user.a", "user.b", "security.capability", "trusted.x", "user.empty", "user.bin")
				v := string(rng.Bytes(rng.Pick(1, 3, 20)))
				if k == "user.empty" {
					v = ""
				}
				e.Xattrs[k] = v
			}
		}
	}
	mkdirs := func(cleanDir string) {
		// make sure all ancestors exist, explicitly or (if allowed) implicitly
		if cleanDir == "" {
			return
		}
		parts := strings.Split(cleanDir, "/")
		for i := 1; i <= len(parts); i++ {
			d := strings.Join(parts[:i], "/")
			if _, ok := kind[d]; ok {
				continue
			}
			kind[d] = tar.TypeDir
			dirs = append(dirs, d)
			if o.ImplicitDirs && rng.Chance(1, 3) {
				continue // implicit
			}
			e := Entry{Name: spell(rng, o, d, true), Type: tar.TypeDir, Mode: int64(rng.Pick(0o755, 0o700, 0o1777, 0o2755, 0o555))}
			meta(&e)
			es = append(es, e)
		}
	}
	if o.RootEntry && rng.Chance(1, 3) {
		e := Entry{Name: rng.PickS("./", "/", "."), Type: tar.TypeDir, Mode: int64(rng.Pick(0o755, 0o700, 0o711))}
		meta(&e)
		es = append(es, e)
	}
	n := rng.Range(1, o.MaxEntries)
	for guard := 0; len(es) < n && guard < 50*o.MaxEntries; guard++ {
		// choose a parent directory: existing or new
		var parent string
		if rng.Chance(2, 3) {
			parent = dirs[rng.Intn(len(dirs))]
		} else {
			depth := rng.Range(1, 3)
			var ps []string
			for i := 0; i < depth; i++ {
				ps = append(ps, nameParts[rng.Intn(len(nameParts))])
			}
			parent = strings.Join(ps, "/")
			// a component may already exist as a non-directory: then pick again
			bad := false
			for i := 1; i <= len(ps); i++ {
				if k, ok := kind[strings.Join(ps[:i], "/")]; ok && k != tar.TypeDir {
					bad = true
				}
			}
			if bad {
				continue
			}
		}
		base := nameParts[rng.Intn(len(nameParts))]
		if o.LongNames && rng.Chance(1, 20) {
			base = strings.Repeat("L", rng.Range(100, 120))
		}
		if rng.Chance(1, 3) {
			base = fmt.Sprintf("%s%d", base, rng.Intn(50))
		}
		clean := base
		if parent != "" {
			clean = parent + "/" + base
		}
		if len(clean) > 200 {
			continue
		}
		prev, exists := kind[clean]
		t := byte(tar.TypeReg)
		switch x := rng.Intn(20); {
		case x < 10:
			t = tar.TypeReg
		case x < 13:
			t = tar.TypeDir
		case x < 15:
			t = tar.TypeSymlink
		case x < 17:
			t = tar.TypeLink
		case x == 17:
			t = tar.TypeChar
		case x == 18:
			t = tar.TypeBlock
		default:
			t = tar.TypeFifo
		}
		if (t == tar.TypeChar || t == tar.TypeBlock || t == tar.TypeFifo) && !o.Specials {
			t = tar.TypeReg
		}
		if t == tar.TypeLink && (!o.Hardlinks || len(files) == 0) {
			t = tar.TypeReg
		}
		if exists {
			// duplicates: only regular file over regular file, or a repeated directory entry
			if !o.Duplicates || linkTarget[clean] {
				continue
			}
			if prev == tar.TypeDir {
				t = tar.TypeDir
			} else if prev == tar.TypeReg {
				t = tar.TypeReg
			} else {
				continue
			}
		}
		mkdirs(parent)
		e := Entry{Name: spell(rng, o, clean, t == tar.TypeDir), Type: t}
		meta(&e)
		switch t {
		case tar.TypeReg:
			e.Mode = int64(rng.Pick(0o644, 0o600, 0o755, 0o4755, 0o2755, 0o444, 0o1644))
			c := o.ChunkSize
			switch rng.Intn(10) {
			case 0:
				e.Size = 0
			case 1:
				e.Size = 1
			case 2:
				e.Size = c - 1
			case 3:
				e.Size = c
			case 4:
				e.Size = c + 1
			case 5:
				e.Size = int64(rng.Range(2, 4)) * c
			case 6:
				e.Size = int64(rng.Range(2, 4))*c + int64(rng.Pick(-1, 1))
			default:
				e.Size = rng.Int63n(o.MaxFileSize + 1)
			}
			if e.Size < 0 {
				e.Size = 0
			}
			if e.Size > o.MaxFileSize {
				e.Size = o.MaxFileSize
			}
			nextContent += 2
			e.ContentID = nextContent
			if !exists {
				files = append(files, clean)
			}
		case tar.TypeDir:
			e.Mode = int64(rng.Pick(0o755, 0o700, 0o1777, 0o2755, 0o555))
			if !exists {
				dirs = append(dirs, clean)
			}
		case tar.TypeSymlink:
			e.Mode = 0o777
			e.Linkname = rng.PickS("target", "../up", "/abs/path", "a/b/c", strings.Repeat("s", 90))
		case tar.TypeLink:
			tgt := files[rng.Intn(len(files))]
			linkTarget[tgt] = true
			e.Linkname = spell(rng, o, tgt, false)
			e.Mode = 0o644
			files = append(files, clean)
			linkTarget[clean] = true // keep the group stable: no later duplicate of a link name
		case tar.TypeChar, tar.TypeBlock:
			e.Mode = 0o660
			e.Devmajor = int64(rng.Pick(0, 1, 8, 254, 4095))
			e.Devminor = int64(rng.Pick(0, 1, 3, 255, 1<<20-1))
		case tar.TypeFifo:
			e.Mode = 0o640
		}
		kind[clean] = t
		es = append(es, e)
	}
	return es
}

// ---------------------------------------------------------------------------
// reference model: tar -> expected filesystem

// Node is what the tar describes for one path.
type Node struct {
	Path     string // clean, "" = root
	Type     byte   // tar type of the resolved entry (hardlinks resolved)
	Mode     int64
	UID, GID int
	ModTime  int64
	Linkname string // symlink target
	Devmajor int64
	Devminor int64
	Xattrs   map[string]string
	Size     int64
	ContentID uint64
	NLink    int  // non-directories: number of names; directories: 0 (not described by a tar)
	Implicit bool // directory synthesised for a missing parent: mtime/mode not described by the tar
	Children map[string]*Node // directories: base name -> node
	Order    int  // position of the (last) defining entry in the archive
}

// FS is the expected filesystem of a tar.
type FS struct {
	Root  *Node
	Nodes map[string]*Node // clean path -> node (all names, hardlinked names share the *Node content but have own map key)
}

// Model builds the expected filesystem: names are identified after Clean, the last
// duplicate wins, implicit parents are 0755 root-owned directories, hardlinks resolve
// to their final target, nlink(non-directory) = number of names.
func Model(entries []Entry) *FS {
	fs := &FS{Nodes: map[string]*Node{}}
	fs.Root = &Node{Path: "", Type: tar.TypeDir, Mode: 0o755, Implicit: true, Children: map[string]*Node{}}
	fs.Nodes[""] = fs.Root
	target := map[string]string{} // hardlink name -> clean target name
	ensureDir := func(d string) *Node {
		if d == "" {
			return fs.Root
		}
		parts := strings.Split(d, "/")
		cur := fs.Root
		for i := range parts {
			p := strings.Join(parts[:i+1], "/")
			n, ok := fs.Nodes[p]
			if !ok {
				n = &Node{Path: p, Type: tar.TypeDir, Mode: 0o755, Implicit: true, Children: map[string]*Node{}}
				fs.Nodes[p] = n
				cur.Children[parts[i]] = n
			}
			cur = n
		}
		return cur
	}
	for i := range entries {
		e := &entries[i]
		c := Clean(e.Name)
		if e.Type == tar.TypeDir {
			n := ensureDir(c)
			n.Implicit = false
			n.Mode, n.UID, n.GID, n.ModTime, n.Xattrs, n.Order = e.Mode, e.UID, e.GID, e.ModTime, e.Xattrs, i
			continue
		}
		parent := ensureDir(path.Dir("/" + c)[1:])
		base := path.Base(c)
		n := &Node{Path: c, Type: e.Type, Mode: e.Mode, UID: e.UID, GID: e.GID, ModTime: e.ModTime, Linkname: e.Linkname,
			Devmajor: e.Devmajor, Devminor: e.Devminor, Xattrs: e.Xattrs, Size: e.Size, ContentID: e.ContentID, Order: i}
		if e.Type == tar.TypeLink {
			target[c] = Clean(e.Linkname)
		} else {
			delete(target, c)
		}
		fs.Nodes[c] = n
		parent.Children[base] = n
	}
	// resolve hardlinks to their final target and count names
	resolve := func(c string) string {
		for i := 0; i < 10000; i++ {
			t, ok := target[c]
			if !ok {
				return c
			}
			c = t
		}
		return c
	}
	names := map[string]int{}
	for c, n := range fs.Nodes {
		if n.Type == tar.TypeDir {
			continue
		}
		names[resolve(c)]++
	}
	for c := range target {
		final := fs.Nodes[resolve(c)]
		if final == nil {
			continue
		}
		order := fs.Nodes[c].Order
		cp := *final
		cp.Path = c
		cp.Order = order
		fs.Nodes[c] = &cp
		par := fs.Nodes[path.Dir("/" + c)[1:]]
		par.Children[path.Base(c)] = &cp
	}
	for c, n := range fs.Nodes {
		if n.Type != tar.TypeDir {
			n.NLink = names[resolve(c)]
		}
	}
	return fs
}

// Paths returns all clean paths sorted.
func (f *FS) Paths() []string {
	ps := make([]string, 0, len(f.Nodes))
	for p := range f.Nodes {
		ps = append(ps, p)
	}
	sort.Strings(ps)
	return ps
}

// RegularFiles returns the paths of regular files (incl. hardlinked names) sorted.
func (f *FS) RegularFiles() []string {
	var ps []string
	for p, n := range f.Nodes {
		if n.Type == tar.TypeReg {
			ps = append(ps, p)
		}
	}
	sort.Strings(ps)
	return ps
}

// Describe renders an entry list compactly for evidence samples.
func Describe(entries []Entry) string {
	var sb strings.Builder
	for i, e := range entries {
		if i > 0 {
			sb.WriteString("; ")
		}
		fmt.Fprintf(&sb, "%c %q", e.Type, e.Name)
		switch e.Type {
		case tar.TypeReg:
			fmt.Fprintf(&sb, " %dB", e.Size)
		case tar.TypeLink, tar.TypeSymlink:
			fmt.Fprintf(&sb, " ->%q", e.Linkname)
		}
		if sb.Len() > 1500 {
			sb.WriteString(" …")
			break
		}
	}
	return sb.String()
}
