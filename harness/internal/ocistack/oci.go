package ocistack

import (
	"archive/tar"
	"crypto/sha256"
	"encoding/hex"
	"strings"

	"verifharness/internal/gen"
)

// ContentHash is the identity of file bytes used on both sides of the comparison.
func ContentHash(b []byte) string {
	h := sha256.Sum256(b)
	return hex.EncodeToString(h[:8])
}

// reservedAtRoot: names the eStargz format reserves in the root directory of a blob
// (estargz.Build drops them from its input and writes its own); they are not content
// of the layer.
func reservedAtRoot(dir, name string) bool {
	return dir == "" && (name == LandmarkPrefetch || name == LandmarkNo || name == TOCName)
}

func nodeFromModel(m *gen.Node) *Node {
	n := &Node{
		Type: m.Type, Mode: uint32(m.Mode & 0o7777), UID: uint32(m.UID), GID: uint32(m.GID), MTime: m.ModTime,
		Link: m.Linkname, Major: uint32(m.Devmajor), Minor: uint32(m.Devminor),
	}
	switch m.Type {
	case tar.TypeReg:
		n.Size = m.Size
		b := make([]byte, m.Size)
		gen.FillContent(m.ContentID, 0, b)
		n.Content = ContentHash(b)
	case tar.TypeDir:
		n.Kids = map[string]*Node{}
		n.AttrUnknown = m.Implicit
	case tar.TypeSymlink:
	default:
		n.Link = ""
	}
	if m.Type != tar.TypeSymlink {
		n.Link = ""
	}
	if m.Type != tar.TypeChar && m.Type != tar.TypeBlock {
		n.Major, n.Minor = 0, 0
	}
	return n
}

// ApplyOCI applies the layer tars in order as the OCI image spec ("Applying changesets")
// describes: per layer, first the deletions it announces for the layers below it — an
// opaque marker D/.wh..wh..opq removes every child D had, a whiteout D/.wh.X removes D/X —
// then its additions and modifications (a directory merges with an existing directory,
// anything else replaces what was there). Whiteouts and markers themselves, and the names
// the eStargz format reserves at the root, are never part of the result. A real 0/0
// character device entry is applied as what overlayfs makes of it: a deletion.
func ApplyOCI(layers [][]gen.Entry) *Node {
	root := NewDir()
	for _, ents := range layers {
		m := gen.Model(ents)
		applyDir(root, m.Root, "")
	}
	return root
}

func applyDir(dst *Node, src *gen.Node, dir string) {
	// attributes: the latest layer that describes the directory explicitly wins; a layer
	// that contains it only as an implied parent says nothing about them.
	if src.Implicit {
		dst.AttrUnknown = true
	} else {
		dst.Mode, dst.UID, dst.GID, dst.MTime = uint32(src.Mode&0o7777), uint32(src.UID), uint32(src.GID), src.ModTime
		dst.AttrUnknown = false
	}
	// 1. deletions
	if _, ok := src.Children[OpaqueMarker]; ok {
		dst.Kids = map[string]*Node{}
	}
	for name := range src.Children {
		if name != OpaqueMarker && strings.HasPrefix(name, WhPrefix) {
			delete(dst.Kids, name[len(WhPrefix):])
		}
	}
	// 2. additions / modifications
	for name, c := range src.Children {
		if strings.HasPrefix(name, WhPrefix) || reservedAtRoot(dir, name) {
			continue
		}
		if c.Type == tar.TypeDir {
			old := dst.Kids[name]
			if !old.IsDir() {
				old = NewDir()
				dst.Kids[name] = old
			}
			applyDir(old, c, join(dir, name))
			continue
		}
		n := nodeFromModel(c)
		if n.IsWhiteout() {
			// A genuine 0/0 character device entry. Extracted into a snapshot directory
			// and stacked by overlayfs (what every overlay-based snapshotter does with a
			// layer tar) it IS a whiteout: the name and whatever lower layers have under
			// it disappear. The kernel is the arbiter here (kernel stage of the check).
			delete(dst.Kids, name)
			continue
		}
		dst.Kids[name] = n
	}
}

func join(dir, name string) string {
	if dir == "" {
		return name
	}
	return dir + "/" + name
}
