package ocistack

import (
	"testing"

	"verifharness/internal/prng"
)

// The three reference functions must agree with each other on every generated stack:
// merging the expected lower views with overlayfs rules gives the OCI result.
func TestReferenceFunctionsAgree(t *testing.T) {
	feats := map[string]int{}
	for i := 0; i < 20000; i++ {
		st := Generate(prng.New(uint64(i)), Opts{})
		var views []*Node
		for _, l := range st.Layers {
			views = append(views, ExpectedLower(l.Entries))
		}
		for k, v := range st.Features {
			feats[k] += v
		}
		if d := Diff(ApplyOCI(st.Tars()), OverlayMerge(views), DiffOpts{}); len(d) > 0 {
			t.Fatalf("stack %d: %v\n%v", i, d, st.Describe())
		}
	}
	t.Log(feats)
}
