// Package ocistack is the reference side of check C07: a generator of OCI layer
// stacks (additions, whiteouts, opaque markers, replaced entries, names that merely
// begin with ".wh.", landmarks) and three small, independently written functions
//
//	ApplyOCI(tars)        what the OCI image spec says the root filesystem is       (oci.go)
//	ExpectedLower(tar)    the overlayfs translation of ONE layer (what must be served) (lower.go)
//	OverlayMerge(views)   what overlayfs lookup rules make of SERVED lower directories (overlay.go)
//
// so that the check can compare "what OCI says" with "what overlayfs would make of what
// was served". None of them shares code with /repo.
package ocistack

import (
	"archive/tar"
	"fmt"
	"sort"
)

// Reserved names of the eStargz format and of the OCI whiteout convention.
const (
	WhPrefix         = ".wh."
	OpaqueMarker     = ".wh..wh..opq"
	LandmarkPrefetch = ".prefetch.landmark"
	LandmarkNo       = ".no.prefetch.landmark"
	TOCName          = "stargz.index.json"
	StateDir         = ".stargz-snapshotter"
)

// Node is one file of a (served, expected or merged) tree.
type Node struct {
	Type  byte   // tar.TypeDir, TypeReg, TypeSymlink, TypeChar, TypeBlock, TypeFifo
	Mode  uint32 // permission bits | 04000 | 02000 | 01000
	UID   uint32
	GID   uint32
	MTime int64
	Size  int64
	Link  string
	Major uint32
	Minor uint32
	// Content identifies the bytes of a regular file: hex sha256 (both sides hash the
	// bytes they have: generated content vs. bytes read from the served file).
	Content string
	// AttrUnknown: directory whose mode/owner/mtime the tars do not describe (implicit
	// parent in the highest layer that contains it); only its type and children are compared.
	AttrUnknown bool
	// Opaque: lower-directory views only: the overlay opaque xattr is set.
	Opaque bool
	// Synth: expected-lower only: a whiteout device synthesised for a ".wh.X" file (only its
	// type and device number are fixed by the statement), as opposed to a real device entry
	// of the tar, whose mode/owner/mtime are served like those of any other entry.
	Synth bool
	// Optional: expected-lower only: the statement allows this synthesised whiteout to be
	// listed or not (its target name is itself a hidden name); listing and lookup must
	// still agree on it.
	Optional bool
	// Ino: served views only.
	Ino  uint64
	Kids map[string]*Node
}

func NewDir() *Node {
	return &Node{Type: tar.TypeDir, Mode: 0o755, AttrUnknown: true, Kids: map[string]*Node{}}
}

func (n *Node) IsDir() bool { return n != nil && n.Type == tar.TypeDir }

// IsWhiteout: the overlayfs whiteout is a character device with device number 0/0.
func (n *Node) IsWhiteout() bool {
	return n != nil && n.Type == tar.TypeChar && n.Major == 0 && n.Minor == 0
}

func (n *Node) Names() []string {
	ns := make([]string, 0, len(n.Kids))
	for k := range n.Kids {
		ns = append(ns, k)
	}
	sort.Strings(ns)
	return ns
}

func typeName(t byte) string {
	switch t {
	case tar.TypeDir:
		return "dir"
	case tar.TypeReg:
		return "reg"
	case tar.TypeSymlink:
		return "symlink"
	case tar.TypeChar:
		return "chr"
	case tar.TypeBlock:
		return "blk"
	case tar.TypeFifo:
		return "fifo"
	case 0:
		return "none"
	}
	return fmt.Sprintf("type(%c)", t)
}

// Difference is one disagreement between two trees.
type Difference struct {
	Path  string
	Class string // "missing" | "extra" | "type" | "attr" | "content" | "opaque"
	Want  string
	Got   string
}

func (d Difference) String() string {
	return fmt.Sprintf("%s %q: want %s, got %s", d.Class, d.Path, d.Want, d.Got)
}

// DiffOpts selects what Diff compares.
type DiffOpts struct {
	Opaque  bool // compare the Opaque flag of directories (lower views)
	NoMTime bool
	Max     int
}

// Diff compares got with want (want's Optional children may be absent or present in got).
func Diff(want, got *Node, o DiffOpts) []Difference {
	var res []Difference
	if o.Max == 0 {
		o.Max = 20
	}
	var walk func(p string, w, g *Node, depth int)
	walk = func(p string, w, g *Node, depth int) {
		if len(res) >= o.Max || depth > 64 {
			return
		}
		if w.Type != g.Type {
			res = append(res, Difference{p, "type", describe(w), describe(g)})
			return
		}
		if w.Synth && w.IsWhiteout() && g.IsWhiteout() {
			// the statement fixes type and device number of a whiteout, nothing else
			return
		}
		if !(w.IsDir() && (w.AttrUnknown || g.AttrUnknown)) {
			if a, b := attrs(w, o), attrs(g, o); a != b {
				res = append(res, Difference{p, "attr", a, b})
			}
		}
		if w.Type == tar.TypeReg && w.Content != g.Content {
			res = append(res, Difference{p, "content", w.Content, g.Content})
		}
		if !w.IsDir() {
			return
		}
		if o.Opaque && w.Opaque != g.Opaque {
			res = append(res, Difference{p, "opaque", fmt.Sprint(w.Opaque), fmt.Sprint(g.Opaque)})
		}
		for _, name := range w.Names() {
			wc := w.Kids[name]
			gc, ok := g.Kids[name]
			cp := name
			if p != "" {
				cp = p + "/" + name
			}
			if !ok {
				if !wc.Optional {
					res = append(res, Difference{cp, "missing", describe(wc), "nothing"})
				}
				continue
			}
			walk(cp, wc, gc, depth+1)
		}
		for _, name := range g.Names() {
			if _, ok := w.Kids[name]; !ok {
				cp := name
				if p != "" {
					cp = p + "/" + name
				}
				res = append(res, Difference{cp, "extra", "nothing", describe(g.Kids[name])})
			}
		}
	}
	walk("", want, got, 0)
	return res
}

func describe(n *Node) string {
	if n == nil {
		return "nothing"
	}
	if n.IsWhiteout() {
		return "whiteout(chr 0/0)"
	}
	return typeName(n.Type)
}

func attrs(n *Node, o DiffOpts) string {
	s := fmt.Sprintf("mode=%o uid=%d gid=%d", n.Mode, n.UID, n.GID)
	if !o.NoMTime {
		s += fmt.Sprintf(" mtime=%d", n.MTime)
	}
	switch n.Type {
	case tar.TypeReg:
		s += fmt.Sprintf(" size=%d", n.Size)
	case tar.TypeSymlink:
		s += fmt.Sprintf(" link=%q", n.Link)
	case tar.TypeChar, tar.TypeBlock:
		s += fmt.Sprintf(" dev=%d/%d", n.Major, n.Minor)
	}
	return s
}

// Count returns the number of nodes below n (n excluded).
func (n *Node) Count() int {
	c := 0
	for _, k := range n.Kids {
		c += 1 + k.Count()
	}
	return c
}
