package ocistack

import (
	"archive/tar"
	"strings"

	"verifharness/internal/gen"
)

// HiddenName reports whether a lookup of name in directory dir ("" = root) is a name
// the served tree deliberately never shows: whiteout files and the opaque marker
// (anything beginning with ".wh.") anywhere, the prefetch landmarks in the root.
func HiddenName(dir, name string) bool {
	if strings.HasPrefix(name, WhPrefix) {
		return true
	}
	return dir == "" && (name == LandmarkPrefetch || name == LandmarkNo)
}

// ExpectedLower is the overlayfs translation of ONE layer tar, i.e. what the statement
// says must be served for it:
//
//	normal entries                                   as they are
//	whiteout files, opaque marker, root landmarks,
//	root TOC entry                                   never
//	D/.wh.X                                          0/0 character device D/X, unless D carries a real X
//	D/.wh..wh..opq                                   D is opaque
//	a real device entry, 0/0 character device incl.  as it is (mode, owner, device number of the tar)
//
// A synthesised whiteout whose own name is a hidden name (".wh..wh.foo" -> ".wh.foo",
// ".wh..prefetch.landmark" in the root) is marked Optional: the statement both asks for
// the device and forbids the name, so either answer is accepted as long as listing and
// lookup agree (clause 2 of the check).
func ExpectedLower(ents []gen.Entry) *Node {
	m := gen.Model(ents)
	return lowerDir(m.Root, "")
}

func lowerDir(src *gen.Node, dir string) *Node {
	d := nodeFromModel(src)
	d.Kids = map[string]*Node{}
	var whs []string
	for name, c := range src.Children {
		switch {
		case name == OpaqueMarker:
			d.Opaque = true
		case strings.HasPrefix(name, WhPrefix):
			whs = append(whs, name[len(WhPrefix):])
		case reservedAtRoot(dir, name):
		case c.Type == tar.TypeDir:
			d.Kids[name] = lowerDir(c, join(dir, name))
		default:
			d.Kids[name] = nodeFromModel(c)
		}
	}
	for _, x := range whs {
		if x == "" {
			continue // a file named exactly ".wh." names no target: a marker file, never shown
		}
		if _, real := d.Kids[x]; real {
			continue
		}
		d.Kids[x] = &Node{Type: tar.TypeChar, Synth: true, Optional: HiddenName(dir, x)}
	}
	return d
}
