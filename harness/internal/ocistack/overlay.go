package ocistack

// OverlayMerge computes what overlayfs shows for a stack of lower directories
// (views[0] is the LOWEST layer), following the kernel's lookup rules
// (Documentation/filesystems/overlayfs.rst, "whiteouts and opaque directories"):
// a name is searched from the highest layer down;
//
//   - a whiteout (character device 0/0) ends the search: what was found above it counts,
//     nothing below it does;
//   - a non-directory ends the search: it is the result if nothing was found above it,
//     otherwise it is hidden by the directory above;
//   - a directory joins the merged directory; if it is opaque the search ends.
//
// Whiteouts never appear in the result. This is written top-down per name (like
// ovl_lookup) and shares nothing with ApplyOCI, which works bottom-up per layer.
func OverlayMerge(views []*Node) *Node {
	// The layer roots are stacked unconditionally: the kernel does not consult the opaque
	// xattr of a lowerdir root (the generator only puts a root opaque marker into the
	// lowest layer, where OCI gives it no effect either; see NOTES.md).
	var stack []*Node
	for i := len(views) - 1; i >= 0; i-- {
		stack = append(stack, views[i])
	}
	return mergeDirs(stack, 0)
}

// mergeDirs merges directories of the same path, highest layer first.
func mergeDirs(stack []*Node, depth int) *Node {
	top := stack[0]
	out := &Node{Type: top.Type, Mode: top.Mode, UID: top.UID, GID: top.GID, MTime: top.MTime,
		AttrUnknown: top.AttrUnknown, Kids: map[string]*Node{}}
	if depth > 64 {
		return out
	}
	seen := map[string]bool{}
	for _, d := range stack {
		for name := range d.Kids {
			if seen[name] {
				continue
			}
			seen[name] = true
			var sub []*Node
			var file *Node
		search:
			for _, l := range stack {
				e, ok := l.Kids[name]
				switch {
				case !ok:
					continue
				case e.IsWhiteout():
					break search
				case !e.IsDir():
					if len(sub) == 0 {
						file = e
					}
					break search
				default:
					sub = append(sub, e)
					if e.Opaque {
						break search
					}
				}
			}
			switch {
			case len(sub) > 0:
				out.Kids[name] = mergeDirs(sub, depth+1)
			case file != nil:
				c := *file
				c.Kids = nil
				out.Kids[name] = &c
			}
		}
	}
	return out
}
