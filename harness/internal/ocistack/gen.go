package ocistack

import (
	"archive/tar"
	"fmt"
	"path"
	"sort"
	"strings"

	"verifharness/internal/gen"
	"verifharness/internal/prng"
)

// Layer is one generated layer tar (as a gen.Entry list) plus the files to prioritize
// when the blob is built (a non-empty list makes estargz.Build write ".prefetch.landmark"
// instead of ".no.prefetch.landmark").
type Layer struct {
	Entries     []gen.Entry
	Prioritized []string
}

// Stack is a generated image: Layers[0] is the lowest layer.
type Stack struct {
	Layers   []Layer
	Features map[string]int // what the generator put in (feature -> count)
}

// Opts steers Generate.
type Opts struct {
	MinLayers, MaxLayers int // default 1..5
	MaxOps               int // operations per layer, default 9
	// NoHiddenTargetWhiteouts suppresses whiteouts whose target name is itself a hidden
	// name (".wh..wh.foo", ".wh..prefetch.landmark" in the root) or empty (".wh.").
	NoHiddenTargetWhiteouts bool
}

var (
	dirNames  = []string{"a", "b", "etc", "lib", "d1", "sp ace"}
	fileNames = []string{"f", "g", "x.txt", "conf", "a", "b", "ü", "data1", "data2", "lib"}
	// names that merely look like whiteouts
	lookalikes = []string{".wh", ".whx", "a.wh.b", "..wh.c", "wh.d", ".wH.e", ".wh_", ".w"}
)

type layerGen struct {
	rng      *prng.R
	cur      *Node // ApplyOCI of the layers below (guidance only, never an oracle)
	kind     map[string]byte
	wh       map[string]bool // clean path D/X for which this layer has D/.wh.X
	ents     []gen.Entry
	regs     []string        // regular files of this layer (hardlink targets, prioritized files)
	explicit map[string]bool // directories with an explicit entry in this layer
	prefix   string
	feat     map[string]int
	lowest   bool
	noHidden bool
	zeroDev  bool // the next device entry gets device number 0/0
}

func parentOf(p string) string {
	d := path.Dir(p)
	if d == "." || d == "/" {
		return ""
	}
	return d
}

func lookup(root *Node, p string) *Node {
	if p == "" {
		return root
	}
	cur := root
	for _, c := range strings.Split(p, "/") {
		if cur == nil || cur.Kids == nil {
			return nil
		}
		cur = cur.Kids[c]
	}
	return cur
}

// collect returns the directories and all paths of a tree, sorted (deterministic).
func collect(root *Node) (dirs, all []string) {
	var walk func(p string, n *Node, depth int)
	walk = func(p string, n *Node, depth int) {
		if depth > 16 {
			return
		}
		for _, name := range n.Names() {
			c := n.Kids[name]
			cp := join(p, name)
			all = append(all, cp)
			if c.IsDir() {
				dirs = append(dirs, cp)
				walk(cp, c, depth+1)
			}
		}
	}
	walk("", root, 0)
	return
}

func (g *layerGen) meta(e *gen.Entry) {
	e.UID = g.rng.Pick(0, 0, 1000)
	e.GID = g.rng.Pick(0, 0, 100)
	e.ModTime = int64(1500000000 + g.rng.Intn(400000000))
	if g.rng.Chance(1, 6) {
		e.Xattrs = map[string]string{"user." + g.rng.PickS("k1", "k2"): g.rng.PickS("v", "value2")}
	}
}

func (g *layerGen) spell(clean string, dir bool) string {
	n := g.prefix + clean
	if dir && g.rng.Bool() {
		n += "/"
	}
	return n
}

// ensureDir makes every ancestor-or-self of d a directory of this layer (explicitly or
// as an implied parent). It refuses when that would put a directory and a whiteout of
// the same name into this layer (the case the statement excludes) or a child below a
// non-directory.
func (g *layerGen) ensureDir(d string) bool {
	if d == "" {
		return true
	}
	parts := strings.Split(d, "/")
	if len(parts) > 4 {
		return false
	}
	for i := 1; i <= len(parts); i++ {
		a := strings.Join(parts[:i], "/")
		if g.wh[a] {
			return false
		}
		if k, ok := g.kind[a]; ok && k != 'd' {
			return false
		}
	}
	for i := 1; i <= len(parts); i++ {
		a := strings.Join(parts[:i], "/")
		if _, ok := g.kind[a]; ok {
			continue
		}
		g.kind[a] = 'd'
		if g.rng.Chance(1, 5) {
			g.feat["implicit-dir"]++
			continue
		}
		e := gen.Entry{Name: g.spell(a, true), Type: tar.TypeDir, Mode: int64(g.rng.Pick(0o755, 0o755, 0o700, 0o1777, 0o750))}
		g.explicit[a] = true
		g.meta(&e)
		g.ents = append(g.ents, e)
	}
	return true
}

// pickDir chooses a directory: one of the filesystem below, one of this layer, or a new one.
func (g *layerGen) pickDir() string {
	curDirs, _ := collect(g.cur)
	var mine []string
	for p, k := range g.kind {
		if k == 'd' {
			mine = append(mine, p)
		}
	}
	sort.Strings(mine)
	base := ""
	switch x := g.rng.Intn(10); {
	case x < 2:
		return ""
	case x < 5 && len(curDirs) > 0:
		return curDirs[g.rng.Intn(len(curDirs))]
	case x < 7 && len(mine) > 0:
		return mine[g.rng.Intn(len(mine))]
	default:
		if len(curDirs) > 0 && g.rng.Bool() {
			base = curDirs[g.rng.Intn(len(curDirs))]
		} else if len(mine) > 0 && g.rng.Bool() {
			base = mine[g.rng.Intn(len(mine))]
		}
		return join(base, dirNames[g.rng.Intn(len(dirNames))])
	}
}

func (g *layerGen) addNonDir(p string, t byte) bool {
	if p == "" {
		return false
	}
	if _, ok := g.kind[p]; ok {
		return false
	}
	if !g.ensureDir(parentOf(p)) {
		return false
	}
	e := gen.Entry{Name: g.spell(p, false), Type: t}
	g.meta(&e)
	switch t {
	case tar.TypeReg:
		e.Mode = int64(g.rng.Pick(0o644, 0o600, 0o755, 0o4755, 0o444))
		e.Size = int64(g.rng.Pick(0, 1, 17, 300, 700, 2500))
		e.ContentID = g.rng.U64() | 1
		if !reservedAtRoot(parentOf(p), path.Base(p)) && !strings.HasPrefix(path.Base(p), WhPrefix) {
			g.regs = append(g.regs, p)
		}
	case tar.TypeSymlink:
		e.Mode = 0o777
		e.Linkname = g.rng.PickS("target", "../up", "/abs/path", ".wh.dangling")
	case tar.TypeLink:
		if len(g.regs) == 0 {
			return false
		}
		e.Linkname = g.prefix + g.regs[g.rng.Intn(len(g.regs))]
		e.Mode = 0o644
		g.feat["hardlink"]++
	case tar.TypeChar, tar.TypeBlock:
		// locked-down device nodes (mode 0000) are common; a char device with mode 0000 is
		// served with exactly the mode bits of a synthesised whiteout
		e.Mode = int64(g.rng.Pick(0, 0, 0o660, 0o600, 0o666))
		e.Devmajor = int64(g.rng.Pick(1, 5, 8, 254))
		e.Devminor = int64(g.rng.Pick(0, 1, 3, 255))
		if g.zeroDev {
			// a raw overlayfs whiteout shipped as a real entry (block 0/0 is just a device)
			e.Devmajor, e.Devminor = 0, 0
		}
	case tar.TypeFifo:
		e.Mode = 0o640
	}
	g.kind[p] = 'f'
	g.ents = append(g.ents, e)
	return true
}

func (g *layerGen) randType() byte {
	switch x := g.rng.Intn(20); {
	case x < 12:
		return tar.TypeReg
	case x < 14:
		return tar.TypeSymlink
	case x < 17:
		return tar.TypeLink
	case x == 17:
		return tar.TypeChar
	case x == 18:
		return tar.TypeBlock
	}
	return tar.TypeFifo
}

func (g *layerGen) addDir(p string) bool {
	if p == "" || g.wh[p] {
		return false
	}
	if _, ok := g.kind[p]; ok {
		return false
	}
	if !g.ensureDir(parentOf(p)) {
		return false
	}
	// explicit entry
	g.kind[p] = 'd'
	g.explicit[p] = true
	e := gen.Entry{Name: g.spell(p, true), Type: tar.TypeDir, Mode: int64(g.rng.Pick(0o755, 0o700, 0o1777, 0o555))}
	g.meta(&e)
	g.ents = append(g.ents, e)
	return true
}

// addWhiteout writes D/.wh.X (a regular empty file, as docker/buildkit emit it).
func (g *layerGen) addWhiteout(d, x string) bool {
	if x == "" || x == ".wh..opq" || strings.Contains(x, "/") {
		return false
	}
	p := join(d, x)
	if g.wh[p] || g.kind[p] == 'd' {
		return false
	}
	if g.noHidden && HiddenName(d, x) {
		return false
	}
	w := join(d, WhPrefix+x)
	if _, ok := g.kind[w]; ok {
		return false
	}
	if !g.ensureDir(d) {
		return false
	}
	e := gen.Entry{Name: g.spell(w, false), Type: tar.TypeReg, Mode: int64(g.rng.Pick(0, 0o644, 0o600))}
	g.meta(&e)
	e.Xattrs = nil
	g.kind[w] = 'f'
	g.wh[p] = true
	g.ents = append(g.ents, e)
	return true
}

func (g *layerGen) addOpaque(d string) bool {
	w := join(d, OpaqueMarker)
	if _, ok := g.kind[w]; ok {
		return false
	}
	if !g.ensureDir(d) {
		return false
	}
	e := gen.Entry{Name: g.spell(w, false), Type: tar.TypeReg, Mode: int64(g.rng.Pick(0, 0o644))}
	g.meta(&e)
	e.Xattrs = nil
	g.kind[w] = 'f'
	g.ents = append(g.ents, e)
	return true
}

func (g *layerGen) op() {
	rng := g.rng
	curDirs, curAll := collect(g.cur)
	x := rng.Intn(100)
	switch {
	case x >= 18 && x < 28: // real device entries, with and without a ".wh." twin
		d := g.pickDir()
		n := rng.PickS("dev", "null", "f", "a")
		if len(curAll) > 0 && rng.Chance(1, 3) {
			p := curAll[rng.Intn(len(curAll))]
			d, n = parentOf(p), path.Base(p)
		}
		p := join(d, n)
		if _, ok := g.kind[p]; ok || g.wh[p] {
			return
		}
		t := byte(tar.TypeChar)
		if rng.Chance(1, 3) {
			t = tar.TypeBlock
		}
		g.zeroDev = rng.Chance(1, 3)
		zero := g.zeroDev && t == tar.TypeChar
		twin := rng.Chance(1, 3)
		ok := false
		if twin && rng.Bool() {
			ok = g.addWhiteout(d, n) && g.addNonDir(p, t)
		} else {
			ok = g.addNonDir(p, t)
			if ok && twin {
				twin = g.addWhiteout(d, n)
			}
		}
		g.zeroDev = false
		if !ok {
			return
		}
		g.feat["device"]++
		if twin {
			g.feat["device+wh-twin"]++
		}
		if zero {
			g.feat["real-0/0-chardev"]++
			if lookup(g.cur, p) != nil {
				g.feat["real-0/0-chardev-hides-lower"]++
			}
		}
	case x < 28: // addition
		p := join(g.pickDir(), fileNames[rng.Intn(len(fileNames))])
		old := lookup(g.cur, p)
		if old.IsDir() {
			return // replacing a directory is its own operation below
		}
		if g.addNonDir(p, g.randType()) {
			g.feat["add"]++
			if old != nil {
				g.feat["replace-file-file"]++
			}
		}
	case x < 35: // explicit directory
		p := g.pickDir()
		if old := lookup(g.cur, p); old != nil && !old.IsDir() {
			if g.addDir(p) {
				g.feat["replace-file-dir"]++
			}
			return
		}
		if g.addDir(p) {
			g.feat["add-dir"]++
		}
	case x < 50: // whiteout of something that exists below
		if len(curAll) == 0 {
			if g.addWhiteout(g.pickDir(), fileNames[rng.Intn(len(fileNames))]) {
				g.feat["whiteout-absent"]++
			}
			return
		}
		p := curAll[rng.Intn(len(curAll))]
		if g.addWhiteout(parentOf(p), path.Base(p)) {
			g.feat["whiteout-existing"]++
			if lookup(g.cur, p).IsDir() {
				g.feat["whiteout-existing-dir"]++
			}
		}
	case x < 55: // whiteout of a name that does not exist below
		d := g.pickDir()
		n := fmt.Sprintf("gone%d", rng.Intn(3))
		if lookup(g.cur, join(d, n)) == nil && g.addWhiteout(d, n) {
			g.feat["whiteout-absent"]++
		}
	case x < 61: // whiteout AND a real non-directory of the same name in this layer
		d := g.pickDir()
		n := fileNames[rng.Intn(len(fileNames))]
		if len(curAll) > 0 && rng.Bool() {
			p := curAll[rng.Intn(len(curAll))]
			d, n = parentOf(p), path.Base(p)
		}
		p := join(d, n)
		if _, ok := g.kind[p]; ok || g.wh[p] {
			return
		}
		t := g.randType()
		if rng.Bool() {
			if g.addWhiteout(d, n) && g.addNonDir(p, t) {
				g.feat["whiteout+real"]++
			}
		} else {
			if g.addNonDir(p, t) && g.addWhiteout(d, n) {
				g.feat["whiteout+real"]++
			}
		}
	case x < 70: // opaque directory
		d := ""
		if len(curDirs) > 0 && rng.Chance(4, 5) {
			d = curDirs[rng.Intn(len(curDirs))]
		} else if d = g.pickDir(); d == "" {
			if !g.lowest || !rng.Chance(1, 3) {
				return
			}
		}
		if d == "" && !g.lowest {
			return
		}
		if !g.addOpaque(d) {
			return
		}
		if d == "" {
			g.feat["opaque-root"]++
		} else if old := lookup(g.cur, d); old.IsDir() && len(old.Kids) > 0 {
			g.feat["opaque-existing"]++
		} else {
			g.feat["opaque-new"]++
		}
		for i, n := 0, rng.Intn(3); i < n; i++ {
			g.addNonDir(join(d, fileNames[rng.Intn(len(fileNames))]), tar.TypeReg)
		}
	case x < 78: // replace: type change
		if len(curAll) == 0 {
			return
		}
		p := curAll[rng.Intn(len(curAll))]
		old := lookup(g.cur, p)
		if old.IsDir() {
			if g.addNonDir(p, g.randType()) {
				g.feat["replace-dir-file"]++
			}
		} else if rng.Bool() {
			if g.addDir(p) {
				g.feat["replace-file-dir"]++
				g.addNonDir(join(p, fileNames[rng.Intn(len(fileNames))]), tar.TypeReg)
			}
		} else if g.addNonDir(p, tar.TypeReg) {
			g.feat["replace-file-file"]++
		}
	case x < 85: // names that merely begin like a whiteout
		p := join(g.pickDir(), lookalikes[rng.Intn(len(lookalikes))])
		ok := false
		if rng.Chance(1, 4) {
			ok = g.addDir(p)
		} else {
			ok = g.addNonDir(p, tar.TypeReg)
		}
		if ok {
			g.feat["lookalike"]++
		}
	case x < 91: // whiteouts of look-alikes and of hidden names
		d := g.pickDir()
		switch rng.Intn(7) {
		case 6: // a file named exactly ".wh.": begins with ".wh." but names no target
			if !g.noHidden && g.addNonDir(join(d, WhPrefix), tar.TypeReg) {
				g.feat["bare-wh"]++
			}
		case 0, 1, 4:
			if g.addWhiteout(d, lookalikes[rng.Intn(len(lookalikes))]) {
				g.feat["wh-of-lookalike"]++
			}
		case 2:
			if g.addWhiteout(d, WhPrefix+rng.PickS("foo", "f", "a")) {
				g.feat["wh-of-hidden"]++
			}
		default:
			if g.addWhiteout(d, ".wh..opq"+rng.PickS("x", "2")) {
				g.feat["wh-of-hidden"]++
			}
		}
	default: // landmarks and the TOC name
		lm := rng.PickS(LandmarkPrefetch, LandmarkNo)
		switch rng.Intn(6) {
		case 0: // in the root: reserved by the format, estargz.Build drops it
			if g.addNonDir(lm, tar.TypeReg) {
				g.feat["landmark-root"]++
			}
		case 1: // in a subdirectory: an ordinary file
			if d := g.pickDir(); d != "" && g.addNonDir(join(d, lm), tar.TypeReg) {
				g.feat["landmark-sub"]++
			}
		case 2: // whiteout of the landmark name in the root: the target name is hidden
			if g.addWhiteout("", lm) {
				g.feat["wh-landmark-root"]++
			}
		case 3: // in a subdirectory: an ordinary whiteout
			if d := g.pickDir(); d != "" && g.addWhiteout(d, lm) {
				g.feat["wh-landmark-sub"]++
			}
		case 4:
			if g.addNonDir(TOCName, tar.TypeReg) {
				g.feat["toc-root"]++
			}
		default:
			if d := g.pickDir(); d != "" && g.addNonDir(join(d, TOCName), tar.TypeReg) {
				g.feat["toc-sub"]++
			}
		}
	}
}

// Generate draws a stack inside the domain of the statement: it never puts a whiteout
// of a name and a directory of that name into one layer, no duplicate names within a layer other than an identical repeated directory entry, no explicit root entry, and an
// opaque marker in the root only in the lowest layer (where OCI gives it no effect;
// the kernel ignores the opaque xattr of a lowerdir root).
func Generate(rng *prng.R, o Opts) *Stack {
	if o.MaxLayers == 0 {
		o.MinLayers, o.MaxLayers = 1, 5
	}
	if o.MinLayers == 0 {
		o.MinLayers = 1
	}
	if o.MaxOps == 0 {
		o.MaxOps = 9
	}
	st := &Stack{Features: map[string]int{}}
	nl := rng.Range(o.MinLayers, o.MaxLayers)
	var tars [][]gen.Entry
	for li := 0; li < nl; li++ {
		g := &layerGen{rng: rng.Derive(uint64(li)), cur: ApplyOCI(tars), kind: map[string]byte{}, wh: map[string]bool{}, explicit: map[string]bool{},
			feat: st.Features, lowest: li == 0, noHidden: o.NoHiddenTargetWhiteouts}
		if g.rng.Chance(1, 4) {
			g.prefix = "./"
		}
		nops := g.rng.Range(1, o.MaxOps)
		for i, done := 0, 0; i < 60 && done < nops; i++ {
			before := len(g.ents)
			g.op()
			if len(g.ents) > before {
				done++
			}
		}
		if len(g.ents) == 0 {
			g.addNonDir(fmt.Sprintf("only%d", li), tar.TypeReg)
		}
		// Entry order: a share of the layers is written bottom-up (the contents of a
		// directory precede its own entry) or repeats a directory entry after some of its
		// children (identical copy; estargz.Build's importTar then moves the entry behind
		// the children seen so far). Both are legal OCI layers with the same meaning.
		switch g.rng.Intn(6) {
		case 0, 1:
			g.ents = bottomUp(g.ents)
			st.Features["order-children-before-dir"]++
		case 2, 3:
			var n int
			g.ents, n = repeatDirs(g.rng, g.ents)
			st.Features["order-dir-entry-repeated"] += n
		}
		l := Layer{Entries: g.ents}
		// estargz.Build moves a prioritized file together with its parents, which must
		// therefore have entries of their own (and, for a hardlink, so must its target).
		var prio []string
		for _, p := range g.regs {
			ok := true
			for d := parentOf(p); d != ""; d = parentOf(d) {
				ok = ok && g.explicit[d]
			}
			if ok {
				prio = append(prio, p)
			}
		}
		if len(prio) > 0 && g.rng.Chance(1, 3) {
			for i, n := 0, g.rng.Range(1, 2); i < n; i++ {
				l.Prioritized = append(l.Prioritized, prio[g.rng.Intn(len(prio))])
			}
			st.Features["prioritized"]++
		}
		st.Layers = append(st.Layers, l)
		tars = append(tars, l.Entries)
	}
	return st
}

// Tars returns the entry lists of all layers.
func (s *Stack) Tars() [][]gen.Entry {
	var t [][]gen.Entry
	for _, l := range s.Layers {
		t = append(t, l.Entries)
	}
	return t
}

// Describe renders the stack for evidence samples and replay files.
func (s *Stack) Describe() []string {
	var res []string
	for i, l := range s.Layers {
		res = append(res, fmt.Sprintf("L%d: %s", i, gen.Describe(l.Entries)))
	}
	return res
}

func isUnder(c, dir string) bool { return strings.HasPrefix(c, dir+"/") }

// bottomUp moves every directory entry behind its last descendant (deeper directories
// first); all other entries keep their relative order (hardlink targets stay in front of
// their links).
func bottomUp(ents []gen.Entry) []gen.Entry {
	type keyed struct {
		e      gen.Entry
		k1, k2 int
	}
	ks := make([]keyed, len(ents))
	for i, e := range ents {
		ks[i] = keyed{e: e, k1: i}
		if e.Type != tar.TypeDir {
			continue
		}
		c := gen.Clean(e.Name)
		for j, o := range ents {
			if j > ks[i].k1 && isUnder(gen.Clean(o.Name), c) {
				ks[i].k1 = j
			}
		}
		ks[i].k2 = 100 - strings.Count(c, "/")
	}
	sort.SliceStable(ks, func(a, b int) bool {
		if ks[a].k1 != ks[b].k1 {
			return ks[a].k1 < ks[b].k1
		}
		return ks[a].k2 < ks[b].k2
	})
	out := make([]gen.Entry, len(ks))
	for i := range ks {
		out[i] = ks[i].e
	}
	return out
}

// repeatDirs inserts, for about half of the directory entries that have descendants behind
// them, an identical copy of the entry behind one of those descendants.
func repeatDirs(rng *prng.R, ents []gen.Entry) ([]gen.Entry, int) {
	after := map[int][]gen.Entry{}
	n := 0
	for i, e := range ents {
		if e.Type != tar.TypeDir {
			continue
		}
		c := gen.Clean(e.Name)
		var desc []int
		for j := i + 1; j < len(ents); j++ {
			if isUnder(gen.Clean(ents[j].Name), c) {
				desc = append(desc, j)
			}
		}
		if len(desc) == 0 || rng.Bool() {
			continue
		}
		j := desc[rng.Intn(len(desc))]
		after[j] = append(after[j], e)
		n++
	}
	var out []gen.Entry
	for i, e := range ents {
		out = append(out, e)
		out = append(out, after[i]...)
	}
	return out, n
}
