package vf

import (
	"os"
	"path/filepath"
	"regexp"
	"strings"
)

// RaceReport is one "WARNING: DATA RACE" block of a Go race-detector log.
type RaceReport struct {
	Text string
	// Access[0], Access[1]: function names (outermost last) of the two conflicting
	// access stacks; goroutine-creation stacks are not included.
	Access [2][]string
}

const repoMod = "github.com/containerd/stargz-snapshotter/"

var funcLine = regexp.MustCompile(`^  ([^\s].*)\(\)$`)

// ParseRaceLogs reads every file <prefix>.<pid> and returns the reports in them.
func ParseRaceLogs(prefix string) []RaceReport {
	files, _ := filepath.Glob(prefix + ".*")
	var res []RaceReport
	for _, f := range files {
		b, err := os.ReadFile(f)
		if err != nil {
			continue
		}
		res = append(res, ParseRaceText(string(b))...)
	}
	return res
}

// ParseRaceText splits a race log into reports.
func ParseRaceText(s string) []RaceReport {
	var res []RaceReport
	blocks := strings.Split(s, "WARNING: DATA RACE")
	for _, b := range blocks[1:] {
		if i := strings.Index(b, "=================="); i >= 0 {
			b = b[:i]
		}
		rep := RaceReport{Text: "WARNING: DATA RACE" + b}
		sec := -1
		for _, line := range strings.Split(b, "\n") {
			t := strings.TrimSpace(line)
			switch {
			case strings.HasPrefix(t, "Write at ") || strings.HasPrefix(t, "Read at ") ||
				strings.HasPrefix(t, "Previous write at ") || strings.HasPrefix(t, "Previous read at ") ||
				strings.HasPrefix(t, "Atomic write at") || strings.HasPrefix(t, "Atomic read at") ||
				strings.HasPrefix(t, "Previous atomic write at") || strings.HasPrefix(t, "Previous atomic read at"):
				sec++
			case strings.HasPrefix(t, "Goroutine ") && (strings.Contains(t, "created at") || strings.Contains(t, "(running)") || strings.Contains(t, "(finished)")):
				sec = 99
			}
			if sec >= 0 && sec < 2 {
				if m := funcLine.FindStringSubmatch(line); m != nil {
					rep.Access[sec] = append(rep.Access[sec], m[1])
				}
			}
		}
		if len(rep.Text) > 6000 {
			rep.Text = rep.Text[:6000]
		}
		res = append(res, rep)
	}
	return res
}

func stripLineInfo(fn string) string { return fn }

// InnermostRepoFrames returns, for each access stack, the innermost frame that
// lies in the stargz-snapshotter module ("" when none).
func (r RaceReport) InnermostRepoFrames() (string, string) {
	f := func(st []string) string {
		for _, fn := range st {
			if strings.HasPrefix(fn, repoMod) {
				return strings.TrimPrefix(fn, repoMod)
			}
		}
		return ""
	}
	return f(r.Access[0]), f(r.Access[1])
}

// InnermostFrames returns the innermost frame of each access stack.
func (r RaceReport) InnermostFrames() (string, string) {
	f := func(st []string) string {
		if len(st) == 0 {
			return ""
		}
		return st[0]
	}
	return f(r.Access[0]), f(r.Access[1])
}

func (r RaceReport) attributed(attribution, exclude []string) bool {
	if len(attribution) == 0 {
		return false
	}
	hit := false
	for _, st := range r.Access {
		for _, fn := range st {
			if !strings.HasPrefix(fn, repoMod) {
				continue
			}
			short := strings.TrimPrefix(fn, repoMod)
			for _, e := range exclude {
				if strings.Contains(short, e) {
					return false
				}
			}
			for _, a := range attribution {
				if strings.Contains(short, a) {
					hit = true
				}
			}
		}
	}
	return hit
}
