//go:build race

package vf

const raceEnabled = true
