// Package vf is the small framework shared by every check binary: it reads the
// run parameters from the environment, counts what the monitors observed, matches
// violations against /verif/known_findings.json, writes the schema-conformant
// evidence file and turns the three-valued verdict into the exit-code contract.
//
//	exit 0  no violation among conclusive cases (KNOWN-FINDING lines may be printed)
//	exit 1  at least one violation not listed as known: "VIOLATION property=<id> replay=<path>"
//	exit 3  INCONCLUSIVE: the monitors observed less than the check's floor
package vf

import (
	"crypto/sha256"
	"encoding/hex"
	"encoding/json"
	"fmt"
	"os"
	"os/exec"
	"path/filepath"
	"runtime"
	"runtime/debug"
	"sort"
	"strconv"
	"strings"
	"sync"
	"syscall"
	"time"

	"verifharness/internal/prng"
)

// Violation is one refutation of the property.
type Violation struct {
	// Key is the stable identity of the failing input / call site / history class.
	// It is what known_findings.json matches on.
	Key string `json:"key"`
	// What is a one-line human description.
	What string `json:"what"`
	// Replay holds whatever is needed to reproduce (input bytes as hex/base64, the
	// operation sequence, the hook order, seed and case index).
	Replay any `json:"replay,omitempty"`
	// Count is how many times this key was seen (violations are de-duplicated by key).
	Count int `json:"count"`
}

// Inconclusive is a case that could not be decided.
type Inconclusive struct {
	Reason string `json:"reason"`
	Count  int    `json:"count"`
}

// Run accumulates what one check execution observed. All methods are safe for
// concurrent use.
type Run struct {
	ID        string
	Tier      string // "quick" | "thorough"
	Seed      uint64
	Scratch   string // private scratch directory (removed by run.sh)
	VerifDir  string // /verif
	RaceBuild bool   // this binary was built with -race
	Child     string // non-empty when running as a child stage; the stage name
	ChildArgs []string

	level string
	rule  string
	floor int
	start time.Time

	mu          sync.Mutex
	evals       int64
	nontrivial  map[string]struct{}
	samples     []any
	maxSamples  int
	viol        map[string]*Violation
	violOrder   []string
	inconcl     map[string]int
	counters    map[string]int64
	extra       map[string]any
	assumptions []string
	distinct    map[string]map[string]struct{}
}

// partial is what a child stage hands back to its parent.
type partial struct {
	Evals      int64               `json:"evals"`
	Nontrivial []string            `json:"nontrivial"`
	Samples    []any               `json:"samples"`
	Viol       []*Violation        `json:"viol"`
	Inconcl    map[string]int      `json:"inconcl"`
	Counters   map[string]int64    `json:"counters"`
	Extra      map[string]any      `json:"extra"`
	Distinct   map[string][]string `json:"distinct"`
}

func envOr(k, d string) string {
	if v := os.Getenv(k); v != "" {
		return v
	}
	return d
}

// Main is the entry point of every check binary.
//
//	level: "exploration" | "fault_enumeration" (must match MANIFEST.json)
//	rule:  how cases are generated and what makes one distinct and non-trivial
//	floor: minimal number of distinct non-trivial cases below which the run is INCONCLUSIVE (per tier)
func Main(id, level, rule string, floorQuick, floorThorough int, body func(r *Run)) {
	r := &Run{
		ID: id, level: level, rule: rule,
		Tier:       envOr("VERIF_TIER", "quick"),
		Scratch:    envOr("VERIF_SCRATCH", ""),
		VerifDir:   envOr("VERIF_DIR", "/verif"),
		RaceBuild:  raceEnabled,
		Child:      os.Getenv("VERIF_STAGE"),
		start:      time.Now(),
		nontrivial: map[string]struct{}{},
		viol:       map[string]*Violation{},
		inconcl:    map[string]int{},
		counters:   map[string]int64{},
		extra:      map[string]any{},
		distinct:   map[string]map[string]struct{}{},
		maxSamples: 12,
	}
	if r.Tier != "quick" && r.Tier != "thorough" {
		r.Tier = "quick"
	}
	r.floor = floorQuick
	if r.Tier == "thorough" {
		r.floor = floorThorough
	}
	seed, err := strconv.ParseUint(envOr("VERIF_SEED", "1"), 10, 64)
	if err != nil {
		seed = 1
	}
	r.Seed = seed
	if a := os.Getenv("VERIF_CHILD_ARGS"); a != "" {
		_ = json.Unmarshal([]byte(a), &r.ChildArgs)
	}
	if r.Scratch == "" {
		d, err := os.MkdirTemp("/var/tmp", "verif-"+id+"-")
		if err != nil {
			fmt.Fprintln(os.Stderr, "cannot create scratch:", err)
			os.Exit(2)
		}
		r.Scratch = d
		if r.Child == "" {
			defer os.RemoveAll(d)
		}
	}
	// Bound memory of plain builds (race builds map huge shadow regions).
	if !raceEnabled {
		lim := uint64(24 << 30)
		_ = syscall.Setrlimit(syscall.RLIMIT_AS, &syscall.Rlimit{Cur: lim, Max: lim})
	}
	debug.SetTraceback("all")

	body(r)

	if r.Child != "" {
		r.writePartial()
		os.Exit(0)
	}
	os.Exit(r.finish())
}

// RNG returns the deterministic stream for the given labels under this run's seed and tier.
func (r *Run) RNG(labels ...uint64) *prng.R {
	t := uint64(0)
	if r.Tier == "thorough" {
		t = 1
	}
	base := prng.New(r.Seed).DeriveS(r.ID).Derive(t)
	return base.Derive(labels...)
}

// N picks the per-tier case count.
func (r *Run) N(quick, thorough int) int {
	if r.Tier == "thorough" {
		return thorough
	}
	return quick
}

func (r *Run) Thorough() bool { return r.Tier == "thorough" }

// Eval counts n executed cases.
func (r *Run) Eval(n int) {
	r.mu.Lock()
	r.evals += int64(n)
	r.mu.Unlock()
}

// NonTrivial records a case (identified by its descriptor string) that satisfied
// the check's non-triviality rule. Distinct descriptors are counted.
func (r *Run) NonTrivial(desc string) {
	h := sha256.Sum256([]byte(desc))
	k := hex.EncodeToString(h[:8])
	r.mu.Lock()
	r.nontrivial[k] = struct{}{}
	r.mu.Unlock()
}

// Sample stores an actual case for the evidence file (the first few only).
func (r *Run) Sample(v any) {
	r.mu.Lock()
	if len(r.samples) < r.maxSamples {
		r.samples = append(r.samples, v)
	}
	r.mu.Unlock()
}

// Count adds n to a named monitor counter (events per kind, hook hits, ...).
func (r *Run) Count(name string, n int) {
	r.mu.Lock()
	r.counters[name] += int64(n)
	r.mu.Unlock()
}

// Distinct records a distinct value in a named set (distinct hook orders, error
// strings, personalities, ...); the evidence reports the set sizes and a few members.
func (r *Run) Distinct(set, value string) {
	r.mu.Lock()
	m := r.distinct[set]
	if m == nil {
		m = map[string]struct{}{}
		r.distinct[set] = m
	}
	if len(m) < 100000 {
		m[value] = struct{}{}
	}
	r.mu.Unlock()
}

// Set stores an extra coverage key.
func (r *Run) Set(name string, v any) {
	r.mu.Lock()
	r.extra[name] = v
	r.mu.Unlock()
}

// Assume records a trusted-base / assumption string for the evidence file.
func (r *Run) Assume(s string) {
	r.mu.Lock()
	r.assumptions = append(r.assumptions, s)
	r.mu.Unlock()
}

// Violate records a violation. key must be stable across runs and seeds for the
// same defect (a class of failing inputs, a call site, an oracle clause in a
// named scenario), never a counter or a random value.
func (r *Run) Violate(key, what string, replay any) {
	r.mu.Lock()
	defer r.mu.Unlock()
	if v, ok := r.viol[key]; ok {
		v.Count++
		return
	}
	r.viol[key] = &Violation{Key: key, What: what, Replay: replay, Count: 1}
	r.violOrder = append(r.violOrder, key)
}

// Inconclusive records a case that could not be decided (watchdog, checker
// timeout, hook never reached, capability missing).
func (r *Run) Inconclusive(reason string) {
	r.mu.Lock()
	r.inconcl[reason]++
	r.mu.Unlock()
}

// Violations returns the number of distinct violation keys so far.
func (r *Run) Violations() int {
	r.mu.Lock()
	defer r.mu.Unlock()
	return len(r.viol)
}

func (r *Run) Logf(format string, a ...any) {
	fmt.Fprintf(os.Stderr, "[%s %s] "+format+"\n", append([]any{r.ID, time.Since(r.start).Round(time.Millisecond)}, a...)...)
}

// ---------------------------------------------------------------------------
// child stages

// ChildSpec describes a child stage.
type ChildSpec struct {
	Stage   string        // name handed to the child in Run.Child
	Args    []string      // handed to the child in Run.ChildArgs
	Race    bool          // use the -race build of this same check
	Timeout time.Duration // watchdog (SIGQUIT then SIGKILL); firing => Exit.TimedOut
	Env     []string      // extra environment
	// Attribution: substrings of function names (e.g. "fs/remote.", "cacheutil.(*TTLCache)").
	// A race report counts against the property iff a frame of one of its two access
	// stacks that lies in the stargz-snapshotter module contains one of them.
	Attribution []string
	// Exclude: substrings of function names whose races are never attributed
	// (deliberately unsynchronised statistics).
	Exclude []string
	NoMerge bool // do not merge the child's partial result into this run
}

// ChildExit says how a child ended.
type ChildExit struct {
	ExitCode int
	Signal   string
	TimedOut bool
	Output   string // path of combined stdout+stderr
	Tail     string // last part of the output
	Partial  bool   // the child delivered a partial result
	Races    []RaceReport
}

// RunChild runs a stage of this same check in a child process (optionally the
// race build), waits for it, merges its counters/violations and parses its race log.
func (r *Run) RunChild(spec ChildSpec) ChildExit {
	bin := os.Getenv("VERIF_PLAIN_BIN")
	if spec.Race {
		bin = os.Getenv("VERIF_RACE_BIN")
	}
	if bin == "" {
		self, _ := os.Executable()
		bin = self
	}
	r.mu.Lock()
	r.counters["children_started"]++
	n := r.counters["children_started"]
	r.mu.Unlock()
	dir := filepath.Join(r.Scratch, fmt.Sprintf("child-%s-%d", spec.Stage, n))
	_ = os.MkdirAll(dir, 0o755)
	outPath := filepath.Join(dir, "output.txt")
	out, _ := os.Create(outPath)
	args, _ := json.Marshal(spec.Args)
	cmd := exec.Command(bin)
	cmd.Stdout = out
	cmd.Stderr = out
	cmd.Env = append(os.Environ(),
		"VERIF_STAGE="+spec.Stage,
		"VERIF_CHILD_ARGS="+string(args),
		"VERIF_SCRATCH="+dir,
		"VERIF_PARTIAL="+filepath.Join(dir, "partial.json"),
		"GORACE=halt_on_error=0 exitcode=0 history_size=5 log_path="+filepath.Join(dir, "race"),
		"GOTRACEBACK=all",
	)
	cmd.Env = append(cmd.Env, spec.Env...)
	cmd.SysProcAttr = &syscall.SysProcAttr{Setpgid: true}
	var ex ChildExit
	ex.Output = outPath
	if err := cmd.Start(); err != nil {
		ex.ExitCode = -1
		ex.Tail = err.Error()
		return ex
	}
	done := make(chan error, 1)
	go func() { done <- cmd.Wait() }()
	to := spec.Timeout
	if to == 0 {
		to = 10 * time.Minute
	}
	var werr error
	select {
	case werr = <-done:
	case <-time.After(to):
		ex.TimedOut = true
		_ = syscall.Kill(-cmd.Process.Pid, syscall.SIGQUIT)
		select {
		case werr = <-done:
		case <-time.After(20 * time.Second):
			_ = syscall.Kill(-cmd.Process.Pid, syscall.SIGKILL)
			werr = <-done
		}
	}
	out.Close()
	if werr != nil {
		if ee, ok := werr.(*exec.ExitError); ok {
			ws := ee.Sys().(syscall.WaitStatus)
			if ws.Signaled() {
				ex.Signal = ws.Signal().String()
				ex.ExitCode = -1
			} else {
				ex.ExitCode = ws.ExitStatus()
			}
		} else {
			ex.ExitCode = -1
		}
	}
	ex.Tail = tailOf(outPath, 6000)
	if b, err := os.ReadFile(filepath.Join(dir, "partial.json")); err == nil {
		var p partial
		if json.Unmarshal(b, &p) == nil {
			ex.Partial = true
			if !spec.NoMerge {
				r.merge(&p)
			}
		}
	}
	ex.Races = ParseRaceLogs(filepath.Join(dir, "race"))
	r.accountRaces(ex.Races, spec.Attribution, spec.Exclude)
	return ex
}

func tailOf(path string, n int64) string {
	f, err := os.Open(path)
	if err != nil {
		return ""
	}
	defer f.Close()
	st, _ := f.Stat()
	off := st.Size() - n
	if off < 0 {
		off = 0
	}
	b := make([]byte, st.Size()-off)
	_, _ = f.ReadAt(b, off)
	return string(b)
}

func (r *Run) merge(p *partial) {
	r.mu.Lock()
	defer r.mu.Unlock()
	r.evals += p.Evals
	for _, k := range p.Nontrivial {
		r.nontrivial[k] = struct{}{}
	}
	for _, s := range p.Samples {
		if len(r.samples) < r.maxSamples {
			r.samples = append(r.samples, s)
		}
	}
	for _, v := range p.Viol {
		if e, ok := r.viol[v.Key]; ok {
			e.Count += v.Count
		} else {
			r.viol[v.Key] = v
			r.violOrder = append(r.violOrder, v.Key)
		}
	}
	for k, n := range p.Inconcl {
		r.inconcl[k] += n
	}
	for k, n := range p.Counters {
		r.counters[k] += n
	}
	for k, v := range p.Extra {
		r.extra[k] = v
	}
	for set, vals := range p.Distinct {
		m := r.distinct[set]
		if m == nil {
			m = map[string]struct{}{}
			r.distinct[set] = m
		}
		for _, v := range vals {
			m[v] = struct{}{}
		}
	}
}

func (r *Run) writePartial() {
	r.mu.Lock()
	defer r.mu.Unlock()
	p := partial{Evals: r.evals, Samples: r.samples, Inconcl: r.inconcl, Counters: r.counters, Extra: r.extra, Distinct: map[string][]string{}}
	for k := range r.nontrivial {
		p.Nontrivial = append(p.Nontrivial, k)
	}
	for _, k := range r.violOrder {
		p.Viol = append(p.Viol, r.viol[k])
	}
	for set, m := range r.distinct {
		for v := range m {
			p.Distinct[set] = append(p.Distinct[set], v)
		}
	}
	path := os.Getenv("VERIF_PARTIAL")
	if path == "" {
		return
	}
	b, _ := json.Marshal(&p)
	tmp := path + ".tmp"
	if err := os.WriteFile(tmp, b, 0o644); err == nil {
		_ = os.Rename(tmp, path)
	}
}

// FlushPartial lets a child persist what it has so far (call it periodically in
// journaled batches so that a crash loses little).
func (r *Run) FlushPartial() { r.writePartial() }

// ---------------------------------------------------------------------------
// race accounting

func (r *Run) accountRaces(reps []RaceReport, attribution, exclude []string) {
	for _, rep := range reps {
		r.Count("race_reports_total", 1)
		if rep.attributed(attribution, exclude) {
			a, b := rep.InnermostRepoFrames()
			fr := []string{a, b}
			sort.Strings(fr)
			key := "race:" + fr[0] + "|" + fr[1]
			r.Violate(key, "data race between "+fr[0]+" and "+fr[1], map[string]any{"report": rep.Text})
			r.Distinct("attributed_races", key)
		} else {
			a, b := rep.InnermostFrames()
			r.Distinct("unattributed_races", a+"|"+b)
		}
	}
}

// AccountOwnRaces parses the race log of this very process (when it is a race
// build started by run.sh with GORACE log_path=$VERIF_RACELOG) and accounts the
// reports. Call it at the end of the body of a check that runs its workload in
// the top-level race process.
func (r *Run) AccountOwnRaces(attribution, exclude []string) {
	p := os.Getenv("VERIF_RACELOG")
	if p == "" || !raceEnabled {
		return
	}
	r.accountRaces(ParseRaceLogs(p), attribution, exclude)
}

// ---------------------------------------------------------------------------
// finish

type knownFinding struct {
	Property string   `json:"property"`
	AlsoKeys []string `json:"also_keys,omitempty"` // further keys produced by the same defect
	Key      string   `json:"key"`
	What     string   `json:"what"`
	Status   string   `json:"status"` // "known" | "fixed"
	Commit   string   `json:"commit,omitempty"`
}

func (r *Run) loadKnown() map[string]knownFinding {
	res := map[string]knownFinding{}
	b, err := os.ReadFile(filepath.Join(r.VerifDir, "known_findings.json"))
	if err != nil {
		return res
	}
	var doc struct {
		Findings []knownFinding `json:"findings"`
	}
	if json.Unmarshal(b, &doc) != nil {
		return res
	}
	for _, f := range doc.Findings {
		if f.Property == r.ID && f.Status == "known" {
			res[f.Key] = f
			for _, k := range f.AlsoKeys {
				res[k] = f
			}
		}
	}
	return res
}

func (r *Run) finish() int {
	r.mu.Lock()
	defer r.mu.Unlock()
	known := r.loadKnown()
	evDir := envOr("VERIF_EVIDENCE_DIR", filepath.Join(r.VerifDir, "evidence"))
	_ = os.MkdirAll(filepath.Join(evDir, "replay"), 0o755)

	newViol := 0
	var knownSeen, violOut []map[string]any
	seenKnownKeys := map[string]bool{}
	for i, k := range r.violOrder {
		v := r.viol[k]
		if kf, ok := known[k]; ok {
			seenKnownKeys[k] = true
			fmt.Printf("KNOWN-FINDING: property=%s %s [key=%s, seen %d×]\n", r.ID, kf.What, k, v.Count)
			knownSeen = append(knownSeen, map[string]any{"key": k, "what": v.What, "count": v.Count})
			continue
		}
		newViol++
		rp := filepath.Join(evDir, "replay", fmt.Sprintf("%s-%s-s%d-%d.json", r.ID, r.Tier, r.Seed, i))
		b, _ := json.MarshalIndent(map[string]any{"property": r.ID, "seed": r.Seed, "tier": r.Tier, "key": v.Key, "what": v.What, "replay": v.Replay}, "", " ")
		_ = os.WriteFile(rp, b, 0o644)
		fmt.Printf("VIOLATION property=%s replay=%s\n", r.ID, rp)
		fmt.Printf("  key=%s\n  what=%s\n", v.Key, oneLine(v.What))
		violOut = append(violOut, map[string]any{"key": k, "what": v.What, "count": v.Count, "replay": rp})
	}
	// Known findings listed but not reproduced in this run are reported in the
	// evidence only (they are not an error: a finding may need the thorough tier).
	var knownNotSeen []string
	for k := range known {
		if !seenKnownKeys[k] {
			knownNotSeen = append(knownNotSeen, k)
		}
	}
	sort.Strings(knownNotSeen)

	cov := map[string]any{
		"evaluations":         r.evals,
		"distinct_nontrivial": len(r.nontrivial),
		"rule":                r.rule,
		"samples":             r.samples,
		"monitor_counters":    r.counters,
		"inconclusive":        r.inconcl,
		"floor":               r.floor,
	}
	if r.samples == nil {
		cov["samples"] = []any{}
	}
	ds := map[string]any{}
	for set, m := range r.distinct {
		members := make([]string, 0, len(m))
		for v := range m {
			members = append(members, v)
		}
		sort.Strings(members)
		show := members
		if len(show) > 40 {
			show = show[:40]
		}
		ds[set] = map[string]any{"count": len(members), "members": show}
	}
	cov["distinct_observed"] = ds
	for k, v := range r.extra {
		cov[k] = v
	}
	if len(knownSeen) > 0 {
		cov["known_findings_reproduced"] = knownSeen
	}
	if len(knownNotSeen) > 0 {
		cov["known_findings_not_reproduced_this_run"] = knownNotSeen
	}
	if len(violOut) > 0 {
		cov["violations"] = violOut
	}
	verdict := "held_on_observed"
	code := 0
	if newViol > 0 {
		verdict = "violated"
		code = 1
	} else if len(r.nontrivial) < r.floor || r.evals == 0 {
		verdict = "inconclusive"
		code = 3
	}
	cov["verdict"] = verdict
	cov["race_build"] = r.RaceBuild
	cov["go_version"] = runtime.Version()
	ev := map[string]any{
		"property_id": r.ID,
		"tier":        r.Tier,
		"seed":        r.Seed,
		"level":       r.level,
		"coverage":    cov,
		"assumptions": r.assumptions,
		"wall_s":      time.Since(r.start).Seconds(),
		"violations":  newViol,
	}
	if r.assumptions == nil {
		ev["assumptions"] = []string{}
	}
	b, err := json.MarshalIndent(ev, "", " ")
	if err != nil {
		fmt.Fprintln(os.Stderr, "evidence marshal:", err)
		return 2
	}
	p := filepath.Join(evDir, r.ID+".json")
	if err := os.WriteFile(p+".tmp", b, 0o644); err != nil {
		fmt.Fprintln(os.Stderr, "evidence write:", err)
		return 2
	}
	_ = os.Rename(p+".tmp", p)
	inc := 0
	for _, n := range r.inconcl {
		inc += n
	}
	fmt.Printf("%s %s seed=%d: verdict=%s evaluations=%d distinct_nontrivial=%d (floor %d) violations=%d known=%d inconclusive=%d wall=%.1fs\n",
		r.ID, r.Tier, r.Seed, verdict, r.evals, len(r.nontrivial), r.floor, newViol, len(knownSeen), inc, time.Since(r.start).Seconds())
	if code == 3 {
		fmt.Printf("INCONCLUSIVE property=%s: the monitors observed fewer non-trivial cases than the floor\n", r.ID)
	}
	return code
}

func oneLine(s string) string {
	s = strings.ReplaceAll(s, "\n", " ")
	if len(s) > 400 {
		s = s[:400] + "…"
	}
	return s
}

// Watchdog runs f with a generous wall-clock limit; if it fires the case is
// recorded as inconclusive (never a violation) and false is returned. f keeps
// running in its goroutine (the caller should treat its resources as leaked).
func (r *Run) Watchdog(d time.Duration, what string, f func()) bool {
	done := make(chan struct{})
	go func() {
		defer close(done)
		f()
	}()
	select {
	case <-done:
		return true
	case <-time.After(d):
		r.Inconclusive("watchdog: " + what)
		return false
	}
}

// Recover runs f and converts a panic into (panicked=true, value, stack).
func Recover(f func()) (panicked bool, val any, stack string) {
	defer func() {
		if x := recover(); x != nil {
			panicked = true
			val = x
			stack = string(debug.Stack())
		}
	}()
	f()
	return
}
