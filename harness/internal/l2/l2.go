// Package l2 assembles the in-process stack used by several checks ("level L2" of
// DESIGN.md): memreg registry -> layer.NewResolver (remote blob, both caches,
// metadata store memory|db) -> Layer -> go-fuse node interfaces, without the kernel.
package l2

import (
	"context"
	"encoding/json"
	"fmt"
	"io"
	"os"
	"path/filepath"

	"github.com/containerd/containerd/v2/pkg/reference"
	dbmetadata "github.com/containerd/stargz-snapshotter/cmd/containerd-stargz-grpc/db"
	"github.com/containerd/stargz-snapshotter/estargz"
	"github.com/containerd/stargz-snapshotter/fs/config"
	"github.com/containerd/stargz-snapshotter/fs/layer"
	"github.com/containerd/stargz-snapshotter/fs/source"
	"github.com/containerd/stargz-snapshotter/metadata"
	memorymetadata "github.com/containerd/stargz-snapshotter/metadata/memory"
	esgzexternaltoc "github.com/containerd/stargz-snapshotter/nativeconverter/estargz/externaltoc"
	"github.com/containerd/stargz-snapshotter/task"
	digest "github.com/opencontainers/go-digest"
	"github.com/opencontainers/image-spec/specs-go"
	ocispec "github.com/opencontainers/image-spec/specs-go/v1"
	bolt "go.etcd.io/bbolt"

	"verifharness/internal/blob"
	"verifharness/internal/memreg"
)

// MetadataStore returns the metadata.Store for kind "memory" or "db" (bolt file
// under root) and a close function.
func MetadataStore(kind, root string) (metadata.Store, func(), *bolt.DB, error) {
	switch kind {
	case "", "memory":
		return memorymetadata.NewReader, func() {}, nil, nil
	case "db":
		if err := os.MkdirAll(root, 0o700); err != nil {
			return nil, nil, nil, err
		}
		db, err := bolt.Open(filepath.Join(root, "metadata.db"), 0o600, &bolt.Options{
			NoFreelistSync: true, InitialMmapSize: 16 * 1024 * 1024, FreelistType: bolt.FreelistMapType,
		})
		if err != nil {
			return nil, nil, nil, err
		}
		return func(sr *io.SectionReader, opts ...metadata.Option) (metadata.Reader, error) {
			return dbmetadata.NewReader(db, sr, opts...)
		}, func() { db.Close() }, db, nil
	}
	return nil, nil, nil, fmt.Errorf("unknown metadata store %q", kind)
}

// Env is one resolver on one registry.
type Env struct {
	Reg      *memreg.Registry
	Hosts    source.RegistryHosts
	Resolver *layer.Resolver
	TM       *task.BackgroundTaskManager
	Root     string
	Cfg      config.Config
	DB       *bolt.DB
	closeMS  func()
}

// NewEnv builds a layer.Resolver exactly as fs.NewFilesystem does (same constructor,
// external-TOC decompressor as service.NewFileSystem adds it).
func NewEnv(reg *memreg.Registry, root string, cfg config.Config, store string, opaque layer.OverlayOpaqueType, silence int64) (*Env, error) {
	ms, closeMS, db, err := MetadataStore(store, root)
	if err != nil {
		return nil, err
	}
	maxc := cfg.MaxConcurrency
	if maxc == 0 {
		maxc = 2
	}
	tm := task.NewBackgroundTaskManager(maxc, 0)
	hosts := reg.Hosts(nil)
	r, err := layer.NewResolver(root, tm, cfg, nil, ms, opaque,
		func(ctx context.Context, hosts source.RegistryHosts, refspec reference.Spec, desc ocispec.Descriptor) []metadata.Decompressor {
			return []metadata.Decompressor{esgzexternaltoc.NewRemoteDecompressor(ctx, hosts, refspec, desc)}
		})
	if err != nil {
		closeMS()
		return nil, err
	}
	return &Env{Reg: reg, Hosts: hosts, Resolver: r, TM: tm, Root: root, Cfg: cfg, DB: db, closeMS: closeMS}, nil
}

func (e *Env) Close() { e.closeMS() }

// Image is an image published in memreg.
type Image struct {
	Host, Repo, Tag string
	Ref             reference.Spec
	Manifest        ocispec.Manifest
	ManifestDesc    ocispec.Descriptor
	Layers          []ocispec.Descriptor
}

// LayerName is the key the layer resolver uses for its caches.
func (im *Image) LayerName(i int) string { return im.Ref.String() + "/" + im.Layers[i].Digest.String() }

// MediaTypeFor returns the OCI layer media type of a compression.
func MediaTypeFor(compression string) string {
	if compression == "zstdchunked" {
		return ocispec.MediaTypeImageLayerZstd
	}
	return ocispec.MediaTypeImageLayerGzip
}

// Publish stores the blobs, a config and a manifest for host/repo:tag in the registry,
// plus the "<tag>-esgztoc" TOC image when a layer uses an external TOC.
func Publish(reg *memreg.Registry, host, repo, tag string, layers []*blob.Built) (*Image, error) {
	im := &Image{Host: host, Repo: repo, Tag: tag}
	ref, err := reference.Parse(host + "/" + repo + ":" + tag)
	if err != nil {
		return nil, err
	}
	im.Ref = ref
	var diffIDs []digest.Digest
	var tocLayers []ocispec.Descriptor
	for _, b := range layers {
		d := reg.AddBlob(host, repo, b.Blob)
		desc := ocispec.Descriptor{
			MediaType: MediaTypeFor(b.Opts.Compression),
			Digest:    d,
			Size:      int64(len(b.Blob)),
			Annotations: map[string]string{
				estargz.TOCJSONDigestAnnotation: b.TOCDigest.String(),
			},
		}
		im.Layers = append(im.Layers, desc)
		diffIDs = append(diffIDs, b.DiffID)
		if b.ExternalTOC != nil {
			td := reg.AddBlob(host, repo, b.ExternalTOC)
			tocLayers = append(tocLayers, ocispec.Descriptor{
				MediaType:   ocispec.MediaTypeImageLayerGzip,
				Digest:      td,
				Size:        int64(len(b.ExternalTOC)),
				Annotations: map[string]string{"containerd.io/snapshot/stargz/layer.digest": d.String()},
			})
		}
	}
	put := func(tag string, ls []ocispec.Descriptor, diffs []digest.Digest) (ocispec.Manifest, ocispec.Descriptor) {
		cfg := ocispec.Image{Platform: ocispec.Platform{Architecture: "amd64", OS: "linux"}, RootFS: ocispec.RootFS{Type: "layers", DiffIDs: diffs}}
		cb, _ := json.Marshal(cfg)
		cd := reg.AddBlob(host, repo, cb)
		m := ocispec.Manifest{
			Versioned: specs.Versioned{SchemaVersion: 2},
			MediaType: ocispec.MediaTypeImageManifest,
			Config:    ocispec.Descriptor{MediaType: ocispec.MediaTypeImageConfig, Digest: cd, Size: int64(len(cb))},
			Layers:    ls,
		}
		mb, _ := json.Marshal(m)
		md := reg.AddManifest(host, repo, tag, ocispec.MediaTypeImageManifest, mb)
		return m, ocispec.Descriptor{MediaType: ocispec.MediaTypeImageManifest, Digest: md, Size: int64(len(mb))}
	}
	im.Manifest, im.ManifestDesc = put(tag, im.Layers, diffIDs)
	if len(tocLayers) > 0 {
		var d []digest.Digest
		for _, l := range tocLayers {
			d = append(d, l.Digest) // not real diff ids; the TOC image is never unpacked
		}
		put(tag+"-esgztoc", tocLayers, d)
	}
	return im, nil
}

// Resolve resolves layer i of the image through the env's resolver.
func (e *Env) Resolve(ctx context.Context, im *Image, i int, opts ...metadata.Option) (layer.Layer, error) {
	return e.Resolver.Resolve(ctx, e.Hosts, im.Ref, im.Layers[i], opts...)
}
