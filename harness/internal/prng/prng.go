// Package prng is a small deterministic splitmix64 stream. Every case list in the
// harness is a pure function of (seed, tier, case index) through this package.
package prng

import "encoding/binary"

type R struct{ s uint64 }

func New(seed uint64) *R { return &R{s: seed*0x9E3779B97F4A7C15 + 0x1234567} }

// Derive returns an independent stream for (r's seed, labels...).
func (r *R) Derive(labels ...uint64) *R {
	s := r.s
	for _, l := range labels {
		s = mix(s ^ mix(l+0x9E3779B97F4A7C15))
	}
	return &R{s: s}
}

// DeriveS derives by string label.
func (r *R) DeriveS(label string) *R {
	var h uint64 = 1469598103934665603
	for i := 0; i < len(label); i++ {
		h ^= uint64(label[i])
		h *= 1099511628211
	}
	return r.Derive(h)
}

func mix(z uint64) uint64 {
	z = (z ^ (z >> 30)) * 0xBF58476D1CE4E5B9
	z = (z ^ (z >> 27)) * 0x94D049BB133111EB
	return z ^ (z >> 31)
}

func (r *R) U64() uint64 {
	r.s += 0x9E3779B97F4A7C15
	return mix(r.s)
}

// Intn returns a value in [0,n). n<=0 returns 0.
func (r *R) Intn(n int) int {
	if n <= 0 {
		return 0
	}
	return int(r.U64() % uint64(n))
}

func (r *R) Int63n(n int64) int64 {
	if n <= 0 {
		return 0
	}
	return int64(r.U64() % uint64(n))
}

// Range returns a value in [lo,hi].
func (r *R) Range(lo, hi int) int {
	if hi <= lo {
		return lo
	}
	return lo + r.Intn(hi-lo+1)
}

func (r *R) Bool() bool { return r.U64()&1 == 1 }

// Chance returns true with probability num/den.
func (r *R) Chance(num, den int) bool { return r.Intn(den) < num }

func (r *R) Bytes(n int) []byte {
	b := make([]byte, n+8)
	for i := 0; i < n; i += 8 {
		binary.LittleEndian.PutUint64(b[i:], r.U64())
	}
	return b[:n]
}

func (r *R) Perm(n int) []int {
	p := make([]int, n)
	for i := range p {
		p[i] = i
	}
	for i := n - 1; i > 0; i-- {
		j := r.Intn(i + 1)
		p[i], p[j] = p[j], p[i]
	}
	return p
}

// Pick returns one of the given ints.
func (r *R) Pick(v ...int) int { return v[r.Intn(len(v))] }

// PickS returns one of the given strings.
func (r *R) PickS(v ...string) string { return v[r.Intn(len(v))] }

// Hash64 is a stateless hash of the arguments (used for self-describing content).
func Hash64(vs ...uint64) uint64 {
	var s uint64 = 0x243F6A8885A308D3
	for _, v := range vs {
		s = mix(s ^ mix(v+0x9E3779B97F4A7C15))
	}
	return s
}
