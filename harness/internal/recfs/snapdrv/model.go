// Package snapdrv drives the real snapshot.NewSnapshotter over a recfs backend with
// generated operation sequences, keeps a small reference model of what the
// snapshotter must contain, and applies the C08 oracle clauses after every operation.
// It is shared by cmd/c08 (which reports the clauses as violations) and cmd/c09
// (which uses the same driver to produce histories whose crash images it restarts).
package snapdrv

import (
	"fmt"
	"sort"
	"strings"
)

const (
	TargetLabel = "containerd.io/snapshot.ref"
	RemoteLabel = "containerd.io/snapshot/remote"
	UserLabel   = "verif.io/u"

	Active    = "active"
	View      = "view"
	Committed = "committed"
)

// Snap is what the model knows about one snapshot.
type Snap struct {
	Kind   string            `json:"kind"`
	Parent string            `json:"parent,omitempty"`
	Labels map[string]string `json:"labels,omitempty"`
	ID     string            `json:"id,omitempty"` // learned from the id map after creation; never changes
	// Mounted: a backend mount was established on this snapshot's directory (remote
	// Prepare, restore, or the mount of a Prepare whose target already existed) and
	// must stay until the snapshot is removed or the snapshotter closes.
	Mounted bool `json:"mounted,omitempty"`
	// Marker is the content of the marker file dropped into the upper directory
	// while the snapshot was an ordinary active snapshot ("" = none).
	Marker string `json:"marker,omitempty"`
}

func (s *Snap) clone() *Snap {
	c := *s
	c.Labels = copyLabels(s.Labels)
	return &c
}

// Remote reports whether the snapshot carries the remote label.
func (s *Snap) Remote() bool { _, ok := s.Labels[RemoteLabel]; return ok }

// Model is the reference state: name/key -> snapshot.
type Model struct {
	Snaps map[string]*Snap `json:"snaps"`
}

func NewModel() *Model { return &Model{Snaps: map[string]*Snap{}} }

func (m *Model) Clone() *Model {
	c := NewModel()
	for k, v := range m.Snaps {
		c.Snaps[k] = v.clone()
	}
	return c
}

// Chain returns the ancestors of name, nearest first (not including name).
func (m *Model) Chain(name string) []string {
	var res []string
	s := m.Snaps[name]
	for i := 0; s != nil && s.Parent != "" && i < 10000; i++ {
		res = append(res, s.Parent)
		s = m.Snaps[s.Parent]
	}
	return res
}

// ChainFromParent returns parent and its ancestors, nearest first.
func (m *Model) ChainFromParent(parent string) []string {
	if parent == "" {
		return nil
	}
	return append([]string{parent}, m.Chain(parent)...)
}

// HasChildren reports whether any snapshot names name as its parent.
func (m *Model) HasChildren(name string) bool {
	for _, s := range m.Snaps {
		if s.Parent == name {
			return true
		}
	}
	return false
}

// Names returns the sorted names of snapshots satisfying pred.
func (m *Model) Names(pred func(name string, s *Snap) bool) []string {
	var res []string
	for k, v := range m.Snaps {
		if pred == nil || pred(k, v) {
			res = append(res, k)
		}
	}
	sort.Strings(res)
	return res
}

func copyLabels(l map[string]string) map[string]string {
	c := make(map[string]string, len(l))
	for k, v := range l {
		c[k] = v
	}
	return c
}

func labelsEqual(a, b map[string]string) bool {
	if len(a) != len(b) {
		return false
	}
	for k, v := range a {
		if w, ok := b[k]; !ok || w != v {
			return false
		}
	}
	return true
}

// LabelsEqual is the exported comparison (nil equals empty).
func LabelsEqual(a, b map[string]string) bool { return labelsEqual(a, b) }

func labelsString(l map[string]string) string {
	ks := make([]string, 0, len(l))
	for k := range l {
		ks = append(ks, k)
	}
	sort.Strings(ks)
	var sb strings.Builder
	for _, k := range ks {
		fmt.Fprintf(&sb, "%s=%s;", k, l[k])
	}
	return sb.String()
}

// Op is one generated operation.
type Op struct {
	Kind   string `json:"op"` // prepare view commit mounts remove cleanup update stat walk toggle reopen
	Key    string `json:"key,omitempty"`
	Parent string `json:"parent,omitempty"`
	Name   string `json:"name,omitempty"` // commit: the new name
	// Prepare only: the target label (HasTarget distinguishes "" from absent)
	HasTarget bool   `json:"has_target,omitempty"`
	Target    string `json:"target,omitempty"`
	Val       string `json:"val,omitempty"` // user label value (prepare/view/commit/update)
	// Prepare with target only: while the backend Mount of this call is in progress the
	// harness itself calls Prepare(Target, "") ("prepare") or View(Target, "") ("view")
	Inject string `json:"inject,omitempty"`
	// Prepare / View: filesystem fault under snapshots/ planted before the call: a
	// populated directory ("dir") or a regular file ("file") named like the NEXT snapshot id
	// (what a Prepare that died between rename and commit leaves: the id sequence was never
	// committed, so the next snapshot gets the same id and the rename onto it fails)
	Plant string `json:"plant,omitempty"`
	// fault script for this operation
	MountFail   bool `json:"mount_fail,omitempty"`
	CheckFail   bool `json:"check_fail,omitempty"` // every Check call of this operation fails
	UnmountFail bool `json:"unmount_fail,omitempty"`
	// toggle
	MP     string `json:"mp,omitempty"`
	Broken bool   `json:"broken,omitempty"`
	// walk
	Filter string `json:"filter,omitempty"`
	// reopen
	AllowInvalid bool  `json:"allow_invalid,omitempty"`
	Async        bool  `json:"async,omitempty"`
	FailMounts   []int `json:"fail_mounts,omitempty"` // indices of restore Mount calls that fail
}

func (o Op) String() string {
	switch o.Kind {
	case "prepare":
		t := ""
		if o.HasTarget {
			t = fmt.Sprintf(",target=%q", o.Target)
		}
		f := ""
		if o.MountFail {
			f += ",mountfail"
		}
		if o.CheckFail {
			f += ",checkfail"
		}
		if o.Inject != "" {
			f += ",during-mount:" + o.Inject + "(" + o.Target + ")"
		}
		if o.Plant != "" {
			f += ",planted-next-id:" + o.Plant
		}
		return fmt.Sprintf("Prepare(%s,parent=%q%s%s)", o.Key, o.Parent, t, f)
	case "view":
		f := ""
		if o.CheckFail {
			f = ",checkfail"
		}
		if o.Plant != "" {
			f += ",planted-next-id:" + o.Plant
		}
		return fmt.Sprintf("View(%s,parent=%q%s)", o.Key, o.Parent, f)
	case "commit":
		return fmt.Sprintf("Commit(%s<-%s)", o.Name, o.Key)
	case "mounts":
		f := ""
		if o.CheckFail {
			f = ",checkfail"
		}
		return fmt.Sprintf("Mounts(%s%s)", o.Key, f)
	case "remove":
		f := ""
		if o.UnmountFail {
			f = ",unmountfail"
		}
		return fmt.Sprintf("Remove(%s%s)", o.Key, f)
	case "cleanup":
		f := ""
		if o.UnmountFail {
			f = "unmountfail"
		}
		return "Cleanup(" + f + ")"
	case "update":
		return fmt.Sprintf("Update(%s,%s)", o.Key, o.Val)
	case "stat":
		return fmt.Sprintf("Stat(%s)", o.Key)
	case "walk":
		return fmt.Sprintf("Walk(%s)", o.Filter)
	case "toggle":
		return fmt.Sprintf("SetBroken(%s,%v)", shortMP(o.MP), o.Broken)
	case "reopen":
		return fmt.Sprintf("Close+Reopen(allowInvalid=%v,async=%v,failMounts=%v)", o.AllowInvalid, o.Async, o.FailMounts)
	}
	return o.Kind
}

func shortMP(mp string) string {
	i := strings.Index(mp, "/snapshots/")
	if i < 0 {
		return mp
	}
	return mp[i+1:]
}

// Script renders a sequence compactly (used as the case descriptor and in replays).
func Script(ops []Op) string {
	ss := make([]string, len(ops))
	for i, o := range ops {
		ss[i] = o.String()
	}
	return strings.Join(ss, "; ")
}
