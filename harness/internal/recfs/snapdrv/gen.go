package snapdrv

import (
	"fmt"

	"verifharness/internal/prng"
)

// Profile tunes the generator.
type Profile struct {
	Names        int  // size of the pool of committed names / targets ("n0".."n<Names-1>")
	Reopen       bool // generate Close+Reopen operations
	Collisions   bool // occasionally name an existing active/view key (or the key itself) as the target
	EmptyTarget  bool // occasionally use the empty string as target (internal commit fails with a non-AlreadyExists error)
	RestoreFails bool // reopen may fail some restore mounts (always together with AllowInvalidMountsOnRestart)
	InjectAtMount bool // occasionally let "another caller" create a key equal to the target name while the backend Mount runs
	PlantFaults   bool // occasionally plant a directory / file named like the next snapshot id before Prepare / View, then retry and Cleanup
	CrashHistory bool // C09 profile: more creation/commit/removal, fewer read-only operations
}

// Gen produces the next operation from the model's current state. Every choice comes
// from the deterministic stream, so a sequence is a pure function of the stream as
// long as the code under test behaves as the model predicts.
type Gen struct {
	Rng  *prng.R
	P    Profile
	keyN int
	valN int
	// pending operations (the retry and the Cleanup that follow a planted fault)
	pending []Op
}

func (g *Gen) pick(v []string) string {
	if len(v) == 0 {
		return ""
	}
	return v[g.Rng.Intn(len(v))]
}

func (g *Gen) freshKey() string {
	g.keyN++
	return fmt.Sprintf("k%d", g.keyN)
}

func (g *Gen) val() string {
	g.valN++
	return fmt.Sprintf("v%d", g.valN)
}

// Next generates one operation. mounted lists the backend's live mountpoints.
func (g *Gen) Next(m *Model, mounted []string) Op {
	if len(g.pending) > 0 {
		op := g.pending[0]
		g.pending = g.pending[1:]
		return op
	}
	op := g.next(m, mounted)
	if g.P.PlantFaults && (op.Kind == "prepare" || op.Kind == "view") && op.Inject == "" && g.Rng.Chance(7, 100) {
		op.Plant = g.Rng.PickS("dir", "dir", "file")
		op.MountFail = op.MountFail && g.Rng.Bool()
		retry := op
		retry.Plant = ""
		// the caller retries the very same call (once or twice), then a Cleanup pass runs
		g.pending = append(g.pending, retry)
		if g.Rng.Chance(1, 3) {
			g.pending = append(g.pending, retry)
		}
		g.pending = append(g.pending, Op{Kind: "cleanup"})
	}
	return op
}

func (g *Gen) next(m *Model, mounted []string) Op {
	r := g.Rng
	committed := m.Names(func(_ string, s *Snap) bool { return s.Kind == Committed })
	actives := m.Names(func(_ string, s *Snap) bool { return s.Kind == Active })
	workers := m.Names(func(_ string, s *Snap) bool { return s.Kind != Committed })
	all := m.Names(nil)
	var freeNames, usedNames []string
	for i := 0; i < g.P.Names; i++ {
		n := fmt.Sprintf("n%d", i)
		if m.Snaps[n] == nil {
			freeNames = append(freeNames, n)
		} else {
			usedNames = append(usedNames, n)
		}
	}
	pickParent := func() string {
		x := r.Intn(100)
		switch {
		case x < 25 || len(committed) == 0:
			if x >= 96 { // invalid: a parent that does not exist
				return "nx"
			}
			return ""
		case x < 94:
			// prefer recently created (deeper) names now and then to grow chains
			return g.pick(committed)
		case x < 97:
			return "nx"
		default:
			if len(workers) > 0 {
				return g.pick(workers) // invalid: parent is not committed
			}
			return g.pick(committed)
		}
	}
	x := r.Intn(1000)
	w := []int{400, 70, 150, 110, 100, 50, 30, 20, 20, 40, 10} // prepare view commit mounts remove cleanup update stat walk toggle reopen
	if g.P.CrashHistory {
		w = []int{430, 50, 190, 40, 150, 60, 30, 0, 0, 20, 60}
	}
	if !g.P.Reopen {
		w[10] = 0
	}
	total := 0
	for _, v := range w {
		total += v
	}
	x = x * total / 1000
	k := 0
	for ; k < len(w)-1; k++ {
		if x < w[k] {
			break
		}
		x -= w[k]
	}
	switch k {
	case 0: // prepare
		op := Op{Kind: "prepare", Parent: pickParent(), Val: g.val()}
		if len(all) > 0 && r.Chance(6, 100) {
			op.Key = g.pick(all) // existing key
		} else {
			op.Key = g.freshKey()
		}
		fresh := false
		if r.Chance(60, 100) {
			op.HasTarget = true
			y := r.Intn(100)
			switch {
			case g.P.EmptyTarget && y < 3:
				op.Target = ""
			case g.P.Collisions && y < 6 && len(workers) > 0:
				op.Target = g.pick(workers)
			case g.P.Collisions && y < 8:
				op.Target = op.Key
			case y < 70 && len(freeNames) > 0:
				op.Target = g.pick(freeNames)
				fresh = true
			case len(usedNames) > 0:
				op.Target = g.pick(usedNames)
			default:
				op.Target = g.pick(freeNames)
			}
			op.MountFail = r.Chance(30, 100)
			if g.P.InjectAtMount && fresh && r.Chance(25, 100) {
				op.MountFail = false
				op.Inject = r.PickS("prepare", "view")
			}
		}
		op.CheckFail = r.Chance(6, 100)
		return op
	case 1:
		op := Op{Kind: "view", Key: g.freshKey(), Parent: pickParent(), Val: g.val(), CheckFail: r.Chance(6, 100)}
		if len(all) > 0 && r.Chance(5, 100) {
			op.Key = g.pick(all)
		}
		return op
	case 2: // commit
		op := Op{Kind: "commit", Val: g.val()}
		switch {
		case len(actives) > 0 && r.Chance(90, 100):
			op.Key = g.pick(actives)
		case len(all) > 0:
			op.Key = g.pick(all)
		default:
			op.Key = "kx"
		}
		if r.Chance(45, 100) {
			g.keyN++
			op.Name = fmt.Sprintf("c%d", g.keyN)
		} else if len(freeNames) > 0 && r.Chance(80, 100) {
			op.Name = g.pick(freeNames)
		} else if len(all) > 0 {
			op.Name = g.pick(all)
		} else {
			op.Name = "n0"
		}
		return op
	case 3: // mounts
		op := Op{Kind: "mounts", CheckFail: r.Chance(8, 100)}
		switch {
		case len(workers) > 0 && r.Chance(90, 100):
			op.Key = g.pick(workers)
		case len(all) > 0:
			op.Key = g.pick(all)
		default:
			op.Key = "kx"
		}
		return op
	case 4: // remove
		op := Op{Kind: "remove", UnmountFail: r.Chance(10, 100)}
		if len(all) > 0 && r.Chance(95, 100) {
			// prefer removable ones
			var leaf []string
			for _, n := range all {
				if !m.HasChildren(n) {
					leaf = append(leaf, n)
				}
			}
			if len(leaf) > 0 && r.Chance(85, 100) {
				op.Key = g.pick(leaf)
			} else {
				op.Key = g.pick(all)
			}
		} else {
			op.Key = "kx"
		}
		return op
	case 5:
		return Op{Kind: "cleanup", UnmountFail: r.Chance(10, 100)}
	case 6:
		op := Op{Kind: "update", Val: g.val()}
		if len(all) > 0 && r.Chance(92, 100) {
			op.Key = g.pick(all)
		} else {
			op.Key = "kx"
		}
		return op
	case 7:
		op := Op{Kind: "stat"}
		if len(all) > 0 && r.Chance(80, 100) {
			op.Key = g.pick(all)
		} else {
			op.Key = "kx"
		}
		return op
	case 8:
		op := Op{Kind: "walk"}
		switch r.Intn(4) {
		case 0:
			op.Filter = "kind==committed"
		case 1:
			op.Filter = "kind==active"
		case 2:
			if len(committed) > 0 {
				op.Filter = "parent==" + g.pick(committed)
			}
		}
		return op
	case 9:
		if len(mounted) == 0 {
			return Op{Kind: "cleanup"}
		}
		return Op{Kind: "toggle", MP: g.pick(mounted), Broken: r.Chance(65, 100)}
	default:
		op := Op{Kind: "reopen", Async: r.Bool()}
		if g.P.RestoreFails && r.Chance(50, 100) {
			op.AllowInvalid = true
			nrem := len(m.Names(func(_ string, s *Snap) bool { return s.Kind == Committed && s.Remote() }))
			for i := 0; i < nrem; i++ {
				if r.Chance(35, 100) {
					op.FailMounts = append(op.FailMounts, i)
				}
			}
		} else {
			op.AllowInvalid = r.Chance(20, 100)
		}
		return op
	}
}
