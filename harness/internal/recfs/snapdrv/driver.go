package snapdrv

import (
	"context"
	"fmt"
	"os"
	"path/filepath"
	"sort"
	"strconv"
	"strings"
	"sync/atomic"
	"time"

	"github.com/containerd/containerd/v2/core/mount"
	"github.com/containerd/containerd/v2/core/snapshots"
	"github.com/containerd/errdefs"
	"github.com/containerd/stargz-snapshotter/snapshot"

	"verifharness/internal/recfs"
)

// Config configures a Driver.
type Config struct {
	Root    string
	Async   bool
	BindSrc string // non-empty: use the bind variant of recfs with this source directory
	Markers bool   // drop marker files into ordinary active snapshots' upper directories
	// sinks
	Violate  func(key, what string)
	Count    func(name string, n int)
	Distinct func(set, val string)
	// KeepStates keeps a clone of the model before and after every operation.
	KeepStates bool
}

// Driver executes operations against the real snapshotter and judges them.
type Driver struct {
	Cfg Config
	FS  *recfs.FS
	SN  snapshots.Snapshotter
	M   *Model

	Cur     int // index of the operation being executed, -1 between operations
	CurOp   *Op
	closing atomic.Bool
	Async   bool
	// Aborted is set when the sequence cannot be continued (model and code diverged,
	// or the snapshotter could not be reopened).
	Aborted string

	inj *injection
	// MaxID is the highest snapshot id seen in the id map so far; ids come from a
	// monotonic bbolt sequence that only advances with a committed creation, so the next
	// snapshot gets MaxID+1.
	MaxID int

	Before, After []*Model
	Classes       map[string]int
	ctx           context.Context
}

// Cleanup calls the snapshotter's Cleanup (snapshots.Cleaner).
func Cleanup(ctx context.Context, sn snapshots.Snapshotter) error {
	c, ok := sn.(snapshots.Cleaner)
	if !ok {
		return fmt.Errorf("snapshotter does not implement Cleanup")
	}
	return c.Cleanup(ctx)
}

// KindName maps a snapshots.Kind to the model's kind string.
func KindName(k snapshots.Kind) string {
	switch k {
	case snapshots.KindActive:
		return Active
	case snapshots.KindView:
		return View
	case snapshots.KindCommitted:
		return Committed
	}
	return "unknown"
}

// MP is the backend mountpoint of snapshot id under root.
func MP(root, id string) string { return filepath.Join(root, "snapshots", id, "fs") }

// IDOfMP extracts the snapshot id from a mountpoint below root ("" if it is none).
func IDOfMP(root, mp string) string {
	p := filepath.Join(root, "snapshots") + "/"
	if !strings.HasPrefix(mp, p) {
		return ""
	}
	rest := strings.TrimPrefix(mp, p)
	parts := strings.Split(rest, "/")
	if len(parts) != 2 || parts[1] != "fs" {
		return ""
	}
	return parts[0]
}

// New opens a snapshotter on cfg.Root.
func New(cfg Config) (*Driver, error) {
	d := &Driver{Cfg: cfg, M: NewModel(), Cur: -1, Async: cfg.Async, Classes: map[string]int{}, ctx: context.Background()}
	if d.Cfg.Count == nil {
		d.Cfg.Count = func(string, int) {}
	}
	if d.Cfg.Distinct == nil {
		d.Cfg.Distinct = func(string, string) {}
	}
	if err := d.open(false, nil); err != nil {
		return nil, err
	}
	return d, nil
}

func (d *Driver) newFS() (*recfs.FS, error) {
	var f *recfs.FS
	if d.Cfg.BindSrc != "" {
		var err error
		f, err = recfs.NewBind(d.Cfg.BindSrc)
		if err != nil {
			return nil, err
		}
	} else {
		f = recfs.New()
	}
	f.OnCall = d.onCall
	return f, nil
}

func (d *Driver) open(allowInvalid bool, failMounts []int) error {
	f, err := d.newFS()
	if err != nil {
		return err
	}
	fm := map[int]bool{}
	for _, i := range failMounts {
		fm[i] = true
	}
	f.SetScript(recfs.Script{FailMount: func(n int, _ string) bool { return fm[n] }})
	f.SetPhase("restore")
	d.FS = f
	var opts []snapshot.Opt
	if d.Async {
		opts = append(opts, snapshot.AsynchronousRemove)
	}
	if allowInvalid {
		opts = append(opts, snapshot.AllowInvalidMountsOnRestart)
	}
	sn, err := snapshot.NewSnapshotter(d.ctx, d.Cfg.Root, f, opts...)
	if err != nil {
		return err
	}
	d.SN = sn
	return nil
}

// injection is a snapshotter call the harness itself makes while the backend Mount of
// a Prepare(key, target=T) is in progress: Prepare(T, "") or View(T, "") — a key equal
// to the target name (what a concurrent caller could do during the slow remote mount).
type injection struct {
	done chan struct{}
	kind string
	err  error
	late bool // it had not returned when Mount was allowed to go on
}

// injectAtMount runs the injected call on its own goroutine and waits for it inside the
// backend Mount. The wait is bounded: prepareRemoteSnapshot keeps a bbolt read
// transaction open around FileSystem.Mount, and a write transaction that has to grow
// the memory map waits for all readers, so the injected call can be unable to finish
// before Mount returns. Then Mount simply goes on (the case counts as "late"; whichever
// of the two writers commits first decides the outcome, the oracle is the same).
func (d *Driver) injectAtMount(op Op) {
	in := &injection{done: make(chan struct{}), kind: op.Inject}
	d.inj = in
	sn := d.SN
	labels := map[string]string{UserLabel: op.Val + "-inj"}
	go func() {
		defer close(in.done)
		if op.Inject == "view" {
			_, in.err = sn.View(d.ctx, op.Target, "", snapshots.WithLabels(labels))
		} else {
			_, in.err = sn.Prepare(d.ctx, op.Target, "", snapshots.WithLabels(labels))
		}
	}()
	select {
	case <-in.done:
	case <-time.After(300 * time.Millisecond):
		in.late = true
	}
}

// onCall annotates backend calls with what the committed metadata says right now.
func (d *Driver) onCall(ev *recfs.Event) {
	if ev.Kind == recfs.KMount && !ev.Injected && ev.DirExists && d.inj == nil {
		if op := d.CurOp; op != nil && op.Kind == "prepare" && op.Inject != "" && op.HasTarget {
			d.injectAtMount(*op)
		}
	}
	if ev.Kind != recfs.KUnmount || !ev.WasMounted {
		return
	}
	ev.Note = map[string]any{}
	if d.closing.Load() {
		ev.Note["closing"] = true
		return
	}
	id := IDOfMP(d.Cfg.Root, ev.Mountpoint)
	if sn := d.SN; sn != nil && id != "" {
		// A read transaction sees the last committed state, also while a write
		// transaction is open: "live" means the removal has not been committed yet.
		if ids, err := snapshot.VerifIDMap(d.ctx, sn); err == nil {
			_, live := ids[id]
			ev.Note["id_live"] = live
		}
	}
}

func (d *Driver) violate(key, what string) {
	d.Cfg.Violate(key, what)
}

func (d *Driver) class(c string) { d.Classes[c]++ }

// Close closes the snapshotter (end of a sequence).
func (d *Driver) Close() {
	if d.SN != nil {
		d.closing.Store(true)
		_ = d.SN.Close()
		d.SN = nil
	}
	if d.FS != nil && d.FS.IsBind() {
		recfs.UnmountAllKernel(d.Cfg.Root)
	}
}

func errClass(err error) string {
	switch {
	case err == nil:
		return "ok"
	case errdefs.IsAlreadyExists(err):
		return "already_exists"
	case errdefs.IsNotFound(err):
		return "not_found"
	case errdefs.IsUnavailable(err):
		return "unavailable"
	case errdefs.IsInvalidArgument(err):
		return "invalid_argument"
	case errdefs.IsFailedPrecondition(err):
		return "failed_precondition"
	}
	return "other"
}

func scriptFor(op Op) recfs.Script {
	var s recfs.Script
	if op.MountFail {
		s.FailMount = func(int, string) bool { return true }
	}
	if op.CheckFail {
		s.FailCheck = func(int, string) bool { return true }
	}
	if op.UnmountFail {
		s.FailUnmount = func(int, string) bool { return true }
	}
	return s
}

// idsByKey returns key -> id from the snapshotter's committed metadata.
func (d *Driver) idsByKey() (map[string]string, map[string]string, error) {
	ids, err := snapshot.VerifIDMap(d.ctx, d.SN)
	if err != nil {
		// an empty store has no bucket yet
		if errdefs.IsNotFound(err) {
			return map[string]string{}, map[string]string{}, nil
		}
		return nil, nil, err
	}
	inv := make(map[string]string, len(ids))
	for id, k := range ids {
		inv[k] = id
	}
	return inv, ids, nil
}

// badAncestors lists the remote-labelled members of chain whose Check is bound to
// fail for a state reason (not mounted / flagged broken) right now.
func (d *Driver) badAncestors(m *Model, chain []string) []string {
	var bad []string
	for _, n := range chain {
		s := m.Snaps[n]
		if s == nil || !s.Remote() {
			continue
		}
		if s.ID == "" || d.FS.WouldCheckFail(MP(d.Cfg.Root, s.ID)) {
			bad = append(bad, n)
		}
	}
	return bad
}

// Step executes and judges one operation.
func (d *Driver) Step(i int, op Op) {
	d.Cur = i
	d.CurOp = &op
	pre := d.M.Clone()
	if d.Cfg.KeepStates {
		d.Before = append(d.Before, pre)
	}
	d.FS.SetPhase(op.Kind)
	d.FS.SetScript(scriptFor(op))
	d.Cfg.Count("op_"+op.Kind, 1)
	ctx := d.ctx
	switch op.Kind {
	case "prepare", "view":
		labels := map[string]string{UserLabel: op.Val}
		if op.HasTarget {
			labels[TargetLabel] = op.Target
		}
		chain := pre.ChainFromParent(op.Parent)
		bad := d.badAncestors(pre, chain)
		if op.Plant != "" {
			d.plant(op.Plant)
		}
		var ms []mount.Mount
		var err error
		if op.Kind == "prepare" {
			ms, err = d.SN.Prepare(ctx, op.Key, op.Parent, snapshots.WithLabels(copyLabels(labels)))
		} else {
			ms, err = d.SN.View(ctx, op.Key, op.Parent, snapshots.WithLabels(copyLabels(labels)))
		}
		evs := d.FS.Drain()
		d.judgeUnmounts(op, evs)
		if in := d.inj; in != nil {
			select {
			case <-in.done:
			case <-time.After(3 * time.Minute):
				d.Aborted = "watchdog: injected call did not return"
				d.Cur = -1
				return
			}
			d.inj = nil
			if in.late {
				d.Cfg.Count("injected_at_mount_late", 1)
			}
			d.Cfg.Count("injected_at_mount_"+in.kind+"_"+errClass(in.err), 1)
			if in.err == nil {
				// a snapshot whose key equals the target name now exists, made by "another caller"
				k := Active
				if in.kind == "view" {
					k = View
				}
				sn := &Snap{Kind: k, Labels: map[string]string{UserLabel: op.Val + "-inj"}}
				pre = pre.Clone()
				pre.Snaps[op.Target] = sn
				d.M.Snaps[op.Target] = sn.clone()
				d.class("key_equal_target_created_during_mount")
			}
		}
		d.judgeCreate(op, pre, labels, chain, bad, ms, err, evs)
	case "mounts":
		s := pre.Snaps[op.Key]
		var chain []string
		if s != nil {
			chain = pre.ChainFromParent(s.Parent)
			if s.Remote() {
				chain = append([]string{op.Key}, chain...)
			}
		}
		bad := d.badAncestors(pre, chain)
		ms, err := d.SN.Mounts(ctx, op.Key)
		evs := d.FS.Drain()
		d.judgeUnmounts(op, evs)
		d.Cfg.Count("result_mounts_"+errClass(err), 1)
		valid := s != nil && s.Kind != Committed
		if !valid {
			if err == nil {
				d.violate("f:mounts-on-missing-or-committed-key-succeeded", fmt.Sprintf("%s returned mounts although the model says the key is absent or committed", op))
			}
			break
		}
		d.judgeAvailability(op, s.Kind, s.ID, pre, chain, bad, ms, err, evs)
		if len(bad) > 0 {
			// fifth wave (C08-7): the same request from a caller whose context is already
			// cancelled; the chain still contains a remote layer whose check fails (the
			// flags are state, not per-call), so mounts must not be handed out either
			cctx, cancel := context.WithCancel(ctx)
			cancel()
			ms2, err2 := d.SN.Mounts(cctx, op.Key)
			d.judgeUnmounts(op, d.FS.Drain())
			d.Cfg.Count("result_mounts_cancelled_ctx_"+errClass(err2), 1)
			if err2 == nil && len(ms2) > 0 {
				d.violate("c:mounts-handed-out-despite-failed-check:mounts:cancelled-ctx", fmt.Sprintf("%s with a cancelled context returned mounts although remote ancestor(s) %v are not mounted or flagged broken", op, bad))
			}
		}
	case "commit":
		s := pre.Snaps[op.Key]
		valid := s != nil && s.Kind == Active && pre.Snaps[op.Name] == nil
		err := d.SN.Commit(ctx, op.Name, op.Key, snapshots.WithLabels(map[string]string{UserLabel: op.Val}))
		d.judgeUnmounts(op, d.FS.Drain())
		d.Cfg.Count("result_commit_"+errClass(err), 1)
		if err == nil {
			if !valid {
				d.violate("f:commit-invalid-succeeded", fmt.Sprintf("%s succeeded although the model says it is invalid", op))
				d.Aborted = "model divergence"
				break
			}
			n := s.clone()
			n.Kind = Committed
			n.Labels = map[string]string{UserLabel: op.Val}
			delete(d.M.Snaps, op.Key)
			d.M.Snaps[op.Name] = n
		} else if valid {
			d.Cfg.Count("unjudged_unexpected_error", 1)
			d.Cfg.Distinct("unexpected_errors", "commit:"+errClass(err))
		}
	case "remove":
		s := pre.Snaps[op.Key]
		valid := s != nil && !pre.HasChildren(op.Key)
		err := d.SN.Remove(ctx, op.Key)
		evs := d.FS.Drain()
		d.Cfg.Count("result_remove_"+errClass(err), 1)
		if err == nil {
			if !valid {
				d.violate("f:remove-invalid-succeeded", fmt.Sprintf("%s succeeded although the model says the key is absent or has children", op))
				d.Aborted = "model divergence"
				break
			}
			delete(d.M.Snaps, op.Key)
			if s.Mounted {
				d.class("removed_mounted")
			}
		} else if valid {
			d.Cfg.Count("unjudged_unexpected_error", 1)
			d.Cfg.Distinct("unexpected_errors", "remove:"+errClass(err))
		}
		d.judgeUnmounts(op, evs)
	case "cleanup":
		err := Cleanup(ctx, d.SN)
		d.judgeUnmounts(op, d.FS.Drain())
		if err != nil {
			d.Cfg.Count("unjudged_unexpected_error", 1)
			d.Cfg.Distinct("unexpected_errors", "cleanup:"+errClass(err))
			break
		}
		d.CheckDirsAfterCleanup("cleanup")
	case "update":
		s := pre.Snaps[op.Key]
		info := snapshots.Info{Name: op.Key, Labels: map[string]string{UserLabel: op.Val}}
		_, err := d.SN.Update(ctx, info, "labels."+UserLabel)
		d.judgeUnmounts(op, d.FS.Drain())
		if err == nil {
			if s == nil {
				d.violate("f:update-missing-key-succeeded", fmt.Sprintf("%s succeeded on a key the model does not have", op))
				d.Aborted = "model divergence"
				break
			}
			if d.M.Snaps[op.Key].Labels == nil {
				d.M.Snaps[op.Key].Labels = map[string]string{}
			}
			d.M.Snaps[op.Key].Labels[UserLabel] = op.Val
		} else if s != nil {
			d.Cfg.Count("unjudged_unexpected_error", 1)
			d.Cfg.Distinct("unexpected_errors", "update:"+errClass(err))
		}
	case "stat":
		s := pre.Snaps[op.Key]
		info, err := d.SN.Stat(ctx, op.Key)
		switch {
		case s == nil && err == nil:
			d.violate("f:stat-phantom", fmt.Sprintf("%s succeeded for a key the model does not have", op))
		case s != nil && err != nil:
			d.violate("f:stat-missing", fmt.Sprintf("%s failed (%v) for a key the model has", op, err))
		case s != nil:
			if KindName(info.Kind) != s.Kind || info.Parent != s.Parent || !labelsEqual(info.Labels, s.Labels) {
				d.violate("f:stat-mismatch", fmt.Sprintf("%s = {%s parent=%q %s}, model {%s parent=%q %s}", op, KindName(info.Kind), info.Parent, labelsString(info.Labels), s.Kind, s.Parent, labelsString(s.Labels)))
			}
		}
	case "walk":
		var fs []string
		if op.Filter != "" {
			fs = []string{op.Filter}
		}
		got := map[string]bool{}
		err := d.SN.Walk(ctx, func(_ context.Context, info snapshots.Info) error {
			got[info.Name] = true
			return nil
		}, fs...)
		if err != nil && !errdefs.IsNotFound(err) {
			d.Cfg.Count("unjudged_unexpected_error", 1)
			break
		}
		want := map[string]bool{}
		for n, s := range pre.Snaps {
			switch {
			case op.Filter == "":
				want[n] = true
			case strings.HasPrefix(op.Filter, "kind=="):
				want[n] = s.Kind == strings.TrimPrefix(op.Filter, "kind==")
			case strings.HasPrefix(op.Filter, "parent=="):
				want[n] = s.Parent == strings.TrimPrefix(op.Filter, "parent==")
			}
			if !want[n] {
				delete(want, n)
			}
		}
		if len(got) != len(want) {
			d.violate("f:walk-filter-mismatch", fmt.Sprintf("%s visited %d snapshots, model says %d", op, len(got), len(want)))
		} else {
			for n := range want {
				if !got[n] {
					d.violate("f:walk-filter-mismatch", fmt.Sprintf("%s did not visit %s", op, n))
					break
				}
			}
		}
	case "toggle":
		d.FS.SetBroken(op.MP, op.Broken)
		d.Cfg.Count("broken_toggles", 1)
	case "reopen":
		d.reopen(op)
		if d.Aborted != "" {
			d.Cur = -1
			return
		}
	}
	d.FS.SetPhase("between")
	d.FS.SetScript(recfs.Script{})
	if d.Aborted == "" {
		d.afterOp(op)
	}
	if d.Cfg.KeepStates {
		d.After = append(d.After, d.M.Clone())
	}
	d.Cur = -1
	d.CurOp = nil
}

func (d *Driver) reopen(op Op) {
	d.closing.Store(true)
	d.FS.SetPhase("close")
	err := d.SN.Close()
	evs := d.FS.Drain()
	d.judgeUnmounts(op, evs)
	d.SN = nil
	if err != nil {
		d.Cfg.Count("unjudged_unexpected_error", 1)
	}
	if d.FS.IsBind() {
		// mounts the dead "process" leaves behind stay in the kernel table (restore must
		// force-unmount them); only their bookkeeping goes away with the old backend.
		d.Cfg.Count("bind_leftovers_at_reopen", len(d.FS.Live()))
	}
	for _, s := range d.M.Snaps {
		s.Mounted = false
	}
	d.Async = op.Async
	oerr := d.open(op.AllowInvalid, op.FailMounts)
	d.closing.Store(false)
	if oerr != nil {
		// cannot continue in this process: the bolt file lock is leaked by the failed constructor
		d.Aborted = "reopen failed: " + oerr.Error()
		d.Cfg.Count("reopen_failed", 1)
		return
	}
	byID := map[string]*Snap{}
	for _, s := range d.M.Snaps {
		if s.ID != "" {
			byID[s.ID] = s
		}
	}
	for _, ev := range d.FS.Drain() {
		if ev.Kind == recfs.KMount && ev.Err == "" {
			if s := byID[IDOfMP(d.Cfg.Root, ev.Mountpoint)]; s != nil {
				s.Mounted = true
			}
		}
		if ev.Kind == recfs.KMount {
			d.Cfg.Count("restore_mount_calls", 1)
			if ev.Err != "" {
				d.Cfg.Count("restore_mount_failures", 1)
			}
		}
	}
	d.class("reopen")
}

// plant puts a filesystem fault under snapshots/: something named like the next id.
func (d *Driver) plant(what string) {
	p := filepath.Join(d.Cfg.Root, "snapshots", strconv.Itoa(d.MaxID+1))
	if _, err := os.Lstat(p); err == nil {
		return
	}
	switch what {
	case "dir":
		_ = os.MkdirAll(filepath.Join(p, "fs"), 0o755)
		_ = os.MkdirAll(filepath.Join(p, "work"), 0o711)
		_ = os.WriteFile(filepath.Join(p, "fs", "LEFTOVER"), []byte("left by a dead process"), 0o644)
	case "file":
		_ = os.WriteFile(p, []byte("not a directory"), 0o644)
	}
	d.Cfg.Count("planted_next_id_"+what, 1)
}

// judgeUnmounts applies clause (d) to the Unmount calls of one operation.
func (d *Driver) judgeUnmounts(op Op, evs []recfs.Event) {
	for _, ev := range evs {
		d.Cfg.Count("backend_"+string(ev.Kind)+"_calls", 1)
		if ev.Err != "" {
			d.Cfg.Count("backend_"+string(ev.Kind)+"_errors", 1)
		}
		if ev.Kind != recfs.KUnmount || !ev.WasMounted {
			continue
		}
		d.Cfg.Count("unmounts_of_live_mounts", 1)
		if !ev.DirExists {
			d.violate("d:unmount-after-directory-deleted:"+op.Kind, fmt.Sprintf("%s: backend Unmount(%s) of a live mount was called when its directory was already gone", op, shortMP(ev.Mountpoint)))
		}
		if ev.Note != nil {
			if live, ok := ev.Note["id_live"].(bool); ok && live {
				d.violate("d:unmount-before-snapshot-removed:"+op.Kind, fmt.Sprintf("%s: backend Unmount(%s) of a live mount was called while the committed metadata still holds its snapshot and the snapshotter is not closing", op, shortMP(ev.Mountpoint)))
			}
			if c, ok := ev.Note["closing"].(bool); ok && c {
				d.Cfg.Count("unmounts_while_closing", 1)
			}
		}
	}
}

// judgeCreate judges Prepare / View and moves the model.
func (d *Driver) judgeCreate(op Op, pre *Model, labels map[string]string, chain, bad []string, ms []mount.Mount, err error, evs []recfs.Event) {
	ctx := d.ctx
	kind := Active
	if op.Kind == "view" {
		kind = View
	}
	d.Cfg.Count("result_"+op.Kind+"_"+errClass(err), 1)
	if op.Plant != "" {
		d.Cfg.Count("planted_call_result_"+errClass(err), 1)
		d.class("planted_fault")
	}
	par := pre.Snaps[op.Parent]
	parentOK := op.Parent == "" || (par != nil && par.Kind == Committed)
	if pre.Snaps[op.Key] != nil || !parentOK {
		if err == nil {
			d.violate("f:create-invalid-succeeded:"+op.Kind, fmt.Sprintf("%s succeeded although the key exists or the parent is missing / not committed", op))
			d.Aborted = "model divergence"
		}
		return
	}
	mountOK := false
	mountMP := ""
	for _, ev := range evs {
		if ev.Kind == recfs.KMount && ev.Err == "" {
			mountOK = true
			mountMP = ev.Mountpoint
		}
	}
	resync := func(name string) {
		info, serr := d.SN.Stat(ctx, name)
		if serr != nil {
			delete(d.M.Snaps, name)
			return
		}
		s := &Snap{Kind: KindName(info.Kind), Parent: info.Parent, Labels: copyLabels(info.Labels)}
		if old := pre.Snaps[name]; old != nil {
			s.ID, s.Mounted, s.Marker = old.ID, old.Mounted, old.Marker
		}
		d.M.Snaps[name] = s
	}
	switch {
	case err == nil:
		s := &Snap{Kind: kind, Parent: op.Parent, Labels: storedLabels(labels)}
		d.M.Snaps[op.Key] = s
		byKey, _, ierr := d.idsByKey()
		if ierr == nil {
			s.ID = byKey[op.Key]
		}
		if op.Kind == "prepare" {
			// clause (b): an ordinary writable snapshot, not marked remote
			info, serr := d.SN.Stat(ctx, op.Key)
			switch {
			case serr != nil || info.Kind != snapshots.KindActive:
				d.violate("b:prepare-returned-mounts-but-key-not-active", fmt.Sprintf("%s returned mounts; Stat(key) = %v / %v", op, KindName(info.Kind), serr))
			default:
				if _, ok := info.Labels[RemoteLabel]; ok {
					d.violate("b:fallback-snapshot-marked-remote", fmt.Sprintf("%s returned mounts (writable snapshot) but the key carries the remote label", op))
				}
			}
			if s.ID != "" && d.FS.LiveCount(MP(d.Cfg.Root, s.ID)) > 0 {
				d.violate("b:writable-snapshot-has-live-backend-mount", fmt.Sprintf("%s returned mounts for a writable snapshot whose upper directory carries a live backend mount", op))
				s.Mounted = true
			}
			if op.HasTarget {
				d.class("fallback")
			}
			if d.Cfg.Markers && s.ID != "" && !s.Mounted {
				s.Marker = fmt.Sprintf("marker:%s:%d", op.Key, d.Cur)
				_ = os.WriteFile(filepath.Join(MP(d.Cfg.Root, s.ID), "MARKER"), []byte(s.Marker), 0o644)
			}
		}
		d.judgeAvailability(op, kind, s.ID, pre, chain, bad, ms, err, evs)
	case op.Kind == "prepare" && op.HasTarget && errdefs.IsAlreadyExists(err):
		tgt := pre.Snaps[op.Target]
		info, serr := d.SN.Stat(ctx, op.Target)
		if serr != nil || info.Kind != snapshots.KindCommitted {
			// one class per cause: the target label names a snapshot that exists but is
			// not committed (an active/view key, or the key of this very call) vs. the
			// target does not exist at all
			cl := "target-absent"
			switch {
			case op.Inject != "" && tgt != nil && tgt.Kind != Committed:
				// time of check / time of use: the snapshot of that name appeared while the
				// backend mount was in progress
				cl = "target-key-created-during-backend-mount"
			case op.Target == op.Key, tgt != nil && tgt.Kind != Committed:
				cl = "target-names-uncommitted-snapshot"
			case serr == nil:
				cl = "target-is-" + KindName(info.Kind)
			}
			d.violate("a:already-exists-reported-but-target-not-committed:"+cl,
				fmt.Sprintf("%s reported that the target already exists, but Stat(target) = %s / %v (the fresh key is left behind as an active snapshot%s)", op, KindName(info.Kind), serr,
					map[bool]string{true: " with a live backend mount on its directory", false: ""}[mountOK]))
			d.class("collision")
			resync(op.Key)
			if op.Target != op.Key {
				resync(op.Target)
			}
			d.leakMount(op.Key, mountMP)
			return
		}
		if tgt == nil {
			// this call created the target
			want := copyLabels(labels)
			want[RemoteLabel] = info.Labels[RemoteLabel]
			s := &Snap{Kind: Committed, Parent: op.Parent, Labels: want, Mounted: true}
			if _, ok := info.Labels[RemoteLabel]; !ok {
				d.violate("a:created-target-not-marked-remote", fmt.Sprintf("%s created the target but it does not carry the remote label", op))
				delete(s.Labels, RemoteLabel)
			}
			byKey, _, ierr := d.idsByKey()
			if ierr == nil {
				s.ID = byKey[op.Target]
			}
			d.M.Snaps[op.Target] = s
			if s.ID != "" {
				mp := MP(d.Cfg.Root, s.ID)
				if n := d.FS.LiveCount(mp); n != 1 || !mountOK || mountMP != mp {
					d.violate("a:created-target-without-exactly-one-live-mount", fmt.Sprintf("%s created the target (id %s) but the backend holds %d live mounts on its directory (successful Mount call in this operation: %v on %s)", op, s.ID, n, mountOK, shortMP(mountMP)))
					s.Mounted = n > 0
				}
			}
			d.class("remote_created")
			if len(chain) > 0 {
				d.class("remote_created_on_parent")
			}
			return
		}
		// the target existed before: nothing is said about the fresh key except that it
		// must not be reported as remote (slack of the statement)
		d.class("target_existed")
		resync(op.Key)
		if s := d.M.Snaps[op.Key]; s != nil {
			if s.Remote() {
				d.violate("b:leftover-key-marked-remote", fmt.Sprintf("%s: target existed; the key left behind carries the remote label", op))
			}
			d.leakMount(op.Key, mountMP)
		}
	default:
		if errdefs.IsUnavailable(err) {
			if len(bad) > 0 || checkFailed(evs) {
				d.class("unavailable_refused")
				d.Cfg.Count("unavailable_refusals", 1)
			} else {
				d.Cfg.Count("unjudged_unavailable_without_observed_cause", 1)
			}
		} else {
			d.Cfg.Count("unjudged_unexpected_error", 1)
			d.Cfg.Distinct("unexpected_errors", op.Kind+":"+errClass(err))
		}
		// the statement does not say whether the key exists after a failed call
		resync(op.Key)
		d.leakMount(op.Key, mountMP)
	}
}

// storedLabels is what the metadata store keeps of a label set: empty values are dropped.
func storedLabels(l map[string]string) map[string]string {
	c := map[string]string{}
	for k, v := range l {
		if v != "" {
			c[k] = v
		}
	}
	return c
}

// leakMount records that a key left behind by Prepare carries the backend mount made for it.
func (d *Driver) leakMount(key, mountMP string) {
	s := d.M.Snaps[key]
	if s == nil || mountMP == "" {
		return
	}
	byKey, _, err := d.idsByKey()
	if err != nil {
		return
	}
	s.ID = byKey[key]
	if s.ID != "" && MP(d.Cfg.Root, s.ID) == mountMP && d.FS.LiveCount(mountMP) > 0 {
		s.Mounted = true
		d.Cfg.Count("active_keys_left_with_backend_mount", 1)
	}
}

func checkFailed(evs []recfs.Event) bool {
	for _, ev := range evs {
		if ev.Kind == recfs.KCheck && ev.Err != "" {
			return true
		}
	}
	return false
}

// judgeAvailability applies clause (c) to a call that may hand out mounts.
func (d *Driver) judgeAvailability(op Op, kind, ownID string, pre *Model, chain, bad []string, ms []mount.Mount, err error, evs []recfs.Event) {
	cf := checkFailed(evs)
	if err != nil {
		if errdefs.IsUnavailable(err) {
			if len(bad) > 0 || cf {
				d.class("unavailable_refused")
				d.Cfg.Count("unavailable_refusals", 1)
			} else {
				d.Cfg.Count("unjudged_unavailable_without_observed_cause", 1)
			}
		} else {
			d.Cfg.Count("unjudged_unexpected_error", 1)
			d.Cfg.Distinct("unexpected_errors", op.Kind+":"+errClass(err))
		}
		return
	}
	if len(bad) > 0 || cf {
		why := "a Check call of this operation failed"
		if len(bad) > 0 {
			why = fmt.Sprintf("remote ancestor(s) %v are not mounted or flagged broken", bad)
		}
		d.violate("c:mounts-handed-out-despite-failed-check:"+op.Kind, fmt.Sprintf("%s returned mounts although %s", op, why))
	}
	nrem := 0
	var want []string
	for _, n := range chain {
		s := pre.Snaps[n]
		if s == nil || s.ID == "" {
			return // cannot name the directories
		}
		if s.Remote() {
			nrem++
		}
		if n == op.Key {
			continue
		}
		want = append(want, MP(d.Cfg.Root, s.ID))
	}
	if nrem > 0 {
		d.class("mounts_over_remote_chain")
	}
	if len(want) >= 2 {
		d.class("mounts_chain2")
	}
	d.Cfg.Count("mounts_handed_out", 1)
	if key, what := LowerVerdict(kind, want, ms); key != "" {
		d.violate(key, fmt.Sprintf("%s: %s", op, what))
	}
}

// LowerVerdict compares the lower directories conveyed by a mount list with the
// parent chain (mountpoints, nearest parent first). It returns an empty key when they agree.
func LowerVerdict(kind string, want []string, ms []mount.Mount) (key, what string) {
	if len(ms) != 1 {
		return "c:mount-list-shape", fmt.Sprintf("returned %d mounts", len(ms))
	}
	m := ms[0]
	var got []string
	switch m.Type {
	case "overlay":
		for _, o := range m.Options {
			if strings.HasPrefix(o, "lowerdir=") {
				got = strings.Split(strings.TrimPrefix(o, "lowerdir="), ":")
			}
		}
	case "bind":
		if len(want) > 0 {
			got = []string{m.Source}
		}
	}
	if len(want) == 0 {
		if len(got) > 0 {
			return "c:lowerdir-set", fmt.Sprintf("no parents but lower directories %v", shorts(got))
		}
		return "", ""
	}
	if kind == Active && m.Type != "overlay" {
		return "c:lowerdir-set", fmt.Sprintf("writable snapshot with parents got a %s mount", m.Type)
	}
	if strings.Join(got, ":") == strings.Join(want, ":") {
		return "", ""
	}
	a := append([]string(nil), got...)
	b := append([]string(nil), want...)
	sort.Strings(a)
	sort.Strings(b)
	if strings.Join(a, ":") == strings.Join(b, ":") {
		return "c:lowerdir-order", fmt.Sprintf("lower directories %v, parent chain nearest first is %v", shorts(got), shorts(want))
	}
	return "c:lowerdir-set", fmt.Sprintf("lower directories %v, parent chain nearest first is %v", shorts(got), shorts(want))
}

func shorts(v []string) []string {
	r := make([]string, len(v))
	for i, s := range v {
		r[i] = shortMP(s)
	}
	return r
}

// ReadDirs lists the entries of <root>/snapshots.
func ReadDirs(root string) ([]string, error) {
	es, err := os.ReadDir(filepath.Join(root, "snapshots"))
	if err != nil {
		return nil, err
	}
	var res []string
	for _, e := range es {
		res = append(res, e.Name())
	}
	sort.Strings(res)
	return res, nil
}

// CheckDirsAfterCleanup applies clause (e): directories == ids of live snapshots.
func (d *Driver) CheckDirsAfterCleanup(when string) {
	_, ids, err := d.idsByKey()
	if err != nil {
		return
	}
	dirs, err := ReadDirs(d.Cfg.Root)
	if err != nil {
		return
	}
	d.Cfg.Count("cleanup_directory_checks", 1)
	seen := map[string]bool{}
	for _, n := range dirs {
		seen[n] = true
		if _, ok := ids[n]; ok {
			continue
		}
		if strings.HasPrefix(n, "new-") {
			d.violate("e:temp-directory-left-after-cleanup", fmt.Sprintf("after %s: snapshots/%s exists", when, n))
		} else {
			d.violate("e:orphan-directory-left-after-cleanup", fmt.Sprintf("after %s: snapshots/%s exists but no live snapshot has that id (live ids %v)", when, n, keysOf(ids)))
		}
	}
	for id := range ids {
		if !seen[id] {
			d.violate("e:live-snapshot-directory-missing-after-cleanup", fmt.Sprintf("after %s: live snapshot %q (id %s) has no directory", when, ids[id], id))
		}
	}
}

func keysOf(m map[string]string) []string {
	var r []string
	for k := range m {
		r = append(r, k)
	}
	sort.Strings(r)
	return r
}

// afterOp compares Walk / id map / mount table with the model (clauses f, d, a).
func (d *Driver) afterOp(op Op) {
	obs := map[string]snapshots.Info{}
	err := d.SN.Walk(d.ctx, func(_ context.Context, info snapshots.Info) error {
		obs[info.Name] = info
		return nil
	})
	if err != nil && !errdefs.IsNotFound(err) {
		d.Aborted = "walk failed: " + err.Error()
		return
	}
	byKey, ids, err := d.idsByKey()
	if err != nil {
		d.Aborted = "idmap failed: " + err.Error()
		return
	}
	fail := func(class, what string) {
		d.violate("f:state-mismatch:"+class+":after-"+op.Kind, fmt.Sprintf("after %s: %s", op, what))
		d.Aborted = "model divergence"
	}
	for n, s := range d.M.Snaps {
		info, ok := obs[n]
		if !ok {
			fail("missing", fmt.Sprintf("the model has %s (%s) but Walk does not", n, s.Kind))
			continue
		}
		if KindName(info.Kind) != s.Kind {
			fail("kind", fmt.Sprintf("%s is %s, model says %s", n, KindName(info.Kind), s.Kind))
		}
		if info.Parent != s.Parent {
			fail("parent", fmt.Sprintf("%s has parent %q, model says %q", n, info.Parent, s.Parent))
		}
		if !labelsEqual(info.Labels, s.Labels) {
			fail("labels", fmt.Sprintf("%s has labels {%s}, model says {%s}", n, labelsString(info.Labels), labelsString(s.Labels)))
		}
		id := byKey[n]
		if s.ID == "" {
			s.ID = id
		} else if s.ID != id {
			fail("id", fmt.Sprintf("%s changed id %s -> %s", n, s.ID, id))
		}
	}
	for n, info := range obs {
		if d.M.Snaps[n] == nil {
			fail("extra", fmt.Sprintf("Walk reports %s (%s) which the model does not have", n, KindName(info.Kind)))
		}
	}
	for id := range ids {
		if n, err := strconv.Atoi(id); err == nil && n > d.MaxID {
			d.MaxID = n
		}
	}
	if len(ids) != len(obs) {
		fail("idmap", fmt.Sprintf("id map has %d entries, Walk %d", len(ids), len(obs)))
	}
	// mount table against directories and model
	for mp, mi := range d.FS.Live() {
		if _, err := os.Lstat(mp); err != nil {
			d.violate("d:directory-deleted-while-backend-mount-live:"+op.Kind, fmt.Sprintf("after %s: the backend still holds a live mount on %s but the directory is gone", op, shortMP(mp)))
		}
		if mi.Count > 1 {
			d.violate("a:mountpoint-mounted-twice", fmt.Sprintf("after %s: %d live mounts on %s", op, mi.Count, shortMP(mp)))
		}
	}
	if d.FS.IsBind() && !d.FS.SentinelIntact() {
		d.violate("d:directory-deleted-through-live-mount", fmt.Sprintf("after %s: the bind source lost its sentinel: a RemoveAll ran through a live mount", op))
	}
	for n, s := range d.M.Snaps {
		if s.Mounted && s.ID != "" && d.FS.LiveCount(MP(d.Cfg.Root, s.ID)) == 0 {
			d.violate("d:backend-mount-gone-while-snapshot-live:"+op.Kind, fmt.Sprintf("after %s: snapshot %s (id %s) is live but its backend mount is gone", op, n, s.ID))
			s.Mounted = false
		}
	}
	if d.FS.IsBind() {
		d.checkKernel(op)
	}
}

// checkKernel compares /proc/self/mountinfo below the root with the backend's table.
func (d *Driver) checkKernel(op Op) {
	km, err := recfs.KernelMounts(d.Cfg.Root)
	if err != nil {
		return
	}
	d.Cfg.Count("kernel_mount_table_reads", 1)
	live := d.FS.Live()
	cnt := map[string]int{}
	for _, m := range km {
		cnt[m]++
	}
	for mp, mi := range live {
		if cnt[mp] != mi.Count {
			d.violate("k:kernel-mount-table-differs", fmt.Sprintf("after %s: kernel has %d mounts on %s, backend table %d", op, cnt[mp], shortMP(mp), mi.Count))
		}
	}
	for mp := range cnt {
		if _, ok := live[mp]; !ok {
			d.violate("k:kernel-mount-without-backend-entry", fmt.Sprintf("after %s: kernel mount on %s is unknown to the backend", op, shortMP(mp)))
		}
	}
}
