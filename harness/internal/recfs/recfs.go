// Package recfs is a recording, fault-scriptable implementation of
// snapshot.FileSystem (Mount / Check / Unmount) used by the C08 / C09 checks.
//
// It keeps an in-memory mount table (mountpoint -> labels, generation, count) and
// records, for every call, what the world looked like at the instant of the call:
// whether the mountpoint directory existed, whether the table held a live mount on
// it, whether the mountpoint was flagged "broken", whether a failure was injected,
// plus whatever the harness adds through the OnCall callback (e.g. "is the id of
// that directory still live in the snapshotter's committed metadata right now").
//
// Faults: a Script decides per call (kind, index of the call among calls of that
// kind since the script was installed, mountpoint) whether the call fails. Check
// also fails when the mountpoint is not mounted (as fs/fs.go does: "layer not
// registered") or flagged broken. Mount fails when the mountpoint directory does
// not exist (a real FUSE mount would). A failing Unmount that hit a live entry still
// drops the entry (fs/fs.go deletes the layer from its table before it tries the
// syscall) and is remembered in FailedUnmounts.
//
// The table is guarded by one mutex held only around table accesses (the real
// filesystem has the same lock, fs.layerMu); nothing else of the snapshotter's
// operation path is serialised by this package.
//
// Bind variant (NewBind): a successful Mount additionally bind-mounts a source
// directory holding a sentinel file onto the mountpoint and Unmount really unmounts,
// so the kernel's view can be read back with KernelMounts and a RemoveAll that runs
// through a live mount is visible as a missing sentinel.
package recfs

import (
	"bufio"
	"context"
	"fmt"
	"os"
	"path/filepath"
	"sort"
	"strings"
	"sync"
	"syscall"
	"time"
)

// Kind of a backend call.
type Kind string

const (
	KMount   Kind = "mount"
	KCheck   Kind = "check"
	KUnmount Kind = "unmount"
)

// Event is one recorded backend call.
type Event struct {
	Seq        int               `json:"seq"` // order in which the calls entered the table lock
	T          int64             `json:"t"`   // monotonic ns since the FS was created
	Kind       Kind              `json:"kind"`
	N          int               `json:"n"` // index among calls of this kind since the script was installed
	Mountpoint string            `json:"mountpoint"`
	Labels     map[string]string `json:"labels,omitempty"`
	DirExists  bool              `json:"dir_exists"`  // the mountpoint directory existed at the call
	WasMounted bool              `json:"was_mounted"` // the table held a live mount on it at the call
	Broken     bool              `json:"broken,omitempty"`
	Injected   bool              `json:"injected,omitempty"` // the script made this call fail
	Err        string            `json:"err,omitempty"`
	Phase      string            `json:"phase,omitempty"` // what the harness said the snapshotter was executing
	// Note is filled by the OnCall callback (harness-side observation made at the call instant).
	Note map[string]any `json:"note,omitempty"`
}

// MountInfo is one live entry of the mount table.
type MountInfo struct {
	Labels map[string]string `json:"labels"`
	Gen    int               `json:"gen"`   // how many times this mountpoint has been mounted so far
	Count  int               `json:"count"` // live mounts stacked on the mountpoint (1 unless mounted twice)
}

// Script decides which calls fail. nil functions mean "succeed".
type Script struct {
	FailMount   func(n int, mountpoint string) bool
	FailCheck   func(n int, mountpoint string) bool
	FailUnmount func(n int, mountpoint string) bool
}

// FS implements snapshot.FileSystem.
type FS struct {
	t0 time.Time

	mu             sync.Mutex
	table          map[string]*MountInfo
	gens           map[string]int
	broken         map[string]bool
	events         []Event
	seq            int
	n              map[Kind]int
	script         Script
	phase          string
	failedUnmounts []string

	// OnCall, when set before the FS is used, is called synchronously for every
	// call after the event's observation fields are filled and before the call takes
	// effect; it runs outside the table lock and may fill ev.Note.
	OnCall func(ev *Event)

	bindSrc string
}

// New returns an in-memory recording filesystem.
func New() *FS {
	return &FS{t0: time.Now(), table: map[string]*MountInfo{}, gens: map[string]int{}, broken: map[string]bool{}, n: map[Kind]int{}}
}

// SentinelName is the file placed in the bind source directory.
const SentinelName = "RECFS-SENTINEL"

// NewBind returns a filesystem that really bind-mounts srcDir on every mountpoint.
func NewBind(srcDir string) (*FS, error) {
	if err := os.MkdirAll(srcDir, 0o755); err != nil {
		return nil, err
	}
	if err := os.WriteFile(filepath.Join(srcDir, SentinelName), []byte("sentinel"), 0o644); err != nil {
		return nil, err
	}
	f := New()
	f.bindSrc = srcDir
	return f, nil
}

// SentinelIntact reports whether the bind source still holds its sentinel file.
func (f *FS) SentinelIntact() bool {
	if f.bindSrc == "" {
		return true
	}
	_, err := os.Stat(filepath.Join(f.bindSrc, SentinelName))
	return err == nil
}

// IsBind reports whether this is the bind variant.
func (f *FS) IsBind() bool { return f.bindSrc != "" }

// SetScript installs a new script and resets the per-kind call indices.
func (f *FS) SetScript(s Script) {
	f.mu.Lock()
	f.script = s
	f.n = map[Kind]int{}
	f.mu.Unlock()
}

// SetPhase tells the recorder what the snapshotter is executing (copied into events).
func (f *FS) SetPhase(p string) {
	f.mu.Lock()
	f.phase = p
	f.mu.Unlock()
}

// SetBroken flags a mountpoint: Check fails while the flag is set.
func (f *FS) SetBroken(mountpoint string, b bool) {
	f.mu.Lock()
	if b {
		f.broken[mountpoint] = true
	} else {
		delete(f.broken, mountpoint)
	}
	f.mu.Unlock()
}

// IsBroken returns the flag.
func (f *FS) IsBroken(mountpoint string) bool {
	f.mu.Lock()
	defer f.mu.Unlock()
	return f.broken[mountpoint]
}

// Live returns a copy of the mount table.
func (f *FS) Live() map[string]MountInfo {
	f.mu.Lock()
	defer f.mu.Unlock()
	res := make(map[string]MountInfo, len(f.table))
	for k, v := range f.table {
		res[k] = MountInfo{Labels: copyLabels(v.Labels), Gen: v.Gen, Count: v.Count}
	}
	return res
}

// LiveCount returns the number of live mounts stacked on the mountpoint.
func (f *FS) LiveCount(mountpoint string) int {
	f.mu.Lock()
	defer f.mu.Unlock()
	if e := f.table[mountpoint]; e != nil {
		return e.Count
	}
	return 0
}

// WouldCheckFail reports whether a Check of the mountpoint fails for a state
// reason (not mounted or flagged broken), leaving scripted failures aside.
func (f *FS) WouldCheckFail(mountpoint string) bool {
	f.mu.Lock()
	defer f.mu.Unlock()
	return f.table[mountpoint] == nil || f.broken[mountpoint]
}

// Preload enters mounts into the table without recording calls (used to model a
// backend that outlives the snapshotter process, i.e. the NoRestore configuration).
func (f *FS) Preload(m map[string]MountInfo) {
	f.mu.Lock()
	for k, v := range m {
		f.gens[k]++
		f.table[k] = &MountInfo{Labels: copyLabels(v.Labels), Gen: f.gens[k], Count: 1}
	}
	f.mu.Unlock()
}

// Events returns a copy of all recorded events.
func (f *FS) Events() []Event {
	f.mu.Lock()
	defer f.mu.Unlock()
	return append([]Event(nil), f.events...)
}

// Drain returns the recorded events and forgets them.
func (f *FS) Drain() []Event {
	f.mu.Lock()
	defer f.mu.Unlock()
	ev := f.events
	f.events = nil
	return ev
}

// FailedUnmounts lists mountpoints whose live entry was dropped by a failing Unmount.
func (f *FS) FailedUnmounts() []string {
	f.mu.Lock()
	defer f.mu.Unlock()
	return append([]string(nil), f.failedUnmounts...)
}

func copyLabels(l map[string]string) map[string]string {
	if l == nil {
		return nil
	}
	c := make(map[string]string, len(l))
	for k, v := range l {
		c[k] = v
	}
	return c
}

func dirExists(p string) bool {
	st, err := os.Lstat(p)
	return err == nil && st.IsDir()
}

// begin fills the observation part of an event and decides on an injected failure.
func (f *FS) begin(kind Kind, mountpoint string, labels map[string]string) (*Event, bool) {
	ev := &Event{Kind: kind, Mountpoint: mountpoint, Labels: copyLabels(labels), T: int64(time.Since(f.t0))}
	ev.DirExists = dirExists(mountpoint)
	f.mu.Lock()
	ev.Seq = f.seq
	f.seq++
	ev.N = f.n[kind]
	f.n[kind]++
	ev.WasMounted = f.table[mountpoint] != nil
	ev.Broken = f.broken[mountpoint]
	ev.Phase = f.phase
	s := f.script
	f.mu.Unlock()
	var fail bool
	switch kind {
	case KMount:
		fail = s.FailMount != nil && s.FailMount(ev.N, mountpoint)
	case KCheck:
		fail = s.FailCheck != nil && s.FailCheck(ev.N, mountpoint)
	case KUnmount:
		fail = s.FailUnmount != nil && s.FailUnmount(ev.N, mountpoint)
	}
	ev.Injected = fail
	if f.OnCall != nil {
		f.OnCall(ev)
	}
	return ev, fail
}

func (f *FS) end(ev *Event, err error) error {
	if err != nil {
		ev.Err = err.Error()
	}
	f.mu.Lock()
	f.events = append(f.events, *ev)
	f.mu.Unlock()
	return err
}

// Mount implements snapshot.FileSystem.
func (f *FS) Mount(ctx context.Context, mountpoint string, labels map[string]string) error {
	ev, fail := f.begin(KMount, mountpoint, labels)
	if fail {
		return f.end(ev, fmt.Errorf("recfs: injected mount failure on %s", mountpoint))
	}
	if !ev.DirExists {
		return f.end(ev, fmt.Errorf("recfs: mountpoint %s does not exist", mountpoint))
	}
	if f.bindSrc != "" {
		if err := syscall.Mount(f.bindSrc, mountpoint, "", syscall.MS_BIND, ""); err != nil {
			return f.end(ev, fmt.Errorf("recfs: bind mount on %s: %w", mountpoint, err))
		}
	}
	f.mu.Lock()
	f.gens[mountpoint]++
	if e := f.table[mountpoint]; e != nil {
		e.Count++
		e.Gen = f.gens[mountpoint]
		e.Labels = copyLabels(labels)
	} else {
		f.table[mountpoint] = &MountInfo{Labels: copyLabels(labels), Gen: f.gens[mountpoint], Count: 1}
	}
	f.mu.Unlock()
	return f.end(ev, nil)
}

// Check implements snapshot.FileSystem.
func (f *FS) Check(ctx context.Context, mountpoint string, labels map[string]string) error {
	ev, fail := f.begin(KCheck, mountpoint, labels)
	switch {
	case fail:
		return f.end(ev, fmt.Errorf("recfs: injected check failure on %s", mountpoint))
	case !ev.WasMounted:
		return f.end(ev, fmt.Errorf("recfs: layer not registered on %s", mountpoint))
	case ev.Broken:
		return f.end(ev, fmt.Errorf("recfs: %s is broken", mountpoint))
	}
	return f.end(ev, nil)
}

// Unmount implements snapshot.FileSystem.
func (f *FS) Unmount(ctx context.Context, mountpoint string) error {
	ev, fail := f.begin(KUnmount, mountpoint, nil)
	f.mu.Lock()
	e := f.table[mountpoint]
	if e != nil {
		e.Count--
		if e.Count <= 0 {
			delete(f.table, mountpoint)
		}
		if fail {
			f.failedUnmounts = append(f.failedUnmounts, mountpoint)
		}
	}
	f.mu.Unlock()
	if e == nil {
		if fail {
			return f.end(ev, fmt.Errorf("recfs: injected unmount failure on %s", mountpoint))
		}
		return f.end(ev, fmt.Errorf("recfs: specified path %q isn't a mountpoint", mountpoint))
	}
	if f.bindSrc != "" {
		// the kernel mount is always taken down, also when a failure is reported
		if err := syscall.Unmount(mountpoint, 0); err != nil {
			if err2 := syscall.Unmount(mountpoint, syscall.MNT_DETACH); err2 != nil && !fail {
				return f.end(ev, fmt.Errorf("recfs: umount %s: %w", mountpoint, err))
			}
		}
	}
	if fail {
		return f.end(ev, fmt.Errorf("recfs: injected unmount failure on %s", mountpoint))
	}
	return f.end(ev, nil)
}

// UnmountAllKernel takes down every kernel mount below prefix (bind variant cleanup;
// deepest first). It does not touch the table and records nothing.
func UnmountAllKernel(prefix string) {
	ms, _ := KernelMounts(prefix)
	sort.Slice(ms, func(i, j int) bool { return len(ms[i]) > len(ms[j]) })
	for _, m := range ms {
		for i := 0; i < 8; i++ {
			if err := syscall.Unmount(m, syscall.MNT_DETACH); err != nil {
				break
			}
		}
	}
}

// KernelMounts returns the mount points listed in /proc/self/mountinfo that lie
// below prefix (one entry per mount, so a stacked mountpoint appears twice).
func KernelMounts(prefix string) ([]string, error) {
	fd, err := os.Open("/proc/self/mountinfo")
	if err != nil {
		return nil, err
	}
	defer fd.Close()
	var res []string
	sc := bufio.NewScanner(fd)
	sc.Buffer(make([]byte, 0, 16<<10), 1<<20)
	p := strings.TrimRight(prefix, "/") + "/"
	for sc.Scan() {
		fs := strings.Fields(sc.Text())
		if len(fs) < 5 {
			continue
		}
		mp := unescape(fs[4])
		if strings.HasPrefix(mp, p) {
			res = append(res, mp)
		}
	}
	sort.Strings(res)
	return res, sc.Err()
}

func unescape(s string) string {
	if !strings.Contains(s, "\\") {
		return s
	}
	var b strings.Builder
	for i := 0; i < len(s); i++ {
		if s[i] == '\\' && i+3 < len(s) {
			var v byte
			ok := true
			for j := 1; j <= 3; j++ {
				c := s[i+j]
				if c < '0' || c > '7' {
					ok = false
					break
				}
				v = v*8 + (c - '0')
			}
			if ok {
				b.WriteByte(v)
				i += 3
				continue
			}
		}
		b.WriteByte(s[i])
	}
	return b.String()
}
