package recfs

import (
	"os"
	"path/filepath"
	"syscall"
)

// RamDir returns a work directory below scratch. When possible (root inside the
// private mount namespace run.sh provides) it is a tmpfs mounted on <scratch>/ram, so
// that the thousands of small bbolt commits of a check do not wait for the disk
// (fsync is a no-op there; nothing in C08/C09 depends on the durability the kernel
// gives, only on which bytes the code under test wrote in which order). If the
// mount is refused the directory is an ordinary one. cleanup unmounts and removes it.
func RamDir(scratch string) (dir string, ram bool, cleanup func()) {
	dir = filepath.Join(scratch, "ram")
	if err := os.MkdirAll(dir, 0o700); err != nil {
		return scratch, false, func() {}
	}
	if err := syscall.Mount("tmpfs", dir, "tmpfs", 0, "size=3g,mode=0700"); err != nil {
		return dir, false, func() { os.RemoveAll(dir) }
	}
	return dir, true, func() {
		UnmountAllKernel(dir)
		_ = syscall.Unmount(dir, syscall.MNT_DETACH)
		os.RemoveAll(dir)
	}
}
