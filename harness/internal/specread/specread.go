// Package specread is an INDEPENDENT reader of the eStargz blob format, written from
// /repo/docs/estargz.md (plus the public zstd:chunked footer layout, which the document
// does not spell out) and sharing no code with /repo/estargz. It is the second opinion
// of the differential oracles (C01, C03, C14, C19).
//
// Trusted base: Go's compress/gzip, archive/tar, encoding/json, crypto/sha256 and
// github.com/klauspost/compress/zstd.
//
// Reading rules implemented (section numbers of docs/estargz.md in brackets):
//
//   - footer [Footer]: the last 51 bytes are an empty gzip member whose Extra field is
//     SI1='S' SI2='G' LEN=22 "%016xSTARGZ" (offset of the TOC gzip member);
//     legacy stargz: 47 bytes, Extra = "%016xSTARGZ" without the subfield header;
//     external TOC [eStargz image with an external TOC]: 46 bytes, subfield
//     "STARGZEXTERNALTOC", the TOC comes from a separate gzip'ed tar;
//     zstd:chunked: the blob ends with a skippable frame (magic 0x184D2A50, size 40) whose
//     payload is 4 little-endian uint64 (manifest offset, compressed length, uncompressed
//     length, manifest type = 1) followed by the 8 bytes "GnUlInUx"; the manifest itself
//     is a zstd frame wrapped in another skippable frame.
//   - TOC [TOC and TOCEntries]: gzip member at the TOC offset holding a tar whose entry
//     "stargz.index.json" is the TOC JSON ({"version":1,"entries":[TOCEntry...]}).
//   - data [offset / innerOffset / chunkOffset / chunkSize / chunkDigest]: the payload of
//     a non-empty `reg` or a `chunk` entry is found by opening a decompressor AT `offset`,
//     discarding `innerOffset` bytes and reading the chunk length (chunkSize, or when it is
//     zero the rest of the file: size - chunkOffset).
package specread

import (
	"archive/tar"
	"bytes"
	"compress/gzip"
	"crypto/sha256"
	"encoding/binary"
	"encoding/hex"
	"encoding/json"
	"errors"
	"fmt"
	"io"
	"path"
	"sort"
	"strconv"
	"strings"
	"sync"

	"github.com/klauspost/compress/zstd"
)

// Format is the container variant recognised from the footer.
type Format int

const (
	FormatGzip        Format = iota // eStargz, 51-byte footer, TOC embedded as the last tar entry
	FormatLegacyGzip                // stargz (CRFS), 47-byte footer
	FormatZstdChunked               // zstd:chunked, TOC in a skippable frame
	FormatExternalTOC               // eStargz with external TOC, 46-byte footer
)

func (f Format) String() string {
	switch f {
	case FormatGzip:
		return "estargz-gzip"
	case FormatLegacyGzip:
		return "stargz-legacy"
	case FormatZstdChunked:
		return "zstd:chunked"
	case FormatExternalTOC:
		return "estargz-external-toc"
	}
	return "unknown"
}

// EmbedsTOC reports whether the decompressed stream of the blob ends with the
// stargz.index.json tar entry.
func (f Format) EmbedsTOC() bool { return f == FormatGzip || f == FormatLegacyGzip }

// IsZstd reports whether data streams are zstd frames (otherwise gzip members).
func (f Format) IsZstd() bool { return f == FormatZstdChunked }

const (
	TOCName            = "stargz.index.json"
	PrefetchLandmark   = ".prefetch.landmark"
	NoPrefetchLandmark = ".no.prefetch.landmark"

	FooterSizeGzip     = 51
	FooterSizeLegacy   = 47
	FooterSizeExternal = 46
	FooterSizeZstd     = 40 // payload of the trailing skippable frame (which has an 8-byte header in front)
)

var (
	gzipMagic      = []byte{0x1f, 0x8b, 0x08}
	zstdMagic      = []byte{0x28, 0xb5, 0x2f, 0xfd}
	skippableMagic = []byte{0x50, 0x2a, 0x4d, 0x18}
	zstdChunkedTag = []byte("GnUlInUx")
)

// Entry is one TOCEntry, decoded with encoding/json into this package's own struct.
type Entry struct {
	Name        string            `json:"name"`
	Type        string            `json:"type"`
	Size        int64             `json:"size"`
	ModTime     string            `json:"modtime"`
	LinkName    string            `json:"linkName"`
	Mode        int64             `json:"mode"`
	UID         int64             `json:"uid"`
	GID         int64             `json:"gid"`
	UserName    string            `json:"userName"`
	GroupName   string            `json:"groupName"`
	DevMajor    int64             `json:"devMajor"`
	DevMinor    int64             `json:"devMinor"`
	Xattrs      map[string][]byte `json:"xattrs"`
	Digest      string            `json:"digest"`
	Offset      int64             `json:"offset"`
	ChunkOffset int64             `json:"chunkOffset"`
	ChunkSize   int64             `json:"chunkSize"`
	ChunkDigest string            `json:"chunkDigest"`
	InnerOffset int64             `json:"innerOffset"`

	// Index is the position of the entry in the TOC.
	Index int `json:"-"`
	// Head is the index of the `reg` entry this `chunk` belongs to (for `reg`: itself;
	// -1 for a chunk without a preceding `reg` of the same name, and for non-data types).
	Head int `json:"-"`
}

// HasData reports whether the entry carries payload bytes located by offset/innerOffset.
func (e *Entry) HasData() bool {
	return (e.Type == "reg" && e.Size > 0) || e.Type == "chunk"
}

type tocDoc struct {
	Version int      `json:"version"`
	Entries []*Entry `json:"entries"`
}

// Blob is a parsed blob.
type Blob struct {
	Format     Format
	Data       []byte // the blob
	FooterSize int    // bytes at the end that form the footer (zstd: 48 = frame header + 40)
	// TOCOffset is the offset recorded in the footer (-1 for external TOC).
	TOCOffset int64
	// PayloadEnd is the offset where the data streams end (gzip: TOCOffset; zstd: start of
	// the skippable frame that wraps the manifest; external: start of the footer).
	PayloadEnd int64
	// ExternalTOCTrailing is the number of bytes that follow the first gzip member of the
	// separate TOC blob (external TOC only; a well-formed TOC blob has 0).
	ExternalTOCTrailing int
	TOCJSON             []byte // exact TOC JSON bytes
	TOCDigest           string // "sha256:<hex of sha256(TOCJSON)>"
	Version             int
	Entries             []*Entry

	streamOffsets []int64
}

// Digest renders a sha256 the way the TOC does.
func Digest(p []byte) string {
	h := sha256.Sum256(p)
	return "sha256:" + hex.EncodeToString(h[:])
}

// Clean is the identity of a tar name: path.Clean("/"+name) without the leading slash.
func Clean(name string) string {
	return strings.TrimPrefix(path.Clean("/"+name), "/")
}

// DetectFormat looks at the end of the blob only.
func DetectFormat(blob []byte) (Format, error) {
	if _, err := parseGzipFooter(blob); err == nil {
		return FormatGzip, nil
	}
	if _, _, _, err := parseZstdFooter(blob); err == nil {
		return FormatZstdChunked, nil
	}
	if err := parseExternalFooter(blob); err == nil {
		return FormatExternalTOC, nil
	}
	if _, err := parseLegacyFooter(blob); err == nil {
		return FormatLegacyGzip, nil
	}
	return 0, errors.New("specread: no known footer at the end of the blob")
}

// emptyGzipMember checks the fixed parts of a footer that is "an empty gzip member with
// an Extra field": 10-byte header with FEXTRA, XLEN, extra, a 5-byte stored final block of
// length 0 and an 8-byte trailer of zeros; and that std gzip agrees it decodes to nothing.
func emptyGzipMember(p []byte, xlen int) ([]byte, error) {
	if len(p) != 10+2+xlen+5+8 {
		return nil, fmt.Errorf("footer length %d", len(p))
	}
	if !bytes.Equal(p[:3], gzipMagic) {
		return nil, errors.New("footer: no gzip magic")
	}
	if p[3]&0x04 == 0 {
		return nil, errors.New("footer: FEXTRA not set")
	}
	if int(binary.LittleEndian.Uint16(p[10:12])) != xlen {
		return nil, fmt.Errorf("footer: XLEN %d, want %d", binary.LittleEndian.Uint16(p[10:12]), xlen)
	}
	extra := p[12 : 12+xlen]
	fl := p[12+xlen : 12+xlen+5]
	if fl[0]&0x07 != 0x01 || fl[1] != 0 || fl[2] != 0 || fl[3] != 0xff || fl[4] != 0xff {
		return nil, errors.New("footer: not a final stored block of length 0")
	}
	zr, err := gzip.NewReader(bytes.NewReader(p))
	if err != nil {
		return nil, fmt.Errorf("footer: std gzip: %v", err)
	}
	b, err := io.ReadAll(zr)
	if err != nil || len(b) != 0 {
		return nil, fmt.Errorf("footer: std gzip reads %d bytes, err=%v", len(b), err)
	}
	return extra, nil
}

func parseGzipFooter(blob []byte) (int64, error) {
	if len(blob) < FooterSizeGzip {
		return 0, errors.New("short")
	}
	extra, err := emptyGzipMember(blob[len(blob)-FooterSizeGzip:], 26)
	if err != nil {
		return 0, err
	}
	if extra[0] != 'S' || extra[1] != 'G' || binary.LittleEndian.Uint16(extra[2:4]) != 22 {
		return 0, errors.New("footer: subfield header is not SG/22")
	}
	sub := string(extra[4:])
	if !strings.HasSuffix(sub, "STARGZ") || len(sub) != 22 {
		return 0, errors.New("footer: STARGZ magic missing")
	}
	off, err := strconv.ParseInt(sub[:16], 16, 64)
	if err != nil {
		return 0, err
	}
	return off, nil
}

func parseLegacyFooter(blob []byte) (int64, error) {
	if len(blob) < FooterSizeLegacy {
		return 0, errors.New("short")
	}
	extra, err := emptyGzipMember(blob[len(blob)-FooterSizeLegacy:], 22)
	if err != nil {
		return 0, err
	}
	sub := string(extra)
	if !strings.HasSuffix(sub, "STARGZ") {
		return 0, errors.New("legacy footer: STARGZ magic missing")
	}
	return strconv.ParseInt(sub[:16], 16, 64)
}

func parseExternalFooter(blob []byte) error {
	if len(blob) < FooterSizeExternal {
		return errors.New("short")
	}
	extra, err := emptyGzipMember(blob[len(blob)-FooterSizeExternal:], 21)
	if err != nil {
		return err
	}
	if extra[0] != 'S' || extra[1] != 'G' || binary.LittleEndian.Uint16(extra[2:4]) != 17 || string(extra[4:]) != "STARGZEXTERNALTOC" {
		return errors.New("external footer: subfield mismatch")
	}
	return nil
}

func parseZstdFooter(blob []byte) (off, clen, ulen int64, err error) {
	const total = 8 + FooterSizeZstd
	if len(blob) < total {
		return 0, 0, 0, errors.New("short")
	}
	f := blob[len(blob)-total:]
	if !bytes.Equal(f[:4], skippableMagic) || binary.LittleEndian.Uint32(f[4:8]) != FooterSizeZstd {
		return 0, 0, 0, errors.New("zstd footer: not a 40-byte skippable frame")
	}
	p := f[8:]
	if !bytes.Equal(p[32:40], zstdChunkedTag) {
		return 0, 0, 0, errors.New("zstd footer: magic missing")
	}
	if t := binary.LittleEndian.Uint64(p[24:32]); t != 1 {
		return 0, 0, 0, fmt.Errorf("zstd footer: manifest type %d", t)
	}
	return int64(binary.LittleEndian.Uint64(p[0:8])), int64(binary.LittleEndian.Uint64(p[8:16])), int64(binary.LittleEndian.Uint64(p[16:24])), nil
}

// tocFromGzipTar extracts the TOC JSON from a gzip member holding a tar whose first
// entry is stargz.index.json. It returns the JSON and the number of compressed bytes
// that are NOT part of that single member (must be 0 for an embedded TOC region).
func tocFromGzipTar(region []byte) ([]byte, error) {
	js, trailing, err := tocFromFirstGzipMember(region)
	if err != nil {
		return nil, err
	}
	if trailing != 0 {
		return nil, fmt.Errorf("TOC: %d bytes follow the TOC gzip member inside the TOC region", trailing)
	}
	return js, nil
}

// tocFromFirstGzipMember reads the TOC from the FIRST gzip member of p (what a consumer of
// an external TOC blob does) and reports how many bytes follow that member.
func tocFromFirstGzipMember(region []byte) (js []byte, trailing int, err error) {
	js, trailing, err = tocFirstMember(region)
	return
}

func tocFirstMember(region []byte) ([]byte, int, error) {
	if !bytes.HasPrefix(region, gzipMagic) {
		return nil, 0, errors.New("TOC: no gzip magic at the TOC offset")
	}
	br := bytes.NewReader(region)
	zr, err := gzip.NewReader(br)
	if err != nil {
		return nil, 0, fmt.Errorf("TOC: %v", err)
	}
	zr.Multistream(false)
	raw, err := io.ReadAll(zr)
	if err != nil {
		return nil, 0, fmt.Errorf("TOC: gunzip: %v", err)
	}
	trailing := br.Len()
	tr := tar.NewReader(bytes.NewReader(raw))
	h, err := tr.Next()
	if err != nil {
		return nil, 0, fmt.Errorf("TOC: tar: %v", err)
	}
	if h.Name != TOCName {
		return nil, 0, fmt.Errorf("TOC: tar entry is named %q", h.Name)
	}
	js, err := io.ReadAll(tr)
	if err != nil {
		return nil, 0, fmt.Errorf("TOC: tar read: %v", err)
	}
	if _, err := tr.Next(); err != io.EOF {
		return nil, 0, fmt.Errorf("TOC: something follows the TOC entry in its tar (err=%v)", err)
	}
	return js, trailing, nil
}

// Parse reads footer and TOC. externalTOC is the separate gzip'ed tar of an
// external-TOC blob (ignored otherwise; required for FormatExternalTOC).
func Parse(blob []byte, externalTOC []byte) (*Blob, error) {
	f, err := DetectFormat(blob)
	if err != nil {
		return nil, err
	}
	b := &Blob{Format: f, Data: blob}
	switch f {
	case FormatGzip, FormatLegacyGzip:
		var off int64
		if f == FormatGzip {
			off, _ = parseGzipFooter(blob)
			b.FooterSize = FooterSizeGzip
		} else {
			off, _ = parseLegacyFooter(blob)
			b.FooterSize = FooterSizeLegacy
		}
		end := int64(len(blob) - b.FooterSize)
		if off < 0 || off > end {
			return nil, fmt.Errorf("specread: TOC offset %d outside [0,%d]", off, end)
		}
		b.TOCOffset, b.PayloadEnd = off, off
		js, err := tocFromGzipTar(blob[off:end])
		if err != nil {
			return nil, err
		}
		b.TOCJSON = js
	case FormatExternalTOC:
		b.FooterSize = FooterSizeExternal
		b.TOCOffset = -1
		b.PayloadEnd = int64(len(blob) - FooterSizeExternal)
		if len(externalTOC) == 0 {
			return nil, errors.New("specread: external-TOC blob but no TOC supplied")
		}
		// a consumer of the separate TOC blob reads its first gzip member; anything after it
		// is reported, not refused, so that callers can judge the TOC that would be used
		js, trailing, err := tocFromFirstGzipMember(externalTOC)
		if err != nil {
			return nil, err
		}
		b.TOCJSON = js
		b.ExternalTOCTrailing = trailing
	case FormatZstdChunked:
		off, clen, ulen, _ := parseZstdFooter(blob)
		b.FooterSize = 8 + FooterSizeZstd
		end := int64(len(blob) - b.FooterSize)
		if off < 8 || clen < 0 || off+clen != end {
			return nil, fmt.Errorf("specread: zstd manifest [%d,+%d) does not end at the footer frame (%d)", off, clen, end)
		}
		hdr := blob[off-8 : off]
		if !bytes.Equal(hdr[:4], skippableMagic) || int64(binary.LittleEndian.Uint32(hdr[4:8])) != clen {
			return nil, errors.New("specread: zstd manifest is not wrapped in a skippable frame of its size")
		}
		b.TOCOffset, b.PayloadEnd = off, off-8
		if !bytes.HasPrefix(blob[off:], zstdMagic) {
			return nil, errors.New("specread: zstd manifest has no zstd magic")
		}
		dec, err := zstd.NewReader(bytes.NewReader(blob[off : off+clen]))
		if err != nil {
			return nil, err
		}
		js, err := io.ReadAll(dec)
		dec.Close()
		if err != nil {
			return nil, fmt.Errorf("specread: zstd manifest: %v", err)
		}
		if int64(len(js)) != ulen {
			return nil, fmt.Errorf("specread: zstd manifest is %d bytes, footer says %d", len(js), ulen)
		}
		b.TOCJSON = js
	}
	b.TOCDigest = Digest(b.TOCJSON)
	var doc tocDoc
	if err := json.Unmarshal(b.TOCJSON, &doc); err != nil {
		return nil, fmt.Errorf("specread: TOC JSON: %v", err)
	}
	b.Version = doc.Version
	b.Entries = doc.Entries
	lastReg := map[string]int{}
	offs := map[int64]struct{}{}
	for i, e := range b.Entries {
		if e == nil {
			return nil, fmt.Errorf("specread: TOC entry %d is null", i)
		}
		e.Index, e.Head = i, -1
		switch e.Type {
		case "reg":
			e.Head = i
			lastReg[e.Name] = i
		case "chunk":
			if j, ok := lastReg[e.Name]; ok {
				e.Head = j
			}
		}
		if e.HasData() {
			offs[e.Offset] = struct{}{}
		}
	}
	for o := range offs {
		b.streamOffsets = append(b.streamOffsets, o)
	}
	sort.Slice(b.streamOffsets, func(i, j int) bool { return b.streamOffsets[i] < b.streamOffsets[j] })
	return b, nil
}

// StreamOffsets returns the distinct `offset` values of all data entries, ascending.
func (b *Blob) StreamOffsets() []int64 { return b.streamOffsets }

// StreamEnd returns the end of the compressed stream that starts at off: the next
// larger distinct data offset, or PayloadEnd for the last one.
func (b *Blob) StreamEnd(off int64) int64 {
	i := sort.Search(len(b.streamOffsets), func(i int) bool { return b.streamOffsets[i] > off })
	if i < len(b.streamOffsets) {
		return b.streamOffsets[i]
	}
	return b.PayloadEnd
}

// CheckMagic verifies that a compressed stream of the blob's scheme starts at off.
func (b *Blob) CheckMagic(off int64) error {
	if off < 0 || off+4 > int64(len(b.Data)) {
		return fmt.Errorf("offset %d outside the blob", off)
	}
	m := gzipMagic
	if b.Format.IsZstd() {
		m = zstdMagic
	}
	if !bytes.HasPrefix(b.Data[off:], m) {
		return fmt.Errorf("no %s stream header at offset %d (found % x)", map[bool]string{false: "gzip", true: "zstd"}[b.Format.IsZstd()], off, b.Data[off:off+4])
	}
	return nil
}

// ChunkLen is the decompressed length of the data entry: chunkSize, or, when that is
// zero ("goes to the end of the file"), size(head) - chunkOffset.
func (b *Blob) ChunkLen(e *Entry) (int64, error) {
	if !e.HasData() {
		return 0, nil
	}
	if e.ChunkSize > 0 {
		return e.ChunkSize, nil
	}
	if e.Head < 0 {
		return 0, fmt.Errorf("chunk entry %d (%q) has no preceding reg entry", e.Index, e.Name)
	}
	n := b.Entries[e.Head].Size - e.ChunkOffset
	if n <= 0 {
		return 0, fmt.Errorf("entry %d (%q): chunkOffset %d not inside the file of size %d", e.Index, e.Name, e.ChunkOffset, b.Entries[e.Head].Size)
	}
	return n, nil
}

// openAt opens a decompressor at off, restricted to the one compressed stream that
// starts there (it ends where the next stream recorded in the TOC starts).
func (b *Blob) openAt(off int64) (io.Reader, func(), error) {
	if err := b.CheckMagic(off); err != nil {
		return nil, nil, err
	}
	end := b.StreamEnd(off)
	if end <= off || end > int64(len(b.Data)) {
		return nil, nil, fmt.Errorf("stream at %d has no extent (end %d)", off, end)
	}
	sec := bytes.NewReader(b.Data[off:end])
	if b.Format.IsZstd() {
		d, err := getZstd(sec)
		if err != nil {
			return nil, nil, err
		}
		return d, func() { putZstd(d) }, nil
	}
	zr, err := gzip.NewReader(sec)
	if err != nil {
		return nil, nil, err
	}
	zr.Multistream(false)
	return zr, func() { zr.Close() }, nil
}

// zstd decoders are expensive to create (large windows); they are recycled through Reset.
var zstdPool sync.Pool

func getZstd(r io.Reader) (*zstd.Decoder, error) {
	if x := zstdPool.Get(); x != nil {
		d := x.(*zstd.Decoder)
		if err := d.Reset(r); err == nil {
			return d, nil
		}
		d.Close()
	}
	return zstd.NewReader(r, zstd.WithDecoderConcurrency(1), zstd.WithDecoderLowmem(true))
}

func putZstd(d *zstd.Decoder) {
	if err := d.Reset(nil); err != nil {
		d.Close()
		return
	}
	zstdPool.Put(d)
}

// ReadChunk returns the payload of one `reg`/`chunk` entry read by the documented rule.
func (b *Blob) ReadChunk(e *Entry) ([]byte, error) {
	if !e.HasData() {
		return nil, nil
	}
	n, err := b.ChunkLen(e)
	if err != nil {
		return nil, err
	}
	if e.InnerOffset < 0 {
		return nil, fmt.Errorf("entry %d: negative innerOffset", e.Index)
	}
	r, closeFn, err := b.openAt(e.Offset)
	if err != nil {
		return nil, fmt.Errorf("entry %d (%q %s): %v", e.Index, e.Name, e.Type, err)
	}
	defer closeFn()
	if k, err := io.CopyN(io.Discard, r, e.InnerOffset); err != nil {
		return nil, fmt.Errorf("entry %d (%q %s): stream at %d ends after %d of innerOffset %d bytes: %v", e.Index, e.Name, e.Type, e.Offset, k, e.InnerOffset, err)
	}
	if n > 1<<31 {
		return nil, fmt.Errorf("entry %d: chunk of %d bytes", e.Index, n)
	}
	p := make([]byte, n)
	if k, err := io.ReadFull(r, p); err != nil {
		return nil, fmt.Errorf("entry %d (%q %s): stream at %d+%d gives %d of %d bytes: %v", e.Index, e.Name, e.Type, e.Offset, e.InnerOffset, k, n, err)
	}
	return p, nil
}

// Chunks returns the data entries of the file whose `reg` entry has index head, in TOC order.
func (b *Blob) Chunks(head int) []*Entry {
	var res []*Entry
	for _, e := range b.Entries[head:] {
		if e.Head == head && e.HasData() {
			res = append(res, e)
		}
	}
	return res
}

// Lookup returns the LAST entry (non-chunk) with the given spelled name; if none, the
// last one whose Clean name equals Clean(name).
func (b *Blob) Lookup(name string) *Entry {
	var exact, clean *Entry
	c := Clean(name)
	for _, e := range b.Entries {
		if e.Type == "chunk" {
			continue
		}
		if e.Name == name {
			exact = e
		}
		if Clean(e.Name) == c {
			clean = e
		}
	}
	if exact != nil {
		return exact
	}
	return clean
}

// ChunkReport is what ReadFileEntry found for one chunk.
type ChunkReport struct {
	Entry  *Entry
	Len    int64
	Digest string // recomputed
}

// ReadFileEntry reassembles the regular file whose `reg` entry is e from its chunks,
// checking contiguity (chunkOffset = bytes so far) and total size. Digests are
// recomputed and returned, not judged.
func (b *Blob) ReadFileEntry(e *Entry) ([]byte, []ChunkReport, error) {
	if e.Type != "reg" {
		return nil, nil, fmt.Errorf("entry %d (%q) is %q, not reg", e.Index, e.Name, e.Type)
	}
	if e.Size == 0 {
		return []byte{}, nil, nil
	}
	var out []byte
	var reps []ChunkReport
	for _, c := range b.Chunks(e.Index) {
		if c.ChunkOffset != int64(len(out)) {
			return nil, reps, fmt.Errorf("file %q: chunk entry %d has chunkOffset %d, %d bytes assembled so far", e.Name, c.Index, c.ChunkOffset, len(out))
		}
		p, err := b.ReadChunk(c)
		if err != nil {
			return nil, reps, err
		}
		reps = append(reps, ChunkReport{Entry: c, Len: int64(len(p)), Digest: Digest(p)})
		out = append(out, p...)
	}
	if int64(len(out)) != e.Size {
		return nil, reps, fmt.Errorf("file %q: chunks give %d bytes, size says %d", e.Name, len(out), e.Size)
	}
	return out, reps, nil
}

// ReadFile reads a regular file by name (hardlinks are followed through linkName).
func (b *Blob) ReadFile(name string) ([]byte, error) {
	for hop := 0; hop < 64; hop++ {
		e := b.Lookup(name)
		if e == nil {
			return nil, fmt.Errorf("no TOC entry named %q", name)
		}
		if e.Type == "hardlink" {
			name = e.LinkName
			continue
		}
		p, _, err := b.ReadFileEntry(e)
		return p, err
	}
	return nil, fmt.Errorf("hardlink chain too long at %q", name)
}

// Landmark describes the landmark entries of the TOC.
type Landmark struct {
	Prefetch   []*Entry // entries whose clean name is .prefetch.landmark
	NoPrefetch []*Entry // entries whose clean name is .no.prefetch.landmark
}

// Landmarks returns all landmark entries.
func (b *Blob) Landmarks() Landmark {
	var l Landmark
	for _, e := range b.Entries {
		if e.Type == "chunk" {
			continue
		}
		switch Clean(e.Name) {
		case PrefetchLandmark:
			l.Prefetch = append(l.Prefetch, e)
		case NoPrefetchLandmark:
			l.NoPrefetch = append(l.NoPrefetch, e)
		}
	}
	return l
}

// DecompressAll decodes the whole blob the way an eStargz-agnostic runtime does: std
// multistream gunzip, or zstd decoding of all frames (skippable frames are skipped).
// The whole input must be consumed.
func DecompressAll(blob []byte, zstdScheme bool) ([]byte, error) {
	if zstdScheme {
		if !bytes.HasPrefix(blob, zstdMagic) {
			return nil, errors.New("blob does not start with a zstd frame")
		}
		d, err := zstd.NewReader(bytes.NewReader(blob))
		if err != nil {
			return nil, err
		}
		defer d.Close()
		return io.ReadAll(d)
	}
	if !bytes.HasPrefix(blob, gzipMagic) {
		return nil, errors.New("blob does not start with a gzip member")
	}
	zr, err := gzip.NewReader(bytes.NewReader(blob))
	if err != nil {
		return nil, err
	}
	return io.ReadAll(zr)
}

// TarEntry is one entry of a decompressed tar as std archive/tar sees it.
type TarEntry struct {
	Header  *tar.Header
	Content []byte
}

type countingReader struct {
	r io.Reader
	n int64
}

func (c *countingReader) Read(p []byte) (int, error) {
	n, err := c.r.Read(p)
	c.n += int64(n)
	return n, err
}

// ReadTar lists the entries of a tar stream with std archive/tar up to the end-of-archive
// marker (or EOF). consumed is the number of bytes archive/tar looked at.
func ReadTar(raw []byte) (ents []TarEntry, consumed int64, err error) {
	cr := &countingReader{r: bytes.NewReader(raw)}
	tr := tar.NewReader(cr)
	for {
		h, err := tr.Next()
		if err == io.EOF {
			return ents, cr.n, nil
		}
		if err != nil {
			return ents, cr.n, err
		}
		var body []byte
		if h.Typeflag == tar.TypeReg {
			body, err = io.ReadAll(tr)
			if err != nil {
				return ents, cr.n, fmt.Errorf("entry %q: %v", h.Name, err)
			}
		}
		ents = append(ents, TarEntry{Header: h, Content: body})
	}
}
