// Package blob builds eStargz blobs from tar bytes with the repo's own builder
// (estargz.Build) under an explicit option set, for checks that need genuine blobs.
package blob

import (
	"bytes"
	"compress/gzip"
	"fmt"
	"io"

	"github.com/containerd/stargz-snapshotter/estargz"
	"github.com/containerd/stargz-snapshotter/estargz/externaltoc"
	"github.com/containerd/stargz-snapshotter/estargz/zstdchunked"
	"github.com/containerd/stargz-snapshotter/metadata"
	"github.com/klauspost/compress/zstd"
	digest "github.com/opencontainers/go-digest"

	"verifharness/internal/prng"
)

// Opts is one build option set.
type Opts struct {
	ChunkSize    int
	MinChunkSize int
	Compression  string // "gzip" | "zstdchunked" | "externaltoc"
	Level        int    // gzip level (1..9); zstd: 1..4 (klauspost EncoderLevel)
	Prioritized  []string
	Workers      int
}

func (o Opts) String() string {
	return fmt.Sprintf("%s chunk=%d minchunk=%d level=%d workers=%d prioritized=%q", o.Compression, o.ChunkSize, o.MinChunkSize, o.Level, o.Workers, o.Prioritized)
}

// Built is a genuine blob and what the builder reported about it.
type Built struct {
	Opts        Opts
	Blob        []byte
	TOCDigest   digest.Digest
	DiffID      digest.Digest
	Digest      digest.Digest // sha256 of Blob
	ExternalTOC []byte        // externaltoc only: the gzip'ed tar holding the TOC JSON
}

// RandomOpts draws an option set. chunkSizes: candidates to choose from.
func RandomOpts(rng *prng.R, chunkSizes ...int) Opts {
	if len(chunkSizes) == 0 {
		chunkSizes = []int{1, 7, 512, 4096, 65536}
	}
	o := Opts{ChunkSize: chunkSizes[rng.Intn(len(chunkSizes))]}
	o.Compression = rng.PickS("gzip", "gzip", "zstdchunked", "externaltoc")
	if rng.Chance(1, 3) {
		o.MinChunkSize = rng.Pick(1, o.ChunkSize/2+1, o.ChunkSize, 2*o.ChunkSize, 8*o.ChunkSize)
	}
	o.Level = rng.Pick(1, 6, 9)
	if o.Compression == "zstdchunked" {
		o.Level = rng.Pick(1, 2, 3)
	}
	o.Workers = rng.Pick(1, 1, 2, 4, 8)
	return o
}

// Build runs estargz.Build.
func Build(tarBytes []byte, o Opts, extra ...estargz.Option) (*Built, error) {
	var opts []estargz.Option
	if o.ChunkSize > 0 {
		opts = append(opts, estargz.WithChunkSize(o.ChunkSize))
	}
	if o.MinChunkSize > 0 {
		opts = append(opts, estargz.WithMinChunkSize(o.MinChunkSize))
	}
	if len(o.Prioritized) > 0 {
		opts = append(opts, estargz.WithPrioritizedFiles(o.Prioritized))
	}
	if o.Workers > 0 {
		opts = append(opts, estargz.WithParallelism(o.Workers))
	}
	var ext *externaltoc.GzipCompression
	switch o.Compression {
	case "", "gzip":
		lvl := o.Level
		if lvl == 0 {
			lvl = gzip.BestSpeed
		}
		opts = append(opts, estargz.WithCompressionLevel(lvl))
	case "zstdchunked":
		lvl := zstd.EncoderLevel(o.Level)
		if o.Level == 0 {
			lvl = zstd.SpeedFastest
		}
		opts = append(opts, estargz.WithCompression(&zstdCompression{
			Compressor:   &zstdchunked.Compressor{CompressionLevel: lvl},
			Decompressor: &zstdchunked.Decompressor{},
		}))
	case "externaltoc":
		lvl := o.Level
		if lvl == 0 {
			lvl = gzip.BestSpeed
		}
		ext = externaltoc.NewGzipCompressionWithLevel(nil, lvl).(*externaltoc.GzipCompression)
		opts = append(opts, estargz.WithCompression(ext))
	default:
		return nil, fmt.Errorf("unknown compression %q", o.Compression)
	}
	opts = append(opts, extra...)
	b, err := estargz.Build(io.NewSectionReader(bytes.NewReader(tarBytes), 0, int64(len(tarBytes))), opts...)
	if err != nil {
		return nil, err
	}
	defer b.Close()
	data, err := io.ReadAll(b)
	if err != nil {
		return nil, err
	}
	res := &Built{Opts: o, Blob: data, TOCDigest: b.TOCDigest(), DiffID: b.DiffID(), Digest: digest.FromBytes(data)}
	if ext != nil {
		var tb bytes.Buffer
		if _, err := ext.WriteTOCTo(&tb); err != nil {
			return nil, fmt.Errorf("external toc: %w", err)
		}
		res.ExternalTOC = tb.Bytes()
	}
	return res, nil
}

type zstdCompression struct {
	*zstdchunked.Compressor
	*zstdchunked.Decompressor
}

// Decompressors returns the additional metadata decompressors needed to open the
// blob directly with a metadata store (what layer.Resolver adds itself, plus the
// external-TOC provider).
func (b *Built) Decompressors() []metadata.Decompressor {
	ds := []metadata.Decompressor{new(zstdchunked.Decompressor)}
	if b.ExternalTOC != nil {
		toc := b.ExternalTOC
		ds = append(ds, externaltoc.NewGzipDecompressor(func() ([]byte, error) { return toc, nil }))
	}
	return ds
}

// SectionReader returns a reader over the blob bytes.
func (b *Built) SectionReader() *io.SectionReader {
	return io.NewSectionReader(bytes.NewReader(b.Blob), 0, int64(len(b.Blob)))
}
