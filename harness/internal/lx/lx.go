// Package lx holds what the C12 and C15 checks share: layer specs (tar model + genuine
// blob + landmark kind), the L2 "world" (memreg + layer.Resolver on a private root),
// model-checked reads through the go-fuse node interfaces, and the observation helpers
// (cache directories, write-behind queue, /proc/self/fd scan after forced GC cycles,
// bolt bucket count, request-log filters and markers).
package lx

import (
	"archive/tar"
	"bytes"
	"crypto/sha256"
	"encoding/gob"
	"fmt"
	"io"
	"net/http"
	"os"
	"path/filepath"
	"regexp"
	"runtime"
	"sort"
	"strings"
	"sync/atomic"
	"syscall"
	"time"

	"github.com/containerd/log"
	"github.com/containerd/stargz-snapshotter/estargz"
	"github.com/containerd/stargz-snapshotter/estargz/zstdchunked"
	"github.com/containerd/stargz-snapshotter/fs/config"
	"github.com/containerd/stargz-snapshotter/fs/layer"
	digest "github.com/opencontainers/go-digest"
	"github.com/sirupsen/logrus"
	bolt "go.etcd.io/bbolt"

	"verifharness/internal/blob"
	"verifharness/internal/gen"
	"verifharness/internal/l2"
	"verifharness/internal/memreg"
	"verifharness/internal/nodefs"
	"verifharness/internal/prng"
)

// Quiet silences the repo's logging and points TMPDIR (used by the db metadata store
// for its TOC spool file) below scratch so that nothing is written to /tmp.
func Quiet(scratch string) {
	logrus.SetLevel(logrus.PanicLevel)
	log.L.Logger.SetLevel(logrus.PanicLevel)
	if scratch != "" {
		d := filepath.Join(scratch, "tmp")
		_ = os.MkdirAll(d, 0o700)
		_ = os.Setenv("TMPDIR", d)
	}
}

// ---------------------------------------------------------------------------
// layers

// Landmark kinds.
const (
	LmPrefetch   = "prefetch"   // built with prioritized files -> .prefetch.landmark
	LmNoPrefetch = "noprefetch" // built with an empty prioritized list -> .no.prefetch.landmark
	LmNone       = "none"       // Writer-built: no landmark at all
)

// LayerSpec is one layer: the tar model (ground truth) and the genuine blob.
type LayerSpec struct {
	Entries     []gen.Entry
	FS          *gen.FS
	Built       *blob.Built
	Files       []string // clean paths of all regular files (incl. hardlinked names), sorted
	Prioritized []string // clean paths handed to the builder (LmPrefetch only)
	Landmark    string
	Desc        string
	HasRoot     bool // the tar has an explicit root entry
	// LandmarkOffset: blob offset of the prefetch landmark entry (LmPrefetch only, else -1),
	// read from the TOC at build time; it is the size a prefetch of this layer really fetches.
	LandmarkOffset int64
	Packed      bool // built with MinChunkSize: small files share a stream with the first chunk of a following multi-chunk file
}

// TarOpts is the tar domain used by C12/C15: the filesystem content is not what these
// properties are about, so the awkward spellings (../, duplicates, specials) that belong
// to C02/C05 are switched off; hardlinks and implicit parents stay. rootEntry: allow an
// explicit "./" root entry (DESIGN.md section 6: with the db store such a tar makes
// VerifiableReader.Cache fail).
func TarOpts(chunk int64, rootEntry bool, maxEntries int) gen.Opts {
	return gen.Opts{MaxEntries: maxEntries, ChunkSize: chunk, MaxFileSize: 4 * chunk,
		ImplicitDirs: true, Hardlinks: true, RootEntry: rootEntry}
}

// BuildLayer draws a tar and builds it. For LmPrefetch between 1 and 4 regular files are
// prioritized (if the tar has no regular file one is added).
func BuildLayer(rng *prng.R, to gen.Opts, bo blob.Opts, landmark string, forceRoot bool) (*LayerSpec, error) {
	ents := gen.RandomTar(rng, to)
	if forceRoot {
		has := false
		for _, e := range ents {
			if gen.Clean(e.Name) == "" {
				has = true
			}
		}
		if !has {
			ents = append([]gen.Entry{{Name: "./", Type: tar.TypeDir, Mode: 0o755, ModTime: 1500000000}}, ents...)
		}
	}
	// make sure there are at least two non-empty regular files
	nreg := 0
	for _, e := range ents {
		if e.Type == tar.TypeReg && e.Size > 0 {
			nreg++
		}
	}
	for i := 0; nreg < 2; i++ {
		ents = append(ents, gen.Entry{Name: fmt.Sprintf("extra%d.bin", i), Type: tar.TypeReg, Mode: 0o644,
			ModTime: 1500000000, Size: to.ChunkSize + int64(rng.Intn(int(to.ChunkSize)+1)), ContentID: rng.U64() | 1})
		nreg++
	}
	ls := &LayerSpec{Entries: ents, FS: gen.Model(ents), Landmark: landmark}
	ls.Files = ls.FS.RegularFiles()
	tarBytes := gen.TarBytes(ents)
	switch landmark {
	case LmPrefetch:
		// estargz.Build refuses a prioritized path whose parent directory (or whose hardlink
		// target's parent) has no tar entry of its own: only offer paths it can move.
		var cands []string
		for _, p := range ls.Files {
			if movable(ls, p, 0) {
				cands = append(cands, p)
			}
		}
		if len(cands) == 0 {
			// every file sits below an implicit directory: add one at the root
			ents = append(ents, gen.Entry{Name: "prio.bin", Type: tar.TypeReg, Mode: 0o644, ModTime: 1500000000,
				Size: to.ChunkSize + int64(rng.Intn(int(to.ChunkSize)+1)), ContentID: rng.U64() | 1})
			ls.Entries, ls.FS = ents, gen.Model(ents)
			ls.Files = ls.FS.RegularFiles()
			tarBytes = gen.TarBytes(ents)
			cands = []string{"prio.bin"}
		}
		n := rng.Range(1, 4)
		if n > len(cands) {
			n = len(cands)
		}
		perm := rng.Perm(len(cands))
		for _, i := range perm[:n] {
			ls.Prioritized = append(ls.Prioritized, cands[i])
		}
		bo.Prioritized = ls.Prioritized
		b, err := blob.Build(tarBytes, bo)
		if err != nil {
			return nil, err
		}
		ls.Built = b
	case LmNoPrefetch:
		bo.Prioritized = nil
		b, err := blob.Build(tarBytes, bo)
		if err != nil {
			return nil, err
		}
		ls.Built = b
	case LmNone:
		b, err := WriterBuild(tarBytes, bo.ChunkSize)
		if err != nil {
			return nil, err
		}
		ls.Built = b
	default:
		return nil, fmt.Errorf("unknown landmark kind %q", landmark)
	}
	ls.LandmarkOffset = landmarkOffset(ls.Built, landmark)
	ls.Desc = fmt.Sprintf("landmark=%s@%d %s blob=%dB files=%d prioritized=%q", landmark, ls.LandmarkOffset, ls.Built.Opts.Compression, len(ls.Built.Blob), len(ls.Files), ls.Prioritized)
	return ls, nil
}

// Pool builds n layers as a pure function of the given stream (callers derive it from
// VERIF_SEED only, so every process of a run sees the same pool and a case is still a pure
// function of (seed, tier, case index)). Building is the expensive part of a case (one
// flate/zstd encoder per chunk), hence a pool instead of fresh layers per case. The mix:
// landmark kinds round-robin, 1 in 16 zstd:chunked (its decoder allocates megabytes per
// chunk read), tar chunk sizes 512..4096, ~1 in 4 with an explicit "./" root entry when
// rootEntries is set.
func Pool(rng *prng.R, n int, rootEntries bool) ([]*LayerSpec, error) {
	mode := 0
	if rootEntries {
		mode = 1
	}
	return pool(rng, n, mode)
}

// RootPool: like Pool, every tar has an explicit "./" root entry.
func RootPool(rng *prng.R, n int) ([]*LayerSpec, error) { return pool(rng, n, 2) }

func pool(rng *prng.R, n int, rootMode int) ([]*LayerSpec, error) {
	var res []*LayerSpec
	for i := 0; i < n; i++ {
		lrng := rng.Derive(uint64(i))
		chunk := lrng.Pick(512, 1024, 2048, 4096)
		comp := "gzip"
		if i%16 == 5 {
			comp = "zstdchunked"
		}
		bo := blob.Opts{ChunkSize: chunk, Compression: comp, Level: 1, Workers: 1}
		lm := []string{LmPrefetch, LmNoPrefetch, LmNone}[i%3]
		to := TarOpts(int64(chunk), false, 8)
		to.MaxFileSize = 3 * int64(chunk)
		force := rootMode == 2 || (rootMode == 1 && lrng.Chance(1, 4))
		ls, err := BuildLayer(lrng, to, bo, lm, force)
		if err != nil {
			return nil, fmt.Errorf("pool layer %d: %w", i, err)
		}
		ls.HasRoot = force
		res = append(res, ls)
	}
	return res, nil
}

// BuildPacked builds a layer whose compressed streams are shared between files
// (estargz.WithMinChunkSize): 3-5 directories, each with 2-5 small non-empty files around
// one or two multi-chunk files (2-4 chunks of incompressible self-describing content), so
// that the first chunk of a large file sits in the stream of the small files before it while
// its later chunks have streams of their own. Names are chosen so that the large file sorts
// before, between or after its small neighbours (the metadata stores list children in
// different orders). landmark: LmPrefetch (whole groups prioritized in tar order: small
// files followed by their large file) or LmNoPrefetch.
func BuildPacked(rng *prng.R, chunk, minChunk int, comp, landmark string) (*LayerSpec, error) {
	var ents []gen.Entry
	next := rng.U64() | 1
	file := func(name string, size int64) {
		next += 2
		ents = append(ents, gen.Entry{Name: name, Type: tar.TypeReg, Mode: 0o644, ModTime: 1500000000, Size: size, ContentID: next})
	}
	var groups [][]string
	ng := rng.Range(3, 5)
	for g := 0; g < ng; g++ {
		dir := fmt.Sprintf("d%d", g)
		ents = append(ents, gen.Entry{Name: dir + "/", Type: tar.TypeDir, Mode: 0o755, ModTime: 1500000000})
		var names []string
		nsmall := rng.Range(2, 5)
		bigAt := rng.Range(1, nsmall) // at least one small file precedes the large one in tar order
		for i := 0; i <= nsmall; i++ {
			if i == bigAt {
				n := dir + "/" + rng.PickS("a-big", "m-big", "z-big")
				file(n, int64(rng.Range(2, 4)*chunk)-int64(rng.Intn(chunk/2)))
				names = append(names, n)
				if rng.Chance(1, 3) {
					n2 := n + "2"
					file(n2, int64(2*chunk)+int64(rng.Intn(chunk)))
					names = append(names, n2)
				}
				continue
			}
			n := fmt.Sprintf("%s/%s%d", dir, rng.PickS("b-small", "n-small", "y-small"), i)
			file(n, int64(rng.Range(10, 300)))
			names = append(names, n)
		}
		groups = append(groups, names)
	}
	ls := &LayerSpec{Entries: ents, FS: gen.Model(ents), Landmark: landmark, Packed: true}
	ls.Files = ls.FS.RegularFiles()
	bo := blob.Opts{ChunkSize: chunk, MinChunkSize: minChunk, Compression: comp, Level: 1, Workers: 1}
	switch landmark {
	case LmPrefetch:
		for _, gi := range rng.Perm(len(groups))[:rng.Range(1, 2)] {
			ls.Prioritized = append(ls.Prioritized, groups[gi]...)
		}
		bo.Prioritized = ls.Prioritized
	case LmNoPrefetch:
	default:
		return nil, fmt.Errorf("BuildPacked: landmark kind %q not supported", landmark)
	}
	b, err := blob.Build(gen.TarBytes(ents), bo)
	if err != nil {
		return nil, err
	}
	ls.Built = b
	ls.LandmarkOffset = landmarkOffset(b, landmark)
	ls.Desc = fmt.Sprintf("packed landmark=%s@%d %s chunk=%d minchunk=%d blob=%dB files=%d prioritized=%d", landmark, ls.LandmarkOffset, comp, chunk, minChunk, len(b.Blob), len(ls.Files), len(ls.Prioritized))
	return ls, nil
}

// PackedPool builds n packed layers: MinChunkSize cycles through chunk/4, chunk, 2*chunk,
// landmark kinds alternate, one in four is zstd:chunked.
func PackedPool(rng *prng.R, n int) ([]*LayerSpec, error) {
	var res []*LayerSpec
	for i := 0; i < n; i++ {
		lrng := rng.Derive(uint64(i))
		chunk := lrng.Pick(1024, 2048, 4000)
		minChunk := []int{chunk / 4, chunk, 2 * chunk}[i%3]
		comp := "gzip"
		if i%4 == 3 {
			comp = "zstdchunked"
		}
		lm := []string{LmPrefetch, LmNoPrefetch}[(i/3)%2]
		ls, err := BuildPacked(lrng, chunk, minChunk, comp, lm)
		if err != nil {
			return nil, fmt.Errorf("packed pool layer %d: %w", i, err)
		}
		res = append(res, ls)
	}
	return res, nil
}

type poolItem struct {
	Entries     []gen.Entry
	Built       blob.Built
	Prioritized []string
	Landmark    string
	Desc        string
	HasRoot     bool
	Packed      bool
	LandmarkOffset int64
}

// SavePool / LoadPool let the top process build the pool once and hand it to its child
// stages through a file in its scratch directory.
func SavePool(path string, pool []*LayerSpec) error {
	var items []poolItem
	for _, l := range pool {
		items = append(items, poolItem{l.Entries, *l.Built, l.Prioritized, l.Landmark, l.Desc, l.HasRoot, l.Packed, l.LandmarkOffset})
	}
	f, err := os.Create(path)
	if err != nil {
		return err
	}
	defer f.Close()
	return gob.NewEncoder(f).Encode(items)
}

func LoadPool(path string) ([]*LayerSpec, error) {
	f, err := os.Open(path)
	if err != nil {
		return nil, err
	}
	defer f.Close()
	var items []poolItem
	if err := gob.NewDecoder(f).Decode(&items); err != nil {
		return nil, err
	}
	var res []*LayerSpec
	for i := range items {
		it := &items[i]
		ls := &LayerSpec{Entries: it.Entries, FS: gen.Model(it.Entries), Built: &it.Built, Prioritized: it.Prioritized, Landmark: it.Landmark, Desc: it.Desc, HasRoot: it.HasRoot, Packed: it.Packed, LandmarkOffset: it.LandmarkOffset}
		ls.Files = ls.FS.RegularFiles()
		res = append(res, ls)
	}
	return res, nil
}

// movable: every ancestor of p has an explicit entry, and so has the hardlink chain behind p.
func movable(ls *LayerSpec, p string, depth int) bool {
	if depth > 20 {
		return false
	}
	for d := pathDir(p); d != ""; d = pathDir(d) {
		n := ls.FS.Nodes[d]
		if n == nil || n.Implicit {
			return false
		}
	}
	for i := len(ls.Entries) - 1; i >= 0; i-- {
		e := &ls.Entries[i]
		if gen.Clean(e.Name) != p {
			continue
		}
		if e.Type == tar.TypeLink {
			return movable(ls, gen.Clean(e.Linkname), depth+1)
		}
		return true
	}
	return false
}

func pathDir(p string) string {
	i := strings.LastIndex(p, "/")
	if i < 0 {
		return ""
	}
	return p[:i]
}

// landmarkOffset reads the blob offset of the prefetch landmark from the TOC (-1 when the
// layer has none or it cannot be read). The estargz reader is used for this; the value is
// cross-checked against Info().PrefetchSize wherever a verdict depends on it.
func landmarkOffset(b *blob.Built, landmark string) int64 {
	if landmark != LmPrefetch {
		return -1
	}
	r, err := estargz.Open(b.SectionReader(), estargz.WithDecompressors(new(zstdchunked.Decompressor)))
	if err != nil {
		return -1
	}
	e, ok := r.Lookup(estargz.PrefetchLandmark)
	if !ok {
		return -1
	}
	return e.Offset
}

// RealPrefetchSize is the size a Prefetch(configured) of this layer really covers: nothing
// for a no-prefetch layer, the landmark offset, or the configured size capped at the blob
// size. -1 = unknown.
func (ls *LayerSpec) RealPrefetchSize(configured int64) int64 {
	switch ls.Landmark {
	case LmNoPrefetch:
		return 0
	case LmPrefetch:
		return ls.LandmarkOffset
	}
	if size := int64(len(ls.Built.Blob)); configured > size {
		return size
	}
	return configured
}

// WriterBuild builds a gzip eStargz with estargz.Writer directly: such blobs carry no
// landmark entry at all (only estargz.Build adds one).
func WriterBuild(tarBytes []byte, chunk int) (*blob.Built, error) {
	var buf bytes.Buffer
	w := estargz.NewWriterLevel(&buf, 1)
	if chunk > 0 {
		w.ChunkSize = chunk
	}
	if err := w.AppendTar(bytes.NewReader(tarBytes)); err != nil {
		return nil, err
	}
	toc, err := w.Close()
	if err != nil {
		return nil, err
	}
	diff, err := digest.Parse(w.DiffID())
	if err != nil {
		return nil, err
	}
	data := buf.Bytes()
	return &blob.Built{Opts: blob.Opts{ChunkSize: chunk, Compression: "gzip"}, Blob: data, TOCDigest: toc, DiffID: diff, Digest: digest.FromBytes(data)}, nil
}

// ---------------------------------------------------------------------------
// world

// World is one registry + one resolver on a private root.
type World struct {
	Reg    *memreg.Registry
	Env    *l2.Env
	Img    *l2.Image
	Layers []*LayerSpec
	Root   string
	Store  string
	Cfg    config.Config
}

// NewWorld publishes the layers as one image and builds the resolver.
func NewWorld(root string, layers []*LayerSpec, cfg config.Config, store string) (*World, error) {
	reg := memreg.New()
	var bs []*blob.Built
	for _, l := range layers {
		bs = append(bs, l.Built)
	}
	im, err := l2.Publish(reg, "reg.test", "img", "v1", bs)
	if err != nil {
		return nil, err
	}
	env, err := l2.NewEnv(reg, root, cfg, store, layer.OverlayOpaqueAll, 0)
	if err != nil {
		return nil, err
	}
	if env.DB != nil {
		// no fdatasync per metadata transaction: durability of the bolt file is not under test
		// here and the sync dominates the wall time of a case on a loaded machine
		env.DB.NoSync = true
	}
	return &World{Reg: reg, Env: env, Img: im, Layers: layers, Root: root, Store: store, Cfg: cfg}, nil
}

func (w *World) Close() { w.Env.Close() }

// Digest returns the blob digest string of layer i.
func (w *World) Digest(i int) string { return w.Img.Layers[i].Digest.String() }

// ---------------------------------------------------------------------------
// model-checked reads

// ReadErr describes a failed or wrong read. Class is stable (usable in violation keys).
type ReadErr struct {
	Class  string // rootnode | walk | open | errno | short | wrong-byte
	Detail string
}

func (e *ReadErr) Error() string { return e.Class + ": " + e.Detail }

// Root gets the root node of a layer and initialises it like fs.Mount does.
func Root(l layer.Layer) (*nodefs.N, *ReadErr) {
	rn, err := l.RootNode(0)
	if err != nil {
		return nil, &ReadErr{"rootnode", err.Error()}
	}
	return nodefs.Root(rn), nil
}

// ReadRange reads [off, off+n) of the regular file p (clean model path) through the node
// interfaces and compares with the model. n is clipped to the file size.
func ReadRange(root *nodefs.N, ls *LayerSpec, p string, off int64, n int) *ReadErr {
	want := ls.FS.Nodes[p]
	if want == nil {
		return &ReadErr{"walk", "harness: no such model path " + p}
	}
	if off > want.Size {
		off = want.Size
	}
	if off+int64(n) > want.Size {
		n = int(want.Size - off)
	}
	nd, err := root.Walk(p)
	if err != nil {
		return &ReadErr{"walk", err.Error()}
	}
	fh, _, errno := nd.Open()
	if errno != 0 {
		return &ReadErr{"open", fmt.Sprintf("%q: %v", p, errno)}
	}
	defer nodefs.Release(fh)
	got := make([]byte, 0, n)
	for len(got) < n {
		b, errno := nodefs.Read(fh, off+int64(len(got)), n-len(got))
		if errno != 0 {
			return &ReadErr{"errno", fmt.Sprintf("%q off=%d: %v", p, off+int64(len(got)), errno)}
		}
		if len(b) == 0 {
			break
		}
		got = append(got, b...)
	}
	if len(got) != n {
		return &ReadErr{"short", fmt.Sprintf("%q off=%d want %d bytes got %d", p, off, n, len(got))}
	}
	if i := gen.CheckContent(want.ContentID, off, got); i >= 0 {
		return &ReadErr{"wrong-byte", fmt.Sprintf("%q byte %d of range at off=%d differs from the model", p, i, off)}
	}
	return nil
}

// ReadFull reads the whole file in pieces of step bytes.
func ReadFull(root *nodefs.N, ls *LayerSpec, p string) *ReadErr {
	want := ls.FS.Nodes[p]
	if want == nil {
		return &ReadErr{"walk", "harness: no such model path " + p}
	}
	// one past the end as well: must yield exactly Size bytes
	return ReadRange(root, ls, p, 0, int(want.Size))
}

// ---------------------------------------------------------------------------
// observation of the resolver root

// CacheDirs lists the per-instance directories below <root>/<kind> (kind = "fscache" | "httpcache").
func CacheDirs(root, kind string) []string {
	es, err := os.ReadDir(filepath.Join(root, kind))
	if err != nil {
		return nil
	}
	var res []string
	for _, e := range es {
		res = append(res, e.Name())
	}
	sort.Strings(res)
	return res
}

// DescribeLeft renders what is left below <root>/<kind> (bounded) for a violation text and
// classifies it: "with-wip" (a complete cache directory survived) or "shards-only" (only
// hash-prefix directories/chunk files: re-created after the directory had been removed).
func DescribeLeft(root, kind string) (class string, text string) {
	base := filepath.Join(root, kind)
	class = "shards-only"
	var sb strings.Builder
	n := 0
	_ = filepath.Walk(base, func(p string, info os.FileInfo, err error) error {
		if err != nil || p == base {
			return nil
		}
		rel, _ := filepath.Rel(base, p)
		if strings.HasSuffix(rel, "/wip") {
			class = "with-wip"
		}
		if n < 12 {
			fmt.Fprintf(&sb, "%s ", rel)
		}
		n++
		return nil
	})
	return class, fmt.Sprintf("%d entries: %s", n, sb.String())
}

// WipPending counts the files in the wip/ directories of all cache instances (the
// write-behind queue of SyncAdd=false plus writers in progress).
func WipPending(root string) int {
	n := 0
	for _, kind := range []string{"fscache", "httpcache"} {
		for _, d := range CacheDirs(root, kind) {
			es, _ := os.ReadDir(filepath.Join(root, kind, d, "wip"))
			n += len(es)
		}
	}
	return n
}

// WaitWipDrained polls until every wip/ directory is empty twice in a row; false = the
// generous watchdog fired (caller: inconclusive).
func WaitWipDrained(root string, watchdog time.Duration) bool {
	deadline := time.Now().Add(watchdog)
	empty := 0
	for {
		if WipPending(root) == 0 {
			empty++
			if empty >= 2 {
				return true
			}
		} else {
			empty = 0
		}
		if time.Now().After(deadline) {
			return false
		}
		time.Sleep(2 * time.Millisecond)
	}
}

// FdsBelow returns the targets of this process's descriptors that point below root,
// except the exact paths in exclude.
func FdsBelow(root string, exclude ...string) []string {
	es, err := os.ReadDir("/proc/self/fd")
	if err != nil {
		return nil
	}
	var res []string
outer:
	for _, e := range es {
		t, err := os.Readlink("/proc/self/fd/" + e.Name())
		if err != nil {
			continue
		}
		if !strings.HasPrefix(t, root+"/") {
			continue
		}
		for _, x := range exclude {
			if t == x {
				continue outer
			}
		}
		res = append(res, t)
	}
	sort.Strings(res)
	return res
}

type sentinel struct {
	p   *int
	pad [64]byte
}

// GCCycle forces one garbage collection and waits until a finalizer queued by that very
// cycle has run (so the finalizer goroutine has been scheduled after the cycle). false =
// the watchdog fired.
func GCCycle(watchdog time.Duration) bool {
	ch := make(chan struct{})
	func() {
		s := &sentinel{p: new(int)}
		runtime.SetFinalizer(s, func(*sentinel) { close(ch) })
	}()
	runtime.GC()
	select {
	case <-ch:
		return true
	case <-time.After(watchdog):
		return false
	}
}

// GoroutinesIn counts the goroutines that currently have a frame containing substr.
func GoroutinesIn(substr string) int {
	buf := make([]byte, 4<<20)
	for {
		n := runtime.Stack(buf, true)
		if n < len(buf) {
			buf = buf[:n]
			break
		}
		if len(buf) >= 256<<20 {
			break
		}
		buf = make([]byte, 2*len(buf))
	}
	cnt := 0
	for _, g := range strings.Split(string(buf), "\n\n") {
		if strings.Contains(g, substr) {
			cnt++
		}
	}
	return cnt
}

// AllStacks returns a dump of all goroutines (bounded to max bytes) for violation replays.
func AllStacks(max int) string {
	buf := make([]byte, 8<<20)
	n := runtime.Stack(buf, true)
	if n > max {
		n = max
	}
	return string(buf[:n])
}

// cacheWriterFrame marks the goroutines of the directory cache that still own a wip file:
// the write-behind goroutine started by Commit (SyncAdd=false) and any caller inside the
// cache package.
const cacheWriterFrame = "stargz-snapshotter/cache.(*directoryCache)"

// LeakedFds runs the fd scan of DESIGN.md C12: two forced GC cycles first (descriptors
// cached by a closed directory cache are closed by os.File finalizers), then, while
// something is still open: wait (state, not time) until no goroutine is inside the
// directory cache any more (a write-behind goroutine that is still blocked in write/rename
// on a loaded disk closes its wip file when it gets there), then up to `extra` further GC
// cycles. Returns what survived all of that; conclusive=false when a generous watchdog fired.
func LeakedFds(root string, extra int, exclude ...string) (left []string, conclusive bool) {
	for i := 0; i < 2; i++ {
		if !GCCycle(60 * time.Second) {
			return nil, false
		}
	}
	left = FdsBelow(root, exclude...)
	deadline := time.Now().Add(90 * time.Second)
	for len(left) > 0 && GoroutinesIn(cacheWriterFrame) > 0 {
		if time.Now().After(deadline) {
			return left, false
		}
		time.Sleep(10 * time.Millisecond)
		left = FdsBelow(root, exclude...)
	}
	for i := 0; i < extra && len(left) > 0; i++ {
		time.Sleep(5 * time.Millisecond)
		if !GCCycle(60 * time.Second) {
			return nil, false
		}
		left = FdsBelow(root, exclude...)
	}
	return left, true
}

// BucketCount returns the number of filesystem buckets of the db metadata store.
func BucketCount(db *bolt.DB) (int, error) {
	if db == nil {
		return 0, nil
	}
	n := 0
	err := db.View(func(tx *bolt.Tx) error {
		b := tx.Bucket([]byte("filesystems"))
		if b == nil {
			return nil
		}
		return b.ForEach(func(k, v []byte) error {
			n++
			return nil
		})
	})
	return n, err
}

// ---------------------------------------------------------------------------
// request log

var markSeq atomic.Int64

// Mark sends a marker request through the registry and returns its timestamp on the
// registry's clock: every logged request with T greater than the mark was issued after it.
func Mark(reg *memreg.Registry) int64 {
	host := fmt.Sprintf("marker-%d.test", markSeq.Add(1))
	req, _ := http.NewRequest("GET", "https://"+host+"/v2/", nil)
	resp, err := reg.RoundTrip(req)
	if err == nil && resp != nil && resp.Body != nil {
		io.Copy(io.Discard, resp.Body)
		resp.Body.Close()
	}
	for _, q := range reg.Log() {
		if q.Host == host {
			return q.T
		}
	}
	return -1
}

// IsMarker says whether a logged request is one of Mark's.
func IsMarker(q *memreg.Request) bool { return strings.HasPrefix(q.Host, "marker-") }

// Since returns the logged (non-marker) requests issued after the mark.
func Since(reg *memreg.Registry, mark int64) []memreg.Request {
	var res []memreg.Request
	for _, q := range reg.Log() {
		if q.T > mark && !IsMarker(&q) {
			res = append(res, q)
		}
	}
	return res
}

// IsProbe: the 2-byte GET used by redirect(), the size fallback and the connectivity check.
func IsProbe(q *memreg.Request) bool {
	return q.Method == "GET" && len(q.Ranges) == 1 && q.Ranges[0] == [2]int64{0, 1}
}

// IsData: a ranged GET of a blob that is not a probe.
func IsData(q *memreg.Request) bool {
	return q.Method == "GET" && q.Kind == "blob" && len(q.Ranges) > 0 && !IsProbe(q)
}

// Heads counts HEAD requests for a blob digest (one per resolveFetcher call).
func Heads(log []memreg.Request, dgst string) int {
	n := 0
	for i := range log {
		if log[i].Method == "HEAD" && log[i].Digest == dgst {
			n++
		}
	}
	return n
}

// Covering counts successful data requests for dgst whose ranges include byte b.
func Covering(log []memreg.Request, dgst string, b int64) int {
	n := 0
	for i := range log {
		q := &log[i]
		if !IsData(q) || q.Digest != dgst || q.Status/100 != 2 {
			continue
		}
		for _, r := range q.Ranges {
			if r[0] <= b && b <= r[1] {
				n++
				break
			}
		}
	}
	return n
}

// Covered reports whether the union of the successfully served ranges for dgst covers [0, upto).
func Covered(log []memreg.Request, dgst string, upto int64) (bool, int64) {
	var rs [][2]int64
	for i := range log {
		q := &log[i]
		if !IsData(q) || q.Digest != dgst || q.Status/100 != 2 {
			continue
		}
		rs = append(rs, q.Ranges...)
	}
	sort.Slice(rs, func(i, j int) bool { return rs[i][0] < rs[j][0] })
	var next int64
	for _, r := range rs {
		if r[0] > next {
			break
		}
		if r[1]+1 > next {
			next = r[1] + 1
		}
	}
	return next >= upto, next
}

// DescribeReqs renders a few requests for a violation text.
func DescribeReqs(log []memreg.Request, max int) string {
	var sb strings.Builder
	for i := range log {
		if i >= max {
			fmt.Fprintf(&sb, "… (%d more)", len(log)-max)
			break
		}
		q := &log[i]
		fmt.Fprintf(&sb, "[%s %s %v -> %d %s] ", q.Method, short(q.Digest), q.Ranges, q.Status, q.Err)
	}
	return sb.String()
}

func short(d string) string {
	if i := strings.Index(d, ":"); i >= 0 && len(d) > i+9 {
		return d[i+1 : i+9]
	}
	return d
}

// ---------------------------------------------------------------------------
// misc

var numRe = regexp.MustCompile(`0x[0-9a-fA-F]+|[0-9]+`)

// CrashSignature extracts a stable signature from the tail of a crashed child's output.
func CrashSignature(tail string) string {
	for _, line := range strings.Split(tail, "\n") {
		t := strings.TrimSpace(line)
		if strings.HasPrefix(t, "panic:") || strings.HasPrefix(t, "fatal error:") {
			t = numRe.ReplaceAllString(t, "N")
			if len(t) > 120 {
				t = t[:120]
			}
			return t
		}
	}
	return "no-panic-line"
}

// CrashSite returns the first stargz-snapshotter frame after the panic line.
func CrashSite(out string) string {
	i := strings.Index(out, "panic:")
	if j := strings.Index(out, "fatal error:"); j >= 0 && (i < 0 || j < i) {
		i = j
	}
	if i < 0 {
		return ""
	}
	for _, line := range strings.Split(out[i:], "\n") {
		if k := strings.Index(line, "github.com/containerd/stargz-snapshotter/"); k >= 0 && !strings.HasPrefix(strings.TrimSpace(line), "/") {
			f := line[k+len("github.com/containerd/stargz-snapshotter/"):]
			if p := strings.Index(f, "("); p >= 0 {
				// keep receiver type, drop the argument list
				if q := strings.LastIndex(f, "("); q > 0 && !strings.HasPrefix(f[q:], "(*") {
					f = f[:q]
				}
			}
			return strings.TrimSpace(f)
		}
	}
	return ""
}

// Hash is a short stable hash of a descriptor string.
func Hash(s string) string {
	h := sha256.Sum256([]byte(s))
	return fmt.Sprintf("%x", h[:6])
}

// Errno names for evidence.
func ErrnoName(e syscall.Errno) string { return e.Error() }
