// smoke is not a check: it exercises gen + blob + memreg + l2 + nodefs end to end.
package main

import (
	"archive/tar"
	"context"
	"fmt"
	"os"
	"syscall"

	"github.com/containerd/stargz-snapshotter/fs/config"
	"github.com/containerd/stargz-snapshotter/fs/layer"
	"github.com/sirupsen/logrus"

	"verifharness/internal/blob"
	"verifharness/internal/gen"
	"verifharness/internal/l2"
	"verifharness/internal/memreg"
	"verifharness/internal/nodefs"
	"verifharness/internal/prng"
)

func main() {
	logrus.SetLevel(logrus.PanicLevel)
	root, _ := os.MkdirTemp("/var/tmp", "smoke-")
	defer os.RemoveAll(root)
	bad := 0
	for i := 0; i < 30; i++ {
		rng := prng.New(uint64(i + 1))
		o := gen.DefaultOpts(512)
		o.RootEntry = false
		ents := gen.RandomTar(rng, o)
		fsm := gen.Model(ents)
		bo := blob.RandomOpts(rng, 64, 512, 4096)
		b, err := blob.Build(gen.TarBytes(ents), bo)
		if err != nil {
			fmt.Println("build:", err, bo)
			bad++
			continue
		}
		for _, store := range []string{"memory", "db"} {
			reg := memreg.New()
			im, err := l2.Publish(reg, "reg.test", "img", "v1", []*blob.Built{b})
			if err != nil {
				panic(err)
			}
			cfg := config.Config{}
			cfg.BlobConfig.ChunkSize = 300
			env, err := l2.NewEnv(reg, fmt.Sprintf("%s/%d-%s", root, i, store), cfg, store, layer.OverlayOpaqueAll, 0)
			if err != nil {
				panic(err)
			}
			l, err := env.Resolve(context.Background(), im, 0)
			if err != nil {
				fmt.Println("resolve:", err, bo)
				bad++
				continue
			}
			if err := l.Verify(b.TOCDigest); err != nil {
				fmt.Println("verify:", err)
				bad++
			}
			rn, err := l.RootNode(0)
			if err != nil {
				panic(err)
			}
			rootN := nodefs.Root(rn)
			for _, p := range fsm.Paths() {
				want := fsm.Nodes[p]
				n, err := rootN.Walk(p)
				if err != nil {
					fmt.Printf("case %d %s %s: %v\n", i, store, bo, err)
					bad++
					continue
				}
				a, _ := n.Getattr()
				if want.Type == tar.TypeReg {
					if int64(a.Size) != want.Size {
						fmt.Printf("case %d %s: size %q %d != %d\n", i, store, p, a.Size, want.Size)
						bad++
					}
					fh, _, errno := n.Open()
					if errno != 0 {
						fmt.Println("open", errno)
						bad++
						continue
					}
					got, errno := nodefs.Read(fh, 0, int(want.Size)+10)
					if errno != 0 || int64(len(got)) != want.Size || gen.CheckContent(want.ContentID, 0, got) >= 0 {
						fmt.Printf("case %d %s: read %q errno=%v len=%d want=%d\n", i, store, p, errno, len(got), want.Size)
						bad++
					}
				}
				if !want.Implicit && a.Mode&0o7777 != uint32(want.Mode&0o777)|modeBits(want.Mode) {
					fmt.Printf("case %d %s: mode %q %o want %o\n", i, store, p, a.Mode, want.Mode)
					bad++
				}
			}
			l.Done()
			env.Close()
			_ = syscall.ENOENT
		}
	}
	fmt.Println("bad:", bad, "requests ok")
}

func modeBits(m int64) uint32 {
	var r uint32
	if m&0o4000 != 0 {
		r |= syscall.S_ISUID
	}
	if m&0o2000 != 0 {
		r |= syscall.S_ISGID
	}
	if m&0o1000 != 0 {
		r |= syscall.S_ISVTX
	}
	return r
}
