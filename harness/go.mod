module verifharness

go 1.25.0

require (
	github.com/anishathalye/porcupine v1.3.0
	github.com/containerd/containerd/v2 v2.2.3
	github.com/containerd/errdefs v1.0.0
	github.com/containerd/log v0.1.0
	github.com/containerd/platforms v1.0.0-rc.4
	github.com/containerd/stargz-snapshotter v0.18.2
	github.com/containerd/stargz-snapshotter/cmd v0.0.0
	github.com/containerd/stargz-snapshotter/estargz v0.18.2
	github.com/containerd/stargz-snapshotter/ipfs v0.18.2
	github.com/distribution/reference v0.6.0
	github.com/hanwen/go-fuse/v2 v2.10.1
	github.com/hashicorp/go-retryablehttp v0.7.8
	github.com/klauspost/compress v1.18.6
	github.com/opencontainers/go-digest v1.0.0
	github.com/opencontainers/image-spec v1.1.1
	github.com/sirupsen/logrus v1.9.4
	go.etcd.io/bbolt v1.4.3
	golang.org/x/sys v0.45.0
	google.golang.org/grpc v1.82.1
	k8s.io/cri-api v0.35.3
)

require (
	github.com/beorn7/perks v1.0.1 // indirect
	github.com/cespare/xxhash/v2 v2.3.0 // indirect
	github.com/containerd/containerd/api v1.10.0 // indirect
	github.com/containerd/continuity v0.4.5 // indirect
	github.com/containerd/errdefs/pkg v0.3.0 // indirect
	github.com/containerd/fifo v1.1.0 // indirect
	github.com/containerd/plugin v1.0.0 // indirect
	github.com/containerd/ttrpc v1.2.7 // indirect
	github.com/containerd/typeurl/v2 v2.2.3 // indirect
	github.com/cyphar/filepath-securejoin v0.6.0 // indirect
	github.com/docker/go-metrics v0.0.1 // indirect
	github.com/felixge/httpsnoop v1.0.4 // indirect
	github.com/go-logr/logr v1.4.3 // indirect
	github.com/go-logr/stdr v1.2.2 // indirect
	github.com/goccy/go-json v0.10.6 // indirect
	github.com/gogo/protobuf v1.3.2 // indirect
	github.com/golang/groupcache v0.0.0-20241129210726-2c02b8208cf8 // indirect
	github.com/google/go-cmp v0.7.0 // indirect
	github.com/hashicorp/go-cleanhttp v0.5.2 // indirect
	github.com/ipfs/go-cid v0.1.0 // indirect
	github.com/klauspost/cpuid/v2 v2.2.6 // indirect
	github.com/mitchellh/go-homedir v1.1.0 // indirect
	github.com/moby/locker v1.0.1 // indirect
	github.com/moby/sys/mountinfo v0.7.2 // indirect
	github.com/moby/sys/signal v0.7.1 // indirect
	github.com/moby/sys/user v0.4.0 // indirect
	github.com/moby/sys/userns v0.1.0 // indirect
	github.com/mr-tron/base58 v1.2.0 // indirect
	github.com/multiformats/go-base32 v0.1.0 // indirect
	github.com/multiformats/go-base36 v0.2.0 // indirect
	github.com/multiformats/go-multiaddr v0.16.1 // indirect
	github.com/multiformats/go-multibase v0.2.0 // indirect
	github.com/multiformats/go-multihash v0.2.3 // indirect
	github.com/multiformats/go-varint v0.0.7 // indirect
	github.com/munnerz/goautoneg v0.0.0-20191010083416-a7dc8b61c822 // indirect
	github.com/opencontainers/runtime-spec v1.3.0 // indirect
	github.com/opencontainers/selinux v1.13.1 // indirect
	github.com/pelletier/go-toml/v2 v2.2.4 // indirect
	github.com/prometheus/client_golang v1.23.2 // indirect
	github.com/prometheus/client_model v0.6.2 // indirect
	github.com/prometheus/common v0.66.1 // indirect
	github.com/prometheus/procfs v0.16.1 // indirect
	github.com/rs/xid v1.6.0 // indirect
	github.com/spaolacci/murmur3 v1.1.0 // indirect
	github.com/vbatts/tar-split v0.12.2 // indirect
	go.opentelemetry.io/auto/sdk v1.2.1 // indirect
	go.opentelemetry.io/contrib/instrumentation/net/http/otelhttp v0.60.0 // indirect
	go.opentelemetry.io/otel v1.43.0 // indirect
	go.opentelemetry.io/otel/metric v1.43.0 // indirect
	go.opentelemetry.io/otel/trace v1.43.0 // indirect
	go.yaml.in/yaml/v2 v2.4.3 // indirect
	golang.org/x/crypto v0.52.0 // indirect
	golang.org/x/exp v0.0.0-20241108190413-2d47ceb2692f // indirect
	golang.org/x/net v0.55.0 // indirect
	golang.org/x/sync v0.20.0 // indirect
	golang.org/x/text v0.37.0 // indirect
	google.golang.org/genproto/googleapis/rpc v0.0.0-20260414002931-afd174a4e478 // indirect
	google.golang.org/protobuf v1.36.11 // indirect
	lukechampine.com/blake3 v1.2.1 // indirect
)

replace (
	github.com/containerd/stargz-snapshotter => /repo
	github.com/containerd/stargz-snapshotter/cmd => /repo/cmd
	github.com/containerd/stargz-snapshotter/estargz => /repo/estargz
	github.com/containerd/stargz-snapshotter/ipfs => /repo/ipfs
)
