module verifharness

go 1.25.0

require (
	github.com/anishathalye/porcupine v1.3.0
	github.com/containerd/stargz-snapshotter v0.18.2
	github.com/containerd/stargz-snapshotter/cmd v0.0.0
	github.com/containerd/stargz-snapshotter/estargz v0.18.2
	github.com/containerd/stargz-snapshotter/ipfs v0.18.2
)

require github.com/golang/groupcache v0.0.0-20241129210726-2c02b8208cf8 // indirect

replace (
	github.com/containerd/stargz-snapshotter => /repo
	github.com/containerd/stargz-snapshotter/cmd => /repo/cmd
	github.com/containerd/stargz-snapshotter/estargz => /repo/estargz
	github.com/containerd/stargz-snapshotter/ipfs => /repo/ipfs
)
