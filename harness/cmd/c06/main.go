// C06 — remote blob reads are byte-exact under any server behaviour and concurrency;
// the fetched size is exact, bounded and monotonic.
//
// Level L1: remote.NewResolver(cfg.BlobConfig, nil).Resolve(ctx, hosts(memreg), refspec,
// desc, reccache(real cache)) gives the real fs/remote blob. Every scenario (pure function
// of VERIF_SEED, tier, index) fixes a blob (self-describing content, size around the chunk
// boundaries), chunk size 1..64 KiB, prefetch chunk size <,=,> chunk size, a cache (memory /
// directory with 1-entry LRUs / defaults), a transport (memreg directly, or memreg behind
// go-retryablehttp as the daemon configures it), optionally a redirecting registry with
// expiring CDN tokens or a registry that refuses multi-range requests, and a sequence of
// phases. A phase is clean (honest personalities only: multipart, squashed super-range,
// whole body, multipart for one range, multipart with permuted parts, redirect) or belongs
// to one fault family (5xx/429/404, transport errors, truncated bodies cut before/between/
// after parts, 403 / token expiry, 400, first-range-only, stalls with cancelled contexts,
// cache faults: Get miss after commit, reader error after k bytes, Add/Commit errors).
// Phase kinds: "walk" (single goroutine fetches chunks in adversarial orders: regionSet
// hammer), "solo" (one client under one fault family, FetchedSize checked against the
// cache after every operation), "herd" (all goroutines ask for the identical missing chunk set at once, first
// request stalled until everybody entered: shared single-flight, cache copy, retry),
// "mixed" (1-32 goroutines, overlapping ReadAt / Cache / Check / Refresh / token expiry on a
// few hot regions, some with cancellable contexts), "verify" (clean full read).
//
// Oracle (from the statement only):
//   - ReadAt: error, or n == clamp(size-o, 0, len) and p[:n] == blob[o:o+n] (io.EOF with exact
//     n and bytes counts as exact). Slack: offset > size returning (0, nil) is exact by the same formula.
//   - anti-vacuity: an error of ReadAt/Cache is flagged unless a fault (scripted server
//     failure, injected cache fault, cancelled context, expired token) was delivered in the
//     same phase. Phases are separated by quiescence, all tokens are revalidated at the
//     start of a clean phase; single-flight can hand one request's failure to every
//     overlapping reader, so the window is the phase (sound; anything narrower could blame a
//     reader that joined a failing flight after the fault was delivered).
//   - FetchedSize: per observer non-decreasing, always <= Size(); at every quiescent point
//     == sum of len(value) over the distinct keys ever committed to the cache (reccache).
//
// Race build: a child stage runs further scenarios under -race, attribution "fs/remote.".
// Half of the race scenarios use quiet observers (FetchedSize only at the ends, no
// sampler) because FetchedSize takes the blob's region mutex and every such call adds
// happens-before edges between the clients (AUTHORING rule 4).
package main

import (
	"bytes"
	"context"
	"encoding/hex"
	"errors"
	"fmt"
	"hash/fnv"
	"io"
	"mime"
	"mime/multipart"
	"net/http"
	"net/textproto"
	"os"
	"path/filepath"
	"regexp"
	"runtime/debug"
	"runtime/pprof"
	"strconv"
	"strings"
	"sync"
	"sync/atomic"
	"time"

	"github.com/containerd/containerd/v2/core/remotes/docker"
	"github.com/containerd/containerd/v2/pkg/reference"
	"github.com/containerd/log"
	"github.com/containerd/stargz-snapshotter/cache"
	"github.com/containerd/stargz-snapshotter/fs/config"
	"github.com/containerd/stargz-snapshotter/fs/remote"
	"github.com/containerd/stargz-snapshotter/fs/source"
	rhttp "github.com/hashicorp/go-retryablehttp"
	digest "github.com/opencontainers/go-digest"
	ocispec "github.com/opencontainers/image-spec/specs-go/v1"
	"github.com/sirupsen/logrus"

	"verifharness/internal/gen"
	"verifharness/internal/memreg"
	"verifharness/internal/prng"
	"verifharness/internal/reccache"
	"verifharness/internal/vf"
)

const (
	regHost = "reg.test"
	repo    = "c06/img"
)

var t0 = time.Now()

func now() int64 { return int64(time.Since(t0)) }

func main() {
	vf.Main("C06", "exploration",
		"each case is one scenario drawn from the seed: blob size (0, 1, c-1, c, c+1, k*c+-1, ...), chunk size 1..64KiB, prefetch chunk size <,=,> chunk, cache kind, transport (plain | retryablehttp), "+
			"registry kind (direct | redirect to CDN with expiring tokens | refuses multi-range), 1-32 goroutines, 2-5 hot regions and 6-9 phases (partial walk, solo, 3-6 of herd | mixed | walk, verify; clean or one fault family). "+
			"non-trivial = a scenario in which at least one byte-checked ReadAt of >=1 byte succeeded in a phase that fetched from the registry (2xx range GET logged) AND at least two of "+
			"{multi-range request seen, non-plain personality answered (squash/whole/multipart-always/permuted), a read succeeded in a phase with delivered faults, herd phase answered with fewer GETs than readers (shared flight), "+
			"cache fault injected, >=2 goroutines} hold; distinct by the scenario descriptor",
		20, 300, body)
}

func body(r *vf.Run) {
	logrus.SetLevel(logrus.PanicLevel)
	log.L.Logger.SetLevel(logrus.PanicLevel)
	selfTest(r)
	if pf := os.Getenv("C06_PROF"); pf != "" {
		f, _ := os.Create(pf)
		pprof.StartCPUProfile(f)
		defer pprof.StopCPUProfile()
	}

	if r.Child != "" {
		// child stages: "plain" (stage label 0) and "race" (stage label 1, -race build)
		from, _ := strconv.Atoi(r.ChildArgs[0])
		to, _ := strconv.Atoi(r.ChildArgs[1])
		if r.Child == "race" {
			runRange(r, 1, from, to)
			return
		}
		if from == 0 {
			directedPartialCopy(r)
		}
		runRange(r, 0, from, to)
		return
	}
	// The top process only orchestrates: both stages run as children (crash isolation;
	// the directory cache also prints asynchronous commit failures with fmt.Println,
	// which stays in the children's output files), side by side.
	stage := func(name string, race bool, n, batch int, attribution []string) {
		for from := 0; from < n && r.Violations() <= 20; from += batch {
			to := from + batch
			if to > n {
				to = n
			}
			ex := r.RunChild(vf.ChildSpec{
				Stage: name, Args: []string{strconv.Itoa(from), strconv.Itoa(to)}, Race: race,
				Timeout:     time.Duration(r.N(12, 30)) * time.Minute,
				Attribution: attribution,
			})
			r.Count(name+"_children", 1)
			// exit code 66 is the race runtime's "races were reported" (they are accounted
			// from the log); a periodically flushed partial result may exist although the
			// child died later, so death is decided on the exit status
			died := ex.Signal != "" || (ex.ExitCode != 0 && ex.ExitCode != 66) || !ex.Partial
			if ex.TimedOut {
				r.Inconclusive(name + " child watchdog")
			} else if died {
				// the child died: a crash of the code under test (no hostile input is used here)
				key := "crash:" + name + "-child:" + crashSite(ex.Output, ex.Tail)
				r.Violate(key, "the "+name+" child running C06 scenarios died: "+tailLines(ex.Tail, 30), map[string]any{"from": from, "to": to, "tail": ex.Tail})
			}
			r.Logf("%s child [%d,%d) done", name, from, to)
		}
	}
	var wg sync.WaitGroup
	wg.Add(2)
	go func() { defer wg.Done(); stage("plain", false, r.N(100, 1200), r.N(100, 300), nil) }()
	go func() { defer wg.Done(); stage("race", true, r.N(24, 300), r.N(24, 100), []string{"fs/remote."}) }()
	wg.Wait()
	r.Assume("memreg answers honest personalities correctly (bytes of the registered blob, correct Content-Range); the blob bytes are gen.FillContent(id, 0, .) (self-test at start)")
	r.Assume("reccache forwards to the real cache unchanged except for the injected faults it logs; std mime/multipart is used to permute parts")
	r.Assume("phase boundaries are quiescent for fs/remote (all client goroutines joined); asynchronous directory-cache file commits may still run and are not part of the judged state")
}

var reSite = regexp.MustCompile(`^(panic: |fatal error: |SIGSEGV|unexpected fault)`)

// crashSite extracts a stable identity of a child's death from its output file: the first
// panic / fatal error line (numbers stripped) and the innermost stargz-snapshotter frame
// below it.
func crashSite(outputPath, tail string) string {
	b, err := os.ReadFile(outputPath)
	if err != nil {
		b = []byte(tail)
	}
	lines := strings.Split(string(b), "\n")
	for i, l := range lines {
		if !reSite.MatchString(l) {
			continue
		}
		site := normErr(l)
		for _, f := range lines[i+1:] {
			if k := strings.Index(f, "github.com/containerd/stargz-snapshotter/"); k >= 0 && !strings.HasPrefix(f, "\t") {
				fn := f[k+len("github.com/containerd/stargz-snapshotter/"):]
				if j := strings.LastIndex(fn, "("); j > 0 && strings.HasSuffix(fn, ")") {
					fn = fn[:j]
				}
				return site + "@" + fn
			}
		}
		return site
	}
	return "unknown"
}

func tailLines(s string, n int) string {
	ls := strings.Split(strings.TrimSpace(s), "\n")
	if len(ls) > n {
		ls = ls[len(ls)-n:]
	}
	return strings.Join(ls, "\n")
}

// selfTest pins the two harness-side facts the oracle rests on.
func selfTest(r *vf.Run) {
	a := make([]byte, 1037)
	b := make([]byte, 1037)
	gen.FillContent(77, 0, a)
	fastFill(77, b)
	if !bytes.Equal(a, b) || gen.CheckContent(77, 5, a[5:900]) != -1 {
		r.Inconclusive("harness self-test failed: fastFill != gen.FillContent")
		panic("c06: fastFill self-test failed")
	}
}

// fastFill is gen.FillContent(id, 0, p) computed one 8-byte word at a time.
func fastFill(id uint64, p []byte) {
	for i := 0; i < len(p); i += 8 {
		w := prng.Hash64(id, uint64(i/8))
		for j := 0; j < 8 && i+j < len(p); j++ {
			p[i+j] = byte(w >> (8 * uint(j)))
		}
	}
}

// ---------------------------------------------------------------------------
// scenario model

type hotRegion struct{ Off, Len int64 }

type phaseSpec struct {
	Kind     string // walk | herd | mixed | verify
	Family   string // "" (clean) | status | neterr | truncate | 403 | 400 | firstonly | cancel | cache-getmiss | cache-readerr | cache-adderr | cache-commiterr | mix
	Evict    string // none | all | some
	OpsPerG  int
	Modes    []int // personalities allowed for un-faulted data requests
	PFault   int   // per cent
	Seed     uint64
	WalkKind string
	WalkPart int // per cent of the walk order that is executed (0 = all)
}

type scenario struct {
	Idx         int
	Stage       int
	Chunk       int64
	Size        int64
	Prefetch    int64
	Cache       string
	Transport   string
	Registry    string // direct | cdn | nomulti
	ForceSingle bool
	CheckAlways bool
	G           int
	Quiet       bool // quiet observers (race stage)
	Hot         []hotRegion
	Phases      []phaseSpec
	ContentID   uint64
}

func (s *scenario) desc() string {
	var ph []string
	for _, p := range s.Phases {
		f := p.Family
		if f == "" {
			f = "clean"
		}
		ph = append(ph, p.Kind+"/"+f)
	}
	return fmt.Sprintf("st%d#%d c=%d size=%d pf=%d cache=%s tr=%s reg=%s fs=%v ca=%v G=%d quiet=%v hot=%v phases=%s",
		s.Stage, s.Idx, s.Chunk, s.Size, s.Prefetch, s.Cache, s.Transport, s.Registry, s.ForceSingle, s.CheckAlways, s.G, s.Quiet, s.Hot, strings.Join(ph, ","))
}

const (
	pHonest = iota
	pSquash
	pWhole
	pMultipartAlways
	pPermuted
	nPersonalities
)

var personalityName = [...]string{"honest", "squash", "whole", "multipart-always", "permuted-multipart"}

var faultFamilies = []string{"status", "neterr", "truncate", "403", "400", "firstonly", "cancel", "cache-getmiss", "cache-readerr", "cache-adderr", "cache-commiterr", "mix", "overlap", "overlap"}

func genScenario(r *vf.Run, stage, idx int) *scenario {
	rng := r.RNG(uint64(stage), uint64(idx))
	s := &scenario{Idx: idx, Stage: stage, ContentID: rng.U64() | 1}
	// chunk size 1 .. 64 KiB, biased to boundaries and small values
	switch rng.Intn(10) {
	case 0:
		s.Chunk = int64(rng.Pick(1, 2, 3))
	case 1:
		s.Chunk = int64(rng.Pick(7, 16, 63, 64, 65))
	case 2:
		s.Chunk = int64(rng.Pick(32767, 32768, 32769, 65535, 65536))
	case 3, 4:
		s.Chunk = int64(rng.Range(1, 65536))
	default:
		s.Chunk = int64(rng.Range(4, 4200))
	}
	c := s.Chunk
	maxChunks := int64(40)
	budget := int64(512 << 10)
	if stage == 1 {
		budget = 192 << 10 // race build: instrumented copies are slow
	}
	if lim := budget/c + 2; lim < maxChunks {
		maxChunks = lim
	}
	if c <= 3 {
		maxChunks = 24
	}
	switch rng.Intn(12) {
	case 0:
		s.Size = int64(rng.Pick(0, 0, 1))
	case 1:
		s.Size = []int64{c - 1, c, c + 1}[rng.Intn(3)]
	case 2, 3, 4:
		k := int64(rng.Range(2, int(maxChunks)))
		s.Size = k*c + int64(rng.Pick(-1, 0, 0, 1))
	default:
		k := int64(rng.Range(1, int(maxChunks)))
		s.Size = k*c + rng.Int63n(c)
	}
	if s.Size < 0 {
		s.Size = 0
	}
	switch rng.Intn(6) {
	case 0:
		s.Prefetch = 0
	case 1:
		s.Prefetch = c/2 + 0
	case 2:
		s.Prefetch = c
	case 3:
		s.Prefetch = 2 * c
	case 4:
		s.Prefetch = 3*c + 1
	default:
		s.Prefetch = int64(rng.Range(1, 6))*c + rng.Int63n(c)
	}
	s.Cache = rng.PickS("memory", "memory", "memory", "memory", "dir-lru1", "dir-lru1", "dir-lru1-sync", "dir-direct", "dir-default")
	s.Transport = rng.PickS("plain", "plain", "rhttp")
	if s.Cache != "memory" && s.Size/c > 16 {
		// every chunk is a file: keep directory-cache scenarios small (the box is shared)
		s.Size = 16*c + s.Size%c
	}
	s.Registry = rng.PickS("direct", "direct", "direct", "cdn", "cdn", "nomulti")
	s.ForceSingle = rng.Chance(1, 12)
	s.CheckAlways = rng.Chance(1, 3)
	s.G = rng.Pick(1, 2, 2, 3, 4, 4, 6, 8, 8, 12, 16, 24, 32)
	if stage == 1 {
		s.Quiet = rng.Bool()
	}
	nch := (s.Size + c - 1) / c
	// hot regions
	maxRead := int64(128 << 10)
	nHot := rng.Range(2, 4)
	for i := 0; i < nHot && nch > 0; i++ {
		a := rng.Int63n(nch)
		k := int64(rng.Pick(1, 1, 2, 3, 5, 8))
		if k*c > maxRead {
			k = maxRead/c + 1
		}
		off := a*c + []int64{0, 1, c - 1, rng.Int63n(c)}[rng.Intn(4)]
		end := (a+k-1)*c + []int64{1, c - 1, c, 1 + rng.Int63n(c)}[rng.Intn(4)]
		if end <= off {
			end = off + 1
		}
		s.Hot = append(s.Hot, hotRegion{off, end - off})
	}
	if nch >= 6 && c*5 <= maxRead {
		// one long span: with holes in the cache it turns into a multi-range request
		k := int64(rng.Range(5, 8))
		if k > nch {
			k = nch
		}
		if k*c > maxRead {
			k = maxRead / c
		}
		a := rng.Int63n(nch - k + 1)
		s.Hot = append(s.Hot, hotRegion{a*c + rng.Int63n(c), (k-1)*c + 1})
	}
	// one region around EOF
	eofOff := []int64{s.Size - 1, s.Size, s.Size + 1, s.Size - c - 1, s.Size + c, s.Size - c}[rng.Intn(6)]
	if eofOff < 0 {
		eofOff = 0
	}
	s.Hot = append(s.Hot, hotRegion{eofOff, []int64{1, c, 2*c + 3, c + 1}[rng.Intn(4)]})

	// phases
	allModes := []int{pHonest, pSquash, pMultipartAlways, pPermuted, pWhole}
	pickModes := func() []int {
		switch rng.Intn(5) {
		case 0:
			return []int{pHonest}
		case 1:
			return []int{pHonest, pPermuted, pMultipartAlways}
		case 2:
			return []int{pSquash, pHonest}
		case 3:
			return []int{pHonest, pHonest, pSquash, pMultipartAlways, pPermuted}
		}
		return allModes
	}
	addPhase := func(kind, family string) {
		p := phaseSpec{Kind: kind, Family: family, Seed: rng.U64(), Modes: pickModes(), PFault: rng.Pick(15, 30, 50, 80)}
		p.Evict = rng.PickS("none", "none", "some", "some", "all")
		total := rng.Range(32, 72)
		p.OpsPerG = total/s.G + 1
		switch kind {
		case "walk":
			p.WalkKind = rng.PickS("evens-odds", "odds-evens", "descending", "ascending", "outside-in", "random", "pairs-bridge", "nested")
			p.Modes = []int{pHonest}
			if rng.Chance(1, 4) {
				p.Modes = []int{pHonest, pPermuted, pMultipartAlways}
			}
			p.Evict = "none"
			if family == "overlap" {
				p.PFault = 80
				p.Evict = rng.PickS("all", "some", "none")
			}
		case "solo":
			p.OpsPerG = rng.Range(16, 32)
		case "herd":
			p.Evict = rng.PickS("all", "all", "some")
		case "verify":
			p.Evict = "none"
			p.Modes = []int{pHonest, pPermuted}
		}
		s.Phases = append(s.Phases, p)
	}
	fam := func() string { return faultFamilies[rng.Intn(len(faultFamilies))] }
	// The first walk touches only a part of the chunks (holes remain: later spans become
	// multi-range requests, and FetchedSize stays below the blob size so that over- and
	// under-counting remain visible); the single-client faulty phase comes right after it:
	// FetchedSize is compared with the cache after every operation, so a chunk that is
	// counted although its commit failed is seen before a later successful fetch hides it.
	addPhase("walk", "")
	s.Phases[0].WalkPart = rng.Pick(25, 34, 50, 50, 67)
	addPhase("solo", rng.PickS("truncate", "truncate", "cache-commiterr", "cache-commiterr", "cache-adderr", "neterr", "status", "cancel", "403", "mix", "overlap", "overlap"))
	np := rng.Range(3, 6)
	for i := 0; i < np; i++ {
		kind := rng.PickS("herd", "herd", "mixed", "mixed", "mixed", "walk")
		family := ""
		if kind != "walk" && rng.Chance(3, 5) {
			family = fam()
			if kind == "herd" && rng.Chance(1, 2) {
				family = rng.PickS("cache-getmiss", "cache-readerr", "cache-adderr", "status", "cancel", "truncate", "403")
			}
		}
		if kind == "walk" && rng.Chance(1, 2) {
			family = "overlap" // the only faulty walk: chunk-by-chunk fetches answered with overlapping parts
		}
		if kind == "herd" && rng.Chance(1, 3) {
			// the stalled leader request of the shared flight is cut inside a part after k
			// bytes; every other request of the phase is answered cleanly
			family = "leader-truncate"
		}
		addPhase(kind, family)
	}
	addPhase("verify", "")
	return s
}

// ---------------------------------------------------------------------------
// the server side: personality / fault script

type phaseCfg struct {
	id     int
	spec   phaseSpec
	faulty bool
	// herd: the first data request stalls on this channel
	herdStall chan struct{}
	herdArmed atomic.Bool
	counters  sync.Map // request signature -> *atomic.Int64 (per-object atomics)
}

type server struct {
	reg   *memreg.Registry
	sc    *scenario
	data  []byte // the blob (read-only)
	dgst  digest.Digest
	cur   atomic.Pointer[phaseCfg]
	token atomic.Int64
}

func tokenName(n int64) string { return "t" + strconv.FormatInt(n, 10) }

func (s *server) expireToken() {
	n := s.token.Add(1)
	s.reg.AllowToken(tokenName(n), true)
	s.reg.AllowToken(tokenName(n-1), false)
}

func (s *server) revalidateTokens() {
	n := s.token.Load()
	for i := int64(0); i <= n; i++ {
		s.reg.AllowToken(tokenName(i), true)
	}
}

func fnv64(s string) uint64 {
	h := fnv.New64a()
	h.Write([]byte(s))
	return h.Sum64()
}

type failBody struct {
	data []byte
	off  int
	err  error
}

func (f *failBody) Read(p []byte) (int, error) {
	if f.off < len(f.data) {
		n := copy(p, f.data[f.off:])
		f.off += n
		return n, nil
	}
	return 0, f.err
}
func (f *failBody) Close() error { return nil }

// truncateBody cuts the reply body before / between / inside / after parts.
func truncateBody(res *http.Response, pick uint64) {
	if res.Body == nil {
		return
	}
	body, _ := io.ReadAll(res.Body)
	n := len(body)
	cands := []int{0, 1, n / 4, n / 2, n - 1, n}
	if mt, params, err := mime.ParseMediaType(res.Header.Get("Content-Type")); err == nil && strings.HasPrefix(mt, "multipart/") {
		delim := []byte("--" + params["boundary"])
		for i := 0; i < n; {
			j := bytes.Index(body[i:], delim)
			if j < 0 {
				break
			}
			// just before the delimiter (= right after the previous part's data) and right after it
			cands = append(cands, i+j, i+j+len(delim)+2, i+j, i+j+len(delim)+2)
			i += j + len(delim)
		}
	}
	k := cands[int(pick%uint64(len(cands)))]
	if k < 0 {
		k = 0
	}
	if k > n {
		k = n
	}
	res.Body = &failBody{data: body[:k], err: io.ErrUnexpectedEOF}
}

// truncateInPart cuts the reply body INSIDE the data of one part (the first part half of
// the time) after k bytes, k from {1, chunk-1, chunk+1, len-1, random} within 1..len-1, so
// that some chunk is delivered partially before the stream breaks. A 200/206 single-part
// body is one part.
func truncateInPart(res *http.Response, pick uint64, chunk int64) {
	if res.Body == nil || (res.StatusCode != 200 && res.StatusCode != 206) {
		return
	}
	body, _ := io.ReadAll(res.Body)
	type span struct{ b, e int }
	var parts []span
	if mt, params, err := mime.ParseMediaType(res.Header.Get("Content-Type")); err == nil && strings.HasPrefix(mt, "multipart/") {
		delim := []byte("--" + params["boundary"])
		for i := 0; i < len(body); {
			j := bytes.Index(body[i:], delim)
			if j < 0 {
				break
			}
			at := i + j + len(delim)
			if bytes.HasPrefix(body[at:], []byte("--")) {
				break // closing delimiter
			}
			h := bytes.Index(body[at:], []byte("\r\n\r\n"))
			if h < 0 {
				break
			}
			start := at + h + 4
			next := bytes.Index(body[start:], append([]byte("\r\n"), delim...))
			if next < 0 {
				break
			}
			parts = append(parts, span{start, start + next})
			i = start + next
		}
	}
	if len(parts) == 0 {
		parts = []span{{0, len(body)}}
	}
	p := parts[0]
	if pick&1 == 1 {
		p = parts[int((pick>>1)%uint64(len(parts)))]
	}
	l := int64(p.e - p.b)
	cut := p.b
	if l >= 2 {
		var ks []int64
		for _, k := range []int64{1, chunk - 1, chunk + 1, l - 1, 1 + int64((pick>>20)%uint64(l-1)), chunk / 2} {
			if k >= 1 && k <= l-1 {
				ks = append(ks, k)
			}
		}
		cut = p.b + int(ks[int((pick>>8)%uint64(len(ks)))])
	}
	res.Body = &failBody{data: body[:cut], err: io.ErrUnexpectedEOF}
}

// overlapParts rewrites a multipart/byteranges answer so that its parts overlap, repeat or
// exceed what was asked while every requested byte is still delivered under a correct
// Content-Range: a part of n >= 2 chunks [0,n) becomes [0,j) + [i,n) with 0 <= i < j < n
// (a repeated chunk is followed by a new one inside the second part), the same two in the
// other order, the part twice, three overlapping parts, a superset (one more chunk before
// and/or after, when the blob has them), or - rarely - an overlap that starts in the
// middle of a chunk. Parts stay chunk-aligned except for the last variant.
func overlapParts(res *http.Response, pick uint64, c int64, data []byte) {
	mt, params, err := mime.ParseMediaType(res.Header.Get("Content-Type"))
	if err != nil || !strings.HasPrefix(mt, "multipart/") || res.Body == nil || res.StatusCode != 206 {
		return
	}
	raw, _ := io.ReadAll(res.Body)
	res.Body = io.NopCloser(bytes.NewReader(raw))
	mr := multipart.NewReader(bytes.NewReader(raw), params["boundary"])
	size := int64(len(data))
	var out [][2]int64
	r := prng.New(pick)
	for {
		p, err := mr.NextRawPart()
		if err == io.EOF {
			break
		}
		if err != nil {
			return
		}
		var b, e, sz int64
		if _, err := fmt.Sscanf(p.Header.Get("Content-Range"), "bytes %d-%d/%d", &b, &e, &sz); err != nil || b%c != 0 || e >= size || b > e {
			return
		}
		n := (e-b)/c + 1 // chunks of this part
		variant := r.Intn(12)
		if r.Chance(1, 4) {
			// superset first: one more chunk before and/or after
			if b >= c && r.Bool() {
				b -= c
				n++
			}
			if e+1 < size {
				e += c
				if e >= size {
					e = size - 1
				}
				n++
			}
		}
		// recount: a part need not end on a chunk boundary (a request for the first byte only),
		// and the superset above may have been cut at the end of the blob
		n = (e-b)/c + 1
		if n < 2 {
			out = append(out, [2]int64{b, e}, [2]int64{b, e})
			continue
		}
		j := 1 + r.Int63n(n-1) // 1..n-1
		i := r.Int63n(j)       // 0..j-1
		first, second := [2]int64{b, b + j*c - 1}, [2]int64{b + i*c, e}
		switch {
		case variant < 6:
			out = append(out, first, second)
		case variant < 8:
			out = append(out, second, first)
		case variant < 9:
			out = append(out, [2]int64{b, e}, [2]int64{b, e})
		case variant < 11:
			out = append(out, first, second, [2]int64{b, e})
		default:
			if c >= 2 {
				second[0] += 1 + r.Int63n(c-1) // not chunk-aligned
			}
			out = append(out, first, second)
		}
	}
	if len(out) == 0 {
		return
	}
	var buf bytes.Buffer
	mw := multipart.NewWriter(&buf)
	if mw.SetBoundary(params["boundary"]) != nil {
		return
	}
	for _, x := range out {
		if x[1] >= size {
			x[1] = size - 1
		}
		if x[0] < 0 || x[0] > x[1] {
			continue
		}
		h := textproto.MIMEHeader{}
		h.Set("Content-Type", "application/octet-stream")
		h.Set("Content-Range", fmt.Sprintf("bytes %d-%d/%d", x[0], x[1], size))
		w, err := mw.CreatePart(h)
		if err != nil {
			return
		}
		w.Write(data[x[0] : x[1]+1])
	}
	mw.Close()
	res.Body = io.NopCloser(bytes.NewReader(buf.Bytes()))
	res.ContentLength = int64(buf.Len())
	res.Header.Set("Content-Length", strconv.Itoa(buf.Len()))
}

// permuteParts re-emits a multipart/byteranges body with its parts in another order
// (every requested range is still delivered, correctly labelled).
func permuteParts(res *http.Response, pick uint64) {
	mt, params, err := mime.ParseMediaType(res.Header.Get("Content-Type"))
	if err != nil || !strings.HasPrefix(mt, "multipart/") || res.Body == nil {
		return
	}
	type part struct {
		h textproto.MIMEHeader
		d []byte
	}
	raw, _ := io.ReadAll(res.Body)
	res.Body = io.NopCloser(bytes.NewReader(raw))
	mr := multipart.NewReader(bytes.NewReader(raw), params["boundary"])
	var parts []part
	for {
		p, err := mr.NextRawPart()
		if err == io.EOF {
			break
		}
		if err != nil {
			return
		}
		d, err := io.ReadAll(p)
		if err != nil {
			return
		}
		parts = append(parts, part{p.Header, d})
	}
	if len(parts) < 2 {
		return
	}
	if pick%2 == 0 {
		for i, j := 0, len(parts)-1; i < j; i, j = i+1, j-1 {
			parts[i], parts[j] = parts[j], parts[i]
		}
	} else {
		k := 1 + int(pick/2)%(len(parts)-1)
		parts = append(parts[k:], parts[:k]...)
	}
	var buf bytes.Buffer
	mw := multipart.NewWriter(&buf)
	if mw.SetBoundary(params["boundary"]) != nil {
		return
	}
	for _, p := range parts {
		w, err := mw.CreatePart(p.h)
		if err != nil {
			return
		}
		w.Write(p.d)
	}
	mw.Close()
	res.Body = io.NopCloser(bytes.NewReader(buf.Bytes()))
	res.ContentLength = int64(buf.Len())
	res.Header.Set("Content-Length", strconv.Itoa(buf.Len()))
}

var errNet = errors.New("memreg: connection reset by peer (scripted)")

func (s *server) script(q *memreg.Request) memreg.Behaviour {
	var b memreg.Behaviour
	if q.Kind != "blob" && q.Kind != "cdn" {
		return b
	}
	pc := s.cur.Load()
	sig := fmt.Sprintf("%s|%s|%s|%v", q.Method, q.Kind, q.Host, q.Ranges)
	cv, _ := pc.counters.LoadOrStore(sig, new(atomic.Int64))
	n := cv.(*atomic.Int64).Add(1)
	rng := prng.New(prng.Hash64(pc.spec.Seed, fnv64(sig), uint64(n)))
	fam := pc.spec.Family
	if fam == "mix" {
		fam = []string{"status", "neterr", "truncate", "403", "400", "firstonly", "cancel", "overlap"}[rng.Intn(8)]
	}
	hit := pc.faulty && rng.Intn(100) < pc.spec.PFault
	if fam == "leader-truncate" {
		hit = false // the only fault of such a phase is the cut of the stalled leader request
	}

	// the registry host of a redirecting registry only redirects (or fails)
	if s.sc.Registry == "cdn" && q.Kind == "blob" {
		if hit && rng.Chance(1, 3) {
			switch fam {
			case "status":
				b.Status, b.Label = rng.Pick(500, 503, 429), "F:redirect-status"
				return b
			case "neterr":
				b.Err, b.Label = errNet, "F:redirect-neterr"
				return b
			case "403":
				b.Status, b.Label = 403, "F:redirect-403"
				return b
			}
		}
		b.RedirectTo = s.reg.CDNURL(regHost, repo, s.dgst, tokenName(s.token.Load()))
		b.Label = "redirect"
		return b
	}

	if s.sc.Size == 0 {
		b.Mode, b.Label = memreg.Whole, "size0-whole"
		return b
	}
	multi := len(q.Ranges) > 1
	if s.sc.Registry == "nomulti" && multi {
		b.Status, b.Label = 400, "F:400-multirange"
		return b
	}
	if q.Method == "HEAD" {
		if hit {
			switch fam {
			case "status":
				b.Status, b.Label = rng.Pick(500, 503), "F:head-status"
			case "neterr":
				b.Err, b.Label = errNet, "F:head-neterr"
			}
		}
		return b
	}

	// herd: the first data request of the phase waits until every client entered
	if pc.herdStall != nil && pc.herdArmed.CompareAndSwap(true, false) {
		b.Stall = pc.herdStall
		if fam == "leader-truncate" {
			// The leader of the shared flight gets PART of a chunk and then a broken stream
			// (single-part, multipart and squashed answers); whoever retries is served
			// correctly. A retry into the leader's half-advanced writers shows as wrong bytes.
			pick, c := rng.U64(), s.sc.Chunk
			b.Mode = []memreg.RangeMode{memreg.Honest, memreg.Honest, memreg.MultipartAlways, memreg.Squash}[rng.Intn(4)]
			b.MutateResp = func(res *http.Response) { truncateInPart(res, pick, c) }
			b.Label = "F:leader-truncate"
			return b
		}
	}

	if hit {
		switch fam {
		case "status":
			b.Status, b.Label = rng.Pick(500, 502, 503, 429, 404, 416), "F:status"
			return b
		case "neterr":
			b.Err, b.Label = errNet, "F:neterr"
			return b
		case "truncate":
			pick := rng.U64()
			b.Mode = []memreg.RangeMode{memreg.Honest, memreg.Squash, memreg.MultipartAlways}[rng.Intn(3)]
			b.MutateResp = func(res *http.Response) { truncateBody(res, pick) }
			b.Label = "F:truncate"
			return b
		case "403":
			if s.sc.Registry == "cdn" && rng.Bool() {
				// this request is still served; every later one with the old URL gets 403
				s.expireToken()
				b.Label = "F:token-expired-after"
			} else {
				b.Status, b.Label = 403, "F:403"
				return b
			}
		case "400":
			if multi || rng.Chance(1, 4) {
				b.Status, b.Label = 400, "F:400"
				return b
			}
		case "overlap":
			// A multipart answer that delivers every requested byte, correctly labelled, but
			// with overlapping / repeated / extra parts. Not one of the answers the
			// statement says must work, so an error is acceptable (label F:), wrong bytes never.
			pick, c, data := rng.U64(), s.sc.Chunk, s.data
			b.Mode = memreg.MultipartAlways
			b.MutateResp = func(res *http.Response) { overlapParts(res, pick, c, data) }
			b.Label += "F:overlap"
			return b
		case "firstonly":
			if multi {
				b.Mode, b.Label = memreg.FirstOnly, "F:firstonly"
				return b
			}
		case "cancel":
			// stall 0.3-3 ms (ends early when the request's context is cancelled)
			ch := make(chan struct{})
			time.AfterFunc(time.Duration(300+rng.Intn(2700))*time.Microsecond, func() { close(ch) })
			if b.Stall == nil {
				b.Stall = ch
			}
			b.Label += "stall"
		}
	}
	// personality of an un-faulted answer
	m := pc.spec.Modes[rng.Intn(len(pc.spec.Modes))]
	if m == pWhole && (s.sc.Size > 256<<10 || !rng.Chance(1, 3)) {
		m = pHonest
	}
	switch m {
	case pHonest:
		b.Mode = memreg.Honest
	case pSquash:
		b.Mode = memreg.Squash
	case pWhole:
		b.Mode = memreg.Whole
	case pMultipartAlways:
		b.Mode = memreg.MultipartAlways
	case pPermuted:
		b.Mode = memreg.MultipartAlways
		pick := rng.U64()
		b.MutateResp = func(res *http.Response) { permuteParts(res, pick) }
	}
	b.Label += "P:" + personalityName[m]
	return b
}

// hostsFor returns the RegistryHosts for the scenario's transport.
func hostsFor(reg *memreg.Registry, transport string) source.RegistryHosts {
	if transport == "plain" {
		return reg.Hosts(nil)
	}
	// As service/resolver does: a fresh retryablehttp client per call whose inner
	// http.Client (which follows redirects by itself) sits on the registry transport.
	return func(ref reference.Spec) ([]docker.RegistryHost, error) {
		c := rhttp.NewClient()
		c.Logger = nil
		c.HTTPClient = &http.Client{Transport: reg}
		return []docker.RegistryHost{{
			Client:       c.StandardClient(),
			Host:         ref.Hostname(),
			Scheme:       "https",
			Path:         "/v2",
			Capabilities: docker.HostCapabilityPull | docker.HostCapabilityResolve,
		}}, nil
	}
}

func newCache(kind, dir string) (cache.BlobCache, error) {
	switch kind {
	case "memory":
		return cache.NewMemoryCache(), nil
	case "dir-lru1":
		return cache.NewDirectoryCache(dir, cache.DirectoryCacheConfig{MaxLRUCacheEntry: 1, MaxCacheFds: 1})
	case "dir-lru1-sync":
		return cache.NewDirectoryCache(dir, cache.DirectoryCacheConfig{MaxLRUCacheEntry: 1, MaxCacheFds: 1, SyncAdd: true})
	case "dir-direct":
		return cache.NewDirectoryCache(dir, cache.DirectoryCacheConfig{MaxLRUCacheEntry: 1, MaxCacheFds: 1, Direct: true, SyncAdd: true})
	default:
		return cache.NewDirectoryCache(dir, cache.DirectoryCacheConfig{})
	}
}

// ---------------------------------------------------------------------------
// client side

const (
	opRead = iota
	opCache
	opFetched
	opCheck
	opRefresh
	opExpire
)

var opName = [...]string{"ReadAt", "Cache", "FetchedSize", "Check", "Refresh", "ExpireToken"}

type opSpec struct {
	Kind    int
	Off, N  int64
	CtxMode int // 0 none, 1 cancel after DelayUS, 2 cancelled before the call
	DelayUS int
}

type opResult struct {
	spec      opSpec
	call      int64
	ret       int64
	n         int
	err       error
	bad       string // "" | wrong-n | wrong-bytes
	detail    string
	panicSite string
	fsBad     string // "" | decreased | exceeds-size
	fsDetail  string
}

type world struct {
	r     *vf.Run
	sc    *scenario
	data  []byte
	reg   *memreg.Registry
	srv   *server
	rc    *reccache.Cache
	blob  remote.Blob
	hosts source.RegistryHosts
	ref   reference.Spec
	desc  ocispec.Descriptor

	// scenario-level observations for the non-triviality rule
	okFetchedRead  bool
	sawMulti       bool
	sawPersonality bool
	okUnderFault   bool
	sharedHerd     bool
	cacheFault     bool
	summaries      []string
}

func expectN(size, off int64, l int) int {
	rem := size - off
	if rem < 0 {
		rem = 0
	}
	if rem > int64(l) {
		rem = int64(l)
	}
	return int(rem)
}

// judgeRead applies "error or exact" to one ReadAt result (called by the client itself).
func (w *world) judgeRead(res *opResult, p []byte) {
	if res.err != nil && res.err != io.EOF {
		return
	}
	want := expectN(w.sc.Size, res.spec.Off, len(p))
	if res.n != want {
		res.bad = "wrong-n"
		res.detail = fmt.Sprintf("ReadAt(len=%d, off=%d) on size %d returned n=%d err=%v, want n=%d", len(p), res.spec.Off, w.sc.Size, res.n, res.err, want)
		return
	}
	if want == 0 {
		return
	}
	exp := w.data[res.spec.Off : res.spec.Off+int64(want)]
	if !bytes.Equal(p[:want], exp) {
		i := 0
		for i < want && p[i] == exp[i] {
			i++
		}
		j := i + 16
		if j > want {
			j = want
		}
		res.bad = "wrong-bytes"
		// where do the wrong bytes come from? (self-describing content)
		from := "not found in the blob"
		if j-i >= 8 {
			if k := bytes.Index(w.data, p[i:j]); k >= 0 {
				from = fmt.Sprintf("they are blob[%d:%d]", k, k+j-i)
			} else if allZero(p[i:j]) {
				from = "buffer left untouched (zero)"
			}
		}
		res.detail = fmt.Sprintf("ReadAt(len=%d, off=%d) chunk=%d size=%d returned n=%d err=%v; first wrong byte at +%d (blob offset %d): got %s want %s; %s",
			len(p), res.spec.Off, w.sc.Chunk, w.sc.Size, res.n, res.err, i, res.spec.Off+int64(i), hex.EncodeToString(p[i:j]), hex.EncodeToString(exp[i:j]), from)
	}
}

func allZero(b []byte) bool {
	for _, x := range b {
		if x != 0 {
			return false
		}
	}
	return true
}

// observer keeps the per-observer FetchedSize sequence check.
type observer struct {
	prev    int64
	samples int
	bad     string
	detail  string
}

func (o *observer) see(v, size int64) {
	o.samples++
	if v < o.prev && o.bad == "" {
		o.bad, o.detail = "decreased", fmt.Sprintf("FetchedSize went from %d to %d for one observer", o.prev, v)
	}
	if v > size && o.bad == "" {
		o.bad, o.detail = "exceeds-size", fmt.Sprintf("FetchedSize %d > Size %d", v, size)
	}
	if v > o.prev {
		o.prev = v
	}
}

func (w *world) runOp(sp opSpec, obs *observer, quiet bool) (res opResult) {
	res = opResult{spec: sp}
	defer func() {
		if x := recover(); x != nil {
			// a panic on the caller's goroutine: neither an error nor exact bytes
			res.bad = "panic"
			res.detail = fmt.Sprintf("%s(off=%d, n=%d) on size %d chunk %d panicked: %v\n%s", opName[sp.Kind], sp.Off, sp.N, w.sc.Size, w.sc.Chunk, x, tailLines(string(debug.Stack()), 24))
			res.panicSite = normErr(fmt.Sprint(x))
		}
	}()
	if !quiet {
		obs.see(w.blob.FetchedSize(), w.sc.Size)
	}
	var opts []remote.Option
	var cancel context.CancelFunc
	if sp.CtxMode != 0 && (sp.Kind == opRead || sp.Kind == opCache) {
		var ctx context.Context
		ctx, cancel = context.WithCancel(context.Background())
		opts = append(opts, remote.WithContext(ctx))
		if sp.CtxMode == 2 {
			cancel()
		} else {
			c := cancel
			time.AfterFunc(time.Duration(sp.DelayUS)*time.Microsecond, c)
		}
	}
	switch sp.Kind {
	case opRead:
		p := make([]byte, sp.N)
		res.call = now()
		res.n, res.err = w.blob.ReadAt(p, sp.Off, opts...)
		res.ret = now()
		w.judgeRead(&res, p)
	case opCache:
		res.call = now()
		res.err = w.blob.Cache(sp.Off, sp.N, opts...)
		res.ret = now()
	case opFetched:
		res.call = now()
		obs.see(w.blob.FetchedSize(), w.sc.Size)
		res.ret = now()
	case opCheck:
		res.call = now()
		res.err = w.blob.Check()
		res.ret = now()
	case opRefresh:
		res.call = now()
		ctx, c := context.WithTimeout(context.Background(), 30*time.Second)
		res.err = w.blob.Refresh(ctx, w.hosts, w.ref, w.desc)
		c()
		res.ret = now()
	case opExpire:
		res.call = now()
		w.srv.expireToken()
		res.ret = now()
	}
	if cancel != nil {
		cancel()
	}
	if !quiet {
		obs.see(w.blob.FetchedSize(), w.sc.Size)
		res.fsBad, res.fsDetail = obs.bad, obs.detail
	}
	return res
}

// sameChunkSet returns a random (off, len) whose chunk set equals that of h.
func sameChunkSet(rng *prng.R, h hotRegion, c, size int64) (int64, int64) {
	first := h.Off / c
	last := (h.Off + h.Len - 1) / c
	off := first*c + rng.Int63n(c)
	end := last*c + 1 + rng.Int63n(c) // exclusive, inside the last chunk
	if last == first && end <= off {
		end = off + 1
	}
	if end <= off {
		end = off + 1
	}
	return off, end - off
}

func (w *world) genOps(rng *prng.R, ph phaseSpec, n int, herd *hotRegion) []opSpec {
	sc := w.sc
	var ops []opSpec
	ctxFam := ph.Family == "cancel" || ph.Family == "mix"
	for i := 0; i < n; i++ {
		var sp opSpec
		x := rng.Intn(100)
		switch {
		case x < 66:
			sp.Kind = opRead
		case x < 82:
			sp.Kind = opCache
		case x < 88:
			sp.Kind = opFetched
		case x < 93:
			sp.Kind = opCheck
		case x < 96:
			sp.Kind = opRefresh
		default:
			sp.Kind = opExpire
			if sc.Registry != "cdn" || ph.Family == "" {
				sp.Kind = opRead
			}
		}
		if ph.Family == "" && sp.Kind == opRefresh && rng.Bool() {
			sp.Kind = opRead
		}
		if i == 0 && herd != nil {
			sp.Kind = opRead
			if rng.Chance(1, 5) {
				sp.Kind = opCache
			}
		}
		if sp.Kind == opRead || sp.Kind == opCache {
			h := sc.Hot[rng.Intn(len(sc.Hot))]
			y := rng.Intn(10)
			if i == 0 && herd != nil {
				h = *herd
				y = rng.Pick(0, 5, 5, 5)
			}
			switch {
			case y < 5:
				sp.Off, sp.N = h.Off, h.Len
			case y < 8 && h.Off < sc.Size:
				sp.Off, sp.N = sameChunkSet(rng, h, sc.Chunk, sc.Size)
			default:
				sp.Off = rng.Int63n(sc.Size + sc.Chunk + 2)
				sp.N = 1 + rng.Int63n(3*sc.Chunk+2)
				if sp.N > 256<<10 {
					sp.N = 256 << 10
				}
			}
			if sp.Kind == opCache && rng.Chance(1, 6) {
				sp.N = rng.Int63n(4) // tiny / zero-length prefetch
			}
			if ctxFam && rng.Chance(2, 5) {
				sp.CtxMode = 1
				sp.DelayUS = rng.Range(0, 2500)
				if rng.Chance(1, 5) {
					sp.CtxMode = 2
				}
			}
		}
		ops = append(ops, sp)
	}
	return ops
}

func walkOrder(rng *prng.R, kind string, n int) []int {
	var o []int
	switch kind {
	case "evens-odds":
		for i := 0; i < n; i += 2 {
			o = append(o, i)
		}
		for i := 1; i < n; i += 2 {
			o = append(o, i)
		}
	case "odds-evens":
		for i := n - 1 - (n % 2); i >= 0 && i < n; i -= 2 {
			if i%2 == 1 {
				o = append(o, i)
			}
		}
		for i := 1; i < n && len(o) == 0; i += 2 {
			o = append(o, i)
		}
		for i := 0; i < n; i += 2 {
			o = append(o, i)
		}
	case "descending":
		for i := n - 1; i >= 0; i-- {
			o = append(o, i)
		}
	case "ascending":
		for i := 0; i < n; i++ {
			o = append(o, i)
		}
	case "outside-in":
		for i, j := 0, n-1; i <= j; i, j = i+1, j-1 {
			o = append(o, i)
			if j != i {
				o = append(o, j)
			}
		}
	case "pairs-bridge":
		// 0,1  3,4  6,7 ... then the bridging singles 2,5,8 ... in descending order
		for i := 0; i < n; i += 3 {
			o = append(o, i)
			if i+1 < n {
				o = append(o, i+1)
			}
		}
		for i := n - 1; i >= 0; i-- {
			if i%3 == 2 {
				o = append(o, i)
			}
		}
	default: // random, nested
		o = rng.Perm(n)
	}
	return o
}

// ---------------------------------------------------------------------------
// directed scenario: shared fetch, waiter's cache copy fails after k bytes, retry

// directedPartialCopy drives the one schedule that the random herd phases reach only by
// chance, so that its outcome has a key of its own: two readers ask for the same missing
// chunk at once (the first request is stalled until both entered), the single flight is
// shared, the waiter copies the chunk from the cache (copyFetchedChunks), the cache reader
// fails after k bytes, fetchRange retries. The statement allows an error or the exact
// bytes. The path is recognised by the injected fault having fired on the copy's ReadAt
// (offset 0, whole chunk); attempts that miss the window are repeated (bounded) and only
// counted.
func directedPartialCopy(r *vf.Run) {
	type variant struct {
		c, lower, n, k int64
		cache          string
	}
	vs := []variant{
		{1000, 0, 999, 400, "memory"},             // read from the chunk start, k inside the wanted part
		{1000, 500, 500, 400, "memory"},           // k below the wanted part
		{1000, 300, 600, 650, "memory"},           // k inside, unaligned both ends
		{40000, 0, 40000, 32768, "dir-lru1-sync"}, // the second 32 KiB piece of io.Copy fails
		{7, 2, 5, 3, "memory"},
	}
	for vi, v := range vs {
		reached := false
		for attempt := 0; attempt < 40 && !reached; attempt++ {
			r.Count("directed_attempts", 1)
			size := 3 * v.c
			sc := &scenario{Idx: vi, Stage: 2, Chunk: v.c, Size: size, Cache: v.cache, Transport: "plain", Registry: "direct", G: 2, ContentID: 0xC06 + uint64(vi)}
			w := &world{r: r, sc: sc}
			w.data = make([]byte, size)
			fastFill(sc.ContentID, w.data)
			w.reg = memreg.New()
			dg := w.reg.AddBlob(regHost, repo, w.data)
			var entered atomic.Int32
			var armed atomic.Bool
			stall := make(chan struct{})
			w.reg.SetScript(func(q *memreg.Request) memreg.Behaviour {
				var b memreg.Behaviour
				if q.Method == "GET" && len(q.Ranges) == 1 && q.Ranges[0][0] == v.c && armed.CompareAndSwap(true, false) {
					b.Stall, b.Label = stall, "stall-first-fetch"
				}
				return b
			})
			dir := filepath.Join(r.Scratch, fmt.Sprintf("directed-%d-%d", vi, attempt))
			inner, err := newCache(v.cache, dir)
			if err != nil {
				r.Inconclusive("cannot create cache: " + err.Error())
				return
			}
			w.rc = reccache.New(inner, reccache.Options{T0: t0})
			var fired atomic.Bool
			var once atomic.Bool
			once.Store(true)
			w.rc.SetScript(func(op reccache.Op) reccache.Fault {
				// only the copy path (io.CopyN over a SectionReader of the whole chunk) reads
				// from offset 0 in pieces of min(32 KiB, chunk); readFromCache reads
				// (lowerUnread, wanted bytes) in one call, which no variant lets coincide
				piece := v.c
				if piece > 32<<10 {
					piece = 32 << 10
				}
				want := v.k / piece * piece // offset of the piece that contains byte k
				if op.Kind == reccache.ReadAt && op.Off == want && op.Len == min64(piece, v.c-want) &&
					!(op.Off == v.lower && op.Len == v.n) && once.CompareAndSwap(true, false) {
					fired.Store(true)
					return reccache.Fault{Err: fmt.Errorf("%w: directed read error", reccache.ErrInjected), After: v.k - want}
				}
				return reccache.Fault{}
			})
			w.ref, _ = reference.Parse(regHost + "/" + repo + ":latest")
			w.desc = ocispec.Descriptor{Digest: dg, Size: size}
			w.hosts = w.reg.Hosts(nil)
			bl, err := remote.NewResolver(config.BlobConfig{ChunkSize: v.c, FetchTimeoutSec: 60, MaxRetries: 1, MinWaitMSec: 1, MaxWaitMSec: 2}, nil).
				Resolve(context.Background(), w.hosts, w.ref, w.desc, w.rc)
			if err != nil {
				r.Inconclusive("directed: resolve failed: " + err.Error())
				return
			}
			w.blob = bl
			armed.Store(true)
			var wg sync.WaitGroup
			res := make([]opResult, 2)
			for g := 0; g < 2; g++ {
				wg.Add(1)
				go func(g int) {
					defer wg.Done()
					entered.Add(1)
					var obs observer
					res[g] = w.runOp(opSpec{Kind: opRead, Off: v.c + v.lower, N: v.n}, &obs, true)
				}(g)
			}
			go func() {
				dl := time.Now().Add(500 * time.Millisecond)
				for entered.Load() < 2 && time.Now().Before(dl) {
					time.Sleep(50 * time.Microsecond)
				}
				time.Sleep(3 * time.Millisecond)
				close(stall)
			}()
			wg.Wait()
			if fired.Load() {
				reached = true
				r.Count("directed_path_reached", 1)
				for g := range res {
					if res[g].bad != "" {
						r.Violate("readat:"+res[g].bad+":directed-shared-fetch-retry-after-partial-cache-copy",
							fmt.Sprintf("two readers shared one fetch of chunk 1 (chunk size %d); the waiter's copy from the cache failed after %d bytes (injected reader error), fetchRange retried and ReadAt returned nil error with misplaced bytes: %s", v.c, v.k, res[g].detail),
							map[string]any{"variant": fmt.Sprintf("%+v", v), "attempt": attempt, "goroutine": g, "requests": len(w.reg.Log())})
					} else if res[g].err != nil {
						r.Count("directed_reads_error", 1)
					} else {
						r.Count("directed_reads_exact", 1)
					}
				}
			}
			_ = bl.Close()
			os.RemoveAll(dir)
		}
		if !reached {
			r.Count("directed_path_not_reached", 1)
		}
	}
}

func min64(a, b int64) int64 {
	if a < b {
		return a
	}
	return b
}

// ---------------------------------------------------------------------------
// running a scenario

func normErr(s string) string {
	s = reHex.ReplaceAllString(s, "#")
	s = reNum.ReplaceAllString(s, "#")
	s = reRegs.ReplaceAllString(s, "{..}") // a list of regions of any length
	if len(s) > 90 {
		s = s[:90]
	}
	return s
}

var (
	reHex  = regexp.MustCompile(`sha256:[0-9a-f]+|[0-9a-f]{16,}`)
	reNum  = regexp.MustCompile(`[0-9]+`)
	reRegs = regexp.MustCompile(`(\{# #\}\s*)+`)
)

func runRange(r *vf.Run, stage, from, to int) {
	for i := from; i < to; i++ {
		sc := genScenario(r, stage, i)
		st := time.Now()
		ok := r.Watchdog(4*time.Minute, "scenario", func() { runScenario(r, sc) })
		if d := time.Since(st); d > 1500*time.Millisecond && os.Getenv("C06_SLOW") != "" {
			r.Logf("slow scenario %.1fs: %s", d.Seconds(), sc.desc())
		}
		if !ok {
			r.Logf("watchdog fired in %s", sc.desc())
			return // goroutines of the scenario are leaked; stop this stage
		}
		if r.Violations() > 20 {
			return
		}
		if r.Child != "" && i%8 == 7 {
			r.FlushPartial()
		}
	}
}

func (w *world) replay(ph *phaseSpec, pi int, extra map[string]any) map[string]any {
	m := map[string]any{"scenario": w.sc.desc(), "scenario_index": w.sc.Idx, "stage": w.sc.Stage, "race_build": w.r.RaceBuild}
	if ph != nil {
		m["phase_index"] = pi
		m["phase"] = fmt.Sprintf("%+v", *ph)
	}
	for k, v := range extra {
		m[k] = v
	}
	return m
}

func runScenario(r *vf.Run, sc *scenario) {
	r.Eval(1)
	w := &world{r: r, sc: sc}
	w.data = make([]byte, sc.Size)
	fastFill(sc.ContentID, w.data)
	w.reg = memreg.New()
	dg := w.reg.AddBlob(regHost, repo, w.data)
	w.srv = &server{reg: w.reg, sc: sc, dgst: dg, data: w.data}
	w.srv.reg.AllowToken(tokenName(0), true)
	setup := &phaseCfg{id: -1, spec: phaseSpec{Kind: "setup", Modes: []int{pHonest}}}
	w.srv.cur.Store(setup)
	w.reg.SetScript(w.srv.script)

	dir := filepath.Join(r.Scratch, fmt.Sprintf("s%d-%d", sc.Stage, sc.Idx))
	inner, err := newCache(sc.Cache, dir)
	if err != nil {
		r.Inconclusive("cannot create cache: " + err.Error())
		return
	}
	defer os.RemoveAll(dir)
	w.rc = reccache.New(inner, reccache.Options{T0: t0})

	cfg := config.BlobConfig{
		ChunkSize:            sc.Chunk,
		PrefetchChunkSize:    sc.Prefetch,
		CheckAlways:          sc.CheckAlways,
		FetchTimeoutSec:      900, // never the cause of an error here (scenario watchdog: 4 min)
		ForceSingleRangeMode: sc.ForceSingle,
		MaxRetries:           2,
		MinWaitMSec:          1,
		MaxWaitMSec:          3,
	}
	w.hosts = hostsFor(w.reg, sc.Transport)
	w.ref, err = reference.Parse(regHost + "/" + repo + ":latest")
	if err != nil {
		panic(err)
	}
	w.desc = ocispec.Descriptor{Digest: dg, Size: sc.Size, MediaType: ocispec.MediaTypeImageLayerGzip}
	bl, err := remote.NewResolver(cfg, nil).Resolve(context.Background(), w.hosts, w.ref, w.desc, w.rc)
	if err != nil {
		// honest registry, no fault: Resolve has to work for the scenario to mean anything
		r.Violate("resolve:error-no-fault:"+normErr(err.Error()), "Resolve failed against an honest registry: "+err.Error(), w.replay(nil, 0, nil))
		return
	}
	w.blob = bl
	if bl.Size() != sc.Size {
		r.Violate("resolve:wrong-size", fmt.Sprintf("Size() = %d for a blob of %d bytes", bl.Size(), sc.Size), w.replay(nil, 0, nil))
		return
	}
	r.Distinct("cache_kinds", sc.Cache)
	r.Distinct("transports", sc.Transport)
	r.Distinct("registries", sc.Registry)
	r.Distinct("goroutines", strconv.Itoa(sc.G))
	r.Count("scenarios_stage"+strconv.Itoa(sc.Stage), 1)
	sizeClass := "other"
	switch {
	case sc.Size == 0:
		sizeClass = "0"
	case sc.Size == 1:
		sizeClass = "1"
	case sc.Size == sc.Chunk-1:
		sizeClass = "c-1"
	case sc.Size == sc.Chunk:
		sizeClass = "c"
	case sc.Size == sc.Chunk+1:
		sizeClass = "c+1"
	case sc.Size%sc.Chunk == 0:
		sizeClass = "k*c"
	case sc.Size%sc.Chunk == 1:
		sizeClass = "k*c+1"
	case sc.Size%sc.Chunk == sc.Chunk-1:
		sizeClass = "k*c-1"
	}
	r.Distinct("size_classes", sizeClass)
	pfClass := "unset"
	switch {
	case sc.Prefetch == 0:
	case sc.Prefetch < sc.Chunk:
		pfClass = "<"
	case sc.Prefetch == sc.Chunk:
		pfClass = "="
	default:
		pfClass = ">"
	}
	r.Distinct("prefetch_vs_chunk", pfClass)

	for pi := range sc.Phases {
		w.runPhase(pi)
		if r.Violations() > 20 {
			break
		}
	}

	// after Close every operation has to fail (or stay exact)
	if err := w.blob.Close(); err != nil {
		r.Distinct("close_errors", normErr(err.Error()))
	}
	p := make([]byte, 8)
	res := opResult{spec: opSpec{Kind: opRead, Off: 0, N: 8}}
	res.n, res.err = w.blob.ReadAt(p, 0)
	w.judgeRead(&res, p)
	if res.bad != "" {
		r.Violate("readat:"+res.bad+":after-close", res.detail, w.replay(nil, len(sc.Phases), nil))
	}
	r.Count("reads_after_close", 1)

	n2 := 0
	for _, b := range []bool{w.sawMulti, w.sawPersonality, w.okUnderFault, w.sharedHerd, w.cacheFault, sc.G >= 2} {
		if b {
			n2++
		}
	}
	if w.okFetchedRead && n2 >= 2 {
		r.NonTrivial(sc.desc())
	}
	if sc.Idx < 4 {
		r.Sample(map[string]any{"scenario": sc.desc(), "phases_observed": w.summaries})
	}
}

func (w *world) runPhase(pi int) {
	r, sc := w.r, w.sc
	ph := sc.Phases[pi]
	rng := r.RNG(uint64(sc.Stage), uint64(sc.Idx), 1000+uint64(pi))
	pc := &phaseCfg{id: pi, spec: ph, faulty: ph.Family != ""}
	class := ph.Kind + ":" + ph.Family
	if ph.Family == "" {
		class = ph.Kind + ":clean"
	}
	r.Count("phases_"+class, 1)

	// quiescent preparation
	if ph.Family != "403" && ph.Family != "mix" {
		// no stale redirect target is left over from an earlier faulty phase
		w.srv.revalidateTokens()
	}
	switch ph.Evict {
	case "all":
		r.Count("evicted_keys", w.rc.EvictAll())
	case "some":
		seed := ph.Seed
		r.Count("evicted_keys", w.rc.EvictIf(func(k string) bool { return prng.Hash64(seed, fnv64(k))%2 == 0 }))
	}
	var rates reccache.Rates
	pf := float64(ph.PFault) / 100
	switch ph.Family {
	case "cache-getmiss":
		rates.GetMiss = pf
	case "cache-readerr":
		rates.ReadErr = pf
		rates.ReadErrPartialOnly = rng.Bool()
	case "cache-adderr":
		rates.AddErr = pf / 2
	case "cache-commiterr":
		rates.CommitErr = pf / 2
	case "mix":
		rates = reccache.Rates{GetMiss: pf / 3, ReadErr: pf / 3, AddErr: pf / 8, CommitErr: pf / 8}
	}
	w.rc.SetRates(rates)
	w.rc.ResetEvents()
	w.reg.ResetLog()

	G := sc.G
	if ph.Kind == "walk" || ph.Kind == "verify" || ph.Kind == "solo" {
		G = 1
	}
	// per-goroutine scripts
	scripts := make([][]opSpec, G)
	var herd *hotRegion
	nch := (sc.Size + sc.Chunk - 1) / sc.Chunk
	switch ph.Kind {
	case "walk":
		order := walkOrder(rng, ph.WalkKind, int(nch))
		if len(order) > 48 {
			order = order[:48]
		}
		if ph.WalkPart > 0 && len(order) > 2 {
			order = order[:(len(order)*ph.WalkPart+99)/100]
		}
		for _, ci := range order {
			sp := opSpec{Kind: opRead, Off: int64(ci) * sc.Chunk, N: sc.Chunk}
			x := rng.Intn(6)
			if ph.Family == "overlap" && rng.Bool() {
				x = 2 // spans of 2-4 chunks: parts long enough to overlap
			}
			switch x {
			case 0:
				sp.Kind = opCache
			case 1:
				sp.Off += rng.Int63n(sc.Chunk)
				sp.N = 1
			case 2:
				if ph.WalkKind == "nested" || ph.Family == "overlap" || rng.Bool() {
					sp.N = sc.Chunk * int64(rng.Range(2, 4)) // spans cached and missing neighbours
				}
			}
			scripts[0] = append(scripts[0], sp)
		}
	case "verify":
		for off := int64(0); off <= sc.Size; {
			n := 1 + rng.Int63n(4*sc.Chunk)
			if n > 256<<10 {
				n = 256 << 10
			}
			scripts[0] = append(scripts[0], opSpec{Kind: opRead, Off: off, N: n})
			off += n
		}
	case "herd":
		h := sc.Hot[rng.Intn(len(sc.Hot))]
		herd = &h
		pc.herdStall = make(chan struct{})
		pc.herdArmed.Store(true)
		fallthrough
	default:
		for g := 0; g < G; g++ {
			scripts[g] = w.genOps(rng.Derive(uint64(g)), ph, ph.OpsPerG, herd)
		}
	}
	w.srv.cur.Store(pc)

	results := make([][]opResult, G)
	observers := make([]observer, G+1)
	fs0 := w.blob.FetchedSize()
	for i := range observers {
		observers[i].prev = fs0
	}
	quiet := sc.Quiet
	var wg sync.WaitGroup
	start := make(chan struct{})
	var entered atomic.Int32
	for g := 0; g < G; g++ {
		wg.Add(1)
		go func(g int) {
			defer wg.Done()
			obs := &observers[g]
			<-start
			for i, sp := range scripts[g] {
				if i == 0 && herd != nil {
					entered.Add(1)
				}
				res := w.runOp(sp, obs, quiet)
				results[g] = append(results[g], res)
				if G == 1 {
					// a single client: the blob is quiescent after every operation, failed or
					// not (ReadAt is synchronous, Cache waits for its errgroup)
					fsz := w.blob.FetchedSize()
					cb, _ := w.rc.CommittedBytes()
					if fsz != cb {
						dirn := "over"
						if fsz < cb {
							dirn = "under"
						}
						results[g][len(results[g])-1].fsBad = "quiescent-mismatch-" + dirn
						results[g][len(results[g])-1].fsDetail = fmt.Sprintf("%s %s step %d (%s off=%d n=%d -> n=%d err=%v): FetchedSize=%d but the distinct keys ever committed to the cache hold %d bytes", ph.Kind, ph.WalkKind, i, opName[sp.Kind], sp.Off, sp.N, res.n, res.err, fsz, cb)
					}
				}
			}
			if quiet {
				obs.see(w.blob.FetchedSize(), sc.Size)
			}
		}(g)
	}
	// sampler
	stopSampler := make(chan struct{})
	samplerDone := make(chan struct{})
	go func() {
		defer close(samplerDone)
		if quiet {
			return
		}
		obs := &observers[G]
		for {
			select {
			case <-stopSampler:
				return
			default:
			}
			obs.see(w.blob.FetchedSize(), sc.Size)
			time.Sleep(150 * time.Microsecond)
		}
	}()
	// herd release: when everybody entered (or after 200 ms) + a moment to reach the single-flight
	if herd != nil {
		extra := time.Duration(300+rng.Intn(1500)) * time.Microsecond
		go func(ch chan struct{}) {
			dl := time.Now().Add(200 * time.Millisecond)
			for int(entered.Load()) < G && time.Now().Before(dl) {
				time.Sleep(50 * time.Microsecond)
			}
			time.Sleep(extra)
			close(ch)
		}(pc.herdStall)
	}
	close(start)
	wg.Wait()
	close(stopSampler)
	<-samplerDone
	w.srv.cur.Store(&phaseCfg{id: -2, spec: phaseSpec{Kind: "idle", Modes: []int{pHonest}}})
	w.rc.SetScript(nil)

	// ---- what happened in this phase
	reqs := w.reg.Log()
	faults := 0
	dataGets := 0
	for _, q := range reqs {
		if q.Kind != "blob" && q.Kind != "cdn" {
			continue
		}
		r.Count("requests", 1)
		lbl := q.Label
		if strings.Contains(lbl, "F:") || strings.Contains(lbl, "cdn-token-expired") || strings.Contains(lbl, "stall") {
			faults++
			name := lbl
			if i := strings.Index(name, "P:"); i >= 0 {
				name = name[:i]
			}
			r.Count("server_fault_"+name, 1)
		}
		if i := strings.Index(lbl, "P:"); i >= 0 && (q.Status == 200 || q.Status == 206) {
			pn := lbl[i+2:]
			r.Count("answered_"+pn, 1)
			if pn != "honest" {
				w.sawPersonality = true
			}
		}
		if strings.Contains(lbl, "redirect") && q.Status == 302 {
			r.Count("answered_redirect", 1)
		}
		if len(q.Ranges) > 1 {
			r.Count("multi_range_requests", 1)
			w.sawMulti = true
		}
		if q.Method == "GET" && (q.Status == 200 || q.Status == 206) && !(len(q.Ranges) == 1 && q.Ranges[0] == [2]int64{0, 1} && sc.Chunk > 2) {
			dataGets++
		}
		r.Distinct("statuses", strconv.Itoa(q.Status)+"/"+q.Err)
	}
	evs := w.rc.Events()
	st := reccache.Summarize(evs)
	for k, v := range st.ByKind {
		r.Count("cache_"+k, v)
	}
	for k, v := range st.Injected {
		r.Count("cache_injected_"+k, v)
		if k != "evicted" {
			faults += v
			w.cacheFault = true
		}
	}
	// errors of the real cache itself (not injected, not a plain Get miss) are faults of
	// the environment (disk full, fd limit, ...): they justify an error just as well
	envFaults := 0
	for _, e := range evs {
		if e.Err != "" && e.Injected == "" && e.Kind != reccache.Get && e.Kind != reccache.Close {
			envFaults++
			r.Distinct("cache_own_errors", e.Kind.String()+": "+normErr(e.Err))
		}
	}
	faults += envFaults
	r.Count("cache_own_errors", envFaults)
	ctxOps := 0
	for g := range scripts {
		for _, sp := range scripts[g] {
			if sp.CtxMode != 0 {
				ctxOps++
			}
			if sp.Kind == opExpire {
				faults++
			}
		}
	}
	faults += ctxOps
	r.Count("cancellable_ops", ctxOps)
	r.Count("faults_delivered", faults)

	// ---- oracle
	okReads, herdReaders := 0, 0
	for g := range results {
		for i, res := range results[g] {
			name := opName[res.spec.Kind]
			r.Count("ops_"+name, 1)
			extra := map[string]any{"goroutine": g, "op_index": i, "op": fmt.Sprintf("%s off=%d n=%d ctx=%d", name, res.spec.Off, res.spec.N, res.spec.CtxMode),
				"faults_delivered_in_phase": faults, "cache_injected": st.Injected}
			if res.bad != "" {
				// key = clause + scenario class; phases in which the cache wrapper injected
				// reader errors form one class of their own whatever the phase kind
				kc := class
				if st.Injected["read-error"] > 0 {
					kc = "after-injected-cache-read-error"
				}
				if res.bad == "panic" {
					r.Violate("panic:"+strings.ToLower(name)+":"+res.panicSite, res.detail, w.replay(&ph, pi, extra))
				} else {
					r.Violate("readat:"+res.bad+":"+kc, res.detail, w.replay(&ph, pi, extra))
				}
			}
			if res.fsBad != "" {
				r.Violate("fetchedsize:"+res.fsBad+":"+class, res.fsDetail, w.replay(&ph, pi, extra))
			}
			if res.spec.Kind == opRead || res.spec.Kind == opCache {
				if res.err != nil && res.err != io.EOF {
					r.Count("ops_"+name+"_error", 1)
					r.Distinct("op_errors", normErr(res.err.Error()))
					if faults == 0 {
						// Slack: an error needs a fault delivered in the same phase. None was.
						extra["error"] = res.err.Error()
						r.Violate(strings.ToLower(name)+":error-no-fault:"+ph.Kind+":"+normErr(res.err.Error()),
							fmt.Sprintf("%s(off=%d, n=%d) failed with %q although no fault was scripted, injected or cancelled in this phase (%d requests, all answered honestly)", name, res.spec.Off, res.spec.N, res.err, len(reqs)),
							w.replay(&ph, pi, extra))
					}
				} else {
					r.Count("ops_"+name+"_ok", 1)
					if res.spec.Kind == opRead && res.n > 0 {
						okReads++
						if faults > 0 {
							r.Count("reads_ok_in_faulty_phase", 1)
						}
						if i == 0 && herd != nil {
							herdReaders++
						}
					}
				}
			} else if res.err != nil {
				r.Count("ops_"+name+"_error", 1)
			}
		}
	}
	nops, nerr := 0, 0
	for g := range results {
		for _, res := range results[g] {
			nops++
			if res.err != nil && res.err != io.EOF {
				nerr++
			}
		}
	}
	if G == 1 {
		r.Count("per_op_quiescent_checks", nops)
	}
	w.summaries = append(w.summaries, fmt.Sprintf("%s G=%d ops=%d errors=%d exact_reads=%d requests=%d data_gets=%d faults=%d cache_injected=%v fetched=%d->%d",
		class, G, nops, nerr, okReads, len(reqs), dataGets, faults, st.Injected, fs0, w.blob.FetchedSize()))
	if okReads > 0 && dataGets > 0 {
		w.okFetchedRead = true
		if faults > 0 {
			w.okUnderFault = true
		}
	}
	if herd != nil {
		r.Count("herd_phases", 1)
		if herdReaders >= 2 && dataGets < herdReaders {
			r.Count("herd_phases_fewer_gets_than_readers", 1)
			w.sharedHerd = true
		}
	}
	for i := range observers {
		o := &observers[i]
		r.Count("fetchedsize_samples", o.samples)
		if o.bad != "" && i == G {
			r.Violate("fetchedsize:"+o.bad+":"+class, "sampler: "+o.detail, w.replay(&ph, pi, nil))
		}
	}
	// quiescent point
	fsz := w.blob.FetchedSize()
	cb, nk := w.rc.CommittedBytes()
	r.Count("quiescent_checks", 1)
	if fsz > sc.Size {
		r.Violate("fetchedsize:exceeds-size:"+class, fmt.Sprintf("FetchedSize %d > Size %d", fsz, sc.Size), w.replay(&ph, pi, nil))
	}
	if fsz != cb {
		dirn := "over"
		if fsz < cb {
			dirn = "under"
		}
		r.Violate("fetchedsize:quiescent-mismatch-"+dirn+":"+class,
			fmt.Sprintf("at quiescence FetchedSize=%d but the distinct keys ever committed to the cache hold %d bytes (%d keys); Size=%d chunk=%d", fsz, cb, nk, sc.Size, sc.Chunk),
			w.replay(&ph, pi, map[string]any{"cache_injected": st.Injected, "faults_delivered_in_phase": faults}))
	}
	if fsz < fs0 {
		r.Violate("fetchedsize:decreased:"+class, fmt.Sprintf("FetchedSize %d at the start of the phase, %d at its end", fs0, fsz), w.replay(&ph, pi, nil))
	}
	if ph.Kind == "verify" {
		// the whole blob was just read successfully in a clean phase: everything is stored
		if cb != sc.Size {
			r.Inconclusive(fmt.Sprintf("after a full clean read the cache holds a different number of distinct bytes than the blob has"))
		}
		for _, k := range w.rc.Keys() {
			if k.LenChanged || k.SumChanged {
				r.Count("keys_recommitted_with_other_content", 1)
			}
		}
	}
}
