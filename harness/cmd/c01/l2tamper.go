package main

// "…or the local chunk cache supplies altered chunk bytes": the chunk cache of COMPRESSED
// blob ranges (httpcache of fs/remote) is tampered with on disk after it was filled from a
// genuine registry. Everything read from it afterwards flows through decompression and the
// chunk-digest check, so the oracle is the usual one: error or genuine bytes.
//
// The cache of verified, decompressed chunks (fscache) is NOT tampered with: the statement
// itself says a later read is served from it without verification, the guarantee is about
// what gets in (clause iii).

import (
	"context"
	"fmt"
	"os"
	"path/filepath"
	"time"

	"github.com/containerd/stargz-snapshotter/fs/layer"
	digest "github.com/opencontainers/go-digest"

	"verifharness/internal/vf"
)

func runL2TamperCase(r *vf.Run, bc *blobCase, store string, caseNo uint64) {
	r.Eval(1)
	none, _ := bc.alter("none", r.RNG(1))
	p := l2Params{Store: store, FSCache: "dir", Sched: "httpcache-tamper", SyncAdd: true, NRandom: 6, HTTPDir: true}
	desc := fmt.Sprintf("L2 %s | httpcache tamper | %s", bc, p)
	replay := map[string]any{"level": "L2", "blob": bc.String(), "blob_index": bc.idx, "scenario": "fill httpcache from the genuine registry, Verify(D_good), flip one byte in every httpcache file, read", "params": p.String(), "case": caseNo, "tar": gen0(bc)}
	s, err := newL2(r, bc, none, p)
	if err != nil {
		r.Inconclusive("L2 setup: " + firstLine(err.Error()))
		return
	}
	defer s.close()
	ctx, cancel := context.WithTimeout(context.Background(), 2*time.Minute)
	defer cancel()
	var l layer.Layer
	l, err = s.env.Resolve(ctx, s.im, 0)
	if err != nil {
		r.Inconclusive("genuine blob refused by Resolve: " + trimErr(err))
		return
	}
	defer l.Close()
	if err := l.Verify(digest.Digest(none.Pin)); err != nil {
		r.Inconclusive("genuine blob refused by Verify: " + trimErr(err))
		return
	}
	// fill the cache of compressed ranges with the whole (genuine) blob
	buf := make([]byte, len(bc.built.Blob))
	if _, err := l.ReadAt(buf, 0); err != nil {
		r.Inconclusive("layer.ReadAt of the genuine blob failed: " + trimErr(err))
		return
	}
	files, err := scanCacheDir(filepath.Join(s.root, "httpcache"))
	if err != nil || len(files) == 0 {
		r.Inconclusive("httpcache holds no file to tamper with")
		return
	}
	rng := r.RNG(0x7A3, caseNo)
	n, flips := 0, 0
	const regChunk = 3000 // cfg.BlobConfig.ChunkSize of newL2: cache files hold chunk-aligned blob ranges
	for path, b := range files {
		if len(b) == 0 {
			continue
		}
		// locate the range inside the genuine blob, then flip one byte in the body of every
		// data member that overlaps it (so that every chunk is decompressed from altered bytes)
		off := int64(-1)
		for o := 0; o+len(b) <= len(bc.built.Blob); o += regChunk {
			if string(bc.built.Blob[o:o+len(b)]) == string(b) {
				off = int64(o)
				break
			}
		}
		c := append([]byte{}, b...)
		k := 0
		if off >= 0 {
			for _, i := range bc.lay.data {
				m := bc.lay.members[i]
				// the chunk payload sits at the beginning of its member (tar padding and the next
				// headers follow): aim at the first bytes of the deflate / zstd body
				lo, hi := m.start+10, m.end-8
				if hi > lo+24 {
					hi = lo + 24
				}
				if lo < off {
					lo = off
				}
				if hi > off+int64(len(b)) {
					hi = off + int64(len(b))
				}
				if lo < hi {
					flipAt(c, lo-off+rng.Int63n(hi-lo), rng)
					k++
				}
			}
		}
		if k == 0 {
			flipAt(c, rng.Int63n(int64(len(c))), rng)
			k = 1
		}
		if os.WriteFile(path, c, 0o600) == nil {
			n++
			flips += k
		}
	}
	r.Count("l2_httpcache_bytes_flipped", flips)
	r.Count("l2_httpcache_files_tampered", n)
	// observability: does the blob layer really hand out the tampered bytes now?
	buf2 := make([]byte, len(bc.built.Blob))
	if _, err := l.ReadAt(buf2, 0); err == nil && string(buf2) != string(bc.built.Blob) {
		r.Count("l2_httpcache_tamper_visible_through_blob_ReadAt", 1)
	} else {
		r.Count("l2_httpcache_tamper_NOT_visible_through_blob_ReadAt", 1)
	}
	// every chunk may now be decompressed from altered bytes
	a := *none
	a.Class = "httpcache-tamper"
	a.Desc = fmt.Sprintf("httpcache-tamper: one byte flipped in each of %d cached blob ranges", n)
	for _, i := range bc.lay.data {
		a.Affected = append(a.Affected, bc.lay.members[i].chunks...)
	}
	plan := bc.readPlan(&a, r.RNG(0x9EB5, caseNo), p.NRandom)
	if len(plan) > 40 {
		plan = plan[:40]
	}
	before := s.reg.Requests()
	t1, err := readAndJudge(r, "l2", a.Class, bc, &a, l, plan, "cold", replay, "ii:read-returns-altered-bytes:L2:httpcache-tamper")
	if err != nil {
		r.Inconclusive("RootNode failed after a successful Verify: " + firstLine(err.Error()))
		return
	}
	if s.reg.Requests() == before {
		r.Count("l2_httpcache_tamper_cases_served_from_cache_only", 1)
	}
	if vals, err := s.fscacheFiles(); err == nil {
		r.Count("l2_fscache_files_scanned", scanCache(r, "L2", bc, &a, vals, replay))
	}
	t2, _ := readAndJudge(r, "l2", a.Class, bc, &a, l, plan, "warm", replay, "ii:read-returns-altered-bytes:L2:httpcache-tamper")
	if t1 || t2 {
		r.NonTrivial(desc)
	}
}
