package main

// Independent location of the TOC inside (possibly altered) served bytes and
// recomputation of its digest. Written from docs/estargz.md; shares no code with
// /repo/estargz. Trusted base: compress/gzip, archive/tar, encoding/json, crypto/sha256
// and klauspost zstd.
//
// Deliberately LENIENT where the format leaves room (bytes after the TOC gzip member,
// bytes after the first JSON value): the oracle built on it must never call a TOC
// "different" that a correct reader may legitimately treat as the same one.

import (
	"archive/tar"
	"bytes"
	"compress/gzip"
	"crypto/sha256"
	"encoding/binary"
	"encoding/hex"
	"encoding/json"
	"fmt"
	"io"
	"sort"
	"strconv"

	"github.com/klauspost/compress/zstd"
)

type tocEntry struct {
	Name        string `json:"name"`
	Type        string `json:"type"`
	Size        int64  `json:"size"`
	Digest      string `json:"digest,omitempty"`
	Offset      int64  `json:"offset"`
	ChunkOffset int64  `json:"chunkOffset"`
	ChunkSize   int64  `json:"chunkSize"`
	ChunkDigest string `json:"chunkDigest"`
	InnerOffset int64  `json:"innerOffset"`
}

type tocDoc struct {
	Version int         `json:"version"`
	Entries []*tocEntry `json:"entries"`
}

func sha256hex(p []byte) string {
	h := sha256.Sum256(p)
	return hex.EncodeToString(h[:])
}

func dgst(p []byte) string { return "sha256:" + sha256hex(p) }

// footer kinds
const (
	fGzip     = "gzip51"
	fLegacy   = "legacy47"
	fExternal = "external46"
	fZstd     = "zstd40"
)

type footerInfo struct {
	kind       string
	size       int   // footer bytes at the end of the blob
	tocOff     int64 // start of the compressed TOC (-1: external)
	tocEnd     int64 // end of the compressed TOC region
	payloadEnd int64 // where data members end
}

func gzipExtraOfEmptyMember(p []byte) ([]byte, bool) {
	// 10-byte header with FEXTRA, XLEN, extra
	if len(p) < 12 || p[0] != 0x1f || p[1] != 0x8b || p[2] != 8 || p[3]&4 == 0 {
		return nil, false
	}
	xlen := int(binary.LittleEndian.Uint16(p[10:12]))
	if 12+xlen > len(p) {
		return nil, false
	}
	return p[12 : 12+xlen], true
}

// footers returns every footer interpretation that the bytes admit (the code under
// test tries several decompressors in turn; so do we, and the oracle accepts any).
func footers(blob []byte) []footerInfo {
	var res []footerInfo
	n := int64(len(blob))
	if n >= 51 {
		if ex, ok := gzipExtraOfEmptyMember(blob[n-51:]); ok && len(ex) == 26 && ex[0] == 'S' && ex[1] == 'G' &&
			binary.LittleEndian.Uint16(ex[2:4]) == 22 && string(ex[20:]) == "STARGZ" {
			if off, err := strconv.ParseInt(string(ex[4:20]), 16, 64); err == nil && off >= 0 && off <= n-51 {
				res = append(res, footerInfo{fGzip, 51, off, n - 51, off})
			}
		}
	}
	if n >= 47 {
		if ex, ok := gzipExtraOfEmptyMember(blob[n-47:]); ok && len(ex) == 22 && string(ex[16:]) == "STARGZ" {
			if off, err := strconv.ParseInt(string(ex[:16]), 16, 64); err == nil && off >= 0 && off <= n-47 {
				res = append(res, footerInfo{fLegacy, 47, off, n - 47, off})
			}
		}
	}
	if n >= 46 {
		if ex, ok := gzipExtraOfEmptyMember(blob[n-46:]); ok && len(ex) == 21 && ex[0] == 'S' && ex[1] == 'G' && string(ex[4:]) == "STARGZEXTERNALTOC" {
			res = append(res, footerInfo{fExternal, 46, -1, -1, n - 46})
		}
	}
	if n >= 48 {
		p := blob[n-40:]
		if string(p[32:40]) == "GnUlInUx" {
			off := int64(binary.LittleEndian.Uint64(p[0:8]))
			cl := int64(binary.LittleEndian.Uint64(p[8:16]))
			if off >= 8 && cl >= 0 && off+cl <= n && off+cl >= off {
				res = append(res, footerInfo{fZstd, 48, off, off + cl, off - 8})
			}
		}
	}
	return res
}

// tocFromGzipTar returns the content of the tar entry stargz.index.json held by the
// first gzip member of region (bytes after that member are ignored: lenient).
func tocFromGzipTar(region []byte) ([]byte, error) {
	zr, err := gzip.NewReader(bytes.NewReader(region))
	if err != nil {
		return nil, err
	}
	zr.Multistream(false)
	tr := tar.NewReader(zr)
	h, err := tr.Next()
	if err != nil {
		return nil, err
	}
	if h.Name != "stargz.index.json" {
		return nil, fmt.Errorf("TOC tar entry named %q", h.Name)
	}
	// Lenient on purpose: a checksum error of the gzip trailer surfaces only at EOF;
	// the bytes delivered before it are what a streaming reader has consumed.
	b, err := io.ReadAll(tr)
	if err != nil && len(b) == 0 {
		return nil, err
	}
	return b, nil
}

func tocFromZstd(region []byte) ([]byte, error) {
	dec, err := zstd.NewReader(bytes.NewReader(region))
	if err != nil {
		return nil, err
	}
	defer dec.Close()
	b, err := io.ReadAll(dec)
	if err != nil && len(b) == 0 {
		return nil, err
	}
	return b, nil
}

// servedTOCs returns every byte string that some footer interpretation designates as
// "the TOC JSON" of the served bytes.
func servedTOCs(blob, externalTOC []byte) [][]byte {
	var res [][]byte
	for _, f := range footers(blob) {
		var t []byte
		var err error
		switch f.kind {
		case fGzip, fLegacy:
			t, err = tocFromGzipTar(blob[f.tocOff:f.tocEnd])
		case fExternal:
			if len(externalTOC) == 0 {
				continue
			}
			t, err = tocFromGzipTar(externalTOC)
		case fZstd:
			t, err = tocFromZstd(blob[f.tocOff:f.tocEnd])
		}
		if err == nil && len(t) > 0 {
			res = append(res, t)
		}
	}
	return res
}

// acceptableDigests: the digests under which a TOC byte string t may legitimately be
// "the TOC that hashes to D". Oracle slack: the statement pins the table of contents
// actually used, i.e. the first JSON value of t; a reader may hash exactly that value,
// the whole entry, or anything in between (the memory store hashes what its JSON decoder
// happened to buffer, the db store the whole entry). All of these denote the same TOC,
// so every prefix of t that covers the first JSON value is accepted.
func acceptableDigests(t []byte) map[string]bool {
	res := map[string]bool{}
	dec := json.NewDecoder(bytes.NewReader(t))
	var v json.RawMessage
	if err := dec.Decode(&v); err != nil {
		// not a JSON value at all: a reader cannot have used it; accept only the whole
		res[dgst(t)] = true
		return res
	}
	end := int(dec.InputOffset())
	if len(t)-end > 4096 {
		// bound the work: whole entry, the value, and the 4096 shortest extensions
		res[dgst(t)] = true
	}
	h := sha256.New()
	h.Write(t[:end])
	for k := end; k <= len(t) && k <= end+4096; k++ {
		if k > end {
			h.Write(t[k-1 : k])
		}
		res["sha256:"+hex.EncodeToString(h.Sum(nil))] = true
	}
	return res
}

// layout of a GENUINE blob (built by estargz.Build, parsed here independently).
type member struct {
	start, end int64
	kind       string // "pre" | "data" | "toc" | "footer"
	// chunks whose payload lives in this member
	chunks []chunkRef
}

type chunkRef struct {
	name        string // TOC name
	chunkOffset int64
	chunkSize   int64
	inner       int64
}

type layout struct {
	footer  footerInfo
	tocJSON []byte
	doc     tocDoc
	members []member // data members in order, then "toc" (if embedded), then "footer"
	data    []int    // indices of members of kind "data"
}

func parseGenuine(blob, externalTOC []byte) (*layout, error) {
	fs := footers(blob)
	if len(fs) != 1 {
		return nil, fmt.Errorf("genuine blob admits %d footer interpretations", len(fs))
	}
	l := &layout{footer: fs[0]}
	ts := servedTOCs(blob, externalTOC)
	if len(ts) != 1 {
		return nil, fmt.Errorf("genuine blob: TOC not found")
	}
	l.tocJSON = ts[0]
	if err := json.Unmarshal(l.tocJSON, &l.doc); err != nil {
		return nil, err
	}
	sizeOf := map[string]int64{}
	offs := map[int64][]chunkRef{}
	for _, e := range l.doc.Entries {
		if e.Type == "reg" {
			sizeOf[e.Name] = e.Size
		}
		if (e.Type == "reg" && e.Size > 0) || e.Type == "chunk" {
			cs := e.ChunkSize
			if cs == 0 {
				cs = sizeOf[e.Name] - e.ChunkOffset
			}
			offs[e.Offset] = append(offs[e.Offset], chunkRef{e.Name, e.ChunkOffset, cs, e.InnerOffset})
		}
	}
	var starts []int64
	for o := range offs {
		starts = append(starts, o)
	}
	sort.Slice(starts, func(i, j int) bool { return starts[i] < starts[j] })
	pe := l.footer.payloadEnd
	if len(starts) > 0 && starts[0] > 0 {
		l.members = append(l.members, member{0, starts[0], "pre", nil})
	} else if len(starts) == 0 && pe > 0 {
		l.members = append(l.members, member{0, pe, "pre", nil})
	}
	for i, s := range starts {
		e := pe
		if i+1 < len(starts) {
			e = starts[i+1]
		}
		if s >= e || e > int64(len(blob)) {
			return nil, fmt.Errorf("genuine blob: member [%d,%d) out of order", s, e)
		}
		l.data = append(l.data, len(l.members))
		l.members = append(l.members, member{s, e, "data", offs[s]})
	}
	if l.footer.tocOff >= 0 {
		ts := l.footer.tocOff
		if l.footer.kind == fZstd {
			ts -= 8
		}
		l.members = append(l.members, member{ts, l.footer.tocEnd, "toc", nil})
	}
	l.members = append(l.members, member{int64(len(blob) - l.footer.size), int64(len(blob)), "footer", nil})
	return l, nil
}
