package main

// Stage "l2x" (race build): L2 families that need more than one blob behind one layer digest.
//
//	toc-swapped-after-verify   time-varying registry: genuine bytes at Resolve + Verify(D_good);
//	                           then the registry serves, under the same digest, an altered blob of
//	                           the SAME length whose TOC was edited so that its chunk digests match
//	                           the altered chunks; the cache of compressed ranges loses its content
//	                           (a cache may always lose entries); then Prefetch + BackgroundFetch;
//	                           then reads of the VERIFIED layer. Variant: only chunks altered.
//	shared-digest:two-refs     two image references list the same layer digest X but their blobs
//	                           (and pinned TOC digests) differ: the other image is mounted with ITS
//	                           digest and read first (a perfectly valid layer), then the victim is
//	                           mounted with D_good and read.
//	shared-digest:restart      a resolver on the same root directory had prefetched an altered
//	                           chunk, refused the mount and went away without cleaning up; a new
//	                           resolver mounts the same reference with D_good (registry still altered).
//
// Oracle: the usual clauses for the layer that was mounted with D_good.

import (
	"bytes"
	"context"
	"encoding/json"
	"fmt"
	"os"
	"path/filepath"
	"strconv"
	"time"

	"archive/tar"

	"github.com/containerd/stargz-snapshotter/fs/layer"
	digest "github.com/opencontainers/go-digest"

	"verifharness/internal/blob"
	"verifharness/internal/gen"
	"verifharness/internal/l2"
	"verifharness/internal/memreg"
	"verifharness/internal/nodefs"
	"verifharness/internal/vf"
)

// consistentAlteredSameSize: payload of one chunk altered (validly compressed, same
// compressed length), chunkDigest in the TOC rewritten to match, TOC member padded to the
// genuine TOC member's length: a blob of identical size that is self-consistent but whose
// TOC does not hash to D_good. Embedded gzip TOC only.
func (bc *blobCase) consistentAlteredSameSize(r *vf.Run, label uint64) (*alteration, bool) {
	if bc.lay.footer.kind != fGzip {
		return nil, false
	}
	for try := uint64(0); try < 8; try++ {
		rng := r.RNG(0x5A5A, uint64(bc.idx), label, try)
		m, ok := bc.dataMember(rng)
		if !ok {
			return nil, false
		}
		c := m.chunks[rng.Intn(len(m.chunks))]
		if n := bc.fsm.Nodes[gen.Clean(c.name)]; n == nil {
			continue
		}
		cm, newChunk, ok := bc.recompressWith(m, c, nil, rng)
		if !ok {
			continue
		}
		doc, ents, err := decodeGeneric(bc.lay.tocJSON)
		if err != nil {
			return nil, false
		}
		e := findEntry(ents, c)
		if e == nil {
			continue
		}
		e["chunkDigest"] = dgst(newChunk)
		t, _ := json.Marshal(doc) // compact: compresses below the genuine member, then padded
		var tb bytes.Buffer
		tw := tar.NewWriter(&tb)
		tw.WriteHeader(&tar.Header{Typeflag: tar.TypeReg, Name: "stargz.index.json", Size: int64(len(t))})
		tw.Write(t)
		tw.Close()
		f := bc.lay.footer
		tm, ok := gzipTo(tb.Bytes(), int(f.tocEnd-f.tocOff))
		if !ok {
			continue
		}
		out := append([]byte{}, bc.built.Blob...)
		copy(out[m.start:m.end], cm)
		copy(out[f.tocOff:f.tocEnd], tm)
		a := &alteration{Class: "toc-swapped-after-verify", Pin: bc.built.TOCDigest.String(), Blob: out, Affected: []chunkRef{c}, TOCTouched: true, DigestOnly: true}
		a.Desc = fmt.Sprintf("toc-swapped-after-verify: same-size blob, chunk %q@%d+%d altered and its chunkDigest rewritten in a TOC padded to the genuine length", c.name, c.chunkOffset, c.chunkSize)
		return a, true
	}
	return nil, false
}

func removeFilesUnder(dir string) int {
	n := 0
	filepath.Walk(dir, func(p string, info os.FileInfo, err error) error {
		if err == nil && !info.IsDir() {
			if os.Remove(p) == nil {
				n++
			}
		}
		return nil
	})
	return n
}

func runL2SwapCase(r *vf.Run, bc *blobCase, a *alteration, store string, caseNo uint64) {
	r.Eval(1)
	none, _ := bc.alter("none", r.RNG(1))
	p := l2Params{Store: store, FSCache: "dir", Sched: "swap-after-verify", SyncAdd: true, NRandom: 3, HTTPDir: true}
	desc := fmt.Sprintf("L2swap %s | %s | %s", bc, a.Desc, p)
	replay := map[string]any{"level": "L2", "blob": bc.String(), "blob_index": bc.idx, "alteration": a.Desc, "params": p.String(), "case": caseNo, "tar": gen0(bc),
		"scenario": "registry serves the genuine blob; Resolve; Verify(D_good)=nil; registry now serves the altered blob under the same digest; httpcache files removed (cache loss); Prefetch; BackgroundFetch; reads of the verified layer"}
	s, err := newL2(r, bc, none, p)
	if err != nil {
		r.Inconclusive("L2 setup: " + firstLine(err.Error()))
		return
	}
	defer s.close()
	ctx, cancel := context.WithTimeout(context.Background(), 2*time.Minute)
	defer cancel()
	l, err := s.env.Resolve(ctx, s.im, 0)
	if err != nil {
		r.Inconclusive("genuine blob refused by Resolve: " + trimErr(err))
		return
	}
	defer l.Close()
	if err := l.Verify(digest.Digest(a.Pin)); err != nil {
		r.Inconclusive("genuine blob refused by Verify: " + trimErr(err))
		return
	}
	// phase 2: the registry changes its mind, the local cache of compressed ranges is lost
	s.reg.AddBlobAs("reg.test", "img", bc.built.Digest, a.Blob)
	r.Count("l2x_httpcache_files_lost", removeFilesUnder(filepath.Join(s.root, "httpcache")))
	perr := l.Prefetch(int64(len(a.Blob)))
	berr := l.BackgroundFetch()
	r.Distinct("l2x_swap_fetch_outcomes", fmt.Sprintf("%s/%s: Prefetch ok=%v BackgroundFetch ok=%v", a.Class, store, perr == nil, berr == nil))
	plan := bc.readPlan(a, r.RNG(0x9EB8, caseNo), p.NRandom)
	key := "ii:read-returns-altered-bytes:L2:" + a.Class
	t1, err := readAndJudge(r, "l2x", a.Class, bc, a, l, plan, "cold", replay, key)
	if err != nil {
		r.Inconclusive("RootNode failed after a successful Verify")
		return
	}
	if vals, err := s.fscacheFiles(); err == nil {
		r.Count("l2x_fscache_files_scanned", scanCache(r, "L2", bc, a, vals, replay))
	}
	t2, _ := readAndJudge(r, "l2x", a.Class, bc, a, l, plan, "warm", replay, key)
	if t1 || t2 {
		r.NonTrivial(desc)
	}
}

// evilTwin builds a valid layer with the same names, sizes and build options but other
// file contents (its own TOC digest).
func evilTwin(bc *blobCase) (*blob.Built, map[string]bool, error) {
	ents := append([]gen.Entry{}, bc.ents...)
	for i := range ents {
		if ents[i].Type == tar.TypeReg {
			ents[i].ContentID ^= 0x5bd1e9955bd1e995
		}
	}
	b, err := blob.Build(gen.TarBytes(ents), bc.opts)
	if err != nil {
		return nil, nil, err
	}
	// what is genuine for the twin (its chunks may legitimately sit in ITS cache)
	g := map[string]bool{}
	lay, err := parseGenuine(b.Blob, b.ExternalTOC)
	if err != nil {
		return nil, nil, err
	}
	fsm := gen.Model(ents)
	for _, m := range lay.members {
		for _, c := range m.chunks {
			n := fsm.Nodes[gen.Clean(c.name)]
			if n == nil {
				g[sha256hex([]byte{0xf})] = true
				continue
			}
			buf := make([]byte, c.chunkSize)
			gen.FillContent(n.ContentID, c.chunkOffset, buf)
			g[sha256hex(buf)] = true
		}
	}
	return b, g, nil
}

func readAll(l layer.Layer, bc *blobCase) int {
	rn, err := l.RootNode(0)
	if err != nil {
		return 0
	}
	rootN := nodefs.Root(rn)
	n := 0
	for _, op := range wholeFilePlan(bc) {
		if _, _, err := nodeRead(rootN, op); err == nil {
			n++
		}
	}
	return n
}

func runL2TwoRefsCase(r *vf.Run, bc *blobCase, store string, caseNo uint64) {
	r.Eval(1)
	p := l2Params{Store: store, FSCache: "dir", Sched: "shared-digest:two-refs", SyncAdd: true, NRandom: 3}
	desc := fmt.Sprintf("L2 %s | shared-digest:two-refs | %s", bc, p)
	replay := map[string]any{"level": "L2", "blob": bc.String(), "blob_index": bc.idx, "params": p.String(), "case": caseNo, "tar": gen0(bc),
		"scenario": "evil.test/img:v1 and reg.test/img:v1 list the same layer digest; evil's blob has the same names/sizes, other contents, its own TOC digest; mount evil with its digest, read everything; mount the victim with D_good, read"}
	twin, twinGenuine, err := evilTwin(bc)
	if err != nil {
		r.Inconclusive("twin build failed: " + firstLine(err.Error()))
		return
	}
	none, _ := bc.alter("none", r.RNG(1))
	s, err := newL2(r, bc, none, p)
	if err != nil {
		r.Inconclusive("L2 setup: " + firstLine(err.Error()))
		return
	}
	defer s.close()
	evil, err := l2.Publish(s.reg, "evil.test", "img", "v1", []*blob.Built{twin})
	if err != nil {
		r.Inconclusive("publish failed")
		return
	}
	evil.Layers[0].Digest = bc.built.Digest // claims the victim's layer digest
	s.reg.AddBlobAs("evil.test", "img", bc.built.Digest, twin.Blob)
	ctx := context.Background()
	le, err := s.env.Resolve(ctx, evil, 0)
	if err != nil {
		r.Inconclusive("two-refs: the other image's layer was refused by Resolve: " + trimErr(err))
		return
	}
	defer le.Close()
	if err := le.Verify(twin.TOCDigest); err != nil {
		r.Inconclusive("two-refs: the other image's layer was refused by Verify: " + trimErr(err))
		return
	}
	r.Count("l2x_tworefs_files_read_through_the_other_image", readAll(le, bc))
	l, err := s.env.Resolve(ctx, s.im, 0)
	if err != nil {
		r.Inconclusive("genuine blob refused by Resolve: " + trimErr(err))
		return
	}
	defer l.Close()
	if err := l.Verify(bc.built.TOCDigest); err != nil {
		r.Inconclusive("genuine blob refused by Verify: " + trimErr(err))
		return
	}
	a := *none
	a.Class = "shared-digest:two-refs"
	a.Desc = "shared-digest:two-refs (another image with the same layer digest and other contents was mounted and read first)"
	for _, i := range bc.lay.data {
		a.Affected = append(a.Affected, bc.lay.members[i].chunks...)
	}
	plan := append(bc.readPlan(&a, r.RNG(0x9EB9, caseNo), p.NRandom)[:0:0], wholeFilePlan(bc)...)
	key := "ii:read-returns-altered-bytes:L2:" + a.Class
	if _, err := readAndJudge(r, "l2x", a.Class, bc, &a, l, plan, "victim mounted with D_good", replay, key); err != nil {
		r.Inconclusive("RootNode failed after a successful Verify")
		return
	}
	// (iii): both layers are mounted; a committed value must be genuine for one of the two
	if vals, err := s.fscacheFiles(); err == nil {
		for k, v := range vals {
			h := sha256hex(v)
			if !bc.genuine[h] && !twinGenuine[h] {
				r.Violate("iii:cache-holds-non-genuine:L2:"+a.Class, fmt.Sprintf("fscache file %s (%d bytes) is genuine for neither of the two mounted layers (%s)", filepath.Base(k), len(v), bc), replay)
			}
		}
		r.Count("l2x_fscache_files_scanned", len(vals))
	}
	readAndJudge(r, "l2x", a.Class, bc, &a, l, plan, "victim mounted with D_good, warm", replay, key)
	r.NonTrivial(desc)
}

func runL2RestartCase(r *vf.Run, bc *blobCase, a *alteration, store string, caseNo uint64) {
	r.Eval(1)
	p := l2Params{Store: store, FSCache: "dir", Sched: "shared-digest:restart", SyncAdd: true, NRandom: 3}
	desc := fmt.Sprintf("L2 %s | shared-digest:restart | %s | %s", bc, a.Desc, p)
	replay := map[string]any{"level": "L2", "blob": bc.String(), "blob_index": bc.idx, "alteration": a.Desc, "params": p.String(), "case": caseNo, "tar": gen0(bc),
		"scenario": "resolver #1: Resolve, Prefetch+BackgroundFetch (altered chunk seen), Verify(D_good) refused, resolver abandoned without clean-up; resolver #2 on the same root: Resolve, Verify(D_good), reads"}
	s, err := newL2(r, bc, a, p)
	if err != nil {
		r.Inconclusive("L2 setup: " + firstLine(err.Error()))
		return
	}
	defer s.close()
	ctx := context.Background()
	l1, err := s.env.Resolve(ctx, s.im, 0)
	if err != nil {
		r.Inconclusive("restart: Resolve refused a digest-only alteration: " + trimErr(err))
		return
	}
	l1.Prefetch(int64(len(a.Blob)))
	l1.BackgroundFetch()
	first := l1.Verify(digest.Digest(a.Pin))
	r.Distinct("l2x_restart_first_verify", fmt.Sprint(first == nil))
	if first == nil {
		l1.Close()
		return // covered by the ordinary L2 cases
	}
	// "kill -9": nothing is closed except the bolt file lock, which dies with a process
	s.env.Close()
	env2, err := l2.NewEnv(s.reg, s.root, s.cfg, store, layer.OverlayOpaqueAll, 0)
	if err != nil {
		r.Inconclusive("restart: second resolver: " + firstLine(err.Error()))
		return
	}
	s.env = env2
	l, err := env2.Resolve(ctx, s.im, 0)
	if err != nil {
		r.Inconclusive("restart: second Resolve refused: " + trimErr(err))
		return
	}
	defer l.Close()
	if err := l.Verify(digest.Digest(a.Pin)); err != nil {
		r.Count("l2x_restart_second_verify_refused", 1)
		r.NonTrivial(desc)
		return
	}
	ac := *a
	ac.Class = "shared-digest:restart"
	plan := bc.readPlan(a, r.RNG(0x9EBA, caseNo), p.NRandom)
	key := "ii:read-returns-altered-bytes:L2:" + ac.Class
	if _, err := readAndJudge(r, "l2x", ac.Class, bc, &ac, l, plan, "second resolver, mounted with D_good", replay, key); err != nil {
		r.Inconclusive("RootNode failed after a successful Verify")
		return
	}
	r.NonTrivial(desc)
}

func stageL2X(r *vf.Run) {
	nBlobs := r.N(3, 12)
	seen := 0
	for bi := 0; seen < nBlobs && bi < 4*nBlobs; bi++ {
		comp := []string{"gzip", "gzip", "zstdchunked"}[bi%3]
		bc, err := buildBlobMode(r, 6000+bi, comp, true)
		if err != nil {
			continue
		}
		seen++
		for si, store := range []string{"memory", "db"} {
			cn := uint64(bi)<<32 | uint64(si)
			if a, ok := bc.consistentAlteredSameSize(r, uint64(si)); ok {
				r.Watchdog(3*time.Minute, "L2 swap case", func() { runL2SwapCase(r, bc, a, store, cn|1<<8) })
			} else {
				r.Count("alteration_not_applicable:toc-swapped-after-verify", 1)
			}
			if a, ok := digestOnlyAlteration(r, bc, 7+uint64(si)); ok {
				ac := *a
				ac.Class = "chunks-swapped-after-verify"
				ac.Desc = "chunks-swapped-after-verify: " + a.Desc
				r.Watchdog(3*time.Minute, "L2 swap case", func() { runL2SwapCase(r, bc, &ac, store, cn|2<<8) })
				r.Watchdog(3*time.Minute, "L2 restart case", func() { runL2RestartCase(r, bc, a, store, cn|3<<8) })
			}
			if bc.built.ExternalTOC == nil {
				r.Watchdog(3*time.Minute, "L2 two-refs case", func() { runL2TwoRefsCase(r, bc, store, cn|4<<8) })
			}
		}
		if seen == 1 {
			r.Sample(map[string]any{"level": "l2x", "blob": bc.String(), "families": []string{"toc-swapped-after-verify", "chunks-swapped-after-verify", "shared-digest:two-refs", "shared-digest:restart"}})
		}
	}
}

var _ = memreg.New
var _ = strconv.Itoa
