// C01 — verified layers never return bytes that do not match the TOC-pinned digests.
//
// Runtime monitoring of the real digest chain
//
//	TOC digest (label / Verify(D)) -> TOC JSON -> chunkDigest -> chunk cache -> read
//
// under generated alterations of the SERVED bytes, schedules of prefetch / background
// fetch against the verification call, and call histories on one cached layer.
//
// Levels (DESIGN.md section 3):
//
//	L1  reader.NewReader(meta, recordingCache, dgst) on a SectionReader over altered bytes
//	    (stage "l1": alteration classes x stores x caches x prefetch schedules x read plans,
//	    passthrough batch + sequential merge; stage "l1gate": hook-ordered schedules)
//	L2  layer.Resolver.Resolve on memreg -> go Prefetch, go BackgroundFetch -> Verify ->
//	    RootNode -> node reads, i.e. what fs.Mount does (stage "l2", race build; stage
//	    "hist": all call histories <= 3 over {Verify(D_good), Verify(D_other), SkipVerify}
//	    on ONE cached layer; stage "l2gate": hook-ordered schedules through the layer)
//	L3  fs.NewFilesystem(...).Mount over real FUSE with the label matrix (stage "l3",
//	    behind a capability probe)
//
// Oracle (derived from the statement only):
//
//	(i)   Verify(D)/VerifyTOC(D) == nil  =>  D is the sha256 of the TOC JSON actually
//	      served (recomputed independently from the served bytes, toc.go);
//	(ii)  after a successful verification with the pinned digest every read returns
//	      error OR genuine bytes (generator model gen.CheckContent);
//	(iii) after a successful verification every committed cache value (L1 recording cache,
//	      L2 files under fscache/*/) hashes to a genuine chunk (or whole genuine file:
//	      passthrough merge), and re-reads through the warm cache obey (ii).
//
// Slack: error is always acceptable for altered inputs; a flip that does not change the
// decompressed content may read fine; data cached by prefetch BEFORE the verification
// decision is judged only if Verify then succeeds; layers that were only ever
// SkipVerify'ed are outside the statement; bytes after the first JSON value of the TOC
// entry may or may not be covered by the digest (see acceptableDigests).
package main

import (
	"archive/tar"
	"fmt"
	"os"
	"sort"
	"strings"
	"sync"
	"time"

	"github.com/containerd/log"
	"github.com/sirupsen/logrus"

	"verifharness/internal/blob"
	"verifharness/internal/gen"
	"verifharness/internal/prng"
	"verifharness/internal/vf"
)

const ruleText = "a case = (generated tar, build options, alteration class+position, metadata store, cache kind, prefetch schedule / hook script / call history, read plan), all drawn from the seed; " +
	"non-trivial = (a) the verification decision (store open / Verify) was taken on served TOC/footer bytes that differ from the genuine ones, or " +
	"(b) after a successful Verify(D_pinned) a read, prefetch or cache scan touched a chunk whose served bytes were altered, or " +
	"(c) a hook script was realised in the scripted order with prefetch hitting an altered chunk, or (d) a call history of length>=2 ran on one cached layer; distinct by case descriptor"

var attribution = []string{
	"fs/reader.(*VerifiableReader)",
	"fs/reader.(*reader).verify",
	"fs/layer.(*layer).Verify",
	"fs/layer.(*layer).SkipVerify",
	"fs/layer.(*layer).RootNode",
	"fs/layer.(*layer).Info",
	// buffer handed back to the pool while its bytes are still being copied into the cache
	"fs/reader.(*reader).cacheData",
	"fs/reader.(*reader).OpenFile",
}

// statistics that are deliberately unsynchronised or guarded elsewhere
var exclude = []string{"setLastReadTime", "fs/metrics", "LastOnDemandReadTime"}

func main() {
	logrus.SetLevel(logrus.PanicLevel)
	log.L.Logger.SetLevel(logrus.PanicLevel)
	vf.Main("C01", "exploration", ruleText, 120, 1200, body)
}

func body(r *vf.Run) {
	// the db metadata store spools the TOC with os.CreateTemp("") : keep it in scratch
	tmp := r.Scratch + "/tmp"
	_ = os.MkdirAll(tmp, 0o755)
	os.Setenv("TMPDIR", tmp)

	switch r.Child {
	case "":
		top(r)
	case "l1":
		stageL1(r)
	case "l1gate":
		stageL1Gate(r)
	case "l2":
		stageL2(r)
	case "hist":
		stageHist(r)
	case "histp":
		stageHistP(r)
	case "histc":
		stageHistC(r)
	case "conc1":
		stageConcL1(r)
	case "conc2":
		stageConcL2(r)
	case "l2x":
		stageL2X(r)
	case "l2gate":
		stageL2Gate(r)
	case "l3":
		stageL3(r)
	default:
		r.Inconclusive("unknown stage " + r.Child)
	}
}

func top(r *vf.Run) {
	type st struct {
		name    string
		race    bool
		args    []string
		timeout time.Duration
	}
	var stages []st
	// long stages first
	nb2 := r.N(2, 6)
	for i := 0; i < nb2; i++ {
		stages = append(stages, st{"l2", true, []string{fmt.Sprint(i), fmt.Sprint(nb2)}, 14 * time.Minute})
	}
	stages = append(stages, st{"hist", true, nil, 14 * time.Minute}, st{"histp", true, nil, 14 * time.Minute},
		st{"histc", true, nil, 14 * time.Minute}, st{"conc1", true, nil, 14 * time.Minute}, st{"conc2", true, nil, 14 * time.Minute}, st{"l2x", true, nil, 14 * time.Minute})
	nb := r.N(4, 8) // l1 batches
	for i := 0; i < nb; i++ {
		stages = append(stages, st{"l1", false, []string{fmt.Sprint(i), fmt.Sprint(nb)}, 14 * time.Minute})
	}
	stages = append(stages,
		st{"l1gate", true, nil, 10 * time.Minute},
		st{"l2gate", false, nil, 10 * time.Minute},
		st{"l3", false, nil, 10 * time.Minute},
	)
	only := os.Getenv("C01_ONLY") // development aid: run a single stage
	var wg sync.WaitGroup
	sem := make(chan struct{}, 7)
	for _, s := range stages {
		if only != "" && only != s.name {
			continue
		}
		wg.Add(1)
		sem <- struct{}{} // acquired here so that the stages start in list order
		go func(s st) {
			defer wg.Done()
			defer func() { <-sem }()
			t0 := time.Now()
			jpath := fmt.Sprintf("%s/journal-%s-%s", r.Scratch, s.name, strings.Join(s.args, "-"))
			args := append(append([]string{}, s.args...), jpath)
			var ex vf.ChildExit
			for attempt := 0; attempt < 6; attempt++ {
				// Attribution nil: races are accounted below with a stricter rule than vf's
				ex = r.RunChild(vf.ChildSpec{Stage: s.name, Args: args, Race: s.race, Timeout: s.timeout})
				accountRaces(r, ex.Races)
				if s.race && ex.ExitCode == 66 && ex.Partial {
					ex.ExitCode = 0 // the race runtime's exit status when reports were written
				}
				r.Logf("stage %s%v attempt %d done in %v exit=%d signal=%q timedout=%v partial=%v races=%d", s.name, s.args, attempt, time.Since(t0).Round(time.Millisecond), ex.ExitCode, ex.Signal, ex.TimedOut, ex.Partial, len(ex.Races))
				if ex.TimedOut || ex.ExitCode == 0 || !openJournalReadOnly(jpath) {
					break
				}
				// the process died inside a case: record it and resume after the case
				r.Inconclusive("case killed the process (C04 territory): " + crashSite(ex.Tail+headOf(ex.Output, 4000)))
				r.Distinct("process_fatal_cases", crashSite(headOf(ex.Output, 4000)))
			}
			switch {
			case ex.TimedOut:
				r.Inconclusive("stage watchdog fired: " + s.name)
			case ex.ExitCode != 0 || !ex.Partial:
				// a crash of the code under test on hostile bytes is C04's subject; here it only
				// means the cases of this batch were not decided
				r.Inconclusive("stage " + s.name + " died: " + crashSite(ex.Tail+headOf(ex.Output, 4000)))
				r.Set("stage_death_tail_"+s.name, lastLines(ex.Tail, 30))
			}
		}(s)
	}
	wg.Wait()
	r.Assume("compress/gzip, archive/tar, encoding/json, crypto/sha256 (std) and klauspost zstd locate and hash the served TOC independently of /repo/estargz (cmd/c01/toc.go)")
	r.Assume("generator model internal/gen (self-describing content) is the ground truth of genuine bytes; chunk boundaries are taken from the genuine TOC only to delimit, never for content")
	r.Assume("the hook gate only delays goroutines at verifhook points, so every realised order is an execution of the unmodified program")
}

// accountRaces: a report counts against C01 iff the INNERMOST stargz-snapshotter frame
// of one of its two access stacks is a function of the attribution set, i.e. the racy
// access itself happens in VerifiableReader.*, reader.verify*, layer.Verify / SkipVerify /
// RootNode / Info (the state that carries the verification decision). Races that merely
// have such a function further up the stack (e.g. the retN/retErr race of
// layer.backgroundFetch, C13's subject, reached through VerifiableReader.Cache) are
// recorded as unattributed.
func accountRaces(r *vf.Run, reps []vf.RaceReport) {
	for _, rep := range reps {
		r.Count("race_reports_seen", 1)
		a, b := rep.InnermostRepoFrames()
		fr := []string{a, b}
		sort.Strings(fr)
		hit := false
		for _, f := range fr {
			ex := false
			for _, e := range exclude {
				if strings.Contains(f, e) {
					ex = true
				}
			}
			if ex || f == "" {
				continue
			}
			for _, at := range attribution {
				if strings.Contains(f, at) {
					hit = true
				}
			}
		}
		if hit {
			key := "race:" + fr[0] + "|" + fr[1]
			r.Violate(key, "data race between "+fr[0]+" and "+fr[1]+" (innermost stargz-snapshotter frames of the two accesses)", map[string]any{"report": rep.Text})
			r.Distinct("attributed_races", key)
		} else {
			r.Distinct("unattributed_races_by_repo_frame", fr[0]+"|"+fr[1])
		}
	}
}

func crashSite(tail string) string {
	for _, ln := range strings.Split(tail, "\n") {
		if strings.HasPrefix(ln, "panic:") || strings.HasPrefix(ln, "fatal error:") {
			if len(ln) > 120 {
				ln = ln[:120]
			}
			return ln
		}
	}
	return "no panic line"
}

func headOf(path string, n int) string {
	f, err := os.Open(path)
	if err != nil {
		return ""
	}
	defer f.Close()
	b := make([]byte, n)
	m, _ := f.Read(b)
	return string(b[:m])
}

func lastLines(s string, n int) string {
	ls := strings.Split(strings.TrimRight(s, "\n"), "\n")
	if len(ls) > n {
		ls = ls[len(ls)-n:]
	}
	return strings.Join(ls, "\n")
}

// ---------------------------------------------------------------------------
// genuine blobs

type blobCase struct {
	idx     int
	ents    []gen.Entry
	fsm     *gen.FS
	opts    blob.Opts
	built   *blob.Built
	lay     *layout
	files   []string        // regular files with size > 0 (clean paths, incl. hardlink names)
	genuine map[string]bool // sha256 hex of every genuine chunk and every whole genuine file
	// chunksOf: clean path -> chunk refs (from the genuine TOC)
	chunksOf map[string][]chunkRef
	maxChunk int64
}

func (bc *blobCase) String() string {
	return fmt.Sprintf("blob#%d{%s; %d entries; %d data members; %d bytes}", bc.idx, bc.opts, len(bc.ents), len(bc.lay.data), len(bc.built.Blob))
}

var chunkSizes = []int{1, 3, 64, 512, 4096, 16384, 65536}

// buildBlob draws tar + options until the blob has at least two data members (bounded).
func buildBlob(r *vf.Run, idx int, compression string) (*blobCase, error) {
	return buildBlobMode(r, idx, compression, false)
}

// buildBlobMode: gate=true draws blobs for the hook-ordered stages: no hardlinks and no
// min-chunk-size (one altered chunk => exactly one readAndCache call per Cache walk), no
// prioritized files (=> .no.prefetch.landmark, so that at L2 only BackgroundFetch walks).
// prioAll[1] (optional): "shared streams" layout for the concurrent-read stages.
// prioAll (optional): every regular file is prioritized (=> .prefetch.landmark after them,
// so that layer.Prefetch walks all file data).
func buildBlobMode(r *vf.Run, idx int, compression string, gate bool, prioAll ...bool) (*blobCase, error) {
	var lastErr error
	for try := 0; try < 12; try++ {
		rng := r.RNG(0xB10B, uint64(idx), uint64(try))
		bo := blob.RandomOpts(rng, chunkSizes...)
		if compression != "" {
			bo.Compression = compression
		}
		if bo.Compression == "zstdchunked" {
			// a zstd decoder per chunk read is expensive: keep the number of chunks small
			bo.ChunkSize = rng.Pick(512, 4096, 16384)
			if bo.MinChunkSize > 0 {
				bo.MinChunkSize = rng.Pick(1, bo.ChunkSize/2+1, 2*bo.ChunkSize)
			}
			bo.Level = 1 + bo.Level%3
		}
		shared := len(prioAll) > 1 && prioAll[1]
		if shared {
			// concurrent-read stages: many small chunks, several files per compressed stream
			bo.ChunkSize = rng.Pick(64, 256, 512)
			bo.MinChunkSize = bo.ChunkSize * rng.Pick(4, 8)
		} else if gate {
			bo.ChunkSize = rng.Pick(64, 512, 4096)
			bo.MinChunkSize = 0
		} else if idx%4 == 3 {
			// every fourth blob: several chunks share one compressed stream (pre-reader paths)
			bo.ChunkSize = rng.Pick(64, 512, 4096)
			bo.MinChunkSize = bo.ChunkSize * rng.Pick(2, 3, 8)
		}
		o := gen.DefaultOpts(int64(bo.ChunkSize))
		o.RootEntry = false  // db store + "./" entry: Cache() fails (suspected C05 defect), would silence prefetch
		o.Duplicates = false // keep "name -> content" unambiguous for the cache-content oracle
		o.MaxEntries = 10
		if gate {
			o.Hardlinks = false
		}
		if shared {
			o.MaxEntries = 16
		}
		if bo.ChunkSize >= 16384 {
			o.MaxEntries = 6
			o.MaxFileSize = 3 * int64(bo.ChunkSize)
		}
		if bo.ChunkSize <= 3 {
			o.MaxFileSize = 40
		}
		ents := gen.RandomTar(rng, o)
		if len(prioAll) > 0 && prioAll[0] {
			for _, e := range ents {
				if e.Type == tar.TypeReg && e.Size > 0 {
					bo.Prioritized = append(bo.Prioritized, gen.Clean(e.Name))
				}
			}
		}
		if rng.Bool() && !gate {
			// prioritized files => .prefetch.landmark => layer.Prefetch really prefetches
			for _, e := range ents {
				if e.Type == tar.TypeReg && e.Size > 0 && len(bo.Prioritized) < 2 && rng.Bool() {
					bo.Prioritized = append(bo.Prioritized, gen.Clean(e.Name))
				}
			}
		}
		b, err := blob.Build(gen.TarBytes(ents), bo)
		if err != nil {
			lastErr = err
			continue
		}
		lay, err := parseGenuine(b.Blob, b.ExternalTOC)
		if err != nil {
			lastErr = err
			continue
		}
		if dgst(lay.tocJSON) != b.TOCDigest.String() {
			return nil, fmt.Errorf("independent TOC digest %s != builder's %s", dgst(lay.tocJSON), b.TOCDigest)
		}
		if len(lay.data) < 2 {
			lastErr = fmt.Errorf("fewer than 2 data members")
			continue
		}
		bc := &blobCase{idx: idx, ents: ents, fsm: gen.Model(ents), opts: bo, built: b, lay: lay, genuine: map[string]bool{}, chunksOf: map[string][]chunkRef{}}
		// map TOC names to model nodes and collect genuine digests from the generator
		for _, m := range lay.members {
			for _, c := range m.chunks {
				p := gen.Clean(c.name)
				if p == ".prefetch.landmark" || p == ".no.prefetch.landmark" {
					bc.genuine[sha256hex([]byte{0xf})] = true // documented landmark content
					continue
				}
				n := bc.fsm.Nodes[p]
				if n == nil {
					return nil, fmt.Errorf("TOC names %q which the model does not know", c.name)
				}
				buf := make([]byte, c.chunkSize)
				gen.FillContent(n.ContentID, c.chunkOffset, buf)
				bc.genuine[sha256hex(buf)] = true
				bc.chunksOf[p] = append(bc.chunksOf[p], c)
				if c.chunkSize > bc.maxChunk {
					bc.maxChunk = c.chunkSize
				}
			}
		}
		for _, p := range bc.fsm.RegularFiles() {
			n := bc.fsm.Nodes[p]
			buf := make([]byte, n.Size)
			gen.FillContent(n.ContentID, 0, buf)
			bc.genuine[sha256hex(buf)] = true
			if n.Size > 0 {
				bc.files = append(bc.files, p)
			}
		}
		// hardlinked names share the chunks of their target
		for _, p := range bc.files {
			if _, ok := bc.chunksOf[p]; !ok {
				for q, cs := range bc.chunksOf {
					if bc.fsm.Nodes[q].ContentID == bc.fsm.Nodes[p].ContentID && bc.fsm.Nodes[q].Size == bc.fsm.Nodes[p].Size {
						bc.chunksOf[p] = cs
						break
					}
				}
			}
		}
		sort.Strings(bc.files)
		return bc, nil
	}
	return nil, fmt.Errorf("no usable blob after 12 draws: %v", lastErr)
}

// compressionFor cycles the three container variants so that every run has all of them.
func compressionFor(i int) string {
	return []string{"gzip", "zstdchunked", "externaltoc", ""}[i%4]
}

// pathsAffected maps affected chunk refs to clean paths (all names sharing the content).
func (bc *blobCase) pathsAffected(a *alteration) map[string][]chunkRef {
	res := map[string][]chunkRef{}
	for _, c := range a.Affected {
		p := gen.Clean(c.name)
		n := bc.fsm.Nodes[p]
		if n == nil {
			continue
		}
		for _, q := range bc.files {
			m := bc.fsm.Nodes[q]
			if m.ContentID == n.ContentID && m.Size == n.Size {
				res[q] = append(res[q], c)
			}
		}
	}
	return res
}

// readOp is one element of a read plan.
type readOp struct {
	Path string
	Off  int64
	Len  int
}

// readPlan: targeted reads on the affected chunks (aligned = direct path, unaligned =
// buffered path, spanning the previous chunk) plus random reads.
func (bc *blobCase) readPlan(a *alteration, rng *prng.R, nRandom int) []readOp {
	var plan []readOp
	aff := bc.pathsAffected(a)
	var ps []string
	for p := range aff {
		ps = append(ps, p)
	}
	sort.Strings(ps)
	budget := 24
	for _, p := range ps {
		size := bc.fsm.Nodes[p].Size
		for _, c := range aff[p] {
			if budget <= 0 {
				break
			}
			budget--
			plan = append(plan, readOp{p, c.chunkOffset, int(c.chunkSize)})
			if c.chunkSize > 1 {
				plan = append(plan, readOp{p, c.chunkOffset + 1, int(min64(c.chunkSize-1, 7))})
			}
			if c.chunkOffset > 0 {
				plan = append(plan, readOp{p, c.chunkOffset - 1, int(min64(size-c.chunkOffset+1, c.chunkSize+1))})
			}
			// chunks that share the compressed stream with c (min-chunk-size): reading one of
			// them makes the pre-reader of OpenFile handle (verify + cache) c; then read c again
			nsib := 0
			for _, sib := range bc.siblings(c) {
				q := gen.Clean(sib.name)
				if n := bc.fsm.Nodes[q]; n == nil || n.Size == 0 || nsib >= 2 {
					continue
				}
				nsib++
				plan = append(plan, readOp{q, sib.chunkOffset, int(sib.chunkSize)})
			}
			if nsib > 0 {
				plan = append(plan, readOp{p, c.chunkOffset, int(c.chunkSize)})
			}
		}
	}
	for i := 0; i < nRandom && len(bc.files) > 0; i++ {
		p := bc.files[rng.Intn(len(bc.files))]
		size := bc.fsm.Nodes[p].Size
		cs := int64(bc.opts.ChunkSize)
		off := rng.Int63n(size)
		if rng.Chance(1, 3) {
			off = off / cs * cs
		}
		l := int64(rng.Pick(1, int(cs)-1, int(cs), int(cs)+1, 3*int(cs), int(size), int(size)+5))
		if l <= 0 {
			l = 1
		}
		plan = append(plan, readOp{p, off, int(l)})
	}
	return plan
}

// siblings returns the other chunks stored in the same compressed member as c.
func (bc *blobCase) siblings(c chunkRef) []chunkRef {
	for _, i := range bc.lay.data {
		m := bc.lay.members[i]
		for _, x := range m.chunks {
			if x.name == c.name && x.chunkOffset == c.chunkOffset {
				var res []chunkRef
				for _, y := range m.chunks {
					if !(y.name == c.name && y.chunkOffset == c.chunkOffset) {
						res = append(res, y)
					}
				}
				return res
			}
		}
	}
	return nil
}

func min64(a, b int64) int64 {
	if a < b {
		return a
	}
	return b
}

// touches reports whether the read overlaps an affected chunk.
func touches(op readOp, aff map[string][]chunkRef) bool {
	for _, c := range aff[op.Path] {
		if op.Off < c.chunkOffset+c.chunkSize && op.Off+int64(op.Len) > c.chunkOffset {
			return true
		}
	}
	return false
}

// judgeBytes is oracle clause (ii): got (returned without error) must be the genuine
// bytes [off, off+len(got)) of the file. Returns "" or a description.
func (bc *blobCase) judgeBytes(path string, off int64, got []byte) string {
	n := bc.fsm.Nodes[path]
	if n == nil {
		return ""
	}
	lim := int64(len(got))
	if off+lim > n.Size {
		lim = n.Size - off // bytes past EOF are not file bytes (not judged here)
		if lim < 0 {
			lim = 0
		}
	}
	if i := gen.CheckContent(n.ContentID, off, got[:lim]); i >= 0 {
		return fmt.Sprintf("file %q: byte at offset %d of a read [%d,+%d) is not the genuine byte", path, off+int64(i), off, len(got))
	}
	return ""
}
