package main

import "verifharness/internal/vf"

func stageL2(r *vf.Run)     {}
func stageHist(r *vf.Run)   {}
func stageL2Gate(r *vf.Run) {}
func stageL3(r *vf.Run)     {}
