package main

// Stage "l1gate": hook-ordered schedules of Cache() (prefetch) against VerifyTOC at L1.

import (
	"fmt"
	"io"
	"path/filepath"
	"strings"
	"sync"
	"time"

	digest "github.com/opencontainers/go-digest"

	"verifharness/internal/l2"
	"verifharness/internal/vf"
)

const gateTimeout = 2 * time.Second

// digestOnlyAlteration draws an alteration that keeps the compressed stream valid and
// changes the payload of exactly one chunk (only the chunk digest can catch it).
func digestOnlyAlteration(r *vf.Run, bc *blobCase, label uint64) (*alteration, bool) {
	for try := uint64(0); try < 6; try++ {
		a, ok := bc.alter("recompress:flip", r.RNG(0x6A7E, uint64(bc.idx), label, try))
		if ok && len(bc.pathsAffected(a)) == 1 {
			return a, true
		}
	}
	return nil, false
}

// probeHooks runs one unscripted Cache+VerifyTOC on an altered blob and reports which
// hook points exist in the tree under test.
func probeHooks(e *l1Env, bc *blobCase, a *alteration) map[string]int {
	o, err := e.open(a, l1Params{Store: "memory", Cache: "memory"})
	if err != nil {
		return nil
	}
	defer o.close()
	g := newGate(nil, gateTimeout)
	gates.byObj.Store(o.vr, g)
	defer gates.byObj.Delete(o.vr)
	o.vr.Cache()
	o.vr.VerifyTOC(digest.Digest(a.Pin))
	_, hits, _ := g.snapshot()
	return hits
}

func runL1GateCase(e *l1Env, bc *blobCase, a *alteration, store string, script []string, caseNo uint64) {
	r := e.r
	r.Eval(1)
	ss := scriptString(script)
	p := l1Params{Store: store, Cache: "memory", Sched: "gate:" + ss, NRandom: 3}
	desc := fmt.Sprintf("L1gate %s | %s | %s", bc, a.Desc, p)
	replay := map[string]any{"level": "L1", "blob": bc.String(), "blob_index": bc.idx, "alteration": a.Desc, "params": p.String(), "hook_script": script, "case": caseNo, "tar": gen0(bc)}
	o, err := e.open(a, p)
	if err != nil {
		r.Inconclusive("gate case: store refused a digest-only alteration: " + firstLine(err.Error()))
		return
	}
	defer o.close()
	g := newGate(script, gateTimeout)
	gates.byObj.Store(o.vr, g)
	defer gates.byObj.Delete(o.vr)

	var wg sync.WaitGroup
	var cacheErr, verr error
	var rd interface {
		OpenFile(id uint32) (io.ReaderAt, error)
	}
	wg.Add(2)
	go func() {
		defer wg.Done()
		if pn, v, _ := vf.Recover(func() { cacheErr = o.vr.Cache() }); pn {
			cacheErr = fmt.Errorf("PANIC %v", v)
		}
	}()
	go func() {
		defer wg.Done()
		// VerifyTOC is immediate while the prefetch walk needs time: when the script wants
		// prefetch points first, start the verification only once they have passed
		// (harness-level sequencing of two independent calls, as fs.Mount's goroutines allow).
		startVerifyWhenScriptAllows(g, script)
		x, err := o.vr.VerifyTOC(digest.Digest(a.Pin))
		verr = err
		if err == nil {
			rd = x
		}
	}()
	wg.Wait()
	g.release()
	order, hits, timedOut := g.snapshot()
	replay["realised_order"] = order
	for k, n := range hits {
		r.Count("hook_hits:"+k, n)
	}
	outcome := "verify-refused"
	if verr == nil {
		outcome = "verify-ok"
	}
	if cacheErr != nil {
		outcome += ",prefetch-error"
	} else {
		outcome += ",prefetch-ok"
	}
	if g.realised() {
		r.Distinct("l1_hook_orders_realised", ss+" => "+outcome)
		r.NonTrivial(desc)
		r.Count("l1_gate_scripts_realised", 1)
	} else {
		why := "point-never-reached"
		if timedOut {
			why = "timeout(code's own locking or program order forbids it, or the point was not reached in this run)"
		}
		// infeasible_order: neither violation nor coverage
		r.Distinct("l1_infeasible_order", ss+" ["+scriptString(order)+" realised] "+why)
		r.Count("l1_gate_scripts_infeasible", 1)
	}
	keyClass := "hook-order"
	if verr != nil {
		r.Distinct("verify_errors", trimErr(verr))
		// the refusal must be final: retry (second time after another prefetch walk)
		for k := 0; k < 2 && verr != nil; k++ {
			if k == 1 {
				vf.Recover(func() { o.vr.Cache() })
			}
			r.Count("l1gate_verify_retries_after_refusal", 1)
			x, err := o.vr.VerifyTOC(digest.Digest(a.Pin))
			verr = err
			if err == nil {
				rd = x
			}
		}
		if verr != nil {
			return
		}
		keyClass = "after-verify-retry"
		replay["verify_history"] = "VerifyTOC(pinned) refused (prefetch had recorded the bad chunk), then returned nil on a retry on the same reader"
	}
	// the execution is a real one whatever the script's fate: judge it
	checkVerifyNil(r, "L1", bc, a, a.Pin, replay)
	aff := bc.pathsAffected(a)
	for phase := 0; phase < 2; phase++ {
		for _, op := range bc.readPlan(a, r.RNG(0x9EAE, caseNo), p.NRandom) {
			id, err := lookupID(o.meta, op.Path)
			if err != nil {
				continue
			}
			ra, err := rd.OpenFile(id)
			if err != nil {
				continue
			}
			buf := make([]byte, op.Len)
			n, rerr := ra.ReadAt(buf, op.Off)
			if rerr != nil && rerr != io.EOF {
				if touches(op, aff) {
					r.Count("l1gate_read_of_altered_chunk_refused", 1)
				}
				continue
			}
			if bad := bc.judgeBytes(op.Path, op.Off, buf[:n]); bad != "" {
				r.Violate("ii:read-returns-altered-bytes:L1:"+keyClass,
					fmt.Sprintf("read after VerifyTOC==nil returned non-genuine bytes under hook script %s (realised %s): %s (%s, %s)", ss, scriptString(order), bad, a.Desc, bc), replay)
			}
		}
		if phase == 0 {
			vals, _ := o.rc.values("")
			for k, v := range vals {
				if !bc.genuine[sha256hex(v)] {
					r.Violate("iii:cache-holds-non-genuine:L1:"+keyClass,
						fmt.Sprintf("VerifyTOC returned nil and the prefetch walk committed a non-genuine chunk (%d bytes, key %s…) under hook script %s (realised %s; outcome %s) (%s, %s)", len(v), k[:8], ss, scriptString(order), outcome, a.Desc, bc), replay)
				}
			}
			r.Count("l1gate_cache_values_scanned", len(vals))
		}
	}
}

// startVerifyWhenScriptAllows delays the START of the verification call (two independent
// calls of fs.Mount's goroutines; nothing inside the code under test is touched):
//   - the script parks prefetch inside its read lock (RL) until verifyTOC points have passed:
//     start once prefetch has arrived at RL, i.e. has passed the prohibit test. On the
//     unchanged tree VerifyTOC then blocks on the write lock and the script times out
//     (infeasible_order); a tree without the lock realises it.
//   - otherwise: start once the prefetch points scripted before the first verifyTOC point
//     have passed.
func startVerifyWhenScriptAllows(g *gate, script []string) {
	fv := firstV(script)
	for i, p := range script {
		if p == pRL && i > fv {
			g.waitHit(pRL, gateTimeout)
			return
		}
	}
	g.waitNext(fv, gateTimeout)
}

// firstV is the index of the first verifyTOC point of the script.
func firstV(script []string) int {
	for i, p := range script {
		if shortName[p][0] == 'V' {
			return i
		}
	}
	return 0
}

func stageL1Gate(r *vf.Run) {
	ms, closeMS, _, err := l2.MetadataStore("db", filepath.Join(r.Scratch, "db"))
	if err != nil {
		r.Inconclusive("cannot open bolt db: " + err.Error())
		return
	}
	defer closeMS()
	e := &l1Env{r: r, dbStore: ms, scratch: r.Scratch}
	installGateHandler()

	var bcs []*blobCase
	var alts []*alteration
	for bi := 0; len(bcs) < 3 && bi < 12; bi++ {
		r.Logf("building gate blob %d", bi)
		bc, err := buildBlobMode(r, 1000+bi, compressionFor(bi), true)
		if err != nil {
			continue
		}
		r.Logf("built %s", bc)
		a, ok := digestOnlyAlteration(r, bc, 0)
		r.Logf("altered %v", ok)
		if !ok {
			continue
		}
		bcs, alts = append(bcs, bc), append(alts, a)
	}
	if len(bcs) == 0 {
		r.Inconclusive("l1gate: no blob with a digest-only alteration")
		return
	}
	hits := probeHooks(e, bcs[0], alts[0])
	r.Logf("probe done %v", hits)
	points := []string{pR1, pR2, pV1, pV2}
	if hits[pR1] == 0 || hits[pV1] == 0 {
		r.Inconclusive("hook points of reader.go not reached by the probe: " + fmt.Sprint(hits))
		return
	}
	r.Set("l1gate_probe_hook_hits", hits)
	scr := scripts(points)
	if hits[pRL] > 0 {
		// the proposed in-lock hook exists: add the scripts that park prefetch INSIDE the read
		// lock; on the unchanged tree V1 cannot pass while RL is parked (infeasible_order).
		for _, s := range scripts([]string{pRL, pR2, pV1, pV2}) {
			if strings.Contains(scriptString(s), "RL") && len(s) >= 3 {
				scr = append(scr, s)
			}
		}
	}
	r.Set("l1gate_scripts", len(scr))
	reps := r.N(1, 4)
	type job struct {
		bi     int
		store  string
		script []string
		no     uint64
	}
	var jobs []job
	for rep := 0; rep < reps; rep++ {
		for si, s := range scr {
			for k, store := range []string{"memory", "db"} {
				if !r.Thorough() && (si+k)%2 == 1 && len(s) < 4 {
					continue // quick: every 4-point script on both stores, the subset scripts alternate
				}
				jobs = append(jobs, job{(si + rep) % len(bcs), store, s, uint64(rep)<<24 | uint64(si)<<4 | uint64(k)})
			}
		}
	}
	ch := make(chan job)
	var wg sync.WaitGroup
	for w := 0; w < 8; w++ {
		wg.Add(1)
		go func() {
			defer wg.Done()
			for j := range ch {
				tc := time.Now()
				r.Watchdog(2*time.Minute, "L1 gate case", func() { runL1GateCase(e, bcs[j.bi], alts[j.bi], j.store, j.script, j.no) })
				if d := time.Since(tc); d > 5*time.Second {
					r.Logf("slow gate case %v: %s %s %s", d.Round(time.Millisecond), bcs[j.bi], j.store, scriptString(j.script))
				}
			}
		}()
	}
	for _, j := range jobs {
		ch <- j
	}
	close(ch)
	wg.Wait()
	r.Sample(map[string]any{"level": "L1gate", "blob": bcs[0].String(), "alteration": alts[0].Desc, "scripts": len(scr)})
}
