package main

// The "gate" of DESIGN.md section 3: a breakpoint scheduler on verifhook points.
// A script is a sequence of point names. A goroutine reaching a scripted point that is
// not next in the script parks until its turn; unscripted points (and later arrivals at
// an already consumed point) pass through and are only counted. If the script cannot
// advance (the order is excluded by the code's own locking, or a point is never
// reached) a generous timeout releases everything and the case is recorded as
// infeasible_order: neither a violation nor coverage. The gate only delays goroutines
// at places where the scheduler could have preempted them anyway.

import (
	"strings"
	"sync"
	"time"

	"github.com/containerd/stargz-snapshotter/util/verifhook"
)

const (
	pR1 = "reader.readAndCache.verifyFailed" // prefetch detected a bad chunk, before taking the RLock
	pRL = "reader.readAndCache.inRLock"      // (proposed hook, hooks.diff) inside the RLock, after the prohibit test
	pR2 = "reader.readAndCache.storedErr"    // error stored, RLock released, before Commit
	pV1 = "reader.verifyTOC.afterProhibit"   // inside the write lock, prohibit set, before reading lastVerifyErr
	pV2 = "reader.verifyTOC.afterLoadErr"    // after the unlock
)

var shortName = map[string]string{pR1: "R1", pRL: "RL", pR2: "R2", pV1: "V1", pV2: "V2"}

func scriptString(s []string) string {
	var out []string
	for _, p := range s {
		out = append(out, shortName[p])
	}
	return strings.Join(out, "<")
}

type gate struct {
	mu       sync.Mutex
	script   []string
	next     int
	parked   map[string]chan struct{}
	consumed map[string]bool
	order    []string // realised order of scripted points
	hits     map[string]int
	released bool // timeout fired or script abandoned: everything passes
	timedOut bool
	timeout  time.Duration
	done     chan struct{} // closed when the script completed
}

func newGate(script []string, timeout time.Duration) *gate {
	return &gate{script: script, parked: map[string]chan struct{}{}, consumed: map[string]bool{}, hits: map[string]int{}, timeout: timeout, done: make(chan struct{})}
}

func (g *gate) inScriptAhead(name string) bool {
	for _, p := range g.script[g.next:] {
		if p == name {
			return true
		}
	}
	return false
}

// advanceLocked consumes script[next] and wakes the goroutine parked at the new head.
func (g *gate) advanceLocked(name string) {
	g.order = append(g.order, name)
	g.consumed[name] = true
	g.next++
	if g.next == len(g.script) {
		close(g.done)
		return
	}
	if ch, ok := g.parked[g.script[g.next]]; ok {
		delete(g.parked, g.script[g.next])
		close(ch)
	}
}

func (g *gate) releaseLocked(timedOut bool) {
	if g.released {
		return
	}
	g.released = true
	g.timedOut = g.timedOut || timedOut
	for k, ch := range g.parked {
		delete(g.parked, k)
		close(ch)
	}
}

// release lets everything pass from now on (end of the case).
func (g *gate) release() {
	g.mu.Lock()
	g.releaseLocked(false)
	g.mu.Unlock()
}

func (g *gate) point(name string) {
	g.mu.Lock()
	g.hits[name]++
	if g.released || g.next >= len(g.script) || g.consumed[name] || !g.inScriptAhead(name) {
		g.mu.Unlock()
		return
	}
	if g.script[g.next] == name {
		g.advanceLocked(name)
		g.mu.Unlock()
		return
	}
	if _, dup := g.parked[name]; dup {
		// a second goroutine at the same scripted point: only the first one is scheduled
		g.mu.Unlock()
		return
	}
	ch := make(chan struct{})
	g.parked[name] = ch
	g.mu.Unlock()
	select {
	case <-ch:
	case <-time.After(g.timeout):
		g.mu.Lock()
		if _, still := g.parked[name]; still {
			delete(g.parked, name)
			g.releaseLocked(true)
		}
		g.mu.Unlock()
		return
	}
	g.mu.Lock()
	if !g.released && g.next < len(g.script) && g.script[g.next] == name {
		g.advanceLocked(name)
	}
	g.mu.Unlock()
}

// waitNext blocks until the script has advanced to index k (or the gate was released).
func (g *gate) waitNext(k int, limit time.Duration) bool {
	dl := time.Now().Add(limit)
	for {
		g.mu.Lock()
		ok, rel := g.next >= k, g.released
		g.mu.Unlock()
		if ok {
			return true
		}
		if rel || time.Now().After(dl) {
			return false
		}
		time.Sleep(200 * time.Microsecond)
	}
}

// waitHit blocks until some goroutine has ARRIVED at the point (it may be parked there).
func (g *gate) waitHit(name string, limit time.Duration) bool {
	dl := time.Now().Add(limit)
	for {
		g.mu.Lock()
		ok, rel := g.hits[name] > 0, g.released
		g.mu.Unlock()
		if ok {
			return true
		}
		if rel || time.Now().After(dl) {
			return false
		}
		time.Sleep(200 * time.Microsecond)
	}
}

// realised: every scripted point passed, in the scripted order, without a timeout.
func (g *gate) realised() bool {
	g.mu.Lock()
	defer g.mu.Unlock()
	return !g.timedOut && g.next == len(g.script)
}

func (g *gate) snapshot() (order []string, hits map[string]int, timedOut bool) {
	g.mu.Lock()
	defer g.mu.Unlock()
	hits = map[string]int{}
	for k, v := range g.hits {
		hits[k] = v
	}
	return append([]string{}, g.order...), hits, g.timedOut
}

// gates routes hook calls to the gate of the object (args[0], the *VerifiableReader)
// so that L1 gate cases can run in parallel; def is used when the object is unknown
// (L2: the reader lives inside the layer).
var gates struct {
	byObj sync.Map // interface{} -> *gate
	mu    sync.Mutex
	def   *gate
}

func installGateHandler() {
	verifhook.SetHandler(func(name string, args ...interface{}) {
		if len(args) > 0 {
			if g, ok := gates.byObj.Load(args[0]); ok {
				g.(*gate).point(name)
				return
			}
		}
		gates.mu.Lock()
		g := gates.def
		gates.mu.Unlock()
		if g != nil {
			g.point(name)
		}
	})
}

func setDefaultGate(g *gate) {
	gates.mu.Lock()
	gates.def = g
	gates.mu.Unlock()
}

// scripts enumerates the hook scripts of one race window: every permutation of every
// subset (size >= 2) of the points. Permutations that contradict program order of one
// goroutine (R1 before RL before R2, V1 before V2) can only time out; they are kept for
// the full 4-point set (as DESIGN.md prescribes: all 24) and dropped for subsets.
func scripts(points []string) [][]string {
	var res [][]string
	rank := map[string]int{pR1: 0, pRL: 1, pR2: 2, pV1: 0, pV2: 1}
	role := func(p string) byte { return shortName[p][0] }
	okOrder := func(s []string) bool {
		for i := range s {
			for j := i + 1; j < len(s); j++ {
				if role(s[i]) == role(s[j]) && rank[s[i]] > rank[s[j]] {
					return false
				}
			}
		}
		return true
	}
	n := len(points)
	for mask := 1; mask < 1<<n; mask++ {
		var sub []string
		for i := 0; i < n; i++ {
			if mask&(1<<i) != 0 {
				sub = append(sub, points[i])
			}
		}
		if len(sub) < 2 {
			continue
		}
		// at least one point of each role, otherwise there is nothing to interleave
		hasR, hasV := false, false
		for _, p := range sub {
			if role(p) == 'R' {
				hasR = true
			} else {
				hasV = true
			}
		}
		if !hasR || !hasV {
			continue
		}
		permute(sub, func(s []string) {
			if len(sub) == n && n <= 4 || okOrder(s) {
				res = append(res, append([]string{}, s...))
			}
		})
	}
	return res
}

func permute(a []string, f func([]string)) {
	var rec func(int)
	rec = func(k int) {
		if k == len(a) {
			f(a)
			return
		}
		for i := k; i < len(a); i++ {
			a[k], a[i] = a[i], a[k]
			rec(k + 1)
			a[k], a[i] = a[i], a[k]
		}
	}
	rec(0)
}
