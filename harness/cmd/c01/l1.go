package main

// Level L1: reader.NewReader(meta, recordingCache, layerDigest) on a SectionReader over
// altered bytes.

import (
	"bytes"
	"fmt"
	"io"
	"os"
	"path/filepath"
	"runtime"
	"strconv"
	"strings"
	"sync"
	"sync/atomic"
	"syscall"
	"time"

	"github.com/containerd/stargz-snapshotter/cache"
	"github.com/containerd/stargz-snapshotter/estargz/externaltoc"
	"github.com/containerd/stargz-snapshotter/estargz/zstdchunked"
	"github.com/containerd/stargz-snapshotter/fs/reader"
	"github.com/containerd/stargz-snapshotter/metadata"
	digest "github.com/opencontainers/go-digest"

	"verifharness/internal/l2"
	"verifharness/internal/vf"
)

// ---------------------------------------------------------------------------
// recording cache (local; internal/reccache is being written by another author)

type recCache struct {
	inner cache.BlobCache
	keep  bool // keep a copy of committed values (memory inner cache)

	mu        sync.Mutex
	committed map[string][]byte

	adds, commits, aborts, gets, hits atomic.Int64
	// loseEvery > 0: every n-th Get of a present key reports a miss (cache loss: forces
	// the re-fetch + re-verify path)
	loseEvery int64
	// yield: Add yields the processor before calling the inner cache (a cache may always be
	// slow or block; this only delays the call). Used by the concurrent-read stage.
	yield bool
}

func newRecCache(inner cache.BlobCache, keep bool) *recCache {
	return &recCache{inner: inner, keep: keep, committed: map[string][]byte{}}
}

type recWriter struct {
	cache.Writer
	c   *recCache
	key string
	buf bytes.Buffer
}

func (w *recWriter) Write(p []byte) (int, error) {
	n, err := w.Writer.Write(p)
	if w.c.keep {
		w.buf.Write(p[:n])
	}
	return n, err
}

func (w *recWriter) Commit() error {
	err := w.Writer.Commit()
	if err == nil {
		w.c.commits.Add(1)
		if w.c.keep {
			w.c.mu.Lock()
			w.c.committed[w.key] = append([]byte(nil), w.buf.Bytes()...)
			w.c.mu.Unlock()
		}
	}
	return err
}

func (w *recWriter) Abort() error {
	w.c.aborts.Add(1)
	return w.Writer.Abort()
}

func (c *recCache) Add(key string, opts ...cache.Option) (cache.Writer, error) {
	c.adds.Add(1)
	if c.yield {
		runtime.Gosched()
	}
	w, err := c.inner.Add(key, opts...)
	if err != nil {
		return nil, err
	}
	return &recWriter{Writer: w, c: c, key: key}, nil
}

func (c *recCache) Get(key string, opts ...cache.Option) (cache.Reader, error) {
	n := c.gets.Add(1)
	if c.loseEvery > 0 && n%c.loseEvery == 0 {
		return nil, fmt.Errorf("reccache: injected miss for %q", key)
	}
	r, err := c.inner.Get(key, opts...)
	if err == nil {
		c.hits.Add(1)
	}
	return r, err
}

func (c *recCache) Close() error { return c.inner.Close() }

// values returns the committed values (memory) or the files of the directory cache.
func (c *recCache) values(dir string) (map[string][]byte, error) {
	if c.keep {
		c.mu.Lock()
		defer c.mu.Unlock()
		res := make(map[string][]byte, len(c.committed))
		for k, v := range c.committed {
			res[k] = v
		}
		return res, nil
	}
	return scanCacheDir(dir)
}

// scanCacheDir reads every committed file of a directory cache (everything except wip/).
func scanCacheDir(dir string) (map[string][]byte, error) {
	res := map[string][]byte{}
	err := filepath.Walk(dir, func(p string, info os.FileInfo, err error) error {
		if err != nil {
			if os.IsNotExist(err) {
				return nil
			}
			return err
		}
		if info.IsDir() {
			if info.Name() == "wip" {
				return filepath.SkipDir
			}
			return nil
		}
		if len(res) > 200000 {
			return fmt.Errorf("too many cache files")
		}
		b, err := os.ReadFile(p)
		if err != nil {
			if os.IsNotExist(err) {
				return nil
			}
			return err
		}
		res[p] = b
		return nil
	})
	return res, err
}

// ---------------------------------------------------------------------------

type l1Params struct {
	Store     string // memory | db
	Cache     string // memory | dir
	Sched     string // none | before | concurrent | after
	Lose      bool   // cache loss injection
	NRandom   int
	MergeMode string // "" | batch | sequential  (dir cache only)
}

func (p l1Params) String() string {
	return fmt.Sprintf("store=%s cache=%s sched=%s lose=%v merge=%s", p.Store, p.Cache, p.Sched, p.Lose, p.MergeMode)
}

type l1Env struct {
	r       *vf.Run
	dbStore metadata.Store
	scratch string
	seq     atomic.Int64
}

func (e *l1Env) store(kind string) metadata.Store {
	if kind == "db" {
		return e.dbStore
	}
	ms, _, _, _ := l2.MetadataStore("memory", "")
	return ms
}

func decompressorsFor(ext []byte) []metadata.Decompressor {
	ds := []metadata.Decompressor{new(zstdchunked.Decompressor)}
	if ext != nil {
		toc := ext
		ds = append(ds, externaltoc.NewGzipDecompressor(func() ([]byte, error) { return toc, nil }))
	}
	return ds
}

func lookupID(meta metadata.Reader, p string) (uint32, error) {
	id := meta.RootID()
	for _, c := range strings.Split(p, "/") {
		var err error
		id, _, err = meta.GetChild(id, c)
		if err != nil {
			return 0, err
		}
	}
	return id, nil
}

// opened is an L1 reader under test together with its observation points.
type opened struct {
	meta metadata.Reader
	vr   *reader.VerifiableReader
	rc   *recCache
	dir  string
}

func (e *l1Env) open(a *alteration, p l1Params) (*opened, error) {
	sr := io.NewSectionReader(bytes.NewReader(a.Blob), 0, int64(len(a.Blob)))
	var meta metadata.Reader
	var err error
	panicked, val, _ := vf.Recover(func() {
		meta, err = e.store(p.Store)(sr, metadata.WithDecompressors(decompressorsFor(a.Ext)...))
	})
	if panicked {
		return nil, fmt.Errorf("PANIC in metadata store: %v", val)
	}
	if err != nil {
		return nil, err
	}
	o := &opened{meta: meta}
	var inner cache.BlobCache
	if p.Cache == "dir" {
		o.dir = filepath.Join(e.scratch, "c"+strconv.FormatInt(e.seq.Add(1), 10))
		inner, err = cache.NewDirectoryCache(o.dir, cache.DirectoryCacheConfig{SyncAdd: true, Direct: true})
		if err != nil {
			meta.Close()
			return nil, err
		}
	} else {
		inner = cache.NewMemoryCache()
	}
	o.rc = newRecCache(inner, p.Cache != "dir")
	if p.Lose {
		o.rc.loseEvery = 3
	}
	o.vr, err = reader.NewReader(meta, o.rc, digest.FromBytes(a.Blob))
	if err != nil {
		meta.Close()
		return nil, err
	}
	return o, nil
}

func (o *opened) close() {
	vf.Recover(func() { o.vr.Close() })
	if o.dir != "" {
		os.RemoveAll(o.dir)
	}
}

// checkVerifyNil is oracle clause (i).
func checkVerifyNil(r *vf.Run, level string, bc *blobCase, a *alteration, d string, replay map[string]any) {
	acc := map[string]bool{}
	ts := servedTOCs(a.Blob, a.Ext)
	for _, t := range ts {
		for k := range acceptableDigests(t) {
			acc[k] = true
		}
	}
	if len(ts) == 0 {
		r.Inconclusive("verification succeeded but the independent reader cannot locate a TOC in the served bytes (" + a.Class + ")")
		return
	}
	if !acc[d] {
		r.Violate("i:verify-nil-on-other-toc:"+level+":"+a.Class,
			fmt.Sprintf("verification with digest %s returned nil but the TOC JSON actually served hashes to %s (%s, %s)", d, dgst(ts[0]), a.Desc, bc), replay)
	}
}

// scanCache is oracle clause (iii); returns number of values scanned.
func scanCache(r *vf.Run, level string, bc *blobCase, a *alteration, vals map[string][]byte, replay map[string]any) int {
	for k, v := range vals {
		if !bc.genuine[sha256hex(v)] {
			r.Violate("iii:cache-holds-non-genuine:"+level+":"+a.Class,
				fmt.Sprintf("after a successful verification the chunk cache holds a committed value (%d bytes, key %s) that is neither a genuine chunk nor a whole genuine file (%s, %s)", len(v), filepath.Base(k), a.Desc, bc), replay)
		}
	}
	return len(vals)
}

func runL1Case(e *l1Env, bc *blobCase, a *alteration, p l1Params, caseNo uint64) {
	r := e.r
	r.Eval(1)
	desc := fmt.Sprintf("L1 %s | %s | %s", bc, a.Desc, p)
	replay := map[string]any{"level": "L1", "blob": bc.String(), "blob_index": bc.idx, "alteration": a.Desc, "params": p.String(), "case": caseNo,
		"tar": gen0(bc), "affected": sortedChunkKeys(a.Affected)}
	cls := a.Class
	if knownFatal(a) {
		r.Inconclusive("case skipped: zstd footer announces a TOC far larger than the blob (known process-fatal allocation, C04 territory)")
		return
	}
	o, err := e.open(a, p)
	if err != nil {
		r.Count("l1_open_refused:"+cls, 1)
		if strings.HasPrefix(err.Error(), "PANIC") {
			r.Count("l1_open_panicked(C04 territory)", 1)
			r.Distinct("panics_in_store_open", firstLine(err.Error()))
		}
		if a.Class == "none" {
			r.Inconclusive("genuine blob refused by the metadata store: " + firstLine(err.Error()))
		} else if a.TOCTouched {
			r.NonTrivial(desc)
		}
		return
	}
	defer o.close()
	vr := o.vr

	var cacheErr error
	cacheDone := make(chan struct{})
	startCache := func() {
		go func() {
			defer close(cacheDone)
			if pn, v, _ := vf.Recover(func() { cacheErr = vr.Cache() }); pn {
				cacheErr = fmt.Errorf("PANIC in Cache: %v", v)
			}
		}()
	}
	switch p.Sched {
	case "before":
		startCache()
		<-cacheDone
	case "concurrent":
		startCache()
	}
	rd, verr := vr.VerifyTOC(digest.Digest(a.Pin))
	switch p.Sched {
	case "after":
		startCache()
		<-cacheDone
	case "concurrent":
		<-cacheDone
	case "none":
		close(cacheDone)
	}
	if cacheErr != nil {
		r.Count("l1_prefetch_error:"+cls, 1)
	}
	if verr != nil {
		r.Count("l1_verify_refused:"+cls, 1)
		r.Distinct("verify_errors", trimErr(verr))
		if a.Class == "none" {
			r.Inconclusive("genuine blob refused by VerifyTOC: " + trimErr(verr))
		} else if a.TOCTouched || len(a.Affected) > 0 {
			r.NonTrivial(desc)
		}
		// A refusal must be final for this reader: retry the same call (what a retried Mount
		// does while the layer sits in the resolver cache), the second time after further
		// prefetch activity. If a retry returns nil, clauses (i)-(iii) apply to everything
		// afterwards exactly as after a first success.
		for k := 0; k < 2 && verr != nil; k++ {
			if k == 1 {
				vf.Recover(func() { vr.Cache() })
			}
			r.Count("l1_verify_retries_after_refusal", 1)
			rd, verr = vr.VerifyTOC(digest.Digest(a.Pin))
		}
		if verr != nil {
			return
		}
		r.Count("l1_verify_retry_returned_nil:"+cls, 1)
		replay["verify_history"] = "VerifyTOC(pinned) refused, then returned nil on a retry on the same reader"
		ac := *a
		ac.Class = "after-verify-retry"
		ac.Desc = a.Desc + " [VerifyTOC refused first, nil on retry]"
		a, cls = &ac, ac.Class
	}
	r.Count("l1_verify_ok:"+cls, 1)
	checkVerifyNil(r, "L1", bc, a, a.Pin, replay)

	aff := bc.pathsAffected(a)
	touched := false
	plan := bc.readPlan(a, r.RNG(0x9EAD, caseNo), p.NRandom)
	doReads := func(phase string) {
		for _, op := range plan {
			id, err := lookupID(o.meta, op.Path)
			if err != nil {
				r.Count("l1_lookup_failed", 1)
				continue
			}
			ra, err := rd.OpenFile(id)
			if err != nil {
				r.Count("l1_open_file_refused:"+cls, 1)
				continue
			}
			buf := make([]byte, op.Len)
			var n int
			var rerr error
			if pn, v, _ := vf.Recover(func() { n, rerr = ra.ReadAt(buf, op.Off) }); pn {
				r.Count("l1_read_panicked(C04 territory)", 1)
				r.Distinct("panics_in_read", fmt.Sprint(v))
				continue
			}
			t := touches(op, aff)
			if t {
				touched = true
			}
			if rerr != nil && rerr != io.EOF {
				r.Count("l1_read_refused:"+cls, 1)
				if t {
					r.Count("l1_read_of_altered_chunk_refused:"+cls, 1)
				}
				continue
			}
			if bad := bc.judgeBytes(op.Path, op.Off, buf[:n]); bad != "" {
				r.Violate("ii:read-returns-altered-bytes:L1:"+cls,
					fmt.Sprintf("%s read after VerifyTOC(pinned digest)==nil returned non-genuine bytes: %s (%s, %s, %s)", phase, bad, a.Desc, bc, p), replay)
			} else {
				r.Count("l1_read_genuine:"+cls, 1)
				if t {
					r.Count("l1_read_of_altered_chunk_genuine:"+cls, 1)
				}
			}
		}
	}
	doReads("cold")

	// passthrough: bytes behind the fd of the merged whole-file cache entry
	if p.MergeMode != "" && o.dir != "" {
		for i, path := range bc.files {
			if i >= 4 {
				break
			}
			id, err := lookupID(o.meta, path)
			if err != nil {
				continue
			}
			ra, err := rd.OpenFile(id)
			if err != nil {
				continue
			}
			g, ok := ra.(reader.PassthroughFdGetter)
			if !ok {
				r.Inconclusive("file reader does not implement PassthroughFdGetter")
				break
			}
			// batch path: buffer is a multiple of the chunk size (see NOTES.md: a buffer that is
			// not chunk-aligned makes processBatchChunks slice out of range; not C01's subject);
			// sequential path: a chunk larger than the buffer.
			mb, workers := int64(bc.opts.ChunkSize)*int64(1+i%3), 1+2*i
			if p.MergeMode == "sequential" {
				mb = bc.maxChunk / 2
			}
			var fd uintptr
			var cr cache.Reader
			var gerr error
			if pn, v, _ := vf.Recover(func() { fd, cr, gerr = g.GetPassthroughFd(mb, workers) }); pn {
				r.Count("l1_passthrough_panicked", 1)
				r.Distinct("panics_in_passthrough", fmt.Sprint(v))
				continue
			}
			size := bc.fsm.Nodes[path].Size
			op := readOp{path, 0, int(size)}
			if touches(op, aff) {
				touched = true
			}
			if gerr != nil {
				r.Count("l1_passthrough_refused:"+cls, 1)
				r.Distinct("passthrough_errors", trimErr(gerr))
				continue
			}
			buf := make([]byte, size+16)
			n, _ := preadFull(int(fd), buf)
			cr.Close()
			r.Count("l1_passthrough_"+p.MergeMode+"_fd_obtained", 1)
			if int64(n) != size {
				// a merged file of another length cannot be the genuine file
				r.Violate("ii:passthrough-fd-wrong-length:L1:"+cls, fmt.Sprintf("passthrough fd of %q holds %d bytes, genuine file has %d (%s)", path, n, size, a.Desc), replay)
				continue
			}
			if bad := bc.judgeBytes(path, 0, buf[:n]); bad != "" {
				r.Violate("ii:passthrough-fd-returns-altered-bytes:L1:"+p.MergeMode+":"+cls,
					fmt.Sprintf("bytes behind GetPassthroughFd after VerifyTOC==nil are not genuine: %s (%s, %s, %s)", bad, a.Desc, bc, p), replay)
			}
		}
	}

	// (iii) cache contents, then warm re-reads
	vals, err := o.rc.values(o.dir)
	if err != nil {
		r.Inconclusive("cache scan failed: " + firstLine(err.Error()))
	} else {
		r.Count("l1_cache_values_scanned", scanCache(r, "L1", bc, a, vals, replay))
	}
	o.rc.loseEvery = 0
	doReads("warm")
	r.Count("l1_cache_adds", int(o.rc.adds.Load()))
	r.Count("l1_cache_commits", int(o.rc.commits.Load()))
	r.Count("l1_cache_aborts", int(o.rc.aborts.Load()))
	r.Count("l1_cache_hits", int(o.rc.hits.Load()))
	if a.Class == "none" {
		return
	}
	if touched || a.TOCTouched {
		r.NonTrivial(desc)
		r.Count("l1_cases_touching_altered_bytes_after_verify_ok", 1)
	}
}

func preadFull(fd int, buf []byte) (int, error) {
	n := 0
	for n < len(buf) {
		m, err := syscall.Pread(fd, buf[n:], int64(n))
		if err != nil {
			return n, err
		}
		if m == 0 {
			break
		}
		n += m
	}
	return n, nil
}

func gen0(bc *blobCase) string {
	s := fmt.Sprint(len(bc.ents)) + " entries: "
	for i, e := range bc.ents {
		if i > 0 {
			s += "; "
		}
		s += fmt.Sprintf("%c %q %d", e.Type, e.Name, e.Size)
		if len(s) > 600 {
			s += " …"
			break
		}
	}
	return s
}

func firstLine(s string) string {
	if i := strings.IndexByte(s, '\n'); i >= 0 {
		s = s[:i]
	}
	if len(s) > 200 {
		s = s[:200]
	}
	return s
}

// trimErr removes the numbers and digests of an error string so that distinct error
// KINDS are counted.
func trimErr(err error) string {
	s := firstLine(err.Error())
	var sb strings.Builder
	inq := false
	for i := 0; i < len(s); i++ {
		c := s[i]
		if c == '"' {
			inq = !inq
			if inq {
				sb.WriteString("\"…\"")
			}
			continue
		}
		if inq {
			continue
		}
		if c >= '0' && c <= '9' {
			if sb.Len() == 0 || sb.String()[sb.Len()-1] != '#' {
				sb.WriteByte('#')
			}
			continue
		}
		sb.WriteByte(c)
	}
	out := sb.String()
	if len(out) > 140 {
		out = out[:140]
	}
	return out
}

// ---------------------------------------------------------------------------

func stageL1(r *vf.Run) {
	batch, nb := 0, 1
	jr := openJournal("")
	if len(r.ChildArgs) >= 2 {
		batch, _ = strconv.Atoi(r.ChildArgs[0])
		nb, _ = strconv.Atoi(r.ChildArgs[1])
	}
	if len(r.ChildArgs) >= 3 {
		jr = openJournal(r.ChildArgs[2])
	}
	ms, closeMS, _, err := l2.MetadataStore("db", filepath.Join(r.Scratch, "db"))
	if err != nil {
		r.Inconclusive("cannot open bolt db: " + err.Error())
		return
	}
	defer closeMS()
	e := &l1Env{r: r, dbStore: ms, scratch: r.Scratch}
	nBlobs := r.N(8, 40)
	perClass := r.N(1, 2)
	caseNo := uint64(0)
	for bi := 0; bi < nBlobs; bi++ {
		if bi%nb != batch || jr.doneBlob[fmt.Sprint(bi)] {
			continue
		}
		bc, err := buildBlob(r, bi, compressionFor(bi))
		if err != nil {
			r.Inconclusive("blob build: " + firstLine(err.Error()))
			continue
		}
		if bi < 4 {
			r.Sample(map[string]any{"blob": bc.String(), "tar": gen0(bc)})
		}
		classes := append([]string{"none"}, classList...)
		for ci, class := range classes {
			for rep := 0; rep < perClass; rep++ {
				rng := r.RNG(0xA17E, uint64(bi), uint64(ci), uint64(rep))
				a, ok := bc.alter(class, rng)
				if !ok {
					r.Count("alteration_not_applicable:"+class, 1)
					continue
				}
				for si, store := range []string{"memory", "db"} {
					caseNo = uint64(bi)<<32 | uint64(ci)<<16 | uint64(rep)<<8 | uint64(si)
					pr := r.RNG(0x9A4A, caseNo)
					p := l1Params{Store: store, NRandom: 6}
					p.Cache = pr.PickS("memory", "memory", "dir")
					p.Sched = pr.PickS("none", "before", "concurrent", "after", "after")
					p.Lose = pr.Chance(1, 4)
					if p.Cache == "dir" {
						p.MergeMode = pr.PickS("batch", "sequential")
					}
					if class == "none" && rep == 0 {
						// sanity of the harness itself: the genuine blob must verify and read back
						p.Sched = "before"
					}
					cid := fmt.Sprintf("%x", caseNo)
					if jr.poison[cid] {
						r.Inconclusive("case skipped: it killed the process in an earlier attempt (" + class + ")")
						continue
					}
					jr.begin(cid)
					tc := time.Now()
					ok := r.Watchdog(90*time.Second, "L1 case", func() { runL1Case(e, bc, a, p, caseNo) })
					jr.end(cid)
					if d := time.Since(tc); d > 2*time.Second {
						r.Logf("slow L1 case %v: %s | %s | %s", d.Round(time.Millisecond), bc, a.Desc, p)
					}
					if !ok {
						r.Logf("watchdog: %s %s %s", bc, a.Desc, p)
					}
					if caseNo%7 == 3 && rep == 0 {
						r.Sample(map[string]any{"level": "L1", "blob": bc.String(), "alteration": a.Desc, "params": p.String()})
					}
				}
			}
		}
		// thorough: exhaustive byte positions on small blobs
		if r.Thorough() && len(bc.built.Blob) < 2048 && bi%3 == 0 {
			for pos := 0; pos < len(bc.built.Blob); pos++ {
				rng := r.RNG(0xE8, uint64(bi), uint64(pos))
				a := &alteration{Class: "flip:exhaustive", Pin: bc.built.TOCDigest.String(), Blob: append([]byte{}, bc.built.Blob...), Ext: bc.built.ExternalTOC}
				a.Desc = "flip:exhaustive " + flipAt(a.Blob, int64(pos), rng)
				if m, ok := bc.memberAt(int64(pos)); ok {
					a.Affected = m.chunks
					a.TOCTouched = m.kind == "toc" || m.kind == "footer"
				}
				p := l1Params{Store: "memory", Cache: "memory", Sched: rng.PickS("none", "before", "after"), NRandom: 2}
				cn := uint64(bi)<<32 | 0xFFFF<<16 | uint64(pos)
				cid := fmt.Sprintf("%x", cn)
				if jr.poison[cid] {
					r.Inconclusive("case skipped: it killed the process in an earlier attempt (flip:exhaustive)")
					continue
				}
				jr.begin(cid)
				r.Watchdog(90*time.Second, "L1 exhaustive case", func() { runL1Case(e, bc, a, p, cn) })
				jr.end(cid)
			}
		}
		r.FlushPartial()
		jr.done(fmt.Sprint(bi))
	}
}
