package main

// Level L2: layer.Resolver.Resolve on memreg -> go Prefetch, go BackgroundFetch -> Verify ->
// RootNode -> node reads (the sequence fs.Mount performs), call histories on one cached
// layer, and hook-ordered schedules through the layer.

import (
	"context"
	"fmt"
	"os"
	"path/filepath"
	"strconv"
	"strings"
	"sync"
	"syscall"
	"time"

	"github.com/containerd/stargz-snapshotter/fs/config"
	"github.com/containerd/stargz-snapshotter/fs/layer"
	fusefs "github.com/hanwen/go-fuse/v2/fs"
	digest "github.com/opencontainers/go-digest"

	"verifharness/internal/blob"
	"verifharness/internal/l2"
	"verifharness/internal/memreg"
	"verifharness/internal/nodefs"
	"verifharness/internal/vf"
)

type l2Params struct {
	Store       string // memory | db
	FSCache     string // memory | dir
	Sched       string // before | during | after | none
	SyncAdd     bool
	PassThrough bool
	NRandom     int
	HTTPDir     bool // directory httpcache, direct mode (tamper scenario)
}

func (p l2Params) String() string {
	return fmt.Sprintf("store=%s fscache=%s sched=%s syncadd=%v passthrough=%v", p.Store, p.FSCache, p.Sched, p.SyncAdd, p.PassThrough)
}

type l2Setup struct {
	reg  *memreg.Registry
	im   *l2.Image
	env  *l2.Env
	root string
	cfg  config.Config
}

var l2seq struct {
	mu sync.Mutex
	n  int
}

// newL2 publishes the genuine image and then serves the altered bytes under the genuine
// digests (blob and, for external-TOC layers, the TOC blob).
func newL2(r *vf.Run, bc *blobCase, a *alteration, p l2Params) (*l2Setup, error) {
	l2seq.mu.Lock()
	l2seq.n++
	n := l2seq.n
	l2seq.mu.Unlock()
	s := &l2Setup{reg: memreg.New(), root: filepath.Join(r.Scratch, "l2-"+strconv.Itoa(n))}
	im, err := l2.Publish(s.reg, "reg.test", "img", "v1", []*blob.Built{bc.built})
	if err != nil {
		return nil, err
	}
	s.im = im
	s.reg.AddBlobAs("reg.test", "img", bc.built.Digest, a.Blob)
	if bc.built.ExternalTOC != nil && a.Ext != nil {
		s.reg.AddBlobAs("reg.test", "img", digest.FromBytes(bc.built.ExternalTOC), a.Ext)
	}
	cfg := l2Config(bc, p)
	s.cfg = cfg
	env, err := l2.NewEnv(s.reg, s.root, cfg, p.Store, layer.OverlayOpaqueAll, 0)
	if err != nil {
		return nil, err
	}
	s.env = env
	return s, nil
}

// l2Config is the resolver configuration of an L2 case.
func l2Config(bc *blobCase, p l2Params) config.Config {
	cfg := config.Config{}
	cfg.HTTPCacheType = "memory"
	if p.HTTPDir {
		cfg.HTTPCacheType = ""
		cfg.DirectoryCacheConfig.Direct = true // no in-memory copy in front of the files
	}
	if p.FSCache == "memory" {
		cfg.FSCacheType = "memory"
	}
	cfg.NoPrometheus = true
	cfg.BlobConfig.MaxRetries = 1
	cfg.BlobConfig.MinWaitMSec = 1
	cfg.BlobConfig.MaxWaitMSec = 5
	cfg.BlobConfig.ChunkSize = 3000
	cfg.DirectoryCacheConfig.SyncAdd = p.SyncAdd
	if p.PassThrough {
		cfg.PassThrough = true
		cfg.DirectoryCacheConfig.Direct = true // passthrough needs the cache to hand out *os.File
		cfg.MergeBufferSize = int64(bc.opts.ChunkSize) * 4
		cfg.MergeWorkerCount = 3
	}
	return cfg
}

func (s *l2Setup) close() {
	s.env.Close()
	os.RemoveAll(s.root)
}

// fscacheFiles: every committed file under fscache/*/ once the asynchronous commits
// (SyncAdd=false) have drained: the wip directories are empty, or their content has not
// changed for a while (an aborted/failed walk may leave a wip file behind for good: the
// "verifier not found" return path of readAndCache closes its writer without Abort; a
// wip file is not a committed value and is not judged).
func (s *l2Setup) fscacheFiles() (map[string][]byte, error) {
	base := filepath.Join(s.root, "fscache")
	prev, stable := "", 0
	for i := 0; i < 2000; i++ {
		var names []string
		ds, _ := os.ReadDir(base)
		for _, d := range ds {
			w, _ := os.ReadDir(filepath.Join(base, d.Name(), "wip"))
			for _, x := range w {
				names = append(names, d.Name()+"/"+x.Name())
			}
		}
		cur := strings.Join(names, ",")
		if cur == "" {
			break
		}
		if cur == prev {
			stable++
		} else {
			prev, stable = cur, 0
		}
		if stable >= 40 {
			break
		}
		time.Sleep(10 * time.Millisecond)
	}
	return scanCacheDir(base)
}

// nodeRead reads through the go-fuse node interfaces; with passthrough the bytes behind
// the passthrough fd are read as well.
func nodeRead(rootN *nodefs.N, op readOp) (got []byte, viaFd []byte, err error) {
	n, err := rootN.Walk(op.Path)
	if err != nil {
		return nil, nil, err
	}
	fh, _, errno := n.Open()
	if errno != 0 {
		return nil, nil, fmt.Errorf("open: %v", errno)
	}
	defer nodefs.Release(fh)
	if pf, ok := fh.(fusefs.FilePassthroughFder); ok {
		if fd, ok := pf.PassthroughFd(); ok {
			buf := make([]byte, op.Len)
			m, perr := syscall.Pread(fd, buf, op.Off)
			if perr == nil {
				viaFd = buf[:m]
			}
		}
	}
	got, errno = nodefs.Read(fh, op.Off, op.Len)
	if errno != 0 {
		return nil, viaFd, fmt.Errorf("read: %v", errno)
	}
	return got, viaFd, nil
}

// readAndJudge performs the plan through RootNode and applies clause (ii).
func readAndJudge(r *vf.Run, level, keyClass string, bc *blobCase, a *alteration, l layer.Layer, plan []readOp, phase string, replay map[string]any, violKey string) (touched bool, err error) {
	rn, err := l.RootNode(0)
	if err != nil {
		return false, err
	}
	rootN := nodefs.Root(rn)
	aff := bc.pathsAffected(a)
	for _, op := range plan {
		var got, viaFd []byte
		var rerr error
		if pn, v, _ := vf.Recover(func() { got, viaFd, rerr = nodeRead(rootN, op) }); pn {
			r.Count(level+"_read_panicked(C04 territory)", 1)
			r.Distinct("panics_in_read", fmt.Sprint(v))
			continue
		}
		t := touches(op, aff)
		if t {
			touched = true
		}
		if viaFd != nil {
			r.Count(level+"_passthrough_fd_reads", 1)
			if bad := bc.judgeBytes(op.Path, op.Off, viaFd); bad != "" {
				r.Violate("ii:passthrough-fd-returns-altered-bytes:L2:"+keyClass,
					fmt.Sprintf("%s: bytes behind the passthrough fd are not genuine after Verify(pinned)==nil: %s (%s, %s)", phase, bad, a.Desc, bc), replay)
			}
		}
		if rerr != nil {
			r.Count(level+"_read_refused:"+keyClass, 1)
			if t {
				r.Count(level+"_read_of_altered_chunk_refused:"+keyClass, 1)
			}
			continue
		}
		if bad := bc.judgeBytes(op.Path, op.Off, got); bad != "" {
			r.Violate(violKey, fmt.Sprintf("%s node read after Verify(pinned digest)==nil returned non-genuine bytes: %s (%s, %s)", phase, bad, a.Desc, bc), replay)
		} else {
			r.Count(level+"_read_genuine:"+keyClass, 1)
			if t {
				r.Count(level+"_read_of_altered_chunk_genuine:"+keyClass, 1)
			}
		}
	}
	return touched, nil
}

func runL2Case(r *vf.Run, bc *blobCase, a *alteration, p l2Params, caseNo uint64) {
	r.Eval(1)
	cls := a.Class
	desc := fmt.Sprintf("L2 %s | %s | %s", bc, a.Desc, p)
	replay := map[string]any{"level": "L2", "blob": bc.String(), "blob_index": bc.idx, "alteration": a.Desc, "params": p.String(), "case": caseNo, "tar": gen0(bc), "affected": sortedChunkKeys(a.Affected)}
	if knownFatal(a) {
		r.Inconclusive("case skipped: zstd footer announces a TOC far larger than the blob (known process-fatal allocation, C04 territory)")
		return
	}
	s, err := newL2(r, bc, a, p)
	if err != nil {
		r.Inconclusive("L2 setup: " + firstLine(err.Error()))
		return
	}
	defer s.close()
	ctx, cancel := context.WithTimeout(context.Background(), 2*time.Minute)
	defer cancel()
	var l layer.Layer
	if pn, v, _ := vf.Recover(func() { l, err = s.env.Resolve(ctx, s.im, 0) }); pn {
		err = fmt.Errorf("PANIC in Resolve: %v", v)
		r.Count("l2_resolve_panicked(C04 territory)", 1)
	}
	if err != nil {
		r.Count("l2_resolve_refused:"+cls, 1)
		r.Distinct("resolve_errors", trimErr(err))
		if cls == "none" {
			r.Inconclusive("genuine blob refused by Resolve: " + trimErr(err))
		} else if a.TOCTouched {
			r.NonTrivial(desc)
		}
		return
	}
	defer l.Close()

	var bg sync.WaitGroup
	start := func() {
		// exactly what filesystem.prefetch does
		bg.Add(2)
		go func() {
			defer bg.Done()
			if err := l.Prefetch(int64(len(a.Blob))); err != nil {
				r.Count("l2_prefetch_error:"+cls, 1)
			}
		}()
		go func() {
			defer bg.Done()
			if err := l.BackgroundFetch(); err == nil {
				_ = l.Info().ReadTime
			} else {
				r.Count("l2_backgroundfetch_error:"+cls, 1)
			}
		}()
	}
	switch p.Sched {
	case "before":
		start()
		bg.Wait()
	case "during":
		start()
	}
	verr := l.Verify(digest.Digest(a.Pin))
	if p.Sched == "after" {
		start()
	}
	if verr != nil {
		bg.Wait()
		r.Count("l2_verify_refused:"+cls, 1)
		r.Distinct("verify_errors", trimErr(verr))
		if cls == "none" {
			r.Inconclusive("genuine blob refused by Verify: " + trimErr(verr))
		} else if a.TOCTouched || len(a.Affected) > 0 {
			r.NonTrivial(desc)
		}
		if _, err := l.RootNode(0); err == nil {
			r.Violate("i:rootnode-after-failed-verify:L2:"+cls, "Verify(pinned) failed but RootNode hands out a filesystem ("+a.Desc+")", replay)
		}
		// A refusal must be final for the cached layer: do what a retried Mount does
		// (Resolve hits the layer cache, prefetch is (re)started, Verify with the same digest).
		for k := 0; k < 2 && verr != nil; k++ {
			lr, err := s.env.Resolve(ctx, s.im, 0)
			if err != nil {
				break
			}
			defer lr.Done()
			if k == 1 || p.Sched == "none" {
				l = lr
				start()
				bg.Wait()
			}
			r.Count("l2_verify_retries_after_refusal", 1)
			verr = lr.Verify(digest.Digest(a.Pin))
			l = lr
		}
		if verr != nil {
			return
		}
		r.Count("l2_verify_retry_returned_nil:"+cls, 1)
		replay["verify_history"] = "Verify(pinned) refused, then returned nil on a retry on the same cached layer"
		ac := *a
		ac.Class = "after-verify-retry"
		ac.Desc = a.Desc + " [Verify refused first, nil on retry]"
		a, cls = &ac, ac.Class
	}
	r.Count("l2_verify_ok:"+cls, 1)
	checkVerifyNil(r, "L2", bc, a, a.Pin, replay)

	plan := bc.readPlan(a, r.RNG(0x9EAD, caseNo), p.NRandom)
	touched, err := readAndJudge(r, "l2", cls, bc, a, l, plan, "cold", replay, "ii:read-returns-altered-bytes:L2:"+cls)
	if err != nil {
		r.Inconclusive("RootNode failed after a successful Verify: " + firstLine(err.Error()))
	}
	bg.Wait()
	if p.FSCache == "dir" {
		vals, err := s.fscacheFiles()
		if err != nil {
			r.Inconclusive("fscache scan: " + firstLine(err.Error()))
		} else {
			r.Count("l2_fscache_files_scanned", scanCache(r, "L2", bc, a, vals, replay))
		}
	}
	t2, _ := readAndJudge(r, "l2", cls, bc, a, l, plan, "warm", replay, "ii:read-returns-altered-bytes:L2:"+cls)
	if cls != "none" && (touched || t2 || a.TOCTouched) {
		r.NonTrivial(desc)
		r.Count("l2_cases_touching_altered_bytes_after_verify_ok", 1)
	}
}

// classes worth the (more expensive) L2 path in the quick tier: one per mechanism.
var l2Classes = []string{"none", "flip:member-body", "flip:toc", "flip:footer", "truncate:data", "swap:members", "recompress:flip", "recompress:neighbour", "toc:reserialize", "toc:edit-chunkdigest-match", "pin:nodigest+flip", "flip:any"}

func stageL2(r *vf.Run) {
	batch, nb := 0, 1
	jr := openJournal("")
	if len(r.ChildArgs) >= 2 {
		batch, _ = strconv.Atoi(r.ChildArgs[0])
		nb, _ = strconv.Atoi(r.ChildArgs[1])
	}
	if len(r.ChildArgs) >= 3 {
		jr = openJournal(r.ChildArgs[2])
	}
	nBlobs := r.N(4, 24)
	classes := l2Classes
	if r.Thorough() {
		classes = append([]string{"none"}, classList...)
	}
	for bi := 0; bi < nBlobs; bi++ {
		if bi%nb != batch || jr.doneBlob[fmt.Sprint(bi)] {
			continue
		}
		bc, err := buildBlob(r, 500+bi, compressionFor(bi))
		if err != nil {
			r.Inconclusive("blob build: " + firstLine(err.Error()))
			continue
		}
		for ci, class := range classes {
			rng := r.RNG(0xA17F, uint64(bi), uint64(ci))
			a, ok := bc.alter(class, rng)
			if !ok {
				r.Count("alteration_not_applicable:"+class, 1)
				continue
			}
			caseNo := uint64(bi)<<32 | uint64(ci)<<16
			pr := r.RNG(0x9A4B, caseNo)
			p := l2Params{NRandom: 4}
			p.Store = []string{"memory", "db"}[(bi+ci)%2]
			p.FSCache = pr.PickS("dir", "dir", "memory")
			p.Sched = pr.PickS("before", "during", "during", "after", "none")
			p.SyncAdd = pr.Bool()
			if p.FSCache == "dir" && pr.Chance(1, 3) {
				p.PassThrough = true
			}
			if class == "none" {
				p.Sched = "before"
			}
			cid := fmt.Sprintf("%x", caseNo)
			if jr.poison[cid] {
				r.Inconclusive("case skipped: it killed the process in an earlier attempt (" + class + ")")
				continue
			}
			jr.begin(cid)
			tc := time.Now()
			r.Watchdog(3*time.Minute, "L2 case", func() { runL2Case(r, bc, a, p, caseNo) })
			jr.end(cid)
			if d := time.Since(tc); d > 10*time.Second {
				r.Logf("slow L2 case %v: %s | %s | %s", d.Round(time.Millisecond), bc, a.Desc, p)
			}
			if ci%5 == 1 {
				r.Sample(map[string]any{"level": "L2", "blob": bc.String(), "alteration": a.Desc, "params": p.String()})
			}
		}
		tc := uint64(bi)<<32 | 0xFFFE<<16
		if cid := fmt.Sprintf("%x", tc); !jr.poison[cid] {
			jr.begin(cid)
			r.Watchdog(3*time.Minute, "L2 httpcache tamper case", func() { runL2TamperCase(r, bc, []string{"memory", "db"}[bi%2], tc) })
			jr.end(cid)
		}
		r.FlushPartial()
		jr.done(fmt.Sprint(bi))
	}
}

// ---------------------------------------------------------------------------
// call histories on ONE cached layer

const (
	opVg = "Verify(D_good)"
	opVo = "Verify(D_other)"
	opS  = "SkipVerify"
	opP  = "Prefetch+BackgroundFetch" // what filesystem.prefetch starts, waited for
)

func histories(ops ...string) [][]string {
	var res [][]string
	var rec func(cur []string)
	rec = func(cur []string) {
		if len(cur) > 0 {
			res = append(res, append([]string{}, cur...))
		}
		if len(cur) == 3 {
			return
		}
		for _, o := range ops {
			rec(append(cur, o))
		}
	}
	rec(nil)
	return res
}

func runHistCase(r *vf.Run, bc *blobCase, a *alteration, store string, h []string, caseNo uint64) {
	r.Eval(1)
	hs := strings.Join(h, " ; ")
	p := l2Params{Store: store, FSCache: "dir", Sched: "hist", SyncAdd: true, NRandom: 2}
	desc := fmt.Sprintf("hist %s | %s | %s | %s", bc, a.Desc, store, hs)
	replay := map[string]any{"level": "L2", "blob": bc.String(), "blob_index": bc.idx, "alteration": a.Desc, "store": store, "history": h, "case": caseNo, "tar": gen0(bc)}
	s, err := newL2(r, bc, a, p)
	if err != nil {
		r.Inconclusive("L2 setup: " + firstLine(err.Error()))
		return
	}
	defer s.close()
	ctx := context.Background()
	dGood := digest.Digest(bc.built.TOCDigest.String())
	dOther := digest.FromString("C01: some other TOC")
	served := map[string]bool{}
	for _, t := range servedTOCs(a.Blob, a.Ext) {
		for k := range acceptableDigests(t) {
			served[k] = true
		}
	}
	var refs []layer.Layer
	defer func() {
		for i, l := range refs {
			if i == len(refs)-1 {
				l.Close()
			} else {
				l.Done()
			}
		}
	}()
	var results []string
	priorVerifyOK, priorSkip := "", false
	goodOK, skipBeforeGood := false, false
	refusedBefore, refusedBeforeGood := false, false // some Verify was refused earlier on this cached layer
	var last layer.Layer
	for i, op := range h {
		before := s.reg.Requests()
		l, err := s.env.Resolve(ctx, s.im, 0)
		if err != nil {
			r.Inconclusive("hist: Resolve failed: " + trimErr(err))
			return
		}
		refs = append(refs, l)
		last = l
		if i > 0 {
			if s.reg.Requests() != before {
				r.Count("hist_resolve_not_from_layer_cache", 1)
			} else {
				r.Count("hist_resolve_hit_layer_cache", 1)
			}
		}
		switch op {
		case opS:
			l.SkipVerify()
			results = append(results, "SkipVerify")
			priorSkip = true
		case opP:
			// synchronous: the history is about call ORDER (schedules are the gate stages' job)
			perr := l.Prefetch(int64(len(a.Blob)))
			berr := l.BackgroundFetch()
			_ = l.Info()
			results = append(results, fmt.Sprintf("Prefetch=%v,BackgroundFetch=%v", perr == nil, berr == nil))
		case opVg, opVo:
			d := dGood
			if op == opVo {
				d = dOther
			}
			verr := l.Verify(d)
			if verr != nil {
				results = append(results, op+"=err")
				refusedBefore = true
				continue
			}
			results = append(results, op+"=nil")
			if !served[d.String()] {
				key := "i:verify-nil-on-other-toc:L2:hist"
				switch {
				case priorVerifyOK != "" && priorVerifyOK != d.String():
					key = "verify-other-digest-after-verify:returns-nil"
				case priorSkip:
					key = "verify-other-digest-after-skipverify:returns-nil"
				}
				r.Violate(key, fmt.Sprintf("history [%s] on one cached layer: step %d %s returned nil although the TOC actually served hashes to %s, not to %s (results so far: %s)",
					hs, i+1, op, dGood, d, strings.Join(results, ", ")), replay)
			}
			if priorVerifyOK == "" {
				priorVerifyOK = d.String()
			}
			if d == dGood && !goodOK {
				goodOK = true
				skipBeforeGood = priorSkip
				refusedBeforeGood = refusedBefore
			}
		}
	}
	r.Distinct("hist_outcomes", strings.Join(results, ", "))
	if len(h) >= 2 {
		r.NonTrivial(desc)
	}
	if !goodOK {
		r.Count("hist_without_successful_verify_of_pinned_digest(outside the statement)", 1)
		return
	}
	// a mount with the pinned digest succeeded: reads must be error or genuine
	key := "ii:read-returns-altered-bytes:L2:hist"
	if skipBeforeGood {
		key = "verify-after-skipverify:no-op"
	} else if refusedBeforeGood {
		// a Verify on this cached layer was refused before Verify(D_good) returned nil
		key = "ii:read-returns-altered-bytes:L2:after-verify-retry"
	}
	plan := bc.readPlan(a, r.RNG(0x9EAF, caseNo), p.NRandom)
	for _, phase := range []string{"cold", "warm"} {
		if _, err := readAndJudge(r, "hist", "hist", bc, a, last, plan, phase+" [history "+hs+"]", replay, key); err != nil {
			r.Inconclusive("hist: RootNode failed after a successful Verify: " + firstLine(err.Error()))
			return
		}
	}
	if vals, err := s.fscacheFiles(); err == nil {
		n := 0
		for k, v := range vals {
			n++
			if bc.genuine[sha256hex(v)] {
				continue
			}
			ck := "iii:cache-holds-non-genuine:L2:hist"
			if skipBeforeGood {
				ck = "verify-after-skipverify:no-op:cache-holds-altered-chunk"
			} else if refusedBeforeGood {
				ck = "iii:cache-holds-non-genuine:L2:after-verify-retry"
			}
			r.Violate(ck, fmt.Sprintf("history [%s]: Verify(pinned) returned nil and fscache holds a committed file (%d bytes, %s) that is neither a genuine chunk nor a whole genuine file (%s, %s)", hs, len(v), filepath.Base(k), a.Desc, bc), replay)
		}
		r.Count("hist_fscache_files_scanned", n)
	}
}

func stageHist(r *vf.Run) {
	hs := histories(opVg, opVo, opS)
	r.Set("hist_histories", len(hs))
	nBlobs := r.N(1, 2)
	for bi := 0; bi < nBlobs; bi++ {
		bc, err := buildBlobMode(r, 2000+bi, compressionFor(bi), true)
		if err != nil {
			r.Inconclusive("blob build: " + firstLine(err.Error()))
			continue
		}
		alt, ok := digestOnlyAlteration(r, bc, 1)
		if !ok {
			r.Inconclusive("hist: no digest-only alteration")
			continue
		}
		none, _ := bc.alter("none", r.RNG(1))
		for hi, h := range hs {
			for vi, a := range []*alteration{alt, none} {
				for si, store := range []string{"memory", "db"} {
					if !r.Thorough() && (vi+si)%2 == 1 {
						continue // quick: altered blob on the memory store, genuine blob on the db store
					}
					cn := uint64(bi)<<32 | uint64(hi)<<8 | uint64(vi)<<4 | uint64(si)
					r.Watchdog(3*time.Minute, "history case", func() { runHistCase(r, bc, a, store, h, cn) })
				}
			}
		}
		if bi == 0 {
			r.Sample(map[string]any{"level": "hist", "blob": bc.String(), "alteration": alt.Desc, "histories": len(hs)})
		}
	}
}

// stageHistP: call histories <= 3 over {Prefetch+BackgroundFetch, Verify(D_good), Verify(D_other)}
// on ONE cached layer of an ALTERED blob (one digest-only altered chunk): Verify(D_good)
// legitimately fails once the prefetch walk has seen the chunk, and must KEEP failing
// (the chunk sits committed in the cache; only the recorded error protects it).
func stageHistP(r *vf.Run) {
	hs := histories(opP, opVg, opVo)
	r.Set("histp_histories", len(hs))
	nBlobs := r.N(1, 2)
	for bi := 0; bi < nBlobs; bi++ {
		bc, err := buildBlobMode(r, 2100+bi, compressionFor(bi), true)
		if err != nil {
			r.Inconclusive("blob build: " + firstLine(err.Error()))
			continue
		}
		alt, ok := digestOnlyAlteration(r, bc, 4)
		if !ok {
			r.Inconclusive("histp: no digest-only alteration")
			continue
		}
		for hi, h := range hs {
			for si, store := range []string{"memory", "db"} {
				if !r.Thorough() && (hi+si)%2 == 1 {
					continue // quick: the stores alternate over the histories
				}
				cn := uint64(bi)<<32 | 1<<24 | uint64(hi)<<8 | uint64(si)
				r.Watchdog(3*time.Minute, "prefetch history case", func() { runHistCase(r, bc, alt, store, h, cn) })
			}
		}
		if bi == 0 {
			r.Sample(map[string]any{"level": "histp", "blob": bc.String(), "alteration": alt.Desc, "histories": len(hs)})
		}
	}
}

// ---------------------------------------------------------------------------
// hook-ordered schedules through the layer (sequential: the reader is not reachable
// from outside, so the process-wide default gate is used)

func runL2GateCase(r *vf.Run, bc *blobCase, a *alteration, store string, script []string, caseNo uint64) {
	r.Eval(1)
	ss := scriptString(script)
	p := l2Params{Store: store, FSCache: "dir", Sched: "gate:" + ss, SyncAdd: true, NRandom: 2}
	desc := fmt.Sprintf("L2gate %s | %s | %s", bc, a.Desc, p)
	replay := map[string]any{"level": "L2", "blob": bc.String(), "blob_index": bc.idx, "alteration": a.Desc, "params": p.String(), "hook_script": script, "case": caseNo, "tar": gen0(bc)}
	s, err := newL2(r, bc, a, p)
	if err != nil {
		r.Inconclusive("L2 setup: " + firstLine(err.Error()))
		return
	}
	defer s.close()
	l, err := s.env.Resolve(context.Background(), s.im, 0)
	if err != nil {
		r.Inconclusive("L2 gate: Resolve refused a digest-only alteration: " + trimErr(err))
		return
	}
	defer l.Close()
	g := newGate(script, gateTimeout)
	setDefaultGate(g)
	defer setDefaultGate(nil)
	var wg sync.WaitGroup
	var verr, bgErr error
	wg.Add(2)
	go func() {
		defer wg.Done()
		go l.Prefetch(int64(len(a.Blob))) // .no.prefetch.landmark: returns at once (as in fs.Mount)
		bgErr = l.BackgroundFetch()
		_ = l.Info()
	}()
	go func() {
		defer wg.Done()
		startVerifyWhenScriptAllows(g, script)
		verr = l.Verify(digest.Digest(a.Pin))
	}()
	wg.Wait()
	g.release()
	order, hits, timedOut := g.snapshot()
	replay["realised_order"] = order
	for k, n := range hits {
		r.Count("hook_hits:"+k, n)
	}
	outcome := "verify-refused"
	if verr == nil {
		outcome = "verify-ok"
	}
	if bgErr != nil {
		outcome += ",backgroundfetch-error"
	} else {
		outcome += ",backgroundfetch-ok"
	}
	if g.realised() {
		r.Distinct("l2_hook_orders_realised", ss+" => "+outcome)
		r.NonTrivial(desc)
		r.Count("l2_gate_scripts_realised", 1)
	} else {
		why := "point-never-reached"
		if timedOut {
			why = "timeout"
		}
		r.Distinct("l2_infeasible_order", ss+" ["+scriptString(order)+" realised] "+why)
		r.Count("l2_gate_scripts_infeasible", 1)
	}
	if verr != nil {
		return
	}
	checkVerifyNil(r, "L2", bc, a, a.Pin, replay)
	plan := bc.readPlan(a, r.RNG(0x9EB0, caseNo), p.NRandom)
	readAndJudge(r, "l2gate", "hook-order", bc, a, l, plan, "cold [script "+ss+"]", replay, "ii:read-returns-altered-bytes:L2:hook-order")
	if vals, err := s.fscacheFiles(); err == nil {
		kc := *a
		kc.Class = "hook-order"
		kc.Desc = a.Desc + " under hook script " + ss + " (realised " + scriptString(order) + "; " + outcome + ")"
		r.Count("l2gate_fscache_files_scanned", scanCache(r, "L2", bc, &kc, vals, replay))
	}
	readAndJudge(r, "l2gate", "hook-order", bc, a, l, plan, "warm [script "+ss+"]", replay, "ii:read-returns-altered-bytes:L2:hook-order")
}

func stageL2Gate(r *vf.Run) {
	installGateHandler()
	var bc *blobCase
	var a *alteration
	for bi := 0; bi < 8; bi++ {
		b, err := buildBlobMode(r, 3000+bi, compressionFor(bi), true)
		if err != nil {
			continue
		}
		if x, ok := digestOnlyAlteration(r, b, 2); ok {
			bc, a = b, x
			break
		}
	}
	if bc == nil {
		r.Inconclusive("l2gate: no blob with a digest-only alteration")
		return
	}
	scr := scripts([]string{pR1, pR2, pV1, pV2})
	// quick: the scripts that respect program order (the others can only time out)
	var sel [][]string
	for _, s := range scr {
		if r.Thorough() || programOrderOK(s) {
			sel = append(sel, s)
		}
	}
	for si, s := range sel {
		store := []string{"memory", "db"}[si%2]
		r.Watchdog(3*time.Minute, "L2 gate case", func() { runL2GateCase(r, bc, a, store, s, uint64(si)) })
	}
	r.Sample(map[string]any{"level": "L2gate", "blob": bc.String(), "alteration": a.Desc, "scripts": len(sel)})
}

func programOrderOK(s []string) bool {
	rank := map[string]int{pR1: 0, pRL: 1, pR2: 2, pV1: 0, pV2: 1}
	for i := range s {
		for j := i + 1; j < len(s); j++ {
			if shortName[s[i]][0] == shortName[s[j]][0] && rank[s[i]] > rank[s[j]] {
				return false
			}
		}
	}
	return true
}
