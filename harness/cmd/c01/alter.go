package main

// Alteration classes applied to the SERVED bytes of a genuine blob (DESIGN.md C01).

import (
	"bytes"
	"compress/gzip"
	"encoding/binary"
	"encoding/json"
	"fmt"
	"io"
	"sort"
	"sync"

	"archive/tar"

	"github.com/klauspost/compress/zstd"

	"verifharness/internal/prng"
)

type alteration struct {
	Class string // stable class name (part of violation keys)
	Desc  string // class + drawn positions (evidence / replay)
	Blob  []byte // bytes served as the layer blob
	Ext   []byte // bytes served as the external TOC blob (nil: genuine / none)
	// Pin is the TOC digest "taken from the trusted image manifest". It is the genuine
	// digest except in the pin:* classes, where the trusted manifest is imagined to
	// pin an (edited) TOC and the attacker alters payload bytes on top of it.
	Pin string
	// Affected: chunks whose served payload differs from the genuine payload (or whose
	// compressed bytes were damaged so that their payload cannot be trusted).
	Affected   []chunkRef
	TOCTouched bool // the served TOC / footer bytes differ from the genuine ones
	// PayloadChanged: the decompressed payload of an Affected chunk is known to differ
	// while the compressed stream stays valid (only the digest can catch it).
	DigestOnly bool
}

func isZstd(bc *blobCase) bool { return bc.lay.footer.kind == fZstd }

// ---- (de)compression helpers -------------------------------------------------

func gunzipMember(b []byte) (payload []byte, consumed int, err error) {
	br := bytes.NewReader(b)
	zr, err := gzip.NewReader(br)
	if err != nil {
		return nil, 0, err
	}
	zr.Multistream(false)
	payload, err = io.ReadAll(zr)
	if err != nil {
		return nil, 0, err
	}
	return payload, len(b) - br.Len(), nil
}

// gzipTo compresses payload into exactly target bytes: a valid gzip member, padded
// (if shorter) with FEXTRA (>= 2 bytes) or FNAME (1 byte). ok=false if it cannot be done.
func gzipTo(payload []byte, target int) ([]byte, bool) {
	for _, lvl := range []int{gzip.BestCompression, 6, gzip.BestSpeed, gzip.HuffmanOnly, gzip.NoCompression} {
		var buf bytes.Buffer
		zw, _ := gzip.NewWriterLevel(&buf, lvl)
		zw.Write(payload)
		zw.Close()
		c := buf.Bytes()
		d := target - len(c)
		switch {
		case d == 0:
			return c, true
		case d == 1:
			out := append([]byte{}, c[:10]...)
			out[3] |= 8 // FNAME
			out = append(out, 0)
			return append(out, c[10:]...), true
		case d >= 2 && d-2 <= 0xffff:
			out := append([]byte{}, c[:10]...)
			out[3] |= 4 // FEXTRA
			x := make([]byte, d)
			binary.LittleEndian.PutUint16(x, uint16(d-2))
			for i := 2; i < d; i++ {
				x[i] = 'P'
			}
			out = append(out, x...)
			return append(out, c[10:]...), true
		}
	}
	return nil, false
}

func unzstd(b []byte) ([]byte, error) {
	dec, err := zstd.NewReader(bytes.NewReader(b))
	if err != nil {
		return nil, err
	}
	defer dec.Close()
	return io.ReadAll(dec)
}

var zstdEncs struct {
	mu   sync.Mutex
	encs map[zstd.EncoderLevel]*zstd.Encoder
}

// zstdEnc returns a shared encoder (creating one is expensive, EncodeAll is concurrency-safe).
func zstdEnc(lvl zstd.EncoderLevel) *zstd.Encoder {
	zstdEncs.mu.Lock()
	defer zstdEncs.mu.Unlock()
	if zstdEncs.encs == nil {
		zstdEncs.encs = map[zstd.EncoderLevel]*zstd.Encoder{}
	}
	if e, ok := zstdEncs.encs[lvl]; ok {
		return e
	}
	e, err := zstd.NewWriter(nil, zstd.WithEncoderLevel(lvl), zstd.WithEncoderConcurrency(1), zstd.WithLowerEncoderMem(true))
	if err != nil {
		return nil
	}
	zstdEncs.encs[lvl] = e
	return e
}

func zstdTo(payload []byte, target int) ([]byte, bool) {
	for _, lvl := range []zstd.EncoderLevel{zstd.SpeedFastest, zstd.SpeedDefault, zstd.SpeedBetterCompression} {
		enc := zstdEnc(lvl)
		if enc == nil {
			continue
		}
		c := enc.EncodeAll(payload, nil)
		d := target - len(c)
		if d == 0 {
			return c, true
		}
		if d >= 8 {
			pad := make([]byte, d)
			copy(pad, []byte{0x50, 0x2a, 0x4d, 0x18})
			binary.LittleEndian.PutUint32(pad[4:], uint32(d-8))
			return append(c, pad...), true
		}
	}
	return nil, false
}

func (bc *blobCase) decompressMember(m member) ([]byte, error) {
	b := bc.built.Blob[m.start:m.end]
	if isZstd(bc) {
		return unzstd(b)
	}
	p, _, err := gunzipMember(b)
	return p, err
}

func (bc *blobCase) compressTo(payload []byte, target int) ([]byte, bool) {
	if isZstd(bc) {
		return zstdTo(payload, target)
	}
	return gzipTo(payload, target)
}

func gzipTarTOC(tocJSON []byte) []byte {
	var buf bytes.Buffer
	zw, _ := gzip.NewWriterLevel(&buf, gzip.BestSpeed)
	tw := tar.NewWriter(zw)
	tw.WriteHeader(&tar.Header{Typeflag: tar.TypeReg, Name: "stargz.index.json", Size: int64(len(tocJSON))})
	tw.Write(tocJSON)
	tw.Close()
	zw.Close()
	return buf.Bytes()
}

func skippable(b []byte) []byte {
	out := []byte{0x50, 0x2a, 0x4d, 0x18, 0, 0, 0, 0}
	binary.LittleEndian.PutUint32(out[4:], uint32(len(b)))
	return append(out, b...)
}

// withTOC returns blob/ext in which the TOC JSON is replaced by tocJSON (data bytes of
// base are kept).
func (bc *blobCase) withTOC(base []byte, tocJSON []byte) (blob, ext []byte) {
	f := bc.lay.footer
	switch f.kind {
	case fGzip, fLegacy:
		out := append([]byte{}, base[:f.tocOff]...)
		out = append(out, gzipTarTOC(tocJSON)...)
		return append(out, bc.built.Blob[len(bc.built.Blob)-f.size:]...), nil
	case fExternal:
		return append([]byte{}, base...), gzipTarTOC(tocJSON)
	case fZstd:
		c := zstdEnc(zstd.SpeedDefault).EncodeAll(tocJSON, nil)
		out := append([]byte{}, base[:f.tocOff-8]...)
		out = append(out, skippable(c)...)
		ft := make([]byte, 40)
		binary.LittleEndian.PutUint64(ft, uint64(f.tocOff))
		binary.LittleEndian.PutUint64(ft[8:], uint64(len(c)))
		binary.LittleEndian.PutUint64(ft[16:], uint64(len(tocJSON)))
		binary.LittleEndian.PutUint64(ft[24:], 1)
		copy(ft[32:], "GnUlInUx")
		return append(out, skippable(ft)...), nil
	}
	return nil, nil
}

// ---- TOC as a generic JSON document (keeps every field) -----------------------

func decodeGeneric(t []byte) (map[string]interface{}, []map[string]interface{}, error) {
	dec := json.NewDecoder(bytes.NewReader(t))
	dec.UseNumber()
	var doc map[string]interface{}
	if err := dec.Decode(&doc); err != nil {
		return nil, nil, err
	}
	arr, _ := doc["entries"].([]interface{})
	var ents []map[string]interface{}
	for _, e := range arr {
		m, _ := e.(map[string]interface{})
		ents = append(ents, m)
	}
	return doc, ents, nil
}

func num(m map[string]interface{}, k string) int64 {
	if n, ok := m[k].(json.Number); ok {
		v, _ := n.Int64()
		return v
	}
	return 0
}

// findEntry returns the generic TOC entry of chunk c.
func findEntry(ents []map[string]interface{}, c chunkRef) map[string]interface{} {
	for _, e := range ents {
		if e == nil {
			continue
		}
		t, _ := e["type"].(string)
		n, _ := e["name"].(string)
		if n == c.name && (t == "reg" || t == "chunk") && num(e, "chunkOffset") == c.chunkOffset {
			if t == "reg" && num(e, "size") == 0 {
				continue
			}
			return e
		}
	}
	return nil
}

// ---- the classes -----------------------------------------------------------------

var classList = []string{
	"flip:member-header", "flip:member-body", "flip:member-trailer", "flip:pre", "flip:toc", "flip:footer", "flip:any",
	"truncate:data", "truncate:toc", "truncate:footer",
	"swap:members",
	"recompress:flip", "recompress:neighbour",
	"toc:reserialize", "toc:trailing", "toc:edit-offset", "toc:edit-size", "toc:edit-chunkdigest-match",
	"pin:nodigest+flip",
}

func (bc *blobCase) dataMember(rng *prng.R) (member, bool) {
	if len(bc.lay.data) == 0 {
		return member{}, false
	}
	return bc.lay.members[bc.lay.data[rng.Intn(len(bc.lay.data))]], true
}

func (bc *blobCase) chunksFrom(pos int64) []chunkRef {
	var res []chunkRef
	for _, i := range bc.lay.data {
		m := bc.lay.members[i]
		if m.end > pos {
			res = append(res, m.chunks...)
		}
	}
	return res
}

func (bc *blobCase) memberAt(pos int64) (member, bool) {
	for _, m := range bc.lay.members {
		if pos >= m.start && pos < m.end {
			return m, true
		}
	}
	return member{}, false
}

func flipAt(b []byte, pos int64, rng *prng.R) string {
	old := b[pos]
	if rng.Bool() {
		b[pos] ^= 1 << uint(rng.Intn(8))
	} else {
		nb := byte(rng.Intn(256))
		if nb == old {
			nb ^= 0x55
		}
		b[pos] = nb
	}
	return fmt.Sprintf("@%d %02x->%02x", pos, old, b[pos])
}

// recompressFlip builds, for chunk c of member m, a validly compressed member of the
// identical compressed length whose payload differs in one byte of c.
func (bc *blobCase) recompressWith(m member, c chunkRef, newChunk []byte, rng *prng.R) ([]byte, []byte, bool) {
	p, err := bc.decompressMember(m)
	if err != nil || int64(len(p)) < c.inner+c.chunkSize || c.chunkSize == 0 {
		return nil, nil, false
	}
	q := append([]byte{}, p...)
	if newChunk != nil {
		copy(q[c.inner:c.inner+c.chunkSize], newChunk)
	} else {
		pos := c.inner + rng.Int63n(c.chunkSize)
		q[pos] ^= 1 << uint(rng.Intn(8))
	}
	if bytes.Equal(p, q) {
		return nil, nil, false
	}
	cm, ok := bc.compressTo(q, int(m.end-m.start))
	if !ok {
		return nil, nil, false
	}
	return cm, q[c.inner : c.inner+c.chunkSize], true
}

// alter applies one alteration of the class; ok=false when the class is not applicable
// to this blob (e.g. no data member, no equal-sized neighbour).
func (bc *blobCase) alter(class string, rng *prng.R) (*alteration, bool) {
	g := bc.built.Blob
	a := &alteration{Class: class, Pin: bc.built.TOCDigest.String()}
	if bc.built.ExternalTOC != nil {
		a.Ext = bc.built.ExternalTOC
	}
	lay := bc.lay
	tocM, hasTOC := member{}, false
	for _, m := range lay.members {
		if m.kind == "toc" {
			tocM, hasTOC = m, true
		}
	}
	footM := lay.members[len(lay.members)-1]
	switch class {
	case "none":
		a.Blob = g
		a.Desc = "none"
		return a, true
	case "flip:member-header", "flip:member-body", "flip:member-trailer":
		m, ok := bc.dataMember(rng)
		if !ok {
			return nil, false
		}
		n := m.end - m.start
		hdr, trl := int64(10), int64(8)
		if isZstd(bc) {
			hdr, trl = 6, 4
		}
		if n < hdr+trl+1 {
			return nil, false
		}
		var pos int64
		switch class {
		case "flip:member-header":
			pos = m.start + rng.Int63n(hdr)
		case "flip:member-body":
			pos = m.start + hdr + rng.Int63n(n-hdr-trl)
		default:
			pos = m.end - trl + rng.Int63n(trl)
		}
		a.Blob = append([]byte{}, g...)
		a.Desc = class + " " + flipAt(a.Blob, pos, rng)
		a.Affected = m.chunks
		return a, true
	case "flip:pre":
		if lay.members[0].kind != "pre" {
			return nil, false
		}
		m := lay.members[0]
		a.Blob = append([]byte{}, g...)
		a.Desc = class + " " + flipAt(a.Blob, m.start+rng.Int63n(m.end-m.start), rng)
		return a, true
	case "flip:toc":
		a.TOCTouched = true
		if hasTOC {
			a.Blob = append([]byte{}, g...)
			a.Desc = class + " " + flipAt(a.Blob, tocM.start+rng.Int63n(tocM.end-tocM.start), rng)
			return a, true
		}
		if a.Ext == nil {
			return nil, false
		}
		a.Blob = g
		a.Ext = append([]byte{}, a.Ext...)
		a.Desc = class + " ext " + flipAt(a.Ext, rng.Int63n(int64(len(a.Ext))), rng)
		return a, true
	case "flip:footer":
		a.TOCTouched = true
		a.Blob = append([]byte{}, g...)
		a.Desc = class + " " + flipAt(a.Blob, footM.start+rng.Int63n(footM.end-footM.start), rng)
		return a, true
	case "flip:any":
		pos := rng.Int63n(int64(len(g)))
		a.Blob = append([]byte{}, g...)
		a.Desc = class + " " + flipAt(a.Blob, pos, rng)
		if m, ok := bc.memberAt(pos); ok {
			a.Affected = m.chunks
			a.TOCTouched = m.kind == "toc" || m.kind == "footer"
		}
		return a, true
	case "truncate:data", "truncate:toc", "truncate:footer":
		var cut int64
		switch class {
		case "truncate:data":
			if lay.footer.payloadEnd < 2 {
				return nil, false
			}
			cut = 1 + rng.Int63n(lay.footer.payloadEnd-1)
		case "truncate:toc":
			if !hasTOC {
				return nil, false
			}
			cut = tocM.start + rng.Int63n(tocM.end-tocM.start)
		default:
			cut = footM.start + rng.Int63n(footM.end-footM.start)
		}
		a.Blob = append([]byte{}, g[:cut]...)
		a.Desc = fmt.Sprintf("%s cut@%d/%d", class, cut, len(g))
		a.Affected = bc.chunksFrom(cut)
		a.TOCTouched = true
		return a, true
	case "swap:members":
		if len(lay.data) < 2 {
			return nil, false
		}
		// prefer pairs of identical compressed length (only the digest can notice)
		type pair struct{ i, j int }
		var eq []pair
		for x := 0; x < len(lay.data) && len(eq) < 64; x++ {
			for y := x + 1; y < len(lay.data) && y < x+6; y++ {
				mi, mj := lay.members[lay.data[x]], lay.members[lay.data[y]]
				if mi.end-mi.start == mj.end-mj.start && !bytes.Equal(g[mi.start:mi.end], g[mj.start:mj.end]) {
					eq = append(eq, pair{lay.data[x], lay.data[y]})
				}
			}
		}
		var pi, pj int
		if len(eq) > 0 && !rng.Chance(1, 5) {
			p := eq[rng.Intn(len(eq))]
			pi, pj = p.i, p.j
		} else {
			x := rng.Intn(len(lay.data) - 1)
			y := x + 1 + rng.Intn(len(lay.data)-1-x)
			pi, pj = lay.data[x], lay.data[y]
		}
		mi, mj := lay.members[pi], lay.members[pj]
		out := append([]byte{}, g[:mi.start]...)
		out = append(out, g[mj.start:mj.end]...)
		out = append(out, g[mi.end:mj.start]...)
		out = append(out, g[mi.start:mi.end]...)
		out = append(out, g[mj.end:]...)
		a.Blob = out
		same := mi.end-mi.start == mj.end-mj.start
		a.Desc = fmt.Sprintf("%s [%d,%d)<->[%d,%d) equal-length=%v", class, mi.start, mi.end, mj.start, mj.end, same)
		if same {
			a.Affected = append(append([]chunkRef{}, mi.chunks...), mj.chunks...)
			a.DigestOnly = true
		} else {
			for _, k := range lay.data {
				if m := lay.members[k]; m.start >= mi.start && m.end <= mj.end {
					a.Affected = append(a.Affected, m.chunks...)
				}
			}
		}
		return a, true
	case "recompress:flip", "recompress:neighbour":
		for try := 0; try < 8; try++ {
			m, ok := bc.dataMember(rng)
			if !ok {
				return nil, false
			}
			c := m.chunks[rng.Intn(len(m.chunks))]
			var newChunk []byte
			if class == "recompress:neighbour" {
				// another chunk of the same length (preferably the neighbour in the same file)
				var cands []chunkRef
				var candM []member
				for _, k := range lay.data {
					for _, d := range lay.members[k].chunks {
						if d.chunkSize == c.chunkSize && !(d.name == c.name && d.chunkOffset == c.chunkOffset) {
							if d.name == c.name && (d.chunkOffset == c.chunkOffset+c.chunkSize || d.chunkOffset+d.chunkSize == c.chunkOffset) {
								cands, candM = append([]chunkRef{d}, cands...), append([]member{lay.members[k]}, candM...)
							} else {
								cands, candM = append(cands, d), append(candM, lay.members[k])
							}
						}
					}
				}
				if len(cands) == 0 {
					continue
				}
				k := 0
				if rng.Chance(1, 3) {
					k = rng.Intn(len(cands))
				}
				p, err := bc.decompressMember(candM[k])
				if err != nil || int64(len(p)) < cands[k].inner+cands[k].chunkSize {
					continue
				}
				newChunk = p[cands[k].inner : cands[k].inner+cands[k].chunkSize]
			}
			cm, _, ok := bc.recompressWith(m, c, newChunk, rng)
			if !ok {
				continue
			}
			a.Blob = append([]byte{}, g...)
			copy(a.Blob[m.start:m.end], cm)
			a.Desc = fmt.Sprintf("%s member[%d,%d) chunk %q@%d+%d", class, m.start, m.end, c.name, c.chunkOffset, c.chunkSize)
			a.Affected = []chunkRef{c}
			a.DigestOnly = true
			return a, true
		}
		return nil, false
	case "toc:reserialize", "toc:trailing":
		a.TOCTouched = true
		var t []byte
		if class == "toc:reserialize" {
			doc, _, err := decodeGeneric(lay.tocJSON)
			if err != nil {
				return nil, false
			}
			t, _ = json.Marshal(doc)
			if bytes.Equal(t, lay.tocJSON) {
				return nil, false
			}
			a.Desc = class + " compact, keys sorted"
		} else {
			tails := [][]byte{[]byte("\n"), []byte(" "), bytes.Repeat([]byte(" "), 700), []byte("\n{}"), []byte("\x00garbage"), bytes.Repeat([]byte("\t\n"), 3000)}
			k := rng.Intn(len(tails))
			t = append(append([]byte{}, lay.tocJSON...), tails[k]...)
			a.Desc = fmt.Sprintf("%s +%d bytes (variant %d)", class, len(tails[k]), k)
		}
		a.Blob, a.Ext = bc.withTOC(g, t)
		if a.Ext == nil && bc.built.ExternalTOC != nil {
			a.Ext = bc.built.ExternalTOC
		}
		return a, true
	case "toc:edit-offset", "toc:edit-size", "toc:edit-chunkdigest-match", "pin:nodigest+flip":
		m, ok := bc.dataMember(rng)
		if !ok {
			return nil, false
		}
		c := m.chunks[rng.Intn(len(m.chunks))]
		doc, ents, err := decodeGeneric(lay.tocJSON)
		if err != nil {
			return nil, false
		}
		e := findEntry(ents, c)
		if e == nil {
			return nil, false
		}
		base := g
		a.TOCTouched = true
		switch class {
		case "toc:edit-offset":
			if len(lay.data) < 2 {
				return nil, false
			}
			var o member
			for try := 0; try < 8; try++ {
				o, _ = bc.dataMember(rng)
				if o.start != m.start {
					break
				}
			}
			if o.start == m.start {
				return nil, false
			}
			e["offset"] = json.Number(fmt.Sprint(o.start))
			a.Desc = fmt.Sprintf("%s %q@%d offset %d->%d", class, c.name, c.chunkOffset, m.start, o.start)
			a.Affected = []chunkRef{c}
		case "toc:edit-size":
			d := int64(rng.Pick(-1, 1, 7))
			k := "chunkSize"
			if t, _ := e["type"].(string); t == "reg" && rng.Bool() {
				k = "size"
			}
			e[k] = json.Number(fmt.Sprint(num(e, k) + d))
			a.Desc = fmt.Sprintf("%s %q@%d %s%+d", class, c.name, c.chunkOffset, k, d)
			a.Affected = []chunkRef{c}
		case "toc:edit-chunkdigest-match", "pin:nodigest+flip":
			cm, newChunk, ok := bc.recompressWith(m, c, nil, rng)
			if !ok {
				return nil, false
			}
			base = append([]byte{}, g...)
			copy(base[m.start:m.end], cm)
			a.Affected = []chunkRef{c}
			a.DigestOnly = true
			if class == "toc:edit-chunkdigest-match" {
				e["chunkDigest"] = dgst(newChunk)
				a.Desc = fmt.Sprintf("%s %q@%d payload altered, chunkDigest rewritten to match", class, c.name, c.chunkOffset)
			} else {
				delete(e, "chunkDigest")
				delete(e, "digest")
				a.Desc = fmt.Sprintf("%s %q@%d chunkDigest removed from the pinned TOC, payload altered", class, c.name, c.chunkOffset)
			}
		}
		// keep the builder's layout (MarshalIndent with tabs) so that only the field differs
		t, err := json.MarshalIndent(doc, "", "\t")
		if err != nil {
			return nil, false
		}
		a.Blob, a.Ext = bc.withTOC(base, t)
		if a.Ext == nil && bc.built.ExternalTOC != nil {
			a.Ext = bc.built.ExternalTOC
		}
		if class == "pin:nodigest+flip" {
			a.Pin = dgst(t)
		}
		return a, true
	}
	return nil, false
}

// knownFatal: the served bytes end in a zstd:chunked footer that announces a compressed TOC
// far larger than the blob. estargz.parseTOC / the db store allocate that many bytes
// before reading ("fatal error: out of memory" kills the process, or gigabytes are zeroed):
// a known crash in C04's territory. Such cases are skipped (recorded as inconclusive);
// the on-disk journal stays as the safety net for crashes that are not predicted.
func knownFatal(a *alteration) bool {
	n := len(a.Blob)
	if n < 48 || string(a.Blob[n-8:]) != "GnUlInUx" {
		return false
	}
	cl := binary.LittleEndian.Uint64(a.Blob[n-32 : n-24])
	return cl > uint64(n)+(64<<20)
}

func sortedChunkKeys(cs []chunkRef) []string {
	var res []string
	for _, c := range cs {
		res = append(res, fmt.Sprintf("%s@%d", c.name, c.chunkOffset))
	}
	sort.Strings(res)
	return res
}
