package main

// Concurrency stages (race build):
//
//	conc1 / conc2  after a successful Verify, 4-8 goroutines read one verified layer at once
//	               (L1: reader.Reader, L2: go-fuse node handles): some read an altered chunk
//	               (must be refused), the others genuine chunks that share compressed streams
//	               (min-chunk-size layout: the pre-reader of OpenFile verifies + caches the
//	               neighbours). Then the cache is scanned and everything is re-read warm.
//	histc          one cached layer, holder A calls Verify(D_good) while holder B calls
//	               SkipVerify + RootNode + reads of the altered chunk (or Verify(D_other)):
//	               gated (A parked inside VerifyTOC at a hook point until B is through, or a
//	               timeout: infeasible on a tree whose locking forbids it) and free-running.
//
// The monitor takes no lock on the operation path: every goroutine judges its own reads
// (pure function of the generator model) into a private slice; counters are filled after
// the join.

import (
	"context"
	"fmt"
	"io"
	"path/filepath"
	"runtime"
	"sort"
	"sync"
	"sync/atomic"
	"time"

	"github.com/containerd/stargz-snapshotter/util/verifhook"
	fusefs "github.com/hanwen/go-fuse/v2/fs"
	digest "github.com/opencontainers/go-digest"

	"verifharness/internal/gen"
	"verifharness/internal/l2"
	"verifharness/internal/nodefs"
	"verifharness/internal/prng"
	"verifharness/internal/vf"
)

type concRes struct {
	op      readOp
	altered bool // the read overlaps the altered chunk
	refused bool
	bad     string
}

// concPlan: per goroutine a list of reads. "B" reads are chunks of streams that hold
// several chunks (the read of one makes the pre-reader handle the others); "A" reads hit the
// altered chunk (unaligned = temporary pooled buffer, and aligned).
func concPlan(bc *blobCase, a *alteration, rng *prng.R, g int) [][]readOp {
	aff := bc.pathsAffected(a)
	var aOps, bOps []readOp
	var ps []string
	for p := range aff {
		ps = append(ps, p)
	}
	sort.Strings(ps)
	for _, p := range ps {
		for _, c := range aff[p] {
			if c.chunkSize > 2 {
				aOps = append(aOps, readOp{p, c.chunkOffset + 1, int(min64(c.chunkSize-2, 100))})
			}
			aOps = append(aOps, readOp{p, c.chunkOffset, int(c.chunkSize)})
		}
	}
	for _, i := range bc.lay.data {
		m := bc.lay.members[i]
		if len(m.chunks) < 2 {
			continue
		}
		// one or two chunks of the stream, not all: the others must come through the pre-reader
		for k, c := range m.chunks {
			if k != 0 && k != len(m.chunks)/2 {
				continue
			}
			q := gen0clean(c.name)
			if n := bc.fsm.Nodes[q]; n == nil || n.Size == 0 {
				continue
			}
			op := readOp{q, c.chunkOffset, int(c.chunkSize)}
			if rng.Bool() && c.chunkSize > 2 {
				op = readOp{q, c.chunkOffset + 1, int(c.chunkSize - 2)}
			}
			bOps = append(bOps, op)
		}
	}
	if len(aOps) == 0 || len(bOps) == 0 {
		return nil
	}
	perm := rng.Perm(len(bOps))
	plans := make([][]readOp, g)
	for k, j := range perm {
		i := k % g
		plans[i] = append(plans[i], bOps[j], aOps[rng.Intn(len(aOps))])
	}
	for i := range plans {
		// every goroutine starts with a read of the altered chunk and has something to do
		plans[i] = append([]readOp{aOps[i%len(aOps)]}, plans[i]...)
		plans[i] = append(plans[i], aOps[(i+1)%len(aOps)])
	}
	return plans
}

func gen0clean(name string) string { return gen.Clean(name) }

// reportConc files the per-goroutine results after the join.
func reportConc(r *vf.Run, level string, bc *blobCase, a *alteration, res [][]concRes, replay map[string]any) (refused, genuine int) {
	for _, rs := range res {
		for _, x := range rs {
			switch {
			case x.refused:
				refused++
			case x.bad != "":
				r.Violate("ii:read-returns-altered-bytes:"+level+":concurrent-reads",
					fmt.Sprintf("concurrent reads on one verified layer: a read returned non-genuine bytes without error: %s (%s, %s)", x.bad, a.Desc, bc), replay)
			default:
				genuine++
			}
		}
	}
	return
}

func wholeFilePlan(bc *blobCase) []readOp {
	var plan []readOp
	for _, p := range bc.files {
		plan = append(plan, readOp{p, 0, int(bc.fsm.Nodes[p].Size)})
	}
	return plan
}

func setProcs(rep int) func() {
	n := []int{1, 2, 0, 4}[rep%4] // 1: both readers share one P (and the sync.Pool's per-P slot)
	if n == 0 {
		return func() {}
	}
	old := runtime.GOMAXPROCS(n)
	return func() { runtime.GOMAXPROCS(old) }
}

// ---------------------------------------------------------------------------
// conc1: L1

func runConcL1(e *l1Env, bc *blobCase, a *alteration, store string, rep int, caseNo uint64) {
	r := e.r
	r.Eval(1)
	p := l1Params{Store: store, Cache: []string{"memory", "dir"}[rep%2], Sched: "concurrent-reads"}
	desc := fmt.Sprintf("conc1 %s | %s | %s | rep %d", bc, a.Desc, p, rep)
	replay := map[string]any{"level": "L1", "blob": bc.String(), "blob_index": bc.idx, "alteration": a.Desc, "params": p.String(), "repetition": rep, "case": caseNo, "tar": gen0(bc)}
	o, err := e.open(a, p)
	if err != nil {
		r.Inconclusive("conc1: store refused a digest-only alteration: " + firstLine(err.Error()))
		return
	}
	defer o.close()
	o.rc.yield = rep%4 < 3
	rd, err := o.vr.VerifyTOC(digest.Digest(a.Pin))
	if err != nil {
		r.Inconclusive("conc1: VerifyTOC refused although nothing was prefetched: " + trimErr(err))
		return
	}
	rng := r.RNG(0xC0C1, caseNo)
	g := rng.Range(4, 8)
	plans := concPlan(bc, a, rng, g)
	if plans == nil {
		r.Inconclusive("conc1: blob has no shared stream or no readable altered chunk")
		return
	}
	ids := map[string]uint32{}
	for _, pl := range plans {
		for _, op := range pl {
			if _, ok := ids[op.Path]; !ok {
				id, err := lookupID(o.meta, op.Path)
				if err != nil {
					r.Inconclusive("conc1: lookup failed")
					return
				}
				ids[op.Path] = id
			}
		}
	}
	aff := bc.pathsAffected(a)
	restore := setProcs(rep)
	res := make([][]concRes, g)
	start := make(chan struct{})
	var wg sync.WaitGroup
	for i := 0; i < g; i++ {
		wg.Add(1)
		go func(i int) {
			defer wg.Done()
			<-start
			for _, op := range plans[i] {
				x := concRes{op: op, altered: touches(op, aff)}
				ra, err := rd.OpenFile(ids[op.Path])
				if err != nil {
					x.refused = true
					res[i] = append(res[i], x)
					continue
				}
				buf := make([]byte, op.Len)
				n, rerr := ra.ReadAt(buf, op.Off)
				if rerr != nil && rerr != io.EOF {
					x.refused = true
				} else {
					x.bad = bc.judgeBytes(op.Path, op.Off, buf[:n])
				}
				res[i] = append(res[i], x)
			}
		}(i)
	}
	close(start)
	wg.Wait()
	restore()
	refused, genuine := reportConc(r, "L1", bc, a, res, replay)
	r.Count("conc1_reads_refused", refused)
	r.Count("conc1_reads_genuine", genuine)
	// (iii) + warm
	kc := *a
	kc.Class = "concurrent-reads"
	if vals, err := o.rc.values(o.dir); err == nil {
		r.Count("conc1_cache_values_scanned", scanCache(r, "L1", bc, &kc, vals, replay))
	}
	for _, op := range wholeFilePlan(bc) {
		ra, err := rd.OpenFile(ids0(o, ids, op.Path))
		if err != nil {
			continue
		}
		buf := make([]byte, op.Len)
		n, rerr := ra.ReadAt(buf, op.Off)
		if rerr != nil && rerr != io.EOF {
			continue
		}
		if bad := bc.judgeBytes(op.Path, op.Off, buf[:n]); bad != "" {
			r.Violate("ii:read-returns-altered-bytes:L1:concurrent-reads",
				fmt.Sprintf("warm re-read after concurrent reads on one verified layer returned non-genuine bytes: %s (%s, %s)", bad, a.Desc, bc), replay)
		}
	}
	commits := int(o.rc.commits.Load())
	r.Count("conc1_cache_commits", commits)
	if refused > 0 && commits > genuine {
		// more chunks were cached than reads succeeded: the pre-reader was at work
		r.NonTrivial(desc)
		r.Count("conc1_cases_with_prereads_and_refused_reads", 1)
	}
}

func ids0(o *opened, ids map[string]uint32, p string) uint32 {
	if id, ok := ids[p]; ok {
		return id
	}
	id, _ := lookupID(o.meta, p)
	ids[p] = id
	return id
}

func concBlobs(r *vf.Run, base, n int) ([]*blobCase, [][]*alteration) {
	var bcs []*blobCase
	var alts [][]*alteration
	for bi := 0; len(bcs) < n && bi < 4*n; bi++ {
		comp := []string{"gzip", "externaltoc", "gzip", "zstdchunked"}[bi%4]
		if !r.Thorough() && comp == "zstdchunked" {
			comp = "gzip"
		}
		bc, err := buildBlobMode(r, base+bi, comp, true, false, true)
		if err != nil {
			continue
		}
		var as []*alteration
		for k := uint64(0); k < 6 && len(as) < 2; k++ {
			a, ok := bc.alter("recompress:flip", r.RNG(0xC0C2, uint64(base+bi), k))
			if ok && len(bc.pathsAffected(a)) >= 1 && concPlan(bc, a, r.RNG(1), 4) != nil {
				as = append(as, a)
			}
		}
		if len(as) == 0 {
			continue
		}
		bcs, alts = append(bcs, bc), append(alts, as)
	}
	return bcs, alts
}

func stageConcL1(r *vf.Run) {
	ms, closeMS, _, err := l2.MetadataStore("db", filepath.Join(r.Scratch, "db"))
	if err != nil {
		r.Inconclusive("cannot open bolt db: " + err.Error())
		return
	}
	defer closeMS()
	e := &l1Env{r: r, dbStore: ms, scratch: r.Scratch}
	bcs, alts := concBlobs(r, 5000, r.N(2, 6))
	if len(bcs) == 0 {
		r.Inconclusive("conc1: no blob with shared streams and a digest-only alteration")
		return
	}
	reps := r.N(60, 300)
	for bi, bc := range bcs {
		for rep := 0; rep < reps; rep++ {
			a := alts[bi][rep%len(alts[bi])]
			store := "memory"
			if rep%5 == 4 {
				store = "db"
			}
			cn := uint64(bi)<<32 | uint64(rep)
			r.Watchdog(2*time.Minute, "conc1 case", func() { runConcL1(e, bc, a, store, rep, cn) })
		}
		if bi == 0 {
			r.Sample(map[string]any{"level": "conc1", "blob": bc.String(), "alteration": alts[bi][0].Desc, "repetitions": reps})
		}
	}
}

// ---------------------------------------------------------------------------
// conc2: L2

func runConcL2(r *vf.Run, bc *blobCase, a *alteration, store string, rep int, caseNo uint64) {
	r.Eval(1)
	p := l2Params{Store: store, FSCache: "dir", Sched: "concurrent-reads", SyncAdd: rep%2 == 0}
	desc := fmt.Sprintf("conc2 %s | %s | %s | rep %d", bc, a.Desc, p, rep)
	replay := map[string]any{"level": "L2", "blob": bc.String(), "blob_index": bc.idx, "alteration": a.Desc, "params": p.String(), "repetition": rep, "case": caseNo, "tar": gen0(bc)}
	s, err := newL2(r, bc, a, p)
	if err != nil {
		r.Inconclusive("L2 setup: " + firstLine(err.Error()))
		return
	}
	defer s.close()
	l, err := s.env.Resolve(context.Background(), s.im, 0)
	if err != nil {
		r.Inconclusive("conc2: Resolve refused a digest-only alteration: " + trimErr(err))
		return
	}
	defer l.Close()
	if err := l.Verify(digest.Digest(a.Pin)); err != nil {
		r.Inconclusive("conc2: Verify refused although nothing was prefetched: " + trimErr(err))
		return
	}
	rn, err := l.RootNode(0)
	if err != nil {
		r.Inconclusive("conc2: RootNode failed after Verify")
		return
	}
	rootN := nodefs.Root(rn)
	rng := r.RNG(0xC0C3, caseNo)
	g := rng.Range(4, 8)
	plans := concPlan(bc, a, rng, g)
	if plans == nil {
		return
	}
	// handles are opened up front (Open does not read); the goroutines only Read
	fhs := map[string]fusefs.FileHandle{}
	for _, pl := range plans {
		for _, op := range pl {
			if _, ok := fhs[op.Path]; ok {
				continue
			}
			n, err := rootN.Walk(op.Path)
			if err != nil {
				r.Inconclusive("conc2: walk failed")
				return
			}
			fh, _, errno := n.Open()
			if errno != 0 {
				r.Inconclusive("conc2: open failed")
				return
			}
			fhs[op.Path] = fh
		}
	}
	aff := bc.pathsAffected(a)
	restore := setProcs(rep)
	res := make([][]concRes, g)
	start := make(chan struct{})
	var wg sync.WaitGroup
	for i := 0; i < g; i++ {
		wg.Add(1)
		go func(i int) {
			defer wg.Done()
			<-start
			for _, op := range plans[i] {
				x := concRes{op: op, altered: touches(op, aff)}
				got, errno := nodefs.Read(fhs[op.Path], op.Off, op.Len)
				if errno != 0 {
					x.refused = true
				} else {
					x.bad = bc.judgeBytes(op.Path, op.Off, got)
				}
				res[i] = append(res[i], x)
			}
		}(i)
	}
	close(start)
	wg.Wait()
	restore()
	for _, fh := range fhs {
		nodefs.Release(fh)
	}
	refused, genuine := reportConc(r, "L2", bc, a, res, replay)
	r.Count("conc2_reads_refused", refused)
	r.Count("conc2_reads_genuine", genuine)
	kc := *a
	kc.Class = "concurrent-reads"
	nvals := 0
	if vals, err := s.fscacheFiles(); err == nil {
		nvals = scanCache(r, "L2", bc, &kc, vals, replay)
		r.Count("conc2_fscache_files_scanned", nvals)
	}
	readAndJudge(r, "conc2", "concurrent-reads", bc, &kc, l, wholeFilePlan(bc), "warm re-read after concurrent reads", replay, "ii:read-returns-altered-bytes:L2:concurrent-reads")
	if refused > 0 && nvals > genuine {
		r.NonTrivial(desc)
		r.Count("conc2_cases_with_prereads_and_refused_reads", 1)
	}
}

func stageConcL2(r *vf.Run) {
	bcs, alts := concBlobs(r, 5100, r.N(2, 4))
	if len(bcs) == 0 {
		r.Inconclusive("conc2: no blob with shared streams and a digest-only alteration")
		return
	}
	reps := r.N(60, 300)
	for bi, bc := range bcs {
		for rep := 0; rep < reps; rep++ {
			a := alts[bi][rep%len(alts[bi])]
			store := []string{"memory", "memory", "db"}[rep%3]
			cn := uint64(bi)<<32 | uint64(rep)
			r.Watchdog(3*time.Minute, "conc2 case", func() { runConcL2(r, bc, a, store, rep, cn) })
		}
		if bi == 0 {
			r.Sample(map[string]any{"level": "conc2", "blob": bc.String(), "alteration": alts[bi][0].Desc, "repetitions": reps})
		}
	}
}

// ---------------------------------------------------------------------------
// histc: Verify(D_good) of holder A against SkipVerify+reads / Verify(D_other) of holder B

const histcPark = 1500 * time.Millisecond

// runHistC: mode "gate:<point>" parks A at the hook point inside VerifyTOC until B is through
// (or the park time is over: B is blocked by the code's own locking => infeasible_order);
// mode "free" starts both at once.
func runHistC(r *vf.Run, bc *blobCase, a *alteration, store, mode, bKind string, caseNo uint64) {
	r.Eval(1)
	p := l2Params{Store: store, FSCache: "dir", Sched: "histc:" + mode + ":" + bKind, SyncAdd: true, NRandom: 2}
	desc := fmt.Sprintf("histc %s | %s | %s | %d", bc, a.Desc, p, caseNo)
	replay := map[string]any{"level": "L2", "blob": bc.String(), "blob_index": bc.idx, "alteration": a.Desc, "params": p.String(), "case": caseNo, "tar": gen0(bc),
		"holders": map[string]string{"A": "Resolve; Verify(D_good); RootNode; reads", "B": bKind}}
	s, err := newL2(r, bc, a, p)
	if err != nil {
		r.Inconclusive("L2 setup: " + firstLine(err.Error()))
		return
	}
	defer s.close()
	ctx := context.Background()
	lA, err := s.env.Resolve(ctx, s.im, 0)
	if err != nil {
		r.Inconclusive("histc: Resolve refused a digest-only alteration: " + trimErr(err))
		return
	}
	defer lA.Close()
	lB, err := s.env.Resolve(ctx, s.im, 0) // hits the layer cache: the same *layer
	if err != nil {
		r.Inconclusive("histc: second Resolve failed")
		return
	}
	defer lB.Done()
	dGood := digest.Digest(a.Pin)
	dOther := digest.FromString("C01: some other TOC")
	plan := bc.readPlan(a, r.RNG(0x9EB7, caseNo), 2)

	aParked := make(chan struct{})
	bDone := make(chan struct{})
	var parkTimedOut atomic.Bool
	point := ""
	if len(mode) > 5 && mode[:5] == "gate:" {
		point = mode[5:]
		var armed atomic.Bool
		armed.Store(true)
		verifhook.SetHandler(func(name string, _ ...interface{}) {
			if name == point && armed.CompareAndSwap(true, false) {
				close(aParked)
				select {
				case <-bDone:
				case <-time.After(histcPark):
					parkTimedOut.Store(true)
				}
			}
		})
		defer verifhook.SetHandler(nil)
	} else {
		close(aParked)
	}
	var aErr, bVerifyErr error
	bResult := ""
	var wg sync.WaitGroup
	wg.Add(2)
	go func() {
		defer wg.Done()
		aErr = lA.Verify(dGood)
	}()
	go func() {
		defer wg.Done()
		defer close(bDone)
		if point != "" {
			select {
			case <-aParked:
			case <-time.After(10 * time.Second): // A never reached the point (Verify refused early)
			}
		}
		if bKind == opVo {
			bVerifyErr = lB.Verify(dOther)
			bResult = fmt.Sprintf("Verify(D_other)=%v", bVerifyErr == nil)
			return
		}
		// a mount of the same layer without verification: its reads are outside the statement
		lB.SkipVerify()
		rn, err := lB.RootNode(0)
		if err != nil {
			bResult = "SkipVerify, RootNode=err"
			return
		}
		rootB := nodefs.Root(rn)
		nread := 0
		for _, op := range plan {
			if _, _, err := nodeRead(rootB, op); err == nil {
				nread++
			}
		}
		bResult = fmt.Sprintf("SkipVerify, %d reads ok", nread)
	}()
	wg.Wait()
	verifhook.SetHandler(nil)
	order := "free-running"
	if point != "" {
		if parkTimedOut.Load() {
			order = "B blocked while A is inside VerifyTOC (infeasible_order: a lock of the code under test forbids it)"
			r.Count("histc_gate_infeasible", 1)
		} else {
			order = "B ran to completion while A was parked at " + shortName[point]
			r.Count("histc_gate_realised", 1)
		}
	}
	r.Distinct("histc_outcomes", fmt.Sprintf("%s | B=%s | A: Verify(D_good)=%v | B: %s | %s", mode, bKind, aErr == nil, bResult, order))
	replay["observed"] = order + "; B: " + bResult
	r.NonTrivial(desc)
	if bKind == opVo && bVerifyErr == nil {
		served := false
		for _, t := range servedTOCs(a.Blob, a.Ext) {
			if acceptableDigests(t)[dOther.String()] {
				served = true
			}
		}
		if !served {
			r.Violate("i:verify-nil-on-other-toc:L2:concurrent", "Verify(D_other) of holder B returned nil, concurrently with Verify(D_good) of holder A on the same cached layer, although the served TOC hashes to D_good ("+order+")", replay)
		}
	}
	if aErr != nil {
		r.Count("histc_A_verify_refused", 1)
		return
	}
	r.Count("histc_A_verify_ok", 1)
	// A mounted with the pinned digest: (ii)/(iii) for A
	for _, phase := range []string{"cold", "warm"} {
		if _, err := readAndJudge(r, "histc", "concurrent-verify-skipverify", bc, a, lA, plan, phase+" [holder A after Verify(D_good)==nil; "+order+"; B: "+bResult+"]", replay, "ii:read-returns-altered-bytes:L2:concurrent-verify-skipverify"); err != nil {
			r.Inconclusive("histc: RootNode failed after a successful Verify")
			return
		}
		if phase == "cold" {
			if vals, err := s.fscacheFiles(); err == nil {
				kc := *a
				kc.Class = "concurrent-verify-skipverify"
				kc.Desc = a.Desc + " [" + order + "; B: " + bResult + "]"
				r.Count("histc_fscache_files_scanned", scanCache(r, "L2", bc, &kc, vals, replay))
			}
		}
	}
}

func stageHistC(r *vf.Run) {
	var bc *blobCase
	var a *alteration
	for bi := 0; bi < 8; bi++ {
		b, err := buildBlobMode(r, 2200+bi, compressionFor(bi), true)
		if err != nil {
			continue
		}
		if x, ok := digestOnlyAlteration(r, b, 6); ok {
			bc, a = b, x
			break
		}
	}
	if bc == nil {
		r.Inconclusive("histc: no blob with a digest-only alteration")
		return
	}
	n := uint64(0)
	gated := r.N(1, 3)
	for rep := 0; rep < gated; rep++ {
		for _, pt := range []string{pV1, pV2} {
			for si, store := range []string{"memory", "db"} {
				for _, bk := range []string{opS, opVo} {
					if !r.Thorough() && bk == opVo && si == 1 {
						continue
					}
					n++
					cn := n
					r.Watchdog(3*time.Minute, "histc case", func() { runHistC(r, bc, a, store, "gate:"+pt, bk, cn) })
				}
			}
		}
	}
	free := r.N(24, 120)
	for rep := 0; rep < free; rep++ {
		n++
		cn := n
		bk := opS
		if rep%4 == 3 {
			bk = opVo
		}
		restore := setProcs(rep)
		r.Watchdog(3*time.Minute, "histc case", func() { runHistC(r, bc, a, []string{"memory", "db"}[rep%2], "free", bk, cn) })
		restore()
	}
	r.Sample(map[string]any{"level": "histc", "blob": bc.String(), "alteration": a.Desc, "gated": gated * 6, "free_running": free})
}
