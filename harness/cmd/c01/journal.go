package main

// On-disk journal for stages that feed hostile bytes to the code under test: a case
// that kills the process (fatal error: out of memory / stack overflow are not
// recoverable) is skipped when the parent restarts the batch. Such crashes are the
// subject of C04; here they only make the case undecided.

import (
	"bufio"
	"fmt"
	"os"
	"strings"
)

type journal struct {
	path     string
	f        *os.File
	doneBlob map[string]bool
	poison   map[string]bool
}

func openJournal(path string) *journal {
	j := &journal{path: path, doneBlob: map[string]bool{}, poison: map[string]bool{}}
	if path == "" {
		return j
	}
	if f, err := os.Open(path); err == nil {
		sc := bufio.NewScanner(f)
		open := ""
		for sc.Scan() {
			ln := sc.Text()
			switch {
			case strings.HasPrefix(ln, "BEGIN "):
				open = strings.TrimPrefix(ln, "BEGIN ")
			case strings.HasPrefix(ln, "END "):
				open = ""
			case strings.HasPrefix(ln, "POISON "):
				j.poison[strings.TrimPrefix(ln, "POISON ")] = true
			case strings.HasPrefix(ln, "DONE "):
				j.doneBlob[strings.TrimPrefix(ln, "DONE ")] = true
			}
		}
		f.Close()
		if open != "" {
			j.poison[open] = true
		}
	}
	j.f, _ = os.OpenFile(path, os.O_APPEND|os.O_CREATE|os.O_WRONLY, 0o644)
	for p := range j.poison {
		j.line("POISON " + p)
	}
	return j
}

func (j *journal) line(s string) {
	if j.f != nil {
		fmt.Fprintln(j.f, s)
		j.f.Sync()
	}
}

func (j *journal) begin(id string) { j.line("BEGIN " + id) }
func (j *journal) end(id string)   { j.line("END " + id) }
func (j *journal) done(b string)   { j.line("DONE " + b) }

// openJournalReadOnly reports whether the journal shows a case that began and never ended.
func openJournalReadOnly(path string) bool {
	f, err := os.Open(path)
	if err != nil {
		return false
	}
	defer f.Close()
	sc := bufio.NewScanner(f)
	open := false
	for sc.Scan() {
		ln := sc.Text()
		if strings.HasPrefix(ln, "BEGIN ") {
			open = true
		} else if strings.HasPrefix(ln, "END ") {
			open = false
		}
	}
	return open
}
