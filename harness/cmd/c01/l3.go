package main

// Level L3: the daemon's own entry point, fs.NewFilesystem(...).Mount over real FUSE in
// the private mount namespace, with the label matrix of DESIGN.md C01. Only this level
// executes fs/fs.go (refuse / verify / skip decision). Runs behind a capability probe.

import (
	"context"
	"fmt"
	"io"
	"os"
	"path/filepath"
	"strings"
	"syscall"
	"time"

	"github.com/containerd/containerd/v2/pkg/reference"
	"github.com/containerd/stargz-snapshotter/estargz"
	stargzfs "github.com/containerd/stargz-snapshotter/fs"
	"github.com/containerd/stargz-snapshotter/fs/config"
	"github.com/containerd/stargz-snapshotter/fs/layer"
	"github.com/containerd/stargz-snapshotter/fs/source"
	"github.com/containerd/stargz-snapshotter/metadata"
	esgzexternaltoc "github.com/containerd/stargz-snapshotter/nativeconverter/estargz/externaltoc"
	"github.com/containerd/stargz-snapshotter/snapshot"
	digest "github.com/opencontainers/go-digest"
	ocispec "github.com/opencontainers/image-spec/specs-go/v1"

	"verifharness/internal/blob"
	"verifharness/internal/l2"
	"verifharness/internal/memreg"
	"verifharness/internal/vf"
)

type l3Mode struct {
	Name          string
	Digest        string // "", "good", "wrong"
	SkipLabel     bool
	AllowNoVerify bool
	Disable       bool
}

var l3Modes = []l3Mode{
	{Name: "no-toc-digest"},
	{Name: "wrong-digest", Digest: "wrong"},
	{Name: "right-digest", Digest: "good"},
	{Name: "skip-label,allow_no_verification=off", SkipLabel: true},
	{Name: "skip-label,allow_no_verification=on", SkipLabel: true, AllowNoVerify: true},
	{Name: "disable_verification", Digest: "wrong", Disable: true},
	// both labels (what `ctr-remote rpull --skip-content-verify` produces for an eStargz layer):
	// the mount was given D, so it must be verified against D whatever else is allowed
	{Name: "right-digest+skip-label,allow_no_verification=on", Digest: "good", SkipLabel: true, AllowNoVerify: true},
	{Name: "wrong-digest+skip-label,allow_no_verification=on", Digest: "wrong", SkipLabel: true, AllowNoVerify: true},
}

type l3FS struct {
	fs   snapshot.FileSystem
	reg  *memreg.Registry
	im   *l2.Image
	root string
	done func()
}

func newL3FS(r *vf.Run, bc *blobCase, a *alteration, store string, allowNoVerify, disable bool, n int) (*l3FS, error) {
	reg := memreg.New()
	im, err := l2.Publish(reg, "reg.test", "img", "v1", []*blob.Built{bc.built})
	if err != nil {
		return nil, err
	}
	reg.AddBlobAs("reg.test", "img", bc.built.Digest, a.Blob)
	if bc.built.ExternalTOC != nil && a.Ext != nil {
		reg.AddBlobAs("reg.test", "img", digest.FromBytes(bc.built.ExternalTOC), a.Ext)
	}
	root := filepath.Join(r.Scratch, fmt.Sprintf("l3-%d", n))
	ms, closeMS, _, err := l2.MetadataStore(store, filepath.Join(root, "meta"))
	if err != nil {
		return nil, err
	}
	cfg := config.Config{}
	cfg.NoPrometheus = true
	cfg.HTTPCacheType = "memory"
	cfg.AllowNoVerification = allowNoVerify
	cfg.DisableVerification = disable
	cfg.BlobConfig.MaxRetries = 1
	cfg.BlobConfig.MinWaitMSec = 1
	cfg.BlobConfig.MaxWaitMSec = 5
	cfg.PrefetchTimeoutSec = 2
	f, err := stargzfs.NewFilesystem(filepath.Join(root, "stargz"), cfg,
		stargzfs.WithGetSources(source.FromDefaultLabels(reg.Hosts(nil))),
		stargzfs.WithMetadataStore(ms),
		stargzfs.WithOverlayOpaqueType(layer.OverlayOpaqueAll),
		stargzfs.WithAdditionalDecompressors(func(ctx context.Context, hosts source.RegistryHosts, refspec reference.Spec, desc ocispec.Descriptor) []metadata.Decompressor {
			return []metadata.Decompressor{esgzexternaltoc.NewRemoteDecompressor(ctx, hosts, refspec, desc)}
		}))
	if err != nil {
		closeMS()
		return nil, err
	}
	return &l3FS{fs: f, reg: reg, im: im, root: root, done: closeMS}, nil
}

func (f *l3FS) labels(bc *blobCase, m l3Mode) map[string]string {
	l := map[string]string{
		"containerd.io/snapshot/remote/stargz.reference": f.im.Ref.String(),
		"containerd.io/snapshot/remote/stargz.digest":    f.im.Layers[0].Digest.String(),
		"containerd.io/snapshot/remote/stargz.layers":    f.im.Layers[0].Digest.String(),
	}
	switch m.Digest {
	case "good":
		l[estargz.TOCJSONDigestAnnotation] = bc.built.TOCDigest.String()
	case "wrong":
		l[estargz.TOCJSONDigestAnnotation] = digest.FromString("C01: some other TOC").String()
	}
	if m.SkipLabel {
		l[config.TargetSkipVerifyLabel] = "true"
	}
	return l
}

func forceUnmount(mp string) {
	for i := 0; i < 3; i++ {
		if err := syscall.Unmount(mp, syscall.MNT_DETACH); err != nil {
			return
		}
	}
}

// fuseProbe: can this process mount FUSE at all?
func fuseProbe() error {
	f, err := os.OpenFile("/dev/fuse", os.O_RDWR, 0)
	if err != nil {
		return err
	}
	return f.Close()
}

// kernelReads applies clause (ii) through real read(2) calls on the mountpoint.
func kernelReads(r *vf.Run, bc *blobCase, a *alteration, mp string, plan []readOp, key, ctxt string, replay map[string]any) (touched bool) {
	aff := bc.pathsAffected(a)
	for _, op := range plan {
		f, err := os.Open(filepath.Join(mp, op.Path))
		if err != nil {
			r.Count("l3_open_refused", 1)
			continue
		}
		buf := make([]byte, op.Len)
		n, rerr := f.ReadAt(buf, op.Off)
		f.Close()
		t := touches(op, aff)
		touched = touched || t
		if rerr != nil && rerr != io.EOF {
			r.Count("l3_read_refused", 1)
			if t {
				r.Count("l3_read_of_altered_chunk_refused", 1)
			}
			continue
		}
		if bad := bc.judgeBytes(op.Path, op.Off, buf[:n]); bad != "" {
			r.Violate(key, fmt.Sprintf("%s: read(2) on the FUSE mount returned non-genuine bytes: %s (%s, %s)", ctxt, bad, a.Desc, bc), replay)
		} else {
			r.Count("l3_read_genuine", 1)
		}
	}
	return
}

func servedAccepts(a *alteration, d string) bool {
	for _, t := range servedTOCs(a.Blob, a.Ext) {
		if acceptableDigests(t)[d] {
			return true
		}
	}
	return false
}

func runL3Matrix(r *vf.Run, bc *blobCase, variant string, a *alteration, store string, seq *int) {
	for _, m := range l3Modes {
		*seq++
		r.Eval(1)
		desc := fmt.Sprintf("L3 %s | %s(%s) | %s | %s", bc, variant, a.Desc, store, m.Name)
		replay := map[string]any{"level": "L3", "blob": bc.String(), "variant": variant, "alteration": a.Desc, "store": store, "labels": m.Name, "tar": gen0(bc)}
		f, err := newL3FS(r, bc, a, store, m.AllowNoVerify, m.Disable, *seq)
		if err != nil {
			r.Inconclusive("L3 setup: " + firstLine(err.Error()))
			continue
		}
		mp := filepath.Join(f.root, "mnt")
		os.MkdirAll(mp, 0o755)
		labels := f.labels(bc, m)
		ctx, cancel := context.WithTimeout(context.Background(), time.Minute)
		var merr error
		ok := r.Watchdog(2*time.Minute, "L3 Mount", func() { merr = f.fs.Mount(ctx, mp, labels) })
		cancel()
		if !ok {
			forceUnmount(mp)
			continue
		}
		r.Distinct("l3_mount_outcomes", fmt.Sprintf("%s / %s => %v", variant, m.Name, merr == nil))
		r.NonTrivial(desc)
		if merr != nil {
			r.Count("l3_mount_refused:"+m.Name, 1)
			r.Distinct("l3_mount_errors", trimErr(merr))
			if variant == "genuine" && m.Digest == "good" && !m.Disable {
				r.Inconclusive("L3: genuine blob with the right digest refused: " + trimErr(merr))
			}
			f.done()
			continue
		}
		r.Count("l3_mount_ok:"+m.Name, 1)
		waived := m.Disable || (m.SkipLabel && m.AllowNoVerify && m.Digest == "")
		switch {
		case waived:
			r.Count("l3_mount_ok_verification_waived_by_configuration", 1)
		case m.Digest == "":
			k := "i:mount-without-toc-digest:L3"
			if m.SkipLabel {
				k = "i:mount-skipverify-not-allowed:L3"
			}
			r.Violate(k, fmt.Sprintf("Mount returned nil with labels {%s}: no TOC digest was pinned and verification was not waived by configuration (%s)", m.Name, variant), replay)
		case !servedAccepts(a, labels[estargz.TOCJSONDigestAnnotation]):
			r.Violate("i:mount-nil-on-other-toc:L3:"+variant, fmt.Sprintf("Mount returned nil with TOC digest label %s but the served TOC hashes to something else (%s, %s)", labels[estargz.TOCJSONDigestAnnotation], variant, a.Desc), replay)
		default:
			plan := bc.readPlan(a, r.RNG(0x9EB3, uint64(*seq)), 3)
			kernelReads(r, bc, a, mp, plan, "ii:read-returns-altered-bytes:L3:"+a.Class, "mounted with the right digest", replay)
			if err := f.fs.Check(context.Background(), mp, labels); err != nil {
				r.Count("l3_check_error", 1)
			}
			kernelReads(r, bc, a, mp, plan, "ii:read-returns-altered-bytes:L3:"+a.Class, "re-read after Check", replay)
		}
		if err := f.fs.Unmount(context.Background(), mp); err != nil {
			r.Count("l3_unmount_error", 1)
			forceUnmount(mp)
		}
		f.done()
	}
}

// runL3History: two Mounts of the SAME layer on one filesystem instance (the second
// Resolve hits the layer cache), i.e. the call histories of stage "hist" end to end.
func runL3History(r *vf.Run, bc *blobCase, a *alteration, store string, first, second l3Mode, seq *int) {
	*seq++
	r.Eval(1)
	hs := first.Name + " ; " + second.Name
	desc := fmt.Sprintf("L3hist %s | %s | %s | %s", bc, a.Desc, store, hs)
	replay := map[string]any{"level": "L3", "blob": bc.String(), "alteration": a.Desc, "store": store, "mount_history": []string{first.Name, second.Name}, "tar": gen0(bc)}
	f, err := newL3FS(r, bc, a, store, first.AllowNoVerify || second.AllowNoVerify, false, *seq)
	if err != nil {
		r.Inconclusive("L3 setup: " + firstLine(err.Error()))
		return
	}
	defer f.done()
	mp1, mp2 := filepath.Join(f.root, "mnt1"), filepath.Join(f.root, "mnt2")
	os.MkdirAll(mp1, 0o755)
	os.MkdirAll(mp2, 0o755)
	ctx := context.Background()
	var e1, e2 error
	if !r.Watchdog(2*time.Minute, "L3 Mount", func() { e1 = f.fs.Mount(ctx, mp1, f.labels(bc, first)) }) {
		forceUnmount(mp1)
		return
	}
	if e1 != nil {
		r.Inconclusive("L3 history: first mount refused: " + trimErr(e1))
		return
	}
	defer func() {
		if f.fs.Unmount(ctx, mp1) != nil {
			forceUnmount(mp1)
		}
	}()
	l2nd := f.labels(bc, second)
	if !r.Watchdog(2*time.Minute, "L3 Mount", func() { e2 = f.fs.Mount(ctx, mp2, l2nd) }) {
		forceUnmount(mp2)
		return
	}
	r.NonTrivial(desc)
	r.Distinct("l3_mount_history_outcomes", fmt.Sprintf("%s => %v, %v", hs, e1 == nil, e2 == nil))
	if e2 != nil {
		return
	}
	defer func() {
		if f.fs.Unmount(ctx, mp2) != nil {
			forceUnmount(mp2)
		}
	}()
	d := l2nd[estargz.TOCJSONDigestAnnotation]
	if d == "" {
		return
	}
	if !servedAccepts(a, d) {
		k := "verify-other-digest-after-verify:returns-nil"
		if first.SkipLabel {
			k = "verify-other-digest-after-skipverify:returns-nil"
		}
		r.Violate(k, fmt.Sprintf("fs.Mount history [%s] of one layer on one filesystem: the second Mount returned nil with TOC digest label %s although the served TOC hashes to %s", hs, d, bc.built.TOCDigest), replay)
		return
	}
	key := "ii:read-returns-altered-bytes:L3:hist"
	if first.SkipLabel {
		key = "verify-after-skipverify:no-op"
	}
	plan := bc.readPlan(a, r.RNG(0x9EB4, uint64(*seq)), 3)
	kernelReads(r, bc, a, mp2, plan, key, "fs.Mount history ["+hs+"], second mount carries the right digest", replay)
}

// runL3Retry: a retried Mount of a layer whose prefetch has already seen (and cached) an
// altered chunk. Mount #1 carries no TOC digest (refused by fs.Mount, but the layer stays in
// the resolver cache and its prefetch runs); Mount #2 with the right digest is then
// legitimately refused ("content error occurs during caching contents") once prefetch
// has recorded the bad chunk; Mount #3 is the retry and must not fare better. Whatever the
// outcomes (prefetch timing is not controlled here), a Mount that returns nil with the
// right digest puts every later read under clause (ii).
func runL3Retry(r *vf.Run, bc *blobCase, a *alteration, store string, seq *int) {
	*seq++
	r.Eval(1)
	desc := fmt.Sprintf("L3retry %s | %s | %s", bc, a.Desc, store)
	replay := map[string]any{"level": "L3", "blob": bc.String(), "alteration": a.Desc, "store": store,
		"mount_history": []string{"no-toc-digest (refused, layer stays cached, prefetch runs)", "right-digest", "right-digest (retry)", "right-digest (retry)"}, "tar": gen0(bc)}
	f, err := newL3FS(r, bc, a, store, false, false, *seq)
	if err != nil {
		r.Inconclusive("L3 setup: " + firstLine(err.Error()))
		return
	}
	defer f.done()
	ctx := context.Background()
	mp0 := filepath.Join(f.root, "mnt0")
	os.MkdirAll(mp0, 0o755)
	var e0 error
	if !r.Watchdog(2*time.Minute, "L3 Mount", func() { e0 = f.fs.Mount(ctx, mp0, f.labels(bc, l3Modes[0])) }) {
		forceUnmount(mp0)
		return
	}
	if e0 == nil {
		f.fs.Unmount(ctx, mp0)
		return // judged by the matrix
	}
	// let the prefetch of the cached layer finish: registry traffic quiescent (bounded wait;
	// only decides how interesting the case is, never a verdict)
	last, stable := f.reg.Requests(), 0
	for i := 0; i < 400 && stable < 30; i++ {
		time.Sleep(10 * time.Millisecond)
		if n := f.reg.Requests(); n == last {
			stable++
		} else {
			last, stable = n, 0
		}
	}
	right := f.labels(bc, l3Modes[2])
	var outcomes []string
	refused := false
	for k := 1; k <= 3; k++ {
		mp := filepath.Join(f.root, fmt.Sprintf("mnt%d", k))
		os.MkdirAll(mp, 0o755)
		var me error
		if !r.Watchdog(2*time.Minute, "L3 Mount", func() { me = f.fs.Mount(ctx, mp, right) }) {
			forceUnmount(mp)
			return
		}
		outcomes = append(outcomes, fmt.Sprint(me == nil))
		if me != nil {
			refused = true
			r.Distinct("l3_mount_errors", trimErr(me))
			continue
		}
		key := "ii:read-returns-altered-bytes:L3:" + a.Class
		what := "mounted with the right digest"
		if refused {
			key = "ii:read-returns-altered-bytes:L3:after-verify-retry"
			what = fmt.Sprintf("Mount with the right digest was refused, retry #%d returned nil", k-1)
		}
		plan := bc.readPlan(a, r.RNG(0x9EB6, uint64(*seq)), 3)
		kernelReads(r, bc, a, mp, plan, key, what, replay)
		if f.fs.Unmount(ctx, mp) != nil {
			forceUnmount(mp)
		}
		break
	}
	r.Distinct("l3_retry_outcomes", "no-digest=refused ; right-digest x3 => "+strings.Join(outcomes, ","))
	if refused {
		r.NonTrivial(desc)
		r.Count("l3_retry_cases_with_a_refused_right_digest_mount", 1)
	}
}

func stageL3(r *vf.Run) {
	if err := fuseProbe(); err != nil {
		r.Set("l3", "skipped(capability): "+err.Error())
		r.Inconclusive("L3 skipped(capability): /dev/fuse unusable")
		return
	}
	nBlobs := r.N(1, 4)
	seq := 0
	for bi := 0; bi < nBlobs; bi++ {
		bc, err := buildBlobMode(r, 4000+bi, compressionFor(bi), true)
		if err != nil {
			r.Inconclusive("blob build: " + firstLine(err.Error()))
			continue
		}
		none, _ := bc.alter("none", r.RNG(1))
		chunk, ok1 := digestOnlyAlteration(r, bc, 3)
		toc, ok2 := bc.alter("toc:reserialize", r.RNG(0x70C, uint64(bi)))
		store := []string{"memory", "db"}[bi%2]
		runL3Matrix(r, bc, "genuine", none, store, &seq)
		if ok1 {
			runL3Matrix(r, bc, "chunk-altered", chunk, store, &seq)
			right := l3Modes[2]
			wrong := l3Modes[1]
			skipOn := l3Modes[4]
			runL3History(r, bc, chunk, store, right, wrong, &seq)
			runL3History(r, bc, chunk, store, skipOn, right, &seq)
			runL3History(r, bc, chunk, store, skipOn, wrong, &seq)
			runL3History(r, bc, chunk, store, right, right, &seq)
		}
		if ok2 {
			runL3Matrix(r, bc, "toc-altered", toc, store, &seq)
		}
		// retried mounts after prefetch saw an altered chunk (all file data prioritized)
		if pb, err := buildBlobMode(r, 4100+bi, compressionFor(bi), true, true); err == nil {
			if pa, ok := digestOnlyAlteration(r, pb, 5); ok {
				runL3Retry(r, pb, pa, store, &seq)
				runL3Retry(r, pb, pa, []string{"db", "memory"}[bi%2], &seq)
			}
		}
		if bi == 0 {
			r.Sample(map[string]any{"level": "L3", "blob": bc.String(), "label_matrix": len(l3Modes), "variants": []string{"genuine", "chunk-altered", "toc-altered"}})
		}
	}
	// leftovers (a mount whose Mount call timed out) must not survive the stage
	if b, err := os.ReadFile("/proc/self/mountinfo"); err == nil {
		for _, ln := range strings.Split(string(b), "\n") {
			fs := strings.Fields(ln)
			if len(fs) > 4 && strings.HasPrefix(fs[4], r.Scratch) {
				forceUnmount(fs[4])
			}
		}
	}
}
