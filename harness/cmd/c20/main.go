// C20 — snapshot labels written at pull time reproduce the layer's source at mount time.
//
// Real code under test (nothing is re-implemented):
//
//	writer, flavour "default": source.AppendDefaultLabelsHandlerWrapper(ref, prefetch)      (ctr-remote rpull)
//	writer, flavour "cri":     source.AppendExtraLabelsHandler(prefetch,
//	                               snapshotters.AppendInfoHandlerWrapper(ref))              (ctr-remote rpull --use-containerd-labels)
//	                           (the inner wrapper is containerd's own pkg/snapshotters, the one CRI uses)
//	reader, "default":         source.FromDefaultLabels(hosts)
//	reader, "cri":             service.VerifSourceFromCRILabels(hosts)   (H10 export of sourceFromCRILabels)
//	consumer (stage l3):       fs.NewFilesystem(..., WithGetSources(reader)).Mount(ctx, mp, labels) over a real
//	                           FUSE mount, registry = in-memory http.RoundTripper with a request log
//
// A case is one image manifest. It is serialised to JSON, put into an in-memory
// content.Provider and enumerated by containerd's real images.ChildrenHandler (config
// first, then the "layers" array), wrapped by the writer under test, exactly as
// client.Pull composes the handlers. The annotations the writer leaves on every layer
// descriptor are filtered by containerd's snapshots.FilterInheritedLabels (what the
// unpacker hands to the snapshotter as labels) and given to the reader under test.
//
// Oracle (from the property statement only; the expected values come from the generated
// manifest model, never from the labels):
//
//	V  every label the writer added or changed passes containerd's labels.Validate
//	R  reader(labels) succeeds and yields >= 1 source; for every source
//	   R1 Name   == reference.Parse(ref given to the writer)
//	   R2 Target.Digest == digest of the layer descriptor; Manifest.Layers[0] is the target
//	   R3 Target.URLs ~ URLs of the layer descriptor
//	   R4 digests of Manifest.Layers[1:] are a prefix of: layer-typed children that follow the
//	      target in manifest order, minus those whose digest equals the target's
//	   R5 every neighbour's URLs ~ its OWN URLs
//	P  the prefetch-size label is present and strconv.ParseInt(v,10,64) (what fs.Mount does) == prefetch
//	M  for every subset of <= 3 labels removed or corrupted: reader errors, or the source has
//	   exactly the reference and digest that the (mutated) mandatory labels spell; a missing
//	   or malformed mandatory label must be an error
//
// Slack (where correct code may differ from a naive expectation):
//   - "~" on URL lists: empty strings are not URLs ([""] == [], the protocol is a
//     comma-joined string); the reconstructed list must be a prefix of the original, and
//     must be equal when the joined list fits a label with a few bytes to spare (the
//     writers validate with a trailing comma, i.e. one byte conservatively — not judged).
//   - R4 demands a prefix only: "skipping layers is allowed and only affects performance".
//   - R5 with repeated digests: descriptors with equal digests are the same layer; the URL
//     list of any layer-typed child with that digest is accepted as "its own".
//   - M: "malformed" is decided by the third-party parsers (containerd reference.Parse,
//     go-digest digest.Parse); a corrupted value that is still well-formed legitimately
//     resolves to what it spells.
//   - domain limits: URLs contain no ',' (not describable by a comma-joined label);
//     references are well-formed and < 1 KiB (repository names are limited to 255 bytes).
package main

import (
	"bytes"
	"context"
	_ "crypto/sha256"
	_ "crypto/sha512"
	"encoding/json"
	"fmt"
	"math"
	"os"
	"regexp"
	"runtime/debug"
	"runtime/pprof"
	"sort"
	"strconv"
	"strings"
	"sync"
	"sync/atomic"

	"github.com/containerd/containerd/v2/core/content"
	"github.com/containerd/containerd/v2/core/images"
	"github.com/containerd/containerd/v2/core/remotes/docker"
	"github.com/containerd/containerd/v2/core/snapshots"
	"github.com/containerd/containerd/v2/pkg/labels"
	"github.com/containerd/containerd/v2/pkg/reference"
	"github.com/containerd/containerd/v2/pkg/snapshotters"
	"github.com/containerd/errdefs"
	"github.com/containerd/log"
	"github.com/containerd/stargz-snapshotter/fs/config"
	"github.com/containerd/stargz-snapshotter/fs/source"
	"github.com/containerd/stargz-snapshotter/service"
	digest "github.com/opencontainers/go-digest"
	ocispec "github.com/opencontainers/image-spec/specs-go/v1"
	"github.com/sirupsen/logrus"

	"verifharness/internal/prng"
	"verifharness/internal/vf"
)

// Protocol label names (documented constants of fs/source/source.go, service/cri.go and
// containerd pkg/snapshotters). The harness needs them to know which labels are
// mandatory; a writer/reader disagreement on a name shows up as clause R.
const (
	defRefKey    = "containerd.io/snapshot/remote/stargz.reference"
	defDigestKey = "containerd.io/snapshot/remote/stargz.digest"
	defLayersKey = "containerd.io/snapshot/remote/stargz.layers"
	urlsKey      = "containerd.io/snapshot/remote/urls"
	urlsPrefix   = "containerd.io/snapshot/remote/urls."
	maxLabel     = 4096 // containerd labels.Validate: len(key)+len(value) <= 4096
	// a URL list whose comma-joined form is at most this long fits every urls label with
	// >= 5 bytes to spare (longest key: prefix + 3 digits); then it must round-trip exactly.
	mustFitJoined = maxLabel - len(urlsPrefix) - 3 - 5
)

type flavour struct {
	name      string
	refKey    string
	digestKey string
	layersKey string
	extraKeys []string // further labels of the flavour included in the exhaustive subset enumeration
	wrap      func(ref string, prefetch int64) func(images.Handler) images.Handler
	reader    func(hosts source.RegistryHosts) source.GetSources
}

// The writers and readers are called through function variables so that the compiler
// cannot inline them into package main: closures of an inlined function are named after
// the caller ("main.init.func1.AppendDefaultLabelsHandlerWrapper.1.1") and the race-report
// attribution of vf (by module-qualified function name) would not recognise them.
var (
	appendDefaultLabels = source.AppendDefaultLabelsHandlerWrapper
	appendExtraLabels   = source.AppendExtraLabelsHandler
	fromDefaultLabels   = source.FromDefaultLabels
	fromCRILabels       = service.VerifSourceFromCRILabels
)

var flavours = []*flavour{
	{
		name: "default", refKey: defRefKey, digestKey: defDigestKey, layersKey: defLayersKey,
		wrap: func(ref string, prefetch int64) func(images.Handler) images.Handler {
			return appendDefaultLabels(ref, prefetch)
		},
		reader: func(h source.RegistryHosts) source.GetSources { return fromDefaultLabels(h) },
	},
	{
		name: "cri", refKey: snapshotters.TargetRefLabel, digestKey: snapshotters.TargetLayerDigestLabel, layersKey: snapshotters.TargetImageLayersLabel,
		extraKeys: []string{snapshotters.TargetManifestDigestLabel},
		wrap: func(ref string, prefetch int64) func(images.Handler) images.Handler {
			return appendExtraLabels(prefetch, snapshotters.AppendInfoHandlerWrapper(ref))
		},
		reader: func(h source.RegistryHosts) source.GetSources { return fromCRILabels(h) },
	},
}

// ---------------------------------------------------------------------------
// manifest model

type child struct {
	MT    string
	Dig   digest.Digest
	Size  int64
	URLs  []string
	Ann   map[string]string
	Layer bool // the generator's intent; cross-checked against images.IsLayerType
}

type mcase struct {
	Name     string // "fixed:<name>" or "rand"
	Ref      string
	Prefetch int64
	MT       string
	Config   child
	Layers   []child // the manifest's "layers" array (may contain non-layer media types)
	Shape    []string
}

func (m *mcase) children() []child { return append([]child{m.Config}, m.Layers...) }

// compact, human-readable description (also the identity for distinct counting)
func (m *mcase) describe() string {
	var sb strings.Builder
	fmt.Fprintf(&sb, "ref=%s prefetch=%d mt=%s children:", m.Ref, m.Prefetch, shortMT(m.MT))
	for i, c := range m.children() {
		ub := 0
		for _, u := range c.URLs {
			ub += len(u)
		}
		fmt.Fprintf(&sb, " [%d %s %s urls=%d/%dB ann=%d]", i, shortMT(c.MT), shortDig(c.Dig), len(c.URLs), ub, len(c.Ann))
		if sb.Len() > 6000 {
			sb.WriteString(" …")
			break
		}
	}
	return sb.String()
}

func shortMT(mt string) string {
	mt = strings.TrimPrefix(mt, "application/vnd.")
	mt = strings.TrimPrefix(mt, "application/")
	if mt == "" {
		return "<empty>"
	}
	return mt
}

func shortDig(d digest.Digest) string {
	s := d.String()
	if i := strings.IndexByte(s, ':'); i >= 0 && len(s) > i+9 {
		return s[:i+9]
	}
	return s
}

var layerMTsOCI = []string{
	ocispec.MediaTypeImageLayer, ocispec.MediaTypeImageLayerGzip, ocispec.MediaTypeImageLayerZstd,
	"application/vnd.oci.image.layer.v1.tar+gzip+encrypted",
}
var layerMTsDocker = []string{
	images.MediaTypeDockerSchema2Layer, images.MediaTypeDockerSchema2LayerGzip, images.MediaTypeDockerSchema2LayerZstd,
}
var layerMTsForeign = []string{
	"application/vnd.oci.image.layer.nondistributable.v1.tar", "application/vnd.oci.image.layer.nondistributable.v1.tar+gzip",
	"application/vnd.oci.image.layer.nondistributable.v1.tar+zstd",
	images.MediaTypeDockerSchema2LayerForeign, images.MediaTypeDockerSchema2LayerForeignGzip,
}
var nonLayerMTs = []string{
	"application/vnd.in-toto+json", "application/vnd.oci.empty.v1+json", "application/vnd.cncf.helm.chart.content.v1.tar+gzip",
	"application/octet-stream", "application/vnd.oci.image.config.v1+json", "application/vnd.dev.cosign.simplesigning.v1+json",
	"text/plain", "application/vnd.docker.container.image.v1+json", "application/vnd.wasm.content.layer.v1+wasm", "",
}

const urlAlphabet = "abcdefghijklmnopqrstuvwxyzABCDEFGHIJKLMNOPQRSTUVWXYZ0123456789-._~/%=&?+:@"

// mkURL returns a comma-free URL of exactly n bytes (n >= 40) that embeds the layer
// ordinal and a random token, so that one layer's URL is never equal to another's.
func mkURL(rng *prng.R, ord, k, n int) string {
	base := fmt.Sprintf("https://cdn%d.example.net/L%d/u%d/%x/", rng.Intn(9), ord, k, rng.U64())
	if n < len(base) {
		n = len(base)
	}
	b := make([]byte, 0, n)
	b = append(b, base...)
	for len(b) < n {
		b = append(b, urlAlphabet[rng.Intn(len(urlAlphabet))])
	}
	return string(b)
}

// url list classes
func genURLs(rng *prng.R, ord int, class int) ([]string, string) {
	switch class {
	case 0:
		return nil, "urls:none"
	case 1: // 1-3 short
		n := rng.Range(1, 3)
		var us []string
		for k := 0; k < n; k++ {
			us = append(us, mkURL(rng, ord, k, rng.Range(40, 120)))
		}
		return us, "urls:short"
	case 2: // many, summing well above 4 KiB
		n := rng.Range(30, 90)
		var us []string
		for k := 0; k < n; k++ {
			us = append(us, mkURL(rng, ord, k, rng.Range(50, 220)))
		}
		return us, "urls:many>4KiB"
	case 3: // one URL that alone exceeds the limit, somewhere in a short list
		n := rng.Range(1, 4)
		big := rng.Intn(n)
		var us []string
		for k := 0; k < n; k++ {
			if k == big {
				us = append(us, mkURL(rng, ord, k, rng.Range(4050, 5200)))
			} else {
				us = append(us, mkURL(rng, ord, k, rng.Range(40, 100)))
			}
		}
		return us, "urls:single>4KiB"
	case 4: // joined length right around the limit of the urls labels
		total := rng.Range(maxLabel-len(urlsPrefix)-14, maxLabel-len(urlsKey)+6)
		n := rng.Range(1, 5)
		// n URLs, n-1 commas
		rest := total - (n - 1)
		var us []string
		for k := 0; k < n; k++ {
			l := rest / (n - k)
			if k < n-1 && l > 90 {
				l -= rng.Intn(40)
			}
			us = append(us, mkURL(rng, ord, k, l))
			rest -= len(us[k])
		}
		return us, "urls:boundary"
	case 5:
		return []string{""}, "urls:[empty]"
	case 6: // an empty string among real URLs
		us := []string{mkURL(rng, ord, 0, 60), mkURL(rng, ord, 1, 60)}
		pos := rng.Intn(3)
		us = append(us[:pos:pos], append([]string{""}, us[pos:]...)...)
		return us, "urls:with-empty"
	default: // the same URL twice
		u := mkURL(rng, ord, 0, 70)
		return []string{u, mkURL(rng, ord, 1, 50), u}, "urls:duplicates"
	}
}

func genDigest(rng *prng.R, algoMode int) digest.Digest {
	b := rng.Bytes(16)
	a := digest.SHA256
	switch algoMode {
	case 1:
		a = digest.SHA512
	case 2:
		switch rng.Intn(4) {
		case 0:
			a = digest.SHA512
		case 1:
			a = digest.SHA384
		}
	}
	return a.FromBytes(b)
}

func genRef(rng *prng.R) string {
	host := rng.PickS("registry.example.com", "localhost:5000", "10.0.0.1:5000", "ghcr.io", "docker.io", "registry-1.example.org:443", "r.local")
	if rng.Chance(1, 5) {
		host = fmt.Sprintf("r-%x.example.org", rng.U64()&0xffffff)
	}
	const alpha = "abcdefghijklmnopqrstuvwxyz0123456789"
	comp := func(maxLen int) string {
		n := rng.Range(1, maxLen)
		b := make([]byte, n)
		for i := range b {
			b[i] = alpha[rng.Intn(len(alpha))]
		}
		if n > 4 && rng.Bool() {
			b[n/2] = "._-"[rng.Intn(3)]
		}
		return string(b)
	}
	nc := rng.Range(1, 4)
	maxLen := 12
	if rng.Chance(1, 10) {
		maxLen = 60 // long repository names (<= 255 in total)
	}
	parts := []string{host}
	for i := 0; i < nc; i++ {
		parts = append(parts, comp(maxLen))
	}
	loc := strings.Join(parts, "/")
	tag := rng.PickS("latest", "v1.2.3", "20240101-esgz", "a", "org.opencontainers_tag-1")
	dg := "@" + genDigest(rng, rng.Pick(0, 0, 0, 1)).String()
	switch rng.Intn(10) {
	case 0:
		return loc
	case 1, 2:
		return loc + dg
	case 3:
		return loc + ":" + tag + dg
	default:
		return loc + ":" + tag
	}
}

func genPrefetch(rng *prng.R) int64 {
	switch rng.Intn(8) {
	case 0:
		return 0
	case 1:
		return 1
	case 2:
		return -1
	case 3:
		return 10 * 1024 * 1024
	case 4:
		return math.MaxInt64
	case 5:
		return math.MinInt64
	default:
		return int64(rng.U64() >> uint(rng.Intn(63)))
	}
}

func genAnn(rng *prng.R) map[string]string {
	switch rng.Intn(5) {
	case 0, 1:
		return nil
	case 2:
		return map[string]string{"containerd.io/snapshot/stargz/toc.digest": genDigest(rng, 0).String()}
	case 3:
		return map[string]string{
			"containerd.io/snapshot/stargz/toc.digest": genDigest(rng, 0).String(),
			"io.containers.estargz.uncompressed-size":  fmt.Sprint(rng.Intn(1 << 30)),
		}
	default:
		return map[string]string{"org.opencontainers.image.title": fmt.Sprintf("t%x", rng.U64())}
	}
}

func genCase(rng *prng.R) *mcase {
	m := &mcase{Name: "rand", Ref: genRef(rng), Prefetch: genPrefetch(rng)}
	dockerM := rng.Chance(2, 5)
	if dockerM {
		m.MT = images.MediaTypeDockerSchema2Manifest
	} else {
		m.MT = ocispec.MediaTypeImageManifest
	}
	algoMode := 0
	switch x := rng.Intn(100); {
	case x < 72:
	case x < 88:
		algoMode = 1
		m.Shape = append(m.Shape, "digests:sha512")
	default:
		algoMode = 2
		m.Shape = append(m.Shape, "digests:mixed")
	}
	cfgMT := ocispec.MediaTypeImageConfig
	if dockerM {
		cfgMT = images.MediaTypeDockerSchema2Config
	}
	m.Config = child{MT: cfgMT, Dig: genDigest(rng, algoMode), Size: int64(rng.Range(100, 9000))}
	if rng.Chance(1, 20) {
		m.Config.URLs, _ = genURLs(rng, 999, 1)
	}

	var n int
	switch x := rng.Intn(100); {
	case x < 3:
		n = 0
	case x < 7:
		n = 1
	case x < 45:
		n = rng.Range(2, 6)
	case x < 88:
		n = rng.Range(7, 40)
	default:
		n = rng.Range(57, 80) // enough sha256 digests to overflow the layers label
	}
	nonLayerMode := 0
	switch x := rng.Intn(100); {
	case x < 42:
	case x < 68:
		nonLayerMode = 1 // exactly one, at an interior position
	case x < 90:
		nonLayerMode = 2 // every position with probability 1/4
	case x < 96:
		nonLayerMode = 3 // leading
	default:
		nonLayerMode = 4 // only non-layer media types
	}
	urlMode := rng.Pick(0, 1, 2, 3, 3)
	dupMode := rng.Chance(1, 2)
	onePos := -1
	if nonLayerMode == 1 && n >= 3 {
		onePos = rng.Range(1, n-2)
	} else if nonLayerMode == 1 && n > 0 {
		onePos = rng.Intn(n)
	}
	sawNonLayer, sawDup := false, false
	for i := 0; i < n; i++ {
		var c child
		c.Size = int64(rng.Range(32, 1<<28))
		nonLayer := false
		switch nonLayerMode {
		case 1:
			nonLayer = i == onePos
		case 2:
			nonLayer = rng.Chance(1, 4)
		case 3:
			nonLayer = i == 0
		case 4:
			nonLayer = true
		}
		if nonLayer {
			sawNonLayer = true
			c.MT = nonLayerMTs[rng.Intn(len(nonLayerMTs))]
			c.Dig = genDigest(rng, algoMode)
			if rng.Chance(1, 3) {
				c.URLs, _ = genURLs(rng, 1000+i, rng.Pick(1, 1, 2))
			}
			if rng.Chance(1, 4) {
				c.Ann = genAnn(rng)
			}
			m.Layers = append(m.Layers, c)
			continue
		}
		c.Layer = true
		foreign := rng.Chance(1, 5)
		switch {
		case foreign:
			c.MT = layerMTsForeign[rng.Intn(len(layerMTsForeign))]
		case dockerM && rng.Chance(4, 5):
			c.MT = layerMTsDocker[rng.Intn(len(layerMTsDocker))]
		default:
			c.MT = layerMTsOCI[rng.Intn(len(layerMTsOCI))]
		}
		c.Ann = genAnn(rng)
		// repeated digest?
		var earlier []int
		for j := range m.Layers {
			if m.Layers[j].Layer {
				earlier = append(earlier, j)
			}
		}
		if dupMode && len(earlier) > 0 && rng.Chance(1, 5) {
			src := m.Layers[earlier[rng.Intn(len(earlier))]]
			c.Dig = src.Dig
			c.Size = src.Size
			sawDup = true
			if rng.Chance(4, 5) {
				c.MT = src.MT
				c.URLs = append([]string(nil), src.URLs...)
				m.Layers = append(m.Layers, c)
				continue
			}
			m.Shape = append(m.Shape, "repeated-digest-different-urls")
		} else {
			c.Dig = genDigest(rng, algoMode)
		}
		class := 0
		switch urlMode {
		case 0:
		case 1:
			if foreign {
				class = rng.Pick(1, 1, 2, 4)
			}
		case 2:
			class = 1
		default:
			class = rng.Pick(0, 0, 1, 1, 1, 1, 2, 3, 4, 4, 5, 6, 7)
		}
		var tag string
		c.URLs, tag = genURLs(rng, i, class)
		if class >= 2 {
			m.Shape = append(m.Shape, tag)
		}
		m.Layers = append(m.Layers, c)
	}
	if sawNonLayer {
		m.Shape = append(m.Shape, fmt.Sprintf("non-layer-mode-%d", nonLayerMode))
	}
	if sawDup {
		m.Shape = append(m.Shape, "repeated-digests")
	}
	if n >= 57 {
		m.Shape = append(m.Shape, "layers>=57")
	}
	return m
}

// fixedCases: small hand-written manifests that run before the random ones, so that a
// finding is first demonstrated on a minimal input.
func fixedCases() []*mcase {
	d := func(s string) digest.Digest { return digest.FromString(s) }
	L := func(name string, urls ...string) child {
		return child{MT: ocispec.MediaTypeImageLayerGzip, Dig: d(name), Size: 1000, URLs: urls, Layer: true}
	}
	X := func(name string) child {
		return child{MT: "application/vnd.in-toto+json", Dig: d(name), Size: 10}
	}
	cfg := child{MT: ocispec.MediaTypeImageConfig, Dig: d("config"), Size: 100}
	mk := func(name string, layers ...child) *mcase {
		return &mcase{Name: "fixed:" + name, Ref: "registry.example.com/app/web:v1", Prefetch: 10 << 20, MT: ocispec.MediaTypeImageManifest, Config: cfg, Layers: layers}
	}
	big := func(ord, n, l int) []string {
		var us []string
		for k := 0; k < n; k++ {
			us = append(us, fmt.Sprintf("https://cdn.example.net/L%d/u%d/%s", ord, k, strings.Repeat("x", l)))
		}
		return us
	}
	var sixty []child
	for i := 0; i < 60; i++ {
		sixty = append(sixty, L(fmt.Sprintf("s%d", i), fmt.Sprintf("https://cdn.example.net/s%d", i)))
	}
	return []*mcase{
		mk("three-contiguous-layers", L("l0", "https://a.example/l0"), L("l1", "https://a.example/l1"), L("l2", "https://a.example/l2")),
		mk("no-urls", L("l0"), L("l1"), L("l2")),
		// the minimal demonstration of the alignment defect: one non-layer child between layers
		mk("non-layer-child-between-layers", L("l0", "https://a.example/l0"), X("attestation"), L("l1", "https://a.example/l1"), L("l2", "https://a.example/l2")),
		mk("non-layer-child-first", X("attestation"), L("l0", "https://a.example/l0"), L("l1", "https://a.example/l1")),
		mk("repeated-digest", L("l0", "https://a.example/l0"), L("l1", "https://a.example/l1"), L("l0", "https://a.example/l0"), L("l2", "https://a.example/l2")),
		mk("url-lists-over-4KiB", L("l0", big(0, 60, 100)...), L("l1", big(1, 3, 3000)...), L("l2", big(2, 1, 5000)...), L("l3", "https://a.example/l3")),
		mk("sixty-layers", sixty...),
		mk("single-layer", L("l0", "https://a.example/l0")),
		mk("foreign-docker", child{MT: images.MediaTypeDockerSchema2LayerForeignGzip, Dig: d("f0"), Size: 5, URLs: []string{"https://ms.example/f0", "https://ms2.example/f0"}, Layer: true},
			child{MT: images.MediaTypeDockerSchema2LayerGzip, Dig: d("f1"), Size: 5, Layer: true},
			child{MT: images.MediaTypeDockerSchema2LayerForeign, Dig: d("f2"), Size: 5, URLs: []string{"https://ms.example/f2"}, Layer: true}),
	}
}

// ---------------------------------------------------------------------------
// containerd side: provider + enumeration

type memProvider map[digest.Digest][]byte

type memReaderAt struct{ *bytes.Reader }

func (memReaderAt) Close() error  { return nil }
func (r memReaderAt) Size() int64 { return r.Reader.Size() }

func (p memProvider) ReaderAt(ctx context.Context, desc ocispec.Descriptor) (content.ReaderAt, error) {
	b, ok := p[desc.Digest]
	if !ok {
		return nil, fmt.Errorf("%s: %w", desc.Digest, errdefs.ErrNotFound)
	}
	return memReaderAt{bytes.NewReader(b)}, nil
}

func toDesc(c child) ocispec.Descriptor {
	d := ocispec.Descriptor{MediaType: c.MT, Digest: c.Dig, Size: c.Size}
	if c.URLs != nil {
		d.URLs = append([]string(nil), c.URLs...)
	}
	if c.Ann != nil {
		d.Annotations = map[string]string{}
		for k, v := range c.Ann {
			d.Annotations[k] = v
		}
	}
	return d
}

type manifestDoc struct {
	SchemaVersion int                  `json:"schemaVersion"`
	MediaType     string               `json:"mediaType"`
	Config        ocispec.Descriptor   `json:"config"`
	Layers        []ocispec.Descriptor `json:"layers"`
}

func (m *mcase) store() (memProvider, ocispec.Descriptor) {
	doc := manifestDoc{SchemaVersion: 2, MediaType: m.MT, Config: toDesc(m.Config), Layers: []ocispec.Descriptor{}}
	for _, l := range m.Layers {
		doc.Layers = append(doc.Layers, toDesc(l))
	}
	b, err := json.Marshal(doc)
	if err != nil {
		panic(err)
	}
	dg := digest.FromBytes(b)
	return memProvider{dg: b}, ocispec.Descriptor{MediaType: m.MT, Digest: dg, Size: int64(len(b))}
}

// ---------------------------------------------------------------------------
// oracle helpers

func normURLs(us []string) []string {
	var out []string
	for _, u := range us {
		if u != "" { // "" is not a URL
			out = append(out, u)
		}
	}
	return out
}

// urlsAgree: got must be a prefix of want and equal when want certainly fits a label.
// returns "" when fine, otherwise the failed sub-clause.
func urlsAgree(got, want []string) (string, bool) {
	g, w := normURLs(got), normURLs(want)
	if len(g) > len(w) {
		return "not-a-prefix", false
	}
	for i := range g {
		if g[i] != w[i] {
			return "not-a-prefix", false
		}
	}
	truncated := len(g) < len(w)
	if truncated && len(strings.Join(w, ",")) <= mustFitJoined {
		return "truncated-although-it-fits", true
	}
	return "", truncated
}

var (
	digitsRe = regexp.MustCompile(`[0-9]+`)
	quotedRe = regexp.MustCompile(`"[^"]*"`)
	digestRe = regexp.MustCompile(`[a-z0-9]+:[0-9a-fA-F]{16,}`)
)

func keyClass(k string) string {
	if strings.HasPrefix(k, urlsPrefix) {
		return urlsPrefix + "<i>"
	}
	return k
}

func errClass(err error) string {
	s := err.Error()
	if len(s) > 400 {
		s = s[:400]
	}
	s = quotedRe.ReplaceAllString(s, `"…"`)
	s = digestRe.ReplaceAllString(s, "<digest>")
	s = digitsRe.ReplaceAllString(s, "N")
	if len(s) > 120 {
		s = s[:120] + "…"
	}
	return s
}

type checker struct {
	r         *vf.Run
	hostCalls int
	hosts     source.RegistryHosts
}

func newChecker(r *vf.Run) *checker {
	c := &checker{r: r}
	c.hosts = func(rs reference.Spec) ([]docker.RegistryHost, error) {
		c.hostCalls++
		return []docker.RegistryHost{{Host: "marker.invalid"}}, nil
	}
	return c
}

type layerResult struct {
	neighboursChecked      int
	neighbourURLsNonEmpty  int
	layersTruncated        bool
	urlsTruncated          int
	nonLayerBetweenChecked int
}

// runWriter enumerates the manifest through containerd's ChildrenHandler wrapped by the writer under test.
func runWriter(fl *flavour, m *mcase) (out []ocispec.Descriptor, base []ocispec.Descriptor, err error, panicked bool, pv any, stack string) {
	prov, mdesc := m.store()
	ctx := context.Background()
	base, berr := images.Children(ctx, prov, mdesc)
	if berr != nil {
		return nil, nil, fmt.Errorf("harness: containerd images.Children failed on the generated manifest: %w", berr), false, nil, ""
	}
	panicked, pv, stack = vf.Recover(func() {
		h := fl.wrap(m.Ref, m.Prefetch)(images.ChildrenHandler(prov))
		out, err = h.Handle(ctx, mdesc)
		// childless descriptors pass through the same wrapper during a pull
		_, _ = h.Handle(ctx, toDesc(m.Config))
		if len(m.Layers) > 0 {
			_, _ = h.Handle(ctx, toDesc(m.Layers[0]))
		}
	})
	return
}

func crashSite(stack string) string {
	for _, ln := range strings.Split(stack, "\n") {
		ln = strings.TrimSpace(ln)
		if strings.HasPrefix(ln, "github.com/containerd/stargz-snapshotter/") {
			if i := strings.LastIndex(ln, "("); i > 0 {
				ln = ln[:i]
			}
			return strings.TrimPrefix(ln, "github.com/containerd/stargz-snapshotter/")
		}
	}
	return "unknown"
}

func (c *checker) checkCase(caseIdx int, m *mcase, rng *prng.R) {
	r := c.r
	r.Eval(1)
	desc := m.describe()
	kids := m.children()
	nLayer := 0
	for i, k := range kids {
		if k.Layer != images.IsLayerType(k.MT) {
			r.Inconclusive("generator and containerd images.IsLayerType disagree on media type " + k.MT)
			return
		}
		if k.Layer {
			nLayer++
		}
		_ = i
	}
	for _, s := range m.Shape {
		r.Distinct("manifest_shapes", s)
	}
	exercised := false
	for _, fl := range flavours {
		replayBase := map[string]any{"case": caseIdx, "name": m.Name, "flavour": fl.name, "manifest": desc,
			"how": "VERIF_SEED/tier/case index regenerate the manifest (fixed:* cases are literal in fixedCases())"}
		out, base, err, panicked, pv, stack := runWriter(fl, m)
		if panicked {
			r.Violate("panic:"+fl.name+":writer@"+crashSite(stack), fmt.Sprintf("the %s label handler panicked: %v", fl.name, pv), withKV(replayBase, "stack", stack))
			continue
		}
		if base == nil {
			r.Inconclusive(err.Error())
			continue
		}
		if err != nil {
			r.Violate(fl.name+":writer-error", "the label handler failed on a well-formed manifest: "+errClass(err), replayBase)
			continue
		}
		if len(out) != len(kids) || len(base) != len(kids) {
			r.Violate(fl.name+":children-altered", fmt.Sprintf("handler returned %d children, containerd enumerates %d", len(out), len(base)), replayBase)
			continue
		}
		r.Count("writer_runs_"+fl.name, 1)
		reader := fl.reader(c.hosts)
		var layerIdx []int
		for i := range kids {
			if out[i].Digest != kids[i].Dig || out[i].MediaType != kids[i].MT {
				r.Violate(fl.name+":children-altered", "handler changed digest or media type of a child", replayBase)
			}
			if kids[i].Layer {
				layerIdx = append(layerIdx, i)
			} else {
				r.Count("non_layer_children_seen", 1)
			}
		}
		// descriptors that get the exhaustive label-subset treatment: first, last, one random
		// one of {first, last, random} exhaustively (rotating), the other two with random subsets only
		mut := map[int]int{}
		if len(layerIdx) > 0 {
			cand := []int{layerIdx[0], layerIdx[len(layerIdx)-1], layerIdx[rng.Intn(len(layerIdx))]}
			for _, x := range cand {
				mut[x] = 1
			}
			rot := caseIdx
			if rot < 0 {
				rot = -rot
			}
			mut[cand[rot%3]] = 2
		}
		for _, ti := range layerIdx {
			replay := withKV(replayBase, "target_child_index", ti)
			res, lbls, ok := c.checkLayer(fl, reader, m, kids, base, out, ti, replay)
			r.Count("layer_descriptors_checked_"+fl.name, 1)
			r.Count("neighbours_checked", res.neighboursChecked)
			r.Count("neighbours_with_urls_checked", res.neighbourURLsNonEmpty)
			r.Count("neighbours_behind_a_non_layer_child_checked", res.nonLayerBetweenChecked)
			r.Count("url_lists_truncated", res.urlsTruncated)
			if res.layersTruncated {
				r.Count("neighbour_lists_truncated", 1)
			}
			if res.neighbourURLsNonEmpty > 0 {
				exercised = true
			}
			if ok && mut[ti] > 0 {
				c.mutate(fl, reader, lbls, rng, replay, mut[ti] == 2)
			}
		}
	}
	if exercised && nLayer >= 2 {
		r.NonTrivial(desc)
	}
	if (caseIdx >= 0 && caseIdx < 3) || caseIdx == -1 || caseIdx == -3 || caseIdx == -5 || caseIdx == -6 {
		r.Sample(map[string]any{"case": caseIdx, "name": m.Name, "manifest": trunc(desc, 1500), "shape": m.Shape})
	}
}

func trunc(s string, n int) string {
	if len(s) > n {
		return s[:n] + "…"
	}
	return s
}

func withKV(m map[string]any, k string, v any) map[string]any {
	out := map[string]any{}
	for a, b := range m {
		out[a] = b
	}
	out[k] = v
	return out
}

// checkLayer applies clauses V, R, P to the layer descriptor at children index ti.
// Returns the labels (for the mutation stage) and whether the intact labels were accepted.
func (c *checker) checkLayer(fl *flavour, reader source.GetSources, m *mcase, kids []child, base, out []ocispec.Descriptor, ti int, replay map[string]any) (res layerResult, lbls map[string]string, ok bool) {
	r := c.r
	ann := out[ti].Annotations
	// V: every label the writer added or changed is valid
	nProduced := 0
	for k, v := range ann {
		if old, had := base[ti].Annotations[k]; had && old == v {
			continue
		}
		nProduced++
		if err := labels.Validate(k, v); err != nil {
			r.Violate(fl.name+":label-fails-validate:"+keyClass(k), fmt.Sprintf("produced label %s (%d+%d bytes) is rejected by containerd's labels.Validate", keyClass(k), len(k), len(v)), withKV(replay, "label_key", k))
		}
	}
	r.Count("labels_validated", nProduced)
	for k, v := range base[ti].Annotations {
		if ann[k] != v {
			r.Distinct("preexisting_annotations_changed", keyClass(k))
		}
	}
	// what the unpacker passes to the snapshotter
	lbls = snapshots.FilterInheritedLabels(ann)

	// P: prefetch-size label (the consumer, fs.Mount, does strconv.ParseInt(v, 10, 64))
	if v, has := lbls[config.TargetPrefetchSizeLabel]; !has {
		r.Violate(fl.name+":prefetch-label-missing", "the prefetch size label is not produced", replay)
	} else if p, err := strconv.ParseInt(v, 10, 64); err != nil || p != m.Prefetch {
		r.Violate(fl.name+":prefetch-label-does-not-round-trip", fmt.Sprintf("prefetch size %d was written as %q", m.Prefetch, trunc(v, 40)), replay)
	} else {
		r.Count("prefetch_label_round_trips", 1)
	}

	// R: intact labels reconstruct the source
	var srcs []source.Source
	var err error
	panicked, pv, stack := vf.Recover(func() { srcs, err = reader(lbls) })
	if panicked {
		r.Violate("panic:"+fl.name+":reader@"+crashSite(stack), fmt.Sprintf("reader panicked on produced labels: %v", pv), withKV(replay, "stack", stack))
		return res, lbls, false
	}
	if err != nil {
		r.Violate(fl.name+":reader-rejects-intact-labels", "the reader rejects the labels the writer produced: "+errClass(err), withKV(replay, "layers_label", trunc(lbls[fl.layersKey], 300)))
		return res, lbls, false
	}
	if len(srcs) == 0 {
		r.Violate(fl.name+":no-source", "the reader returned no source and no error", replay)
		return res, lbls, false
	}
	wantRef, perr := reference.Parse(m.Ref)
	if perr != nil {
		r.Inconclusive("generated reference is not accepted by containerd's reference.Parse")
		return res, lbls, false
	}
	target := kids[ti]
	// expected neighbours: layer-typed children that follow, target digest excluded
	var exp []int
	for j := ti + 1; j < len(kids); j++ {
		if kids[j].Layer && kids[j].Dig != target.Dig {
			exp = append(exp, j)
		}
	}
	for _, s := range srcs {
		if s.Name != wantRef {
			r.Violate(fl.name+":reference-differs", fmt.Sprintf("reconstructed reference %q, pulled %q", trunc(s.Name.String(), 200), trunc(m.Ref, 200)), replay)
		}
		if s.Target.Digest != target.Dig {
			r.Violate(fl.name+":digest-differs", fmt.Sprintf("reconstructed target digest %s, layer is %s", s.Target.Digest, target.Dig), replay)
		}
		if s.Hosts == nil {
			r.Violate(fl.name+":hosts-not-passed", "source carries no registry hosts function", replay)
		} else {
			before := c.hostCalls
			hs, _ := s.Hosts(s.Name)
			if c.hostCalls != before+1 || len(hs) != 1 || hs[0].Host != "marker.invalid" {
				r.Violate(fl.name+":hosts-not-passed", "source carries a different registry hosts function than the one configured", replay)
			}
		}
		if why, tr := urlsAgree(s.Target.URLs, target.URLs); why != "" {
			r.Violate(fl.name+":target-urls-differ:"+why, fmt.Sprintf("target URLs: got %d, descriptor has %d", len(normURLs(s.Target.URLs)), len(normURLs(target.URLs))), replay)
		} else if tr {
			res.urlsTruncated++
		}
		ls := s.Manifest.Layers
		if len(ls) == 0 || ls[0].Digest != target.Dig {
			r.Violate(fl.name+":first-manifest-layer-not-target", "Manifest.Layers[0] of the source is not the target layer", replay)
			continue
		}
		if why, _ := urlsAgree(ls[0].URLs, target.URLs); why != "" {
			r.Violate(fl.name+":target-urls-differ:"+why, "URLs of Manifest.Layers[0] differ from the target descriptor's", replay)
		}
		got := ls[1:]
		if len(got) > len(exp) {
			r.Violate(fl.name+":neighbours-not-a-prefix:too-many", fmt.Sprintf("%d neighbours reconstructed, only %d layers follow the target", len(got), len(exp)), replay)
			continue
		}
		if len(got) < len(exp) {
			res.layersTruncated = true
		}
		nonLayerSeen := false // a non-layer child lies between the target and the current neighbour
		next := ti + 1
		badKeys := []string{}
		bad := map[string][]string{}
		for k, g := range got {
			j := exp[k]
			for ; next < j; next++ {
				if !kids[next].Layer {
					nonLayerSeen = true
				}
			}
			scenario := "contiguous-layers"
			if nonLayerSeen {
				scenario = "non-layer-child-between-layers"
			}
			if g.Digest != kids[j].Dig {
				r.Violate(fl.name+":neighbours-not-a-prefix:"+scenario, fmt.Sprintf("neighbour #%d is %s, the next following layer is %s (child %d)", k, shortDig(g.Digest), shortDig(kids[j].Dig), j), replay)
				break
			}
			res.neighboursChecked++
			if nonLayerSeen {
				res.nonLayerBetweenChecked++
			}
			// own URLs: any layer-typed child with the same digest is the same layer
			agree, trunc1 := false, false
			for _, o := range kids {
				if o.Layer && o.Dig == g.Digest {
					if why, tr := urlsAgree(g.URLs, o.URLs); why == "" {
						agree, trunc1 = true, tr
						break
					}
				}
			}
			if len(normURLs(kids[j].URLs)) > 0 {
				res.neighbourURLsNonEmpty++
			}
			if agree {
				if trunc1 {
					res.urlsTruncated++
				}
				continue
			}
			// classify for the message: lost, or somebody else's
			whose := "no layer of the manifest"
			gn := normURLs(g.URLs)
			if len(gn) == 0 {
				whose = "nobody (its URLs were lost)"
			} else {
				for oi, o := range kids {
					if o.Dig != g.Digest && len(normURLs(o.URLs)) > 0 {
						if why, _ := urlsAgree(g.URLs, o.URLs); why == "" {
							whose = fmt.Sprintf("child %d (%s)", oi, shortDig(o.Dig))
							break
						}
					}
				}
			}
			// "misaligned" = behind a non-layer child the neighbour got nothing or ANOTHER layer's
			// list (an index shift); anything else (garbled, reordered, holes) is "wrong".
			clause := "neighbour-urls-wrong"
			if nonLayerSeen && whose != "no layer of the manifest" {
				clause = "neighbour-urls-misaligned"
			}
			key := fl.name + ":" + clause + ":" + scenario
			if _, seen := bad[key]; !seen {
				badKeys = append(badKeys, key)
			}
			if len(bad[key]) < 4 {
				bad[key] = append(bad[key], fmt.Sprintf("neighbour #%d (child %d, %s) got the URLs of %s instead of its own %d URL(s)", k, j, shortDig(g.Digest), whose, len(normURLs(kids[j].URLs))))
			}
		}
		for _, key := range badKeys {
			r.Violate(key, fmt.Sprintf("source reconstructed for target child %d: ", ti)+strings.Join(bad[key], "; "), withKV(replay, "labels", labelDump(lbls)))
		}
	}
	return res, lbls, true
}

func labelDump(l map[string]string) map[string]string {
	out := map[string]string{}
	n := 0
	keys := make([]string, 0, len(l))
	for k := range l {
		keys = append(keys, k)
	}
	sort.Strings(keys)
	for _, k := range keys {
		if n++; n > 24 {
			out["…"] = fmt.Sprintf("%d more", len(l)-24)
			break
		}
		out[k] = trunc(l[k], 400)
	}
	return out
}

// ---------------------------------------------------------------------------
// clause M: labels removed or corrupted

func corruptValue(fl *flavour, key, old string, rng *prng.R) string {
	otherDigest := fmt.Sprintf("sha256:%016x%016x%016x%016x", rng.U64(), rng.U64(), rng.U64(), rng.U64())
	switch {
	case key == fl.refKey:
		switch rng.Intn(12) {
		case 0:
			return ""
		case 1:
			return " "
		case 2:
			return "https://" + old
		case 3:
			return "/" + old
		case 4:
			return ":latest"
		case 5:
			return "%zz" + old
		case 6:
			return "@" + otherDigest
		case 7:
			if len(old) > 2 { // still well-formed, different
				return old[:len(old)-1]
			}
			return old + "x"
		case 8:
			return old + "x" // still well-formed, different
		case 9:
			return "other.example.org/" + old // well-formed, different registry
		case 10:
			return "host/with space:tag"
		default:
			return "\x00" + old
		}
	case key == fl.digestKey:
		switch rng.Intn(12) {
		case 0:
			return ""
		case 1:
			return "sha256:"
		case 2:
			return strings.Replace(old, ":", ":zz", 1)
		case 3:
			return old[:len(old)-1]
		case 4:
			return strings.ToUpper(old)
		case 5:
			return "md5:d41d8cd98f00b204e9800998ecf8427e"
		case 6:
			return old + ","
		case 7:
			return otherDigest // well-formed, different
		case 8:
			return old + " "
		case 9:
			if i := strings.IndexByte(old, ':'); i >= 0 {
				return old[i+1:]
			}
			return "x"
		case 10:
			return old + "," + otherDigest
		default:
			return "sha256:" + strings.Repeat("0", 63)
		}
	case key == fl.layersKey:
		switch rng.Intn(8) {
		case 0:
			return ""
		case 1:
			return ","
		case 2:
			return old + ","
		case 3:
			return "," + old
		case 4:
			return otherDigest + "," + old // well-formed, different list
		case 5:
			return "junk," + old
		case 6:
			if len(old) > 5 {
				return old[:len(old)-3]
			}
			return "x"
		default:
			return strings.Replace(old, ",", ",,", 1)
		}
	case key == config.TargetPrefetchSizeLabel:
		return rng.PickS("", "abc", "1e3", "0x10", "99999999999999999999", " 7", "-")
	default: // urls, urls.<i>, anything else
		return rng.PickS("", ",", ",,,", "not a url", old+",https://evil.example/x", "https://evil.example/y")
	}
}

// judgeMutated applies clause M to one mutated label map.
func (c *checker) judgeMutated(fl *flavour, reader source.GetSources, l map[string]string, what []string, replay map[string]any) {
	r := c.r
	r.Count("mutated_label_sets", 1)
	refV, refHas := l[fl.refKey]
	digV, digHas := l[fl.digestKey]
	var wantRef reference.Spec
	var wantDig digest.Digest
	bad := ""
	if !refHas {
		bad = "reference-removed"
	} else if sp, err := reference.Parse(refV); err != nil {
		bad = "reference-malformed"
	} else {
		wantRef = sp
	}
	if bad == "" {
		if !digHas {
			bad = "digest-removed"
		} else if d, err := digest.Parse(digV); err != nil {
			bad = "digest-malformed"
		} else {
			wantDig = d
		}
	}
	var srcs []source.Source
	var err error
	panicked, pv, stack := vf.Recover(func() { srcs, err = reader(l) })
	rp := func() map[string]any {
		return withKV(withKV(replay, "mutation", strings.Join(what, "; ")), "mutated_mandatory_labels", map[string]any{fl.refKey: trunc(refV, 300), fl.digestKey: trunc(digV, 200), "ref_present": refHas, "digest_present": digHas})
	}
	if panicked {
		r.Violate("panic:"+fl.name+":reader@"+crashSite(stack), fmt.Sprintf("reader panicked on mutated labels: %v", pv), withKV(rp(), "stack", stack))
		return
	}
	if err != nil {
		r.Count("mutated_rejected", 1)
		r.Distinct("reader_errors", errClass(err))
		return
	}
	if bad != "" {
		r.Violate(fl.name+":bad-mandatory-label-accepted:"+bad, "the reader produced a source although a mandatory label is missing or malformed ("+bad+")", rp())
		return
	}
	if len(srcs) == 0 {
		r.Violate(fl.name+":no-source", "the reader returned no source and no error (mutated labels)", rp())
		return
	}
	for _, s := range srcs {
		if s.Name != wantRef || s.Target.Digest != wantDig {
			r.Violate(fl.name+":mutated-labels-resolve-to-different-source",
				fmt.Sprintf("labels spell %q / %s, the source is %q / %s", trunc(refV, 120), trunc(digV, 90), trunc(s.Name.String(), 120), s.Target.Digest), rp())
			return
		}
		if len(s.Manifest.Layers) == 0 || s.Manifest.Layers[0].Digest != wantDig {
			r.Violate(fl.name+":first-manifest-layer-not-target", "Manifest.Layers[0] of the source is not the target layer (mutated labels)", rp())
			return
		}
	}
	r.Count("mutated_accepted_same_source", 1)
}

func (c *checker) mutate(fl *flavour, reader source.GetSources, lbls map[string]string, rng *prng.R, replay map[string]any, exhaustive bool) {
	// structural keys: all enumerated exhaustively in subsets of size 1..3, each member removed or corrupted
	keys := []string{fl.refKey, fl.digestKey, fl.layersKey, urlsKey, config.TargetPrefetchSizeLabel}
	keys = append(keys, fl.extraKeys...)
	var urlIdx []string
	for k := range lbls {
		if strings.HasPrefix(k, urlsPrefix) {
			urlIdx = append(urlIdx, k)
		}
	}
	sort.Strings(urlIdx)
	if len(urlIdx) > 0 {
		keys = append(keys, urlIdx[0])
		if len(urlIdx) > 1 {
			keys = append(keys, urlIdx[1+rng.Intn(len(urlIdx)-1)])
		}
	}
	var present []string
	for _, k := range keys {
		if _, ok := lbls[k]; ok {
			present = append(present, k)
		}
	}
	// work on one private copy, mutated in place and restored after each judgement
	l := make(map[string]string, len(lbls))
	for k, v := range lbls {
		l[k] = v
	}
	apply := func(subset []string, mode uint) {
		var what []string
		for i, k := range subset {
			if mode&(1<<uint(i)) == 0 {
				delete(l, k)
				what = append(what, "remove "+keyClass(k))
			} else {
				l[k] = corruptValue(fl, k, lbls[k], rng)
				what = append(what, "corrupt "+keyClass(k)+" -> "+strconv.Quote(trunc(l[k], 80)))
			}
		}
		c.judgeMutated(fl, reader, l, what, replay)
		for _, k := range subset {
			l[k] = lbls[k]
		}
	}
	n := len(present)
	if !exhaustive {
		n = 0
	} else {
		c.r.Count("descriptors_with_exhaustive_label_subsets", 1)
	}
	for a := 0; a < n; a++ {
		for m := uint(0); m < 2; m++ {
			apply([]string{present[a]}, m)
		}
		for b := a + 1; b < n; b++ {
			for m := uint(0); m < 4; m++ {
				apply([]string{present[a], present[b]}, m)
			}
			for d := b + 1; d < n; d++ {
				for m := uint(0); m < 8; m++ {
					apply([]string{present[a], present[b], present[d]}, m)
				}
			}
		}
	}
	// random subsets over ALL labels (including every urls.<i>)
	all := make([]string, 0, len(lbls))
	for k := range lbls {
		all = append(all, k)
	}
	sort.Strings(all)
	for t := 0; t < 24 && len(all) > 0; t++ {
		sz := rng.Range(1, 3)
		if sz > len(all) {
			sz = len(all)
		}
		perm := rng.Perm(len(all))
		var sub []string
		for _, p := range perm[:sz] {
			sub = append(sub, all[p])
		}
		apply(sub, uint(rng.Intn(1<<uint(sz))))
	}
}

// ---------------------------------------------------------------------------

func main() {
	logrus.SetLevel(logrus.PanicLevel)
	log.L.Logger.SetLevel(logrus.PanicLevel)
	vf.Main("C20", "exploration",
		"each case is one image manifest (config + 0-80 children of the layers array: layer / foreign-layer / non-layer media types, sha256/384/512 digests, repeated digests, URL lists from none to > 4 KiB incl. lists at the label-size boundary; reference, prefetch size) drawn from the seed, "+
			"enumerated by containerd's images.ChildrenHandler and labelled by BOTH real writer flavours; every layer descriptor's labels go through the matching real reader; 3 descriptors per manifest and flavour get every subset of <= 3 structural labels removed/corrupted plus 24 random subsets over all labels. "+
			"non-trivial = the manifest has >= 2 layers and for at least one target a neighbour that HAS URLs was reconstructed and its URL pairing judged; distinct by the manifest description. "+
			"Stage l3 (FUSE): produced labels are mounted by the real fs.Mount against an in-memory registry and the request log is judged.",
		80, 1500, body)
}

func body(r *vf.Run) {
	debug.SetGCPercent(400) // the writers under test build labels by repeated string concatenation: mostly garbage
	if r.Child == "l3" {
		l3Child(r)
		return
	}
	if r.Child == "conc" {
		concChild(r)
		return
	}
	if r.Child == "cwrite" {
		cwriteChild(r)
		return
	}
	if pf := os.Getenv("VERIF_C20_PROF"); pf != "" { // developer aid only
		if f, err := os.Create(pf); err == nil {
			_ = pprof.StartCPUProfile(f)
			defer pprof.StopCPUProfile()
		}
	}
	c := newChecker(r)
	for i, m := range fixedCases() {
		c.checkCase(-1-i, m, r.RNG(1<<40, uint64(i)))
	}
	// The code under test is purely sequential and stateless; the harness spreads the
	// (independent, individually seeded) cases over a few workers for throughput only.
	n := r.N(400, 8000)
	const workers = 6
	var wg sync.WaitGroup
	var next atomic.Int64
	calls := make([]int, workers)
	for w := 0; w < workers; w++ {
		wg.Add(1)
		go func(w int) {
			defer wg.Done()
			wc := newChecker(r)
			for {
				i := int(next.Add(1)) - 1
				if i >= n || r.Violations() > 40 {
					break
				}
				rng := r.RNG(uint64(i))
				m := genCase(rng)
				wc.checkCase(i, m, rng.Derive(7))
			}
			calls[w] = wc.hostCalls
		}(w)
	}
	wg.Wait()
	for _, x := range calls {
		c.hostCalls += x
	}
	r.Count("hosts_function_calls", c.hostCalls)
	r.Logf("main stage done (%d manifests)", n)
	concStage(r)
	r.Logf("conc stage done")
	cwriteStage(r)
	r.Logf("cwrite stage done")
	l3Stage(r)
	r.Logf("l3 stage done")
	r.Assume("containerd v2.2.3 images.Children/IsLayerType, snapshots.FilterInheritedLabels, labels.Validate, reference.Parse and go-digest digest.Parse are the trusted definition of enumeration order, layer media types, label validity and well-formedness")
	r.Assume("URLs contain no ',' and references are well-formed and shorter than 1 KiB (outside what a comma-joined / size-limited label can describe)")
	r.Assume("descriptors with equal digests denote the same layer: any of their URL lists counts as the neighbour's own")
}
