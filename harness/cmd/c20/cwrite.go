package main

// Stage cwrite: ONE writer (handler) value shared by concurrent Handle calls.
//
// client.Pull builds one handler chain per pull and containerd's images.Dispatch calls
// Handle in one goroutine per sibling descriptor, so the sibling manifests of a
// multi-platform index go through the SAME label handler value concurrently. The stage does
// the same: per flavour ONE handler value (default wrapper; extra-labels handler on top of
// containerd's AppendInfoHandlerWrapper) over one content provider holding an index with 3-6
// different manifests (one pull: same reference and prefetch size; 20-40 or 60 layers, short
// URL lists, a non-layer child, a repeated digest) is driven
//
//	(1) by one goroutine per manifest calling h.Handle(manifest) directly, many times, and
//	(2) by the real images.Dispatch on the index, many times (the children returned for each
//	    manifest are captured in a per-manifest slot by an outer handler, no lock).
//
// Every label set produced is judged against ITS OWN manifest: all produced labels pass
// labels.Validate (V), the prefetch label round-trips (P), and the reader reconstructs
// reference, digest, target URLs, a neighbour prefix and own URLs (R1-R5, judgeConc).
// Runs in the plain top process and in a -race child (attribution fs/source.).
//
// Monitor discipline (rule 4): nothing synchronising on the call path. Each goroutine judges
// its own results with a private reader value and pure functions, keeps private counters
// and failure lists, reported after wg.Wait. Manifests that are already judged wrong when
// handled sequentially are left to the main stage.

import (
	"context"
	"encoding/json"
	"fmt"
	"strconv"
	"sync"
	"time"

	"github.com/containerd/containerd/v2/core/images"
	"github.com/containerd/containerd/v2/core/remotes/docker"
	"github.com/containerd/containerd/v2/core/snapshots"
	"github.com/containerd/containerd/v2/pkg/labels"
	"github.com/containerd/containerd/v2/pkg/reference"
	"github.com/containerd/stargz-snapshotter/fs/config"
	"github.com/containerd/stargz-snapshotter/fs/source"
	digest "github.com/opencontainers/go-digest"
	ocispec "github.com/opencontainers/image-spec/specs-go/v1"

	"verifharness/internal/vf"
)

type cwManifest struct {
	m     *mcase
	desc  ocispec.Descriptor
	kids  []child
	base  []ocispec.Descriptor // what containerd enumerates, unlabelled (read-only)
	sets  []*concSet           // per children index (nil for non-layer children); lbls unset
	label string
}

type cwFail struct {
	clause, what string
	mi, ti, call int
	mode         string
	lbls         map[string]string
}

// judgeLabelled applies V, P and R1-R5 to the children one Handle call returned for manifest cm.
func judgeLabelled(cm *cwManifest, out []ocispec.Descriptor, reader source.GetSources, add func(clause, what string, ti int, lbls map[string]string)) (judged int) {
	if len(out) != len(cm.kids) {
		add("children-altered", fmt.Sprintf("%d children returned, %d enumerated", len(out), len(cm.kids)), -1, nil)
		return 0
	}
	for ti, tmpl := range cm.sets {
		if out[ti].Digest != cm.kids[ti].Dig {
			add("children-altered", "digest of a child changed", ti, nil)
			continue
		}
		if tmpl == nil {
			continue
		}
		ann := out[ti].Annotations
		for k, v := range ann {
			if old, had := cm.base[ti].Annotations[k]; had && old == v {
				continue
			}
			if err := labels.Validate(k, v); err != nil {
				add("label-fails-validate:"+keyClass(k), fmt.Sprintf("%d+%d bytes", len(k), len(v)), ti, nil)
			}
		}
		lbls := snapshots.FilterInheritedLabels(ann)
		if v, has := lbls[config.TargetPrefetchSizeLabel]; !has {
			add("prefetch-label-missing", "", ti, lbls)
		} else if p, err := strconv.ParseInt(v, 10, 64); err != nil || p != cm.m.Prefetch {
			add("prefetch-label-does-not-round-trip", trunc(v, 40), ti, lbls)
		}
		cs := *tmpl
		cs.lbls = lbls
		var srcs []source.Source
		var err error
		if p, pv, stack := vf.Recover(func() { srcs, err = reader(lbls) }); p {
			add("reader-panics", fmt.Sprintf("%v @%s", pv, crashSite(stack)), ti, lbls)
			continue
		}
		if cl, what := judgeConc(&cs, srcs, err); cl != "" {
			add(cl, what, ti, lbls)
		}
		judged++
	}
	return judged
}

func buildCWManifests(r *vf.Run, fi int, big bool) (memProvider, ocispec.Descriptor, []*cwManifest, string, int64) {
	rng := r.RNG(5<<40, uint64(fi))
	ref := fmt.Sprintf("registry-%d.example.org:5000/multi/arch%d:v1.%d", fi, fi, rng.Intn(50))
	prefetch := int64(rng.Range(1, 1<<30))
	prov := memProvider{}
	n := rng.Range(3, 6)
	var cms []*cwManifest
	idx := ocispec.Index{MediaType: ocispec.MediaTypeImageIndex}
	idx.SchemaVersion = 2
	for k := 0; k < n; k++ {
		m := concImage(rng.Derive(uint64(k)), k)
		if k == 1 && big { // one manifest whose digest list overflows the layers label (plain pass only: quadratic writer, slow under -race)
			for len(m.Layers) < 62 {
				m.Layers = append(m.Layers, child{MT: ocispec.MediaTypeImageLayerGzip, Dig: genDigest(rng, 0), Size: 77, Layer: true,
					URLs: []string{fmt.Sprintf("https://cdn%d.example.net/img%d/X%d/%x", k, k, len(m.Layers), rng.U64())}})
			}
		}
		m.Name, m.Ref, m.Prefetch = fmt.Sprintf("cwrite-manifest-%d", k), ref, prefetch
		p, d := m.store()
		for dg, b := range p {
			prov[dg] = b
		}
		d.Platform = &ocispec.Platform{OS: "linux", Architecture: fmt.Sprintf("arch%d", k)}
		idx.Manifests = append(idx.Manifests, d)
		cms = append(cms, &cwManifest{m: m, desc: d, kids: m.children(), label: fmt.Sprintf("manifest %d (%d children)", k, len(m.Layers)+1)})
	}
	ib, _ := json.Marshal(idx)
	idesc := ocispec.Descriptor{MediaType: ocispec.MediaTypeImageIndex, Digest: digest.FromBytes(ib), Size: int64(len(ib))}
	prov[idesc.Digest] = ib
	return prov, idesc, cms, ref, prefetch
}

func cwriteRun(r *vf.Run, perGoroutine, dispatchRounds int, where string) {
	hosts := source.RegistryHosts(func(rs reference.Spec) ([]docker.RegistryHost, error) {
		return []docker.RegistryHost{{Host: "marker.invalid"}}, nil
	})
	ctx := context.Background()
	for fi, fl := range flavours {
		prov, idesc, all, refStr, prefetch := buildCWManifests(r, fi, where == "plain")
		ref, perr := reference.Parse(refStr)
		if perr != nil {
			r.Inconclusive("cwrite: generated reference rejected by reference.Parse")
			continue
		}
		// expected values per manifest + sequential preflight with a private handler value
		var cms []*cwManifest
		for _, cm := range all {
			base, err := images.Children(ctx, prov, cm.desc)
			if err != nil || len(base) != len(cm.kids) {
				r.Inconclusive("cwrite: containerd cannot enumerate a generated manifest")
				continue
			}
			cm.base = base
			cm.sets = make([]*concSet, len(cm.kids))
			for ti, t := range cm.kids {
				if !t.Layer {
					continue
				}
				cs := &concSet{ti: ti, ref: ref, refStr: refStr, kids: cm.kids}
				for j := ti + 1; j < len(cm.kids); j++ {
					if cm.kids[j].Layer && cm.kids[j].Dig != t.Dig {
						cs.exp = append(cs.exp, j)
					}
				}
				cm.sets[ti] = cs
			}
			seqWrong := false
			p, _, _ := vf.Recover(func() {
				out, err := fl.wrap(refStr, prefetch)(images.ChildrenHandler(prov)).Handle(ctx, cm.desc)
				if err != nil {
					seqWrong = true
					return
				}
				judgeLabelled(cm, out, fl.reader(hosts), func(string, string, int, map[string]string) { seqWrong = true })
			})
			if p || seqWrong {
				r.Count("cwrite_manifests_already_wrong_sequentially", 1)
				continue
			}
			cms = append(cms, cm)
		}
		if len(cms) < 2 {
			r.Inconclusive("cwrite: fewer than 2 sequentially correct manifests for flavour " + fl.name)
			continue
		}

		h := fl.wrap(refStr, prefetch)(images.ChildrenHandler(prov)) // THE one handler value of the pull
		G := len(cms)
		fails := make([][]cwFail, G+1)
		judged := make([]int, G+1)
		handles := make([]int, G+1)
		report := func(slot int, mode string, mi, call int) func(string, string, int, map[string]string) {
			return func(clause, what string, ti int, lbls map[string]string) {
				if len(fails[slot]) < 6 {
					fails[slot] = append(fails[slot], cwFail{clause, what, mi, ti, call, mode, lbls})
				}
			}
		}
		// (1) direct concurrent Handle calls, one goroutine per sibling manifest
		start := make(chan struct{})
		var wg sync.WaitGroup
		for g := 0; g < G; g++ {
			wg.Add(1)
			go func(g int) {
				defer wg.Done()
				reader := fl.reader(hosts) // private: this stage is about the writer
				cm := cms[g]
				<-start
				for i := 0; i < perGoroutine; i++ {
					var out []ocispec.Descriptor
					var err error
					if p, pv, stack := vf.Recover(func() { out, err = h.Handle(ctx, cm.desc) }); p {
						report(g, "direct", g, i)("writer-panics", fmt.Sprintf("%v @%s", pv, crashSite(stack)), -1, nil)
						continue
					}
					if err != nil {
						report(g, "direct", g, i)("writer-error", errClass(err), -1, nil)
						continue
					}
					handles[g]++
					judged[g] += judgeLabelled(cm, out, reader, report(g, "direct", g, i))
				}
			}(g)
		}
		close(start)
		wg.Wait()
		// (2) the real images.Dispatch over the index; results captured per manifest slot
		byDigest := map[digest.Digest]int{}
		for i, cm := range cms {
			byDigest[cm.desc.Digest] = i
		}
		reader := fl.reader(hosts)
		for round := 0; round < dispatchRounds; round++ {
			captured := make([][]ocispec.Descriptor, G)
			capture := images.HandlerFunc(func(ctx context.Context, desc ocispec.Descriptor) ([]ocispec.Descriptor, error) {
				children, err := h.Handle(ctx, desc)
				if i, ok := byDigest[desc.Digest]; ok && err == nil {
					captured[i] = children // one writer per slot and Dispatch; read after Dispatch returned
				}
				return children, err
			})
			var derr error
			if p, pv, stack := vf.Recover(func() { derr = images.Dispatch(ctx, capture, nil, idesc) }); p {
				report(G, "dispatch", -1, round)("writer-panics", fmt.Sprintf("%v @%s", pv, crashSite(stack)), -1, nil)
				continue
			}
			if derr != nil {
				report(G, "dispatch", -1, round)("writer-error", errClass(derr), -1, nil)
				continue
			}
			for i, cm := range cms {
				if captured[i] == nil {
					continue // a manifest dropped by the preflight is still dispatched but not judged
				}
				handles[G]++
				judged[G] += judgeLabelled(cm, captured[i], reader, report(G, "dispatch", i, round))
			}
		}
		totalJ, totalH := 0, 0
		for slot := range fails {
			totalJ += judged[slot]
			totalH += handles[slot]
			for _, f := range fails[slot] {
				mdesc := ""
				if f.mi >= 0 {
					mdesc = cms[f.mi].label + ": " + trunc(cms[f.mi].m.describe(), 1200)
				}
				r.Violate("cwrite:"+fl.name+":"+f.clause,
					fmt.Sprintf("ONE %s label handler value handling %d sibling manifests concurrently (%s) produced labels for a layer that do not reproduce that layer's source in ITS OWN manifest: %s", fl.name, G, f.mode, f.what),
					map[string]any{"stage": "cwrite", "where": where, "flavour": fl.name, "mode": f.mode, "manifest": mdesc, "target_child_index": f.ti, "call": f.call, "labels": labelDump(f.lbls),
						"how": "schedule dependent: rerun the stage; manifests are a function of VERIF_SEED"})
			}
		}
		r.Eval(1)
		r.Count("cwrite_handle_calls_"+fl.name+"_"+where, totalH)
		r.Count("cwrite_label_sets_judged_"+fl.name+"_"+where, totalJ)
		r.Count("cwrite_manifests_"+fl.name, G)
		if totalH >= G*perGoroutine && totalJ > 0 {
			r.NonTrivial("cwrite " + fl.name + " " + where)
		}
	}
}

func cwriteStage(r *vf.Run) {
	defer r.Logf("cwrite race child done")
	cwriteRun(r, r.N(80, 1200), r.N(30, 500), "plain")
	r.Logf("cwrite plain pass done")
	ex := r.RunChild(vf.ChildSpec{Stage: "cwrite", Race: true, Timeout: 15 * time.Minute, Attribution: []string{"fs/source."}})
	switch {
	case ex.TimedOut:
		r.Inconclusive("cwrite stage (race build): watchdog")
	case !ex.Partial || ex.ExitCode != 0:
		r.Inconclusive(fmt.Sprintf("cwrite stage (race build): child ended abnormally (exit %d %s): %s", ex.ExitCode, ex.Signal, trunc(lastLines(ex.Tail, 6), 600)))
	default:
		r.Count("cwrite_race_reports", len(ex.Races))
	}
}

func cwriteChild(r *vf.Run) {
	if !r.RaceBuild {
		r.Inconclusive("cwrite child is not a race build")
	}
	cwriteRun(r, r.N(12, 200), r.N(6, 100), "race")
}
