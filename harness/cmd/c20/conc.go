package main

// Stage conc: ONE reader value shared by concurrent callers.
//
// The daemon builds one GetSources value (source.FromDefaultLabels(hosts) /
// sourceFromCRILabels(hosts)) at start-up and every fs.Mount / fs.Check of every image
// calls it concurrently. The stage does the same: per flavour ONE reader value is called
// from 8 goroutines with the (sequentially produced, read-only) label sets of every layer
// of 4 different images (different registries / repositories, 20-40 layers, short URL
// lists, a non-layer child, a repeated digest) for a fixed number of calls. Every result
// is judged by the round-trip oracle of the sequential stage: reference, digest, target
// URLs, neighbour prefix and own URLs must be those of the label set THAT WAS PASSED IN.
//
// It runs twice: in the plain top process (throughput, more interleavings) and in a
// child built with -race (attribution fs/source. and service.), where state kept across
// calls by a reader shows up as a data race even when no result happens to be wrong.
//
// Monitor discipline (rule 4): no lock, atomic or channel on the call path. Goroutines
// are released by one close(start); each keeps private counters and a private list of
// failures which are reported after wg.Wait. Label maps are never written.

import (
	"fmt"
	"sync"
	"time"

	"github.com/containerd/containerd/v2/core/images"
	"github.com/containerd/containerd/v2/core/remotes/docker"
	"github.com/containerd/containerd/v2/core/snapshots"
	"github.com/containerd/containerd/v2/pkg/reference"
	"github.com/containerd/stargz-snapshotter/fs/source"
	ocispec "github.com/opencontainers/image-spec/specs-go/v1"

	"verifharness/internal/prng"
	"verifharness/internal/vf"
)

const concGoroutines = 8

// concSet is one label set (image, target layer) with what its source must be.
type concSet struct {
	image  int
	ti     int
	lbls   map[string]string
	ref    reference.Spec
	refStr string
	kids   []child
	exp    []int // children indices of the expected neighbours, in order
	desc   string
}

func concImage(rng *prng.R, k int) *mcase {
	m := &mcase{
		Name:     fmt.Sprintf("conc-image-%d", k),
		Ref:      fmt.Sprintf("reg%d.example-%c.io:%d/team%d/app%d:v%d.%d", k, 'a'+k, 5000+k, k, k, k, rng.Intn(100)),
		Prefetch: int64(1000 * (k + 1)),
		MT:       ocispec.MediaTypeImageManifest,
		Config:   child{MT: ocispec.MediaTypeImageConfig, Dig: genDigest(rng, 0), Size: 100},
	}
	n := rng.Range(20, 40)
	att := rng.Range(2, n-3)
	rep := rng.Range(att+1, n-1)
	for i := 0; i < n; i++ {
		if i == att {
			m.Layers = append(m.Layers, child{MT: "application/vnd.in-toto+json", Dig: genDigest(rng, 0), Size: 10})
		}
		c := child{MT: images.MediaTypeDockerSchema2LayerGzip, Dig: genDigest(rng, 0), Size: int64(rng.Range(100, 1<<20)), Layer: true}
		if k%2 == 0 {
			c.MT = ocispec.MediaTypeImageLayerGzip
		}
		if i == rep {
			c.Dig = m.Layers[0].Dig
			c.URLs = m.Layers[0].URLs
		} else {
			for u := 0; u < rng.Intn(3); u++ {
				c.URLs = append(c.URLs, fmt.Sprintf("https://cdn%d.example.net/img%d/L%d/u%d/%x", k, k, i, u, rng.U64()))
			}
		}
		m.Layers = append(m.Layers, c)
	}
	return m
}

func buildConcSets(r *vf.Run, fl *flavour) []*concSet {
	var sets []*concSet
	for k := 0; k < 4; k++ {
		m := concImage(r.RNG(3<<40, uint64(k)), k)
		out, base, err, panicked, _, _ := runWriter(fl, m)
		kids := m.children()
		if panicked || err != nil || base == nil || len(out) != len(kids) {
			r.Inconclusive("conc: the writer did not label image " + m.Name)
			continue
		}
		ref, perr := reference.Parse(m.Ref)
		if perr != nil {
			r.Inconclusive("conc: generated reference rejected by reference.Parse")
			continue
		}
		for ti, t := range kids {
			if !t.Layer {
				continue
			}
			cs := &concSet{image: k, ti: ti, lbls: snapshots.FilterInheritedLabels(out[ti].Annotations), ref: ref, refStr: m.Ref, kids: kids,
				desc: fmt.Sprintf("%s image %d (%s, %d children) target child %d %s", fl.name, k, m.Ref, len(kids), ti, shortDig(t.Dig))}
			for j := ti + 1; j < len(kids); j++ {
				if kids[j].Layer && kids[j].Dig != t.Dig {
					cs.exp = append(cs.exp, j)
				}
			}
			sets = append(sets, cs)
		}
	}
	return sets
}

// judgeConc: the round-trip oracle (clauses R1-R5 of main.go) for one result.
func judgeConc(cs *concSet, srcs []source.Source, err error) (clause, what string) {
	if err != nil {
		return "reader-rejects-intact-labels", errClass(err)
	}
	if len(srcs) == 0 {
		return "no-source", "no source and no error"
	}
	t := cs.kids[cs.ti]
	for _, s := range srcs {
		if s.Name != cs.ref {
			return "reference-differs", fmt.Sprintf("labels carry reference %q, the source carries %q (digest %s)", cs.refStr, s.Name.String(), shortDig(s.Target.Digest))
		}
		if s.Target.Digest != t.Dig {
			return "digest-differs", fmt.Sprintf("labels carry digest %s, the source carries %s", shortDig(t.Dig), shortDig(s.Target.Digest))
		}
		if why, _ := urlsAgree(s.Target.URLs, t.URLs); why != "" {
			return "target-urls-differ", why
		}
		ls := s.Manifest.Layers
		if len(ls) == 0 || ls[0].Digest != t.Dig {
			return "first-manifest-layer-not-target", ""
		}
		got := ls[1:]
		if len(got) > len(cs.exp) {
			return "neighbours-not-a-prefix", fmt.Sprintf("%d neighbours, %d layers follow", len(got), len(cs.exp))
		}
		for k, g := range got {
			j := cs.exp[k]
			if g.Digest != cs.kids[j].Dig {
				return "neighbours-not-a-prefix", fmt.Sprintf("neighbour #%d is %s, expected child %d %s", k, shortDig(g.Digest), j, shortDig(cs.kids[j].Dig))
			}
			ok := false
			for _, o := range cs.kids {
				if o.Layer && o.Dig == g.Digest {
					if why, _ := urlsAgree(g.URLs, o.URLs); why == "" {
						ok = true
						break
					}
				}
			}
			if !ok {
				return "neighbour-urls-wrong", fmt.Sprintf("neighbour #%d (child %d) does not carry its own URLs", k, j)
			}
		}
	}
	return "", ""
}

type concFail struct {
	clause, what string
	set          *concSet
	call         int
}

// concRun drives one shared reader per flavour from concGoroutines goroutines.
func concRun(r *vf.Run, calls int, where string) {
	hosts := source.RegistryHosts(func(rs reference.Spec) ([]docker.RegistryHost, error) {
		return []docker.RegistryHost{{Host: "marker.invalid"}}, nil
	})
	for fi, fl := range flavours {
		all := buildConcSets(r, fl)
		// a set that is already wrong sequentially belongs to the main stage, not to this one
		var sets []*concSet
		seq := fl.reader(hosts)
		for _, cs := range all {
			srcs, err := seq(cs.lbls)
			if cl, _ := judgeConc(cs, srcs, err); cl != "" {
				r.Count("conc_sets_already_wrong_sequentially", 1)
				continue
			}
			sets = append(sets, cs)
		}
		imagesSeen := map[int]bool{}
		for _, cs := range sets {
			imagesSeen[cs.image] = true
		}
		if len(sets) < 8 || len(imagesSeen) < 2 {
			r.Inconclusive("conc: fewer than 2 images with sequentially correct label sets for flavour " + fl.name)
			continue
		}
		shared := fl.reader(hosts) // THE one value, as in the daemon
		per := calls / concGoroutines
		fails := make([][]concFail, concGoroutines)
		done := make([]int, concGoroutines)
		panics := make([]string, concGoroutines)
		start := make(chan struct{})
		var wg sync.WaitGroup
		for g := 0; g < concGoroutines; g++ {
			wg.Add(1)
			go func(g int) {
				defer wg.Done()
				rng := r.RNG(4<<40, uint64(fi), uint64(g))
				<-start
				p, pv, stack := vf.Recover(func() {
					for i := 0; i < per; i++ {
						cs := sets[rng.Intn(len(sets))]
						srcs, err := shared(cs.lbls)
						if cl, what := judgeConc(cs, srcs, err); cl != "" && len(fails[g]) < 8 {
							fails[g] = append(fails[g], concFail{cl, what, cs, i})
						}
						done[g]++
					}
				})
				if p {
					panics[g] = fmt.Sprintf("%v @%s", pv, crashSite(stack))
				}
			}(g)
		}
		close(start)
		wg.Wait()
		total := 0
		for g := 0; g < concGoroutines; g++ {
			total += done[g]
			if panics[g] != "" {
				r.Violate("panic:conc:"+fl.name+":reader", "the shared reader panicked under concurrent calls: "+panics[g], map[string]any{"stage": "conc", "where": where})
			}
			for _, f := range fails[g] {
				r.Violate("conc:"+fl.name+":"+f.clause,
					fmt.Sprintf("ONE %s reader value called from %d goroutines with the label sets of 4 images returned a source that is not the one of the labels passed in: %s", fl.name, concGoroutines, f.what),
					map[string]any{"stage": "conc", "where": where, "flavour": fl.name, "goroutine": g, "call": f.call, "label_set": f.set.desc, "labels": labelDump(f.set.lbls),
						"how": "schedule dependent: rerun the stage; sets and per-goroutine call sequences are a function of VERIF_SEED"})
			}
		}
		r.Eval(1)
		r.Count("conc_calls_judged_"+fl.name+"_"+where, total)
		r.Count("conc_label_sets_"+fl.name, len(sets))
		if total == per*concGoroutines {
			r.NonTrivial("conc " + fl.name + " " + where) // one per completed run: the floor must stay out of reach of a run whose main stage saw nothing
		}
	}
}

func concStage(r *vf.Run) {
	calls := r.N(20000, 200000)
	concRun(r, calls, "plain")
	ex := r.RunChild(vf.ChildSpec{Stage: "conc", Race: true, Timeout: 15 * time.Minute,
		Attribution: []string{"fs/source.", "service."}})
	switch {
	case ex.TimedOut:
		r.Inconclusive("conc stage (race build): watchdog")
	case !ex.Partial || ex.ExitCode != 0:
		r.Inconclusive(fmt.Sprintf("conc stage (race build): child ended abnormally (exit %d %s): %s", ex.ExitCode, ex.Signal, trunc(lastLines(ex.Tail, 6), 600)))
	default:
		r.Count("conc_race_reports", len(ex.Races))
	}
}

func concChild(r *vf.Run) {
	if !r.RaceBuild {
		r.Inconclusive("conc child is not a race build")
	}
	concRun(r, r.N(10000, 100000), "race")
}
