package main

import "verifharness/internal/vf"

func l3Stage(r *vf.Run) {}
func l3Child(r *vf.Run) {}
