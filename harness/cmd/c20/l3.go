package main

// Stage l3: consumption of the produced labels by the real fs.Mount (fs/fs.go).
//
// For a handful of manifests whose layers are REAL landmark-less stargz blobs held by an
// in-memory registry (an http.RoundTripper with a request log), the labels produced by
// the writer under test are handed, unchanged, to
//
//	fs.NewFilesystem(root, cfg, WithGetSources(<reader of the flavour>)).Mount(ctx, mountpoint, labels)
//
// i.e. the daemon's own entry point with a real FUSE mount. Judged on the request log
// (decided on state: Check() returns only after the target's prefetch completed):
//
//	L3a  the target blob was requested, and every request of this mount went to the registry
//	     host and repository of the pulled reference, for the target digest or the digest of
//	     a layer that follows the target in the manifest (never any other source);
//	     the hosts function was asked for exactly the pulled reference
//	L3b  the prefetch size given to the writer is the one Mount used: on a landmark-less
//	     layer the bytes [0, min(P, size)) were fetched, and nothing between
//	     roundup(P, chunk)+3 chunks and the chunk before the TOC was (cfg.PrefetchSize is set to
//	     a different value D, so a fall-back to the default is visible both ways)
//
// Slack: chunk rounding, and layer.prefetch also caches every file that STARTS inside the
// range, so up to one file (< 1 chunk here) beyond it is fetched legitimately: 3 chunks are tolerated; neighbour
// pre-resolution is optional ("only affects performance") — it is recorded, not demanded;
// descriptor URLs are not consumed anywhere in fs/ at the pinned commit, so URL pairing is
// not observable here (it is judged at the reader boundary by the main stage).
// Mount errors that are timeouts, and a missing /dev/fuse, are inconclusive.

import (
	"archive/tar"
	"bytes"
	"context"
	"fmt"
	"io"
	"net/http"
	"os"
	"path/filepath"
	"sort"
	"strconv"
	"strings"
	"sync"
	"time"

	"github.com/containerd/containerd/v2/core/remotes/docker"
	"github.com/containerd/containerd/v2/core/snapshots"
	"github.com/containerd/containerd/v2/pkg/reference"
	"github.com/containerd/stargz-snapshotter/estargz"
	stargzfs "github.com/containerd/stargz-snapshotter/fs"
	"github.com/containerd/stargz-snapshotter/fs/config"
	"github.com/containerd/stargz-snapshotter/fs/source"
	digest "github.com/opencontainers/go-digest"
	ocispec "github.com/opencontainers/image-spec/specs-go/v1"

	"verifharness/internal/gen"
	"verifharness/internal/prng"
	"verifharness/internal/vf"
)

const (
	l3Chunk           = 50000
	l3DefaultPrefetch = 500000 // cfg.PrefetchSize: far (>> 3 chunks) from every label value used below
	l3Files           = 24
	l3MaxFile         = 45000 // < 1 chunk: prefetch also caches every FILE that starts inside the range, i.e. reads up to one file beyond it
)

func l3Stage(r *vf.Run) {
	if f, err := os.OpenFile("/dev/fuse", os.O_RDWR, 0); err != nil {
		r.Set("l3", "skipped(capability): /dev/fuse unusable: "+err.Error())
		r.Count("l3_skipped_capability", 1)
		return
	} else {
		f.Close()
	}
	ex := r.RunChild(vf.ChildSpec{Stage: "l3", Timeout: 8 * time.Minute})
	if ex.TimedOut {
		r.Inconclusive("l3 stage: watchdog")
	} else if !ex.Partial || ex.ExitCode != 0 {
		r.Inconclusive(fmt.Sprintf("l3 stage: child ended abnormally (exit %d %s): %s", ex.ExitCode, ex.Signal, trunc(lastLines(ex.Tail, 6), 600)))
	}
}

func lastLines(s string, n int) string {
	ls := strings.Split(strings.TrimSpace(s), "\n")
	if len(ls) > n {
		ls = ls[len(ls)-n:]
	}
	return strings.Join(ls, " | ")
}

// ---------------------------------------------------------------------------
// in-memory registry

type regReq struct {
	Seq    int
	Method string
	Host   string
	Repo   string
	Digest string
	Range  string
	lo, hi int64 // requested byte range (inclusive), -1 when none
	Status int
}

type memReg struct {
	mu      sync.Mutex
	blobs   map[string][]byte
	log     []regReq
	gates   map[string]chan struct{} // host -> requests to it are held until the gate is closed (scripted stall)
	stalled map[string]int           // host -> requests that arrived while the gate was shut
}

// stall makes every request to host wait until release(host).
func (m *memReg) stall(host string) {
	m.mu.Lock()
	if m.gates == nil {
		m.gates, m.stalled = map[string]chan struct{}{}, map[string]int{}
	}
	m.gates[host] = make(chan struct{})
	m.mu.Unlock()
}

func (m *memReg) release(host string) {
	m.mu.Lock()
	if g := m.gates[host]; g != nil {
		close(g)
		delete(m.gates, host)
	}
	m.mu.Unlock()
}

func (m *memReg) stalledCount(host string) int {
	m.mu.Lock()
	defer m.mu.Unlock()
	return m.stalled[host]
}

func (m *memReg) snapshot() []regReq {
	m.mu.Lock()
	defer m.mu.Unlock()
	return append([]regReq(nil), m.log...)
}

func (m *memReg) RoundTrip(req *http.Request) (*http.Response, error) {
	rr := regReq{Method: req.Method, Host: req.URL.Host, Range: req.Header.Get("Range"), lo: -1, hi: -1}
	p := strings.TrimPrefix(req.URL.Path, "/v2/")
	if i := strings.LastIndex(p, "/blobs/"); i >= 0 && p != req.URL.Path {
		rr.Repo, rr.Digest = p[:i], p[i+len("/blobs/"):]
	} else {
		rr.Repo = req.URL.Path
	}
	m.mu.Lock()
	b, ok := m.blobs[rr.Digest]
	gate := m.gates[rr.Host]
	if gate != nil {
		m.stalled[rr.Host]++
	}
	m.mu.Unlock()
	if gate != nil {
		<-gate // the request is logged when it is answered, i.e. after the release
	}
	resp := &http.Response{Proto: "HTTP/1.1", ProtoMajor: 1, ProtoMinor: 1, Header: http.Header{}, Request: req, Body: http.NoBody}
	resp.Header.Set("Content-Type", "application/octet-stream")
	switch {
	case !ok:
		resp.StatusCode = http.StatusNotFound
	case req.Method == http.MethodHead:
		resp.StatusCode = http.StatusOK
		resp.Header.Set("Content-Length", strconv.Itoa(len(b)))
		resp.ContentLength = int64(len(b))
	case req.Method == http.MethodGet && rr.Range == "":
		resp.StatusCode = http.StatusOK
		resp.Header.Set("Content-Length", strconv.Itoa(len(b)))
		resp.ContentLength = int64(len(b))
		resp.Body = io.NopCloser(bytes.NewReader(b))
		rr.lo, rr.hi = 0, int64(len(b))-1
	case req.Method == http.MethodGet:
		spec := strings.TrimPrefix(rr.Range, "bytes=")
		var lo, hi int64
		if strings.Contains(spec, ",") {
			resp.StatusCode = http.StatusBadRequest // single-range registry (the fetcher is configured for it)
			break
		}
		if n, err := fmt.Sscanf(spec, "%d-%d", &lo, &hi); n != 2 || err != nil || lo < 0 || lo > hi || lo >= int64(len(b)) {
			resp.StatusCode = http.StatusRequestedRangeNotSatisfiable
			break
		}
		if hi >= int64(len(b)) {
			hi = int64(len(b)) - 1
		}
		rr.lo, rr.hi = lo, hi
		resp.StatusCode = http.StatusPartialContent
		resp.Header.Set("Content-Range", fmt.Sprintf("bytes %d-%d/%d", lo, hi, len(b)))
		resp.Header.Set("Content-Length", strconv.FormatInt(hi-lo+1, 10))
		resp.ContentLength = hi - lo + 1
		resp.Body = io.NopCloser(bytes.NewReader(b[lo : hi+1]))
	default:
		resp.StatusCode = http.StatusMethodNotAllowed
	}
	resp.Status = fmt.Sprintf("%d %s", resp.StatusCode, http.StatusText(resp.StatusCode))
	rr.Status = resp.StatusCode
	m.mu.Lock()
	rr.Seq = len(m.log)
	m.log = append(m.log, rr)
	m.mu.Unlock()
	return resp, nil
}

// ---------------------------------------------------------------------------

type l3Blob struct {
	data   []byte
	dig    digest.Digest
	toc    digest.Digest
	tocOff int64
}

// buildBlob: a stargz blob WITHOUT prefetch landmarks (estargz.Writer used directly), so
// that layer.Prefetch uses the size it is given.
func buildBlob(rng *prng.R, idx int) (l3Blob, error) {
	var entries []gen.Entry
	entries = append(entries, gen.Entry{Name: "d/", Type: tar.TypeDir, Mode: 0o755, ModTime: 1700000000})
	for i := 0; i < l3Files; i++ {
		entries = append(entries, gen.Entry{Name: fmt.Sprintf("d/f%d-%d", idx, i), Type: tar.TypeReg, Mode: 0o644, ModTime: 1700000000,
			Size: int64(rng.Range(30000, l3MaxFile)), ContentID: rng.U64()})
	}
	var buf bytes.Buffer
	w := estargz.NewWriterLevel(&buf, 1)
	w.ChunkSize = 40000
	if err := w.AppendTar(bytes.NewReader(gen.TarBytes(entries))); err != nil {
		return l3Blob{}, err
	}
	toc, err := w.Close()
	if err != nil {
		return l3Blob{}, err
	}
	data := buf.Bytes()
	_, tocOff, _, err := new(estargz.GzipDecompressor).ParseFooter(data[len(data)-estargz.FooterSize:])
	if err != nil || tocOff <= 0 || tocOff >= int64(len(data)) {
		return l3Blob{}, fmt.Errorf("cannot locate the TOC of the blob just built: %v", err)
	}
	return l3Blob{data: data, dig: digest.FromBytes(data), toc: toc, tocOff: tocOff}, nil
}

type interval struct{ lo, hi int64 } // [lo, hi)

func union(iv []interval) []interval {
	sort.Slice(iv, func(i, j int) bool { return iv[i].lo < iv[j].lo })
	var out []interval
	for _, x := range iv {
		if n := len(out); n > 0 && x.lo <= out[n-1].hi {
			if x.hi > out[n-1].hi {
				out[n-1].hi = x.hi
			}
		} else {
			out = append(out, x)
		}
	}
	return out
}

func covers(u []interval, lo, hi int64) bool {
	if lo >= hi {
		return true
	}
	for _, x := range u {
		if x.lo <= lo && hi <= x.hi {
			return true
		}
	}
	return false
}

func intersects(u []interval, lo, hi int64) bool {
	if lo >= hi {
		return false
	}
	for _, x := range u {
		if x.lo < hi && lo < x.hi {
			return true
		}
	}
	return false
}

func l3Child(r *vf.Run) {
	rng := r.RNG(2 << 40)
	reg := &memReg{blobs: map[string][]byte{}}
	var blobs []l3Blob
	tocOffs := map[string]int64{}
	for i := 0; i < 4; i++ {
		b, err := buildBlob(rng, i)
		if err != nil {
			r.Inconclusive("l3: cannot build a stargz blob: " + err.Error())
			return
		}
		blobs = append(blobs, b)
		reg.blobs[b.dig.String()] = b.data
		tocOffs[b.dig.String()] = b.tocOff
	}
	prefetches := []int64{175000, 0, 5 << 30, 1, 333333}
	rounds := r.N(1, 4)
	mountNo := 0
	for round := 0; round < rounds; round++ {
		for pi, P := range prefetches {
			for _, fl := range flavours {
				mountNo++
				// manifest: real blobs in a random order, one repeated, one non-layer child in between
				perm := rng.Perm(len(blobs))
				m := &mcase{Name: "l3", Prefetch: P, MT: ocispec.MediaTypeImageManifest,
					Ref:    fmt.Sprintf("l3-%d.example.com/team%d/app%d:v%d", mountNo, round, pi, mountNo),
					Config: child{MT: ocispec.MediaTypeImageConfig, Dig: digest.FromString(fmt.Sprint("cfg", mountNo)), Size: 10}}
				for k, bi := range perm {
					b := blobs[bi]
					m.Layers = append(m.Layers, child{MT: ocispec.MediaTypeImageLayerGzip, Dig: b.dig, Size: int64(len(b.data)), Layer: true,
						URLs: []string{fmt.Sprintf("https://cdn.example.net/%d/%d", mountNo, bi)},
						Ann:  map[string]string{estargz.TOCJSONDigestAnnotation: b.toc.String()}})
					if k == 1 {
						m.Layers = append(m.Layers, child{MT: "application/vnd.in-toto+json", Dig: digest.FromString(fmt.Sprint("att", mountNo)), Size: 5})
					}
				}
				if rng.Bool() {
					m.Layers = append(m.Layers, m.Layers[0]) // repeated digest
				}
				// target: any layer that still has followers, or the last one
				var layerIdx []int
				kids := m.children()
				for i, k := range kids {
					if k.Layer {
						layerIdx = append(layerIdx, i)
					}
				}
				ti := layerIdx[rng.Intn(len(layerIdx)-1)]
				l3Mount(r, reg, tocOffs, fl, m, kids, ti, mountNo)
			}
		}
	}
	for round := 0; round < r.N(1, 3); round++ {
		for _, fl := range flavours {
			l3Shared(r, reg, blobs, fl, round)
		}
	}
	// requests that belong to no mount of this stage at all
	known := map[string]bool{}
	for i := 1; i <= mountNo; i++ {
		known[fmt.Sprintf("l3-%d.example.com", i)] = true
	}
	for _, q := range reg.snapshot() {
		if !known[q.Host] && !strings.HasPrefix(q.Host, "l3s-") {
			r.Violate("l3:request-to-unknown-registry-host", "a request went to a host that no pulled reference names: "+q.Host, map[string]any{"request": fmt.Sprintf("%+v", q)})
		}
	}
	r.Count("l3_registry_requests", len(reg.snapshot()))
}

func l3Mount(r *vf.Run, reg *memReg, tocOffs map[string]int64, fl *flavour, m *mcase, kids []child, ti int, mountNo int) {
	r.Eval(1)
	r.Count("l3_mounts_attempted", 1)
	replay := map[string]any{"stage": "l3", "flavour": fl.name, "manifest": m.describe(), "target_child_index": ti, "prefetch": m.Prefetch}
	out, base, err, panicked, pv, _ := runWriter(fl, m)
	if panicked || err != nil || base == nil || len(out) != len(kids) {
		r.Inconclusive(fmt.Sprintf("l3: writer did not produce labels (%v %v)", err, pv))
		return
	}
	lbls := snapshots.FilterInheritedLabels(out[ti].Annotations)
	wantRef, _ := reference.Parse(m.Ref)
	host := wantRef.Hostname()
	repo := strings.TrimPrefix(wantRef.Locator, host+"/")
	target := kids[ti]
	allowed := map[string]bool{target.Dig.String(): true}
	for j := ti + 1; j < len(kids); j++ {
		if kids[j].Layer {
			allowed[kids[j].Dig.String()] = true
		}
	}

	var hmu sync.Mutex
	var asked []reference.Spec
	hosts := source.RegistryHosts(func(rs reference.Spec) ([]docker.RegistryHost, error) {
		hmu.Lock()
		asked = append(asked, rs)
		hmu.Unlock()
		return []docker.RegistryHost{{
			Client: &http.Client{Transport: reg}, Host: rs.Hostname(), Scheme: "https", Path: "/v2",
			Capabilities: docker.HostCapabilityPull | docker.HostCapabilityResolve,
		}}, nil
	})
	root := filepath.Join(r.Scratch, fmt.Sprintf("fs-%d", mountNo))
	mp := filepath.Join(r.Scratch, fmt.Sprintf("mnt-%d", mountNo))
	_ = os.MkdirAll(root, 0o755)
	_ = os.MkdirAll(mp, 0o755)
	cfg := config.Config{
		NoBackgroundFetch: true, NoPrometheus: true, PrefetchSize: l3DefaultPrefetch,
		PrefetchTimeoutSec: 3600, // Check must return on prefetch COMPLETION, never on its timeout (the verdict is decided on state)
		BlobConfig:         config.BlobConfig{ChunkSize: l3Chunk, ForceSingleRangeMode: true, MaxRetries: 1, MinWaitMSec: 1, MaxWaitMSec: 5},
	}
	fsys, err := stargzfs.NewFilesystem(root, cfg, stargzfs.WithGetSources(fl.reader(hosts)))
	if err != nil {
		r.Inconclusive("l3: NewFilesystem: " + errClass(err))
		return
	}
	ctx := context.Background()
	var merr error
	if !r.Watchdog(2*time.Minute, "l3 Mount", func() { merr = fsys.Mount(ctx, mp, lbls) }) {
		return
	}
	if merr != nil {
		if strings.Contains(merr.Error(), "timeout") {
			r.Inconclusive("l3: Mount timed out")
			return
		}
		r.Violate("l3:"+fl.name+":mount-rejects-produced-labels", "fs.Mount fails on the labels the writer produced for a valid stargz layer: "+errClass(merr), replay)
		return
	}
	// Check returns after the target's prefetch completed (state, not time)
	var cerr error
	okc := r.Watchdog(2*time.Minute, "l3 Check", func() { cerr = fsys.Check(ctx, mp, lbls) })
	entries, rerr := os.ReadDir(filepath.Join(mp, "d"))
	// give the optional neighbour pre-resolution a bounded chance to show up (recorded only)
	nFollow := len(allowed) - 1
	seenNeighbours := func() int {
		seen := map[string]bool{}
		for _, q := range reg.snapshot() {
			if q.Host == host && q.Digest != target.Dig.String() && allowed[q.Digest] {
				seen[q.Digest] = true
			}
		}
		return len(seen)
	}
	for i := 0; i < 200 && seenNeighbours() < nFollow; i++ {
		time.Sleep(10 * time.Millisecond)
	}
	time.Sleep(30 * time.Millisecond)
	if uerr := fsys.Unmount(ctx, mp); uerr != nil {
		r.Count("l3_unmount_errors", 1)
	}
	if !okc {
		return
	}
	if cerr != nil {
		r.Inconclusive("l3: Check failed: " + errClass(cerr))
		return
	}
	if rerr != nil || len(entries) != l3Files {
		r.Inconclusive(fmt.Sprintf("l3: mounted layer does not list its files (%v, %d)", rerr, len(entries)))
		return
	}
	r.Count("l3_mounts_judged", 1)
	r.Count("l3_neighbours_preresolved", seenNeighbours())
	r.Count("l3_neighbours_possible", nFollow)

	// L3a
	hmu.Lock()
	for _, a := range asked {
		if a != wantRef {
			r.Violate("l3:"+fl.name+":hosts-asked-for-different-reference", fmt.Sprintf("registry hosts were asked for %q, pulled %q", a.String(), m.Ref), replay)
		}
	}
	nAsked := len(asked)
	hmu.Unlock()
	if nAsked == 0 {
		r.Violate("l3:"+fl.name+":hosts-function-not-used", "Mount never asked the configured registry hosts function", replay)
	}
	var mine []regReq
	targetRequested := false
	var iv []interval
	for _, q := range reg.snapshot() {
		if q.Host != host {
			continue
		}
		mine = append(mine, q)
		if q.Repo != repo {
			r.Violate("l3:"+fl.name+":request-to-different-repository", fmt.Sprintf("request for repository %q, pulled reference names %q", q.Repo, repo), replay)
		}
		if !allowed[q.Digest] {
			r.Violate("l3:"+fl.name+":request-for-foreign-digest", "a blob was requested that is neither the target nor a layer following it: "+trunc(q.Digest, 90), replay)
		}
		if q.Digest == target.Dig.String() {
			targetRequested = true
			if q.Method == http.MethodGet && q.Status/100 == 2 && q.lo >= 0 && !(q.lo == 0 && q.hi == 1) {
				iv = append(iv, interval{q.lo, q.hi + 1})
			}
		}
	}
	if !targetRequested {
		r.Violate("l3:"+fl.name+":target-not-resolved-under-reference", "Mount succeeded but the target blob was never requested under the pulled reference", replay)
		return
	}
	// L3b
	if clause, what, ranges := prefetchVerdict(iv, m.Prefetch, int64(len(reg.blobs[target.Dig.String()])), tocOffs[target.Dig.String()]); clause != "" {
		r.Violate("l3:"+fl.name+":prefetch-size-label-not-honoured:"+clause, fmt.Sprintf("label says %d (default %d): %s", m.Prefetch, l3DefaultPrefetch, what), withKV(replay, "fetched", ranges))
	} else {
		r.Count("l3_prefetch_size_honoured", 1)
		r.NonTrivial("l3 " + fl.name + " " + m.describe())
	}
	r.Distinct("l3_prefetch_values", fmt.Sprint(m.Prefetch))
	if mountNo <= 2 {
		var rs []string
		for _, q := range mine {
			rs = append(rs, fmt.Sprintf("%s %s/%s %s -> %d", q.Method, q.Repo, shortDig(digest.Digest(q.Digest)), q.Range, q.Status))
		}
		r.Sample(map[string]any{"stage": "l3", "flavour": fl.name, "ref": m.Ref, "prefetch": m.Prefetch, "requests": rs})
	}
}

// prefetchVerdict judges the byte ranges of one landmark-less blob that were fetched by
// the time Check returned against the prefetch size want that Mount had to use.
func prefetchVerdict(iv []interval, want, size, tocOff int64) (clause, what, ranges string) {
	p := want
	if p > size {
		p = size
	}
	if p < 0 {
		p = 0
	}
	u := union(iv)
	winLo := (p+l3Chunk-1)/l3Chunk*l3Chunk + 3*l3Chunk // chunk rounding + the tail of the last file starting inside the range (< 1 chunk, itself chunk-rounded)
	winHi := tocOff/l3Chunk*l3Chunk - l3Chunk          // resolving reads footer and TOC (chunk-aligned) at the end of the blob
	ranges = fmt.Sprint(u)
	if !covers(u, 0, p) {
		return "too-little", fmt.Sprintf("bytes [0,%d) of the %d-byte landmark-less layer were not fetched before Check returned", p, size), ranges
	}
	if intersects(u, winLo, winHi) {
		return "too-much", fmt.Sprintf("bytes inside [%d,%d) were fetched although nothing read them", winLo, winHi), ranges
	}
	return "", "", ranges
}

// targetRanges: the GET ranges (probes excluded) answered for digest dg on host.
func targetRanges(reg *memReg, host, dg string) (iv []interval, n int) {
	for _, q := range reg.snapshot() {
		if q.Host != host || q.Digest != dg {
			continue
		}
		n++
		if q.Method == http.MethodGet && q.Status/100 == 2 && q.lo >= 0 && !(q.lo == 0 && q.hi == 1) {
			iv = append(iv, interval{q.lo, q.hi + 1})
		}
	}
	return
}

// ---------------------------------------------------------------------------
// ONE filesystem, several mounts (as the daemon): the prefetch size parsed from the labels
// of one Mount must not leak into another Mount.
//
//	S1  Mount(A, label PA) is held inside Resolve by the registry (its first request is
//	    stalled by the scripted RoundTripper); meanwhile Mount(B, label PB) and Check(B) run to
//	    completion on the same filesystem; then A is released, Mount(A) returns, Check(A).
//	    A's prefetch must have A's size, B's prefetch B's (both orders of small/large).
//	S2  Mount(X, label PX), Check(X), then Mount(Y) with NO prefetch label, Check(Y):
//	    Y must be prefetched with cfg.PrefetchSize (both PX < default and PX > default).
//
// Decided on the request log after Check returned (prefetch completion); the interleaving
// of S1 is established on state (a stalled request of A is pending, Mount(A) has not
// returned when Check(B) is over), never on time; if it cannot be established the case is
// inconclusive.

type sharedMount struct {
	host, ref, mp string
	blob          l3Blob
	lbls          map[string]string
	want          int64 // prefetch size Mount has to use
}

func (sm *sharedMount) prepare(r *vf.Run, fl *flavour, prefetch int64, withLabel bool) bool {
	m := &mcase{Name: "l3-shared", Prefetch: prefetch, MT: ocispec.MediaTypeImageManifest, Ref: sm.ref,
		Config: child{MT: ocispec.MediaTypeImageConfig, Dig: digest.FromString("cfg " + sm.ref), Size: 10},
		Layers: []child{
			{MT: "application/vnd.in-toto+json", Dig: digest.FromString("att " + sm.ref), Size: 5},
			{MT: ocispec.MediaTypeImageLayerGzip, Dig: sm.blob.dig, Size: int64(len(sm.blob.data)), Layer: true,
				Ann: map[string]string{estargz.TOCJSONDigestAnnotation: sm.blob.toc.String()}},
		}}
	out, base, err, panicked, _, _ := runWriter(fl, m)
	if panicked || err != nil || base == nil || len(out) != 3 {
		r.Inconclusive("l3 shared: writer did not produce labels")
		return false
	}
	sm.lbls = snapshots.FilterInheritedLabels(out[2].Annotations)
	sm.want = prefetch
	if !withLabel {
		// a client that does not set the stargz prefetch label (e.g. containerd's CRI plugin)
		delete(sm.lbls, config.TargetPrefetchSizeLabel)
		sm.want = l3DefaultPrefetch
	}
	return true
}

func l3Shared(r *vf.Run, reg *memReg, blobs []l3Blob, fl *flavour, round int) {
	var hmu sync.Mutex
	hosts := source.RegistryHosts(func(rs reference.Spec) ([]docker.RegistryHost, error) {
		hmu.Lock()
		defer hmu.Unlock()
		return []docker.RegistryHost{{
			Client: &http.Client{Transport: reg}, Host: rs.Hostname(), Scheme: "https", Path: "/v2",
			Capabilities: docker.HostCapabilityPull | docker.HostCapabilityResolve,
		}}, nil
	})
	root := filepath.Join(r.Scratch, fmt.Sprintf("fs-shared-%s-%d", fl.name, round))
	_ = os.MkdirAll(root, 0o755)
	cfg := config.Config{
		NoBackgroundFetch: true, NoPrometheus: true, PrefetchSize: l3DefaultPrefetch, PrefetchTimeoutSec: 3600,
		BlobConfig: config.BlobConfig{ChunkSize: l3Chunk, ForceSingleRangeMode: true, MaxRetries: 1, MinWaitMSec: 1, MaxWaitMSec: 5},
	}
	fsys, err := stargzfs.NewFilesystem(root, cfg, stargzfs.WithGetSources(fl.reader(hosts))) // THE one filesystem
	if err != nil {
		r.Inconclusive("l3 shared: NewFilesystem: " + errClass(err))
		return
	}
	ctx := context.Background()
	seq := 0
	newMount := func(tag string, b l3Blob) *sharedMount {
		seq++
		host := fmt.Sprintf("l3s-%s-%d-%d-%s.example.com", fl.name, round, seq, tag)
		mp := filepath.Join(r.Scratch, fmt.Sprintf("mnt-shared-%s-%d-%d", fl.name, round, seq))
		_ = os.MkdirAll(mp, 0o755)
		return &sharedMount{host: host, ref: fmt.Sprintf("%s/shared/%s:v%d", host, tag, seq), mp: mp, blob: b}
	}
	mountCheck := func(sm *sharedMount) bool {
		var merr, cerr error
		if !r.Watchdog(2*time.Minute, "l3 shared Mount", func() { merr = fsys.Mount(ctx, sm.mp, sm.lbls) }) {
			return false
		}
		if merr != nil {
			r.Inconclusive("l3 shared: Mount failed: " + errClass(merr))
			return false
		}
		if !r.Watchdog(2*time.Minute, "l3 shared Check", func() { cerr = fsys.Check(ctx, sm.mp, sm.lbls) }) {
			return false
		}
		if cerr != nil {
			r.Inconclusive("l3 shared: Check failed: " + errClass(cerr))
			return false
		}
		return true
	}
	judge := func(sm *sharedMount, scenario, role string, labelled bool, other int64) {
		iv, n := targetRanges(reg, sm.host, sm.blob.dig.String())
		replay := map[string]any{"stage": "l3-shared", "flavour": fl.name, "scenario": scenario, "role": role, "ref": sm.ref,
			"prefetch_this_mount_must_use": sm.want, "prefetch_of_the_other_mount": other, "configured_default": l3DefaultPrefetch}
		if n == 0 {
			r.Violate("l3:"+fl.name+":target-not-resolved-under-reference", "Mount succeeded but the target blob was never requested under the pulled reference ("+scenario+")", replay)
			return
		}
		clause, what, ranges := prefetchVerdict(iv, sm.want, int64(len(sm.blob.data)), sm.blob.tocOff)
		r.Count("l3_shared_mounts_judged", 1)
		if clause == "" {
			r.Count("l3_shared_prefetch_size_right", 1)
			r.NonTrivial(fmt.Sprintf("l3-shared %s %s %s %d/%d", fl.name, scenario, role, sm.want, other))
			return
		}
		key := "l3:" + fl.name + ":prefetch-size-label-not-honoured:" + clause + ":" + scenario
		msg := fmt.Sprintf("ONE filesystem, scenario %s: the %s mount carries prefetch label %d (the other mount %d, configured default %d): %s", scenario, role, sm.want, other, l3DefaultPrefetch, what)
		if !labelled {
			key = "l3:" + fl.name + ":configured-prefetch-size-not-used:" + clause + ":" + scenario
			msg = fmt.Sprintf("ONE filesystem, scenario %s: a mount WITHOUT prefetch label must use the configured default %d (the labelled mount before it had %d): %s", scenario, l3DefaultPrefetch, other, what)
		}
		r.Violate(key, msg, withKV(replay, "fetched", ranges))
	}
	unmount := func(sms ...*sharedMount) {
		for _, sm := range sms {
			_ = fsys.Unmount(ctx, sm.mp)
		}
	}

	// S1, both orders
	for _, sz := range [][2]int64{{150000, 650000}, {650000, 100000}} {
		r.Eval(1)
		a, b := newMount("a", blobs[0]), newMount("b", blobs[1])
		if !a.prepare(r, fl, sz[0], true) || !b.prepare(r, fl, sz[1], true) {
			continue
		}
		reg.stall(a.host)
		doneA := make(chan error, 1)
		go func() { doneA <- fsys.Mount(ctx, a.mp, a.lbls) }()
		reached := false
		for i := 0; i < 12000 && !reached; i++ { // state: a request of A is pending in the registry (watchdog 60 s)
			if reached = reg.stalledCount(a.host) > 0; !reached {
				time.Sleep(5 * time.Millisecond)
			}
		}
		if !reached {
			reg.release(a.host)
			r.Inconclusive("l3 shared S1: Mount(A) never reached the registry")
			continue
		}
		okB := mountCheck(b)
		stillHeld := len(doneA) == 0 // Mount(A) has not returned although B is completely mounted and prefetched
		reg.release(a.host)
		var errA error
		gotA := r.Watchdog(2*time.Minute, "l3 shared Mount(A) after release", func() { errA = <-doneA })
		if !gotA {
			continue
		}
		if errA != nil || !okB || !stillHeld {
			r.Inconclusive(fmt.Sprintf("l3 shared S1: interleaving not realised (Mount(A) err=%v, B ok=%v, A held=%v)", errA != nil, okB, stillHeld))
			if errA == nil {
				unmount(a)
			}
			if okB {
				unmount(b)
			}
			continue
		}
		var cerr error
		if !r.Watchdog(2*time.Minute, "l3 shared Check(A)", func() { cerr = fsys.Check(ctx, a.mp, a.lbls) }) || cerr != nil {
			r.Inconclusive("l3 shared S1: Check(A) failed")
			unmount(a, b)
			continue
		}
		r.Count("l3_shared_s1_interleavings_realised", 1)
		judge(a, "mount-overtaken-by-another-mount", "stalled", true, b.want)
		judge(b, "mount-overtaken-by-another-mount", "overtaking", true, a.want)
		unmount(a, b)
	}
	// S2, labelled size below and above the default
	for _, px := range []int64{100000, 5 << 30} {
		r.Eval(1)
		x, y := newMount("x", blobs[2]), newMount("y", blobs[3])
		if !x.prepare(r, fl, px, true) || !y.prepare(r, fl, 0, false) {
			continue
		}
		if !mountCheck(x) {
			continue
		}
		if !mountCheck(y) {
			unmount(x)
			continue
		}
		r.Count("l3_shared_s2_sequences_run", 1)
		judge(x, "unlabelled-mount-after-labelled-mount", "labelled", true, y.want)
		judge(y, "unlabelled-mount-after-labelled-mount", "unlabelled", false, px)
		unmount(x, y)
	}
}
