// C04 — untrusted layer bytes and registry replies cause errors, never a crash or a hang.
//
// Five seeded generators (raw footers, structure-aware TOCs, mutated genuine blobs, hostile
// registry replies, hostile builder inputs) feed the real consumer chain of /repo:
// every Decompressor's ParseFooter/ParseTOC/DecompressTOC, estargz.Open + Reader methods,
// Unpack, memory and db metadata stores + a full metadata.Reader walk, fs/reader
// (VerifyTOC/SkipVerify/Cache/OpenFile/ReadAt/GetPassthroughFd), the in-process layer stack
// (layer.Resolver -> Verify -> Prefetch -> RootNode -> go-fuse node walk -> BackgroundFetch),
// remote.Resolver/Blob against a hostile registry, estargz.Build / Writer.AppendTar*.
//
// Process layout: the top process only schedules. Cases run in child batches
// (r.RunChild; the -race build for every case with index%10==7) with an on-disk journal:
// "BEGIN i" is written before case i runs, "END i" after. A recovered panic is a violation
// and the batch goes on; if the process dies (fatal error: stack overflow, a panic in a
// goroutine the repo started, ...) the parent attributes the death to the open journal entry
// by the crash report in the child's output and resumes the batch behind that case. A case
// that burns more than 15 s of CPU time (or is parked without using CPU) is only a
// *suspect*: it is re-run alone in a fresh child and called a hang only if it burns 240 s of
// CPU without finishing or stays parked for 120 s with no CPU use; a goroutine dump
// (runtime.Stack, which also shows spinning goroutines) is attached. CPU time and idleness
// rather than wall-clock decide because the machine is shared. Allocation failures under
// the protective address-space limit are inconclusive (memory exhaustion is not in the
// statement); makeslice/len-out-of-range panics are crashes.
package main

import (
	"bufio"
	"fmt"
	"os"
	"os/signal"
	"path/filepath"
	"runtime"
	"runtime/debug"
	"sort"
	"strconv"
	"strings"
	"sync"
	"syscall"
	"time"

	"github.com/containerd/log"
	"github.com/sirupsen/logrus"

	"verifharness/internal/vf"
)

const rule = "inputs are a pure function of (seed, tier, index): (a) raw byte strings of every length 0..160 x footer kinds + every single-field footer mutation + random longer ones, " +
	"(b) structure-aware adversarial TOCs wrapped for gzip/legacy/zstd:chunked/external-TOC framing, (c) byte/text mutations of genuine blobs, (d) hostile registry reply scripts, (e) hostile tar/gzip/zstd builder inputs; " +
	"each is pushed through the whole consumer chain. Non-trivial = the input got past the first parser: (a,b,c) some footer parser accepted the tail so TOC code ran; (d) >=1 hostile reply was delivered to Resolve/ReadAt/Cache/Check/Refresh; " +
	"(e) the tar reader accepted a header or the builder accepted the input. Distinct by generator + input digest."

func main() {
	vf.Main("C04", "exploration", rule, 1200, 6000, body)
}

var procStart = time.Now()

func envInt(k string, d int) int {
	if v, err := strconv.Atoi(os.Getenv(k)); err == nil {
		return v
	}
	return d
}

func isRaceCase(i int) bool { return i%10 == 7 }

func body(r *vf.Run) {
	logrus.SetLevel(logrus.PanicLevel)
	log.L.Logger.SetLevel(logrus.PanicLevel)
	switch r.Child {
	case "":
		top(r)
	case "batch":
		batch(r)
	case "solo":
		solo(r)
	case "gen":
		// development aid: generate every input of the tier and report generator panics / sizes
		pool := newPool(r)
		n := envInt("C04_N", r.N(6000, 24000))
		var total int64
		for i := 0; i < n; i++ {
			p, v, st := vf.Recover(func() {
				in := makeInput(r, pool, i)
				if os.Getenv("C04_LIST") != "" {
					fmt.Printf("%d\t%s\t%d\t%s\n", i, in.Gen, len(in.Blob), oneLine(in.Desc, 200))
				}
				total += int64(len(in.Blob))
				if in.Build != nil {
					total += int64(len(in.Build.In))
				}
			})
			if p {
				fmt.Printf("GENERATOR PANIC at %d: %v\n%s\n", i, v, st)
			}
		}
		fmt.Printf("generated %d inputs, %d bytes\n", n, total)
	default:
		r.Inconclusive("unknown stage " + r.Child)
	}
}

// ---------------------------------------------------------------------------
// top process

type span struct {
	from, to int
	race     bool
	stage    string // suspects: the stage that was running when the soft timer fired
}

type crashed struct {
	idx  int
	race bool
	sig  crashSig
	out  string
}

func top(r *vf.Run) {
	n := r.N(6000, 24000)
	n = envInt("C04_N", n)
	from0 := envInt("C04_FROM", 0)
	par := envInt("C04_PAR", r.N(8, 12))
	pool := newPool(r)

	var spans []span
	for f := from0; f < n; f += 200 {
		t := f + 200
		if t > n {
			t = n
		}
		spans = append(spans, span{from: f, to: t})
	}
	for f := from0; f < n; f += 500 {
		t := f + 500
		if t > n {
			t = n
		}
		spans = append(spans, span{from: f, to: t, race: true})
	}
	// race spans are the long poles: start them first
	sort.SliceStable(spans, func(i, j int) bool { return spans[i].race && !spans[j].race })

	// Bound the whole run: after the deadline no new span / re-run is started; what was not
	// run is reported (inconclusive), what was found is still reported.
	deadline := time.Now().Add(time.Duration(envInt("C04_DEADLINE_S", r.N(2100, 5700))) * time.Second)
	var mu sync.Mutex
	var suspects []span // single cases
	var crashes []crashed
	work := make(chan span, len(spans))
	for _, s := range spans {
		work <- s
	}
	close(work)
	var wg sync.WaitGroup
	for w := 0; w < par; w++ {
		wg.Add(1)
		go func() {
			defer wg.Done()
			for s := range work {
				if time.Now().After(deadline) {
					r.Inconclusive(fmt.Sprintf("time budget exhausted: cases [%d,%d) race=%v not run", s.from, s.to, s.race))
					continue
				}
				t0 := time.Now()
				sus, cr := runSpan(r, s)
				r.Logf("span [%d,%d) race=%v done in %v: %d suspects, %d process deaths", s.from, s.to, s.race, time.Since(t0).Round(time.Second), len(sus), len(cr))
				mu.Lock()
				suspects = append(suspects, sus...)
				crashes = append(crashes, cr...)
				mu.Unlock()
			}
		}()
	}
	wg.Wait()

	// process deaths: one violation per signature; the first input of each signature is
	// re-run alone to confirm the attribution made through the journal.
	sort.Slice(crashes, func(i, j int) bool { return crashes[i].idx < crashes[j].idx })
	seen := map[string]bool{}
	for _, c := range crashes {
		in := makeInput(r, pool, c.idx)
		cr := &caseRun{r: r, pool: pool, in: in}
		cr.cur.Store("process death")
		rp := cr.replay()
		rp["race_build"] = c.race
		rp["crash"] = c.sig.Msg
		rp["stack_head"] = c.sig.StackHead
		rp["attribution"] = "open journal entry of the batch child that died"
		if !seen[c.sig.Key] && time.Now().Before(deadline) {
			seen[c.sig.Key] = true
			key2, how := soloConfirm(r, c.idx, c.race)
			rp["rerun_alone"] = how
			if key2 != "" && key2 != c.sig.Key {
				rp["rerun_alone_signature"] = key2
			}
		}
		r.Distinct("crash_signatures", c.sig.Key)
		r.Count("process_deaths_attributed", 1)
		r.Violate(c.sig.Key, fmt.Sprintf("process died (%s) while consuming input %d: %s", oneLine(c.sig.Msg, 160), c.idx, oneLine(in.Desc, 200)), rp)
	}

	// suspects: alone, 120 s (race build: 300 s), SIGQUIT dump
	sort.Slice(suspects, func(i, j int) bool { return suspects[i].from < suspects[j].from })
	r.Count("suspects", len(suspects))
	// Every hang costs its whole budget, so the number of re-runs is bounded: at most 2
	// per suspect stage and maxRerun in total; the others stay undecided (inconclusive).
	maxRerun := envInt("C04_MAX_RERUN", r.N(12, 30))
	perStage := map[string]int{}
	{
		// the first suspect of every stage comes first, so that the budget is spent on
		// distinct places
		rank := make([]int, len(suspects))
		seenStage := map[string]int{}
		for i, s := range suspects {
			rank[i] = seenStage[s.stage]
			seenStage[s.stage]++
		}
		idx := make([]int, len(suspects))
		for i := range idx {
			idx[i] = i
		}
		sort.SliceStable(idx, func(a, b int) bool { return rank[idx[a]] < rank[idx[b]] })
		ordered := make([]span, len(suspects))
		for i, j := range idx {
			ordered[i] = suspects[j]
		}
		suspects = ordered
	}
	susWork := make(chan span, len(suspects))
	queued := 0
	for _, s := range suspects {
		r.Distinct("suspect_stages", s.stage)
		if time.Now().After(deadline) {
			r.Inconclusive("suspect not re-run alone (time budget exhausted): stage " + s.stage)
			continue
		}
		if perStage[s.stage] >= 2 || queued >= maxRerun {
			r.Inconclusive("suspect not re-run alone (re-run budget; same stage as an already re-run suspect): stage " + s.stage)
			continue
		}
		perStage[s.stage]++
		queued++
		susWork <- s
	}
	close(susWork)
	var wg2 sync.WaitGroup
	for w := 0; w < 4; w++ {
		wg2.Add(1)
		go func() {
			defer wg2.Done()
			for s := range susWork {
				budget := 20 * time.Minute // only a watchdog: the solo child decides by CPU time / idleness
				ex := r.RunChild(vf.ChildSpec{Stage: "solo", Args: []string{strconv.Itoa(s.from)}, Race: s.race, Timeout: budget})
				in := makeInput(r, pool, s.from)
				cr := &caseRun{r: r, pool: pool, in: in}
				cr.cur.Store("suspect re-run")
				head := readHeadTail(ex.Output, 3<<20, 1<<20)
				hangAt := strings.Index(head, "\nC04-HANG why=")
				switch {
				case ex.TimedOut && hangAt < 0:
					r.Inconclusive("suspect neither finished nor reached the CPU/idle hang criteria within the child watchdog (machine load)")
				case hangAt >= 0:
					dump := head[hangAt:]
					key, det := hangSig(dump)
					rp := cr.replay()
					rp["criterion"] = oneLine(dump[1:], 120)
					rp["budget_s"] = budget.Seconds()
					rp["goroutine_dump_case"] = det
					rp["race_build"] = s.race
					r.Distinct("crash_signatures", key)
					r.Violate(key, fmt.Sprintf("input %d does not finish when run alone (%s; normal cost: milliseconds): %s", s.from, oneLine(dump[1:], 80), oneLine(in.Desc, 200)), rp)
				case ex.Partial:
					r.Count("suspects_finished_alone", 1)
				default:
					out := readHeadTail(ex.Output, 2<<20, 256<<10)
					if sig, ok := sigFromOutput(out); ok && !sig.OOM && !sig.Harness {
						rp := cr.replay()
						rp["crash"] = sig.Msg
						rp["stack_head"] = sig.StackHead
						r.Distinct("crash_signatures", sig.Key)
						r.Violate(sig.Key, fmt.Sprintf("process died (%s) while consuming input %d alone: %s", oneLine(sig.Msg, 160), s.from, oneLine(in.Desc, 200)), rp)
					} else if ok && sig.OOM {
						r.Count("oom_deaths", 1)
						r.Distinct("oom_sites", sig.Site)
						r.Inconclusive("allocation failure under the address-space limit (suspect re-run) at " + sig.Site)
					} else {
						r.Inconclusive("suspect re-run died without a recognisable report: " + exitDesc(ex))
					}
				}
			}
		}()
	}
	wg2.Wait()

	r.Set("cases_planned", n-from0)
	r.Set("parallel_children", par)
	r.Assume("the Go runtime reports every fatal condition of a child on its stderr (panic / fatal error / signal) before the process ends; a death without such a report is counted inconclusive")
	r.Assume("hang = the case, run alone, burns 240 s of CPU time (600 s in the race build) without finishing, or is parked for >=120 s with no CPU use in the last 30 s: 4-5 orders of magnitude above the normal cost (milliseconds); decided on CPU time and idleness, not on wall-clock, because the machine is shared")
	r.Assume("debug.SetMaxStack(16 MiB) in the children: unbounded recursion is reported as 'stack overflow' earlier than with the 1 GiB default; generated inputs nest at most ~3000 levels, far below either limit")
	r.Assume("klauspost/compress, encoding/json, archive/tar, go-fuse, bbolt are part of the trusted base only in so far as a crash inside them with a /repo frame below is attributed to that /repo frame")
}

func exitDesc(ex vf.ChildExit) string {
	return fmt.Sprintf("exit=%d signal=%q timedout=%v", ex.ExitCode, ex.Signal, ex.TimedOut)
}

// soloConfirm re-runs one case alone and returns the signature it produces.
func soloConfirm(r *vf.Run, idx int, race bool) (string, string) {
	ex := r.RunChild(vf.ChildSpec{Stage: "solo", Args: []string{strconv.Itoa(idx)}, Race: race, Timeout: 5 * time.Minute, NoMerge: true})
	if ex.TimedOut {
		return "", "timed out"
	}
	out := readHeadTail(ex.Output, 2<<20, 256<<10)
	if sig, ok := sigFromOutput(out); ok && (ex.ExitCode != 0 || ex.Signal != "") {
		if sig.OOM {
			return "", "allocation failure"
		}
		return sig.Key, "died again: " + sig.Key
	}
	return "", "did not die alone (" + exitDesc(ex) + ")"
}

// runSpan runs the cases of one span in (possibly several, resumed) batch children.
func runSpan(r *vf.Run, s span) (suspects []span, crashes []crashed) {
	journal := filepath.Join(r.Scratch, fmt.Sprintf("journal-%d-%d-%v.txt", s.from, s.to, s.race))
	from := s.from
	for attempt := 0; from < s.to && attempt < 400; attempt++ {
		ex := r.RunChild(vf.ChildSpec{Stage: "batch", Race: s.race, Timeout: 25 * time.Minute,
			Args: []string{journal, strconv.Itoa(from), strconv.Itoa(s.to), strconv.FormatBool(s.race)}})
		st := readJournal(journal)
		if st.done {
			return
		}
		switch {
		case st.openIdx < 0:
			// died outside any case (startup, or between cases)
			out := readHeadTail(ex.Output, 1<<20, 64<<10)
			r.Inconclusive("batch child died outside a case: " + exitDesc(ex) + " " + oneLine(tail(out, 300), 300))
			if st.lastEnd >= from {
				from = st.lastEnd + 1
			} else {
				return
			}
		case st.suspect:
			suspects = append(suspects, span{st.openIdx, st.openIdx + 1, s.race, st.stage})
			from = st.openIdx + 1
		case st.guard:
			r.Count("oom_deaths", 1)
			r.Inconclusive("memory guard of the race build stopped a case (RSS limit)")
			from = st.openIdx + 1
		default:
			out := readHeadTail(ex.Output, 4<<20, 512<<10)
			sig, ok := sigFromOutput(out)
			switch {
			case ex.TimedOut:
				suspects = append(suspects, span{st.openIdx, st.openIdx + 1, s.race, "child watchdog"})
			case ok && sig.OOM:
				r.Count("oom_deaths", 1)
				r.Distinct("oom_sites", sig.Site)
				r.Inconclusive("allocation failure under the address-space limit at " + sig.Site)
			case ok && sig.Harness:
				r.Inconclusive("harness crash (no /repo frame): " + oneLine(sig.Msg, 160))
				r.Logf("HARNESS CRASH case %d: %s\n%s", st.openIdx, sig.Msg, tail(out, 3000))
			case ok:
				crashes = append(crashes, crashed{st.openIdx, s.race, sig, ex.Output})
			default:
				r.Inconclusive("batch child died without a recognisable report: " + exitDesc(ex))
				hd := out
				if len(hd) > 1500 {
					hd = hd[:1500]
				}
				r.Logf("UNRECOGNISED DEATH case %d: %s\n--- head ---\n%s\n--- tail ---\n%s", st.openIdx, exitDesc(ex), hd, tail(out, 1500))
			}
			from = st.openIdx + 1
		}
	}
	return
}

func tail(s string, n int) string {
	if len(s) > n {
		return s[len(s)-n:]
	}
	return s
}

type journalState struct {
	done    bool
	openIdx int // BEGIN without END (-1: none)
	lastEnd int
	suspect bool
	guard   bool
	stage   string
}

func readJournal(path string) journalState {
	st := journalState{openIdx: -1, lastEnd: -1}
	f, err := os.Open(path)
	if err != nil {
		return st
	}
	defer f.Close()
	sc := bufio.NewScanner(f)
	sc.Buffer(make([]byte, 1<<20), 1<<20)
	for sc.Scan() {
		fs := strings.Fields(sc.Text())
		if len(fs) == 0 {
			continue
		}
		idx := -1
		if len(fs) > 1 {
			idx, _ = strconv.Atoi(fs[1])
		}
		switch fs[0] {
		case "BEGIN":
			st.openIdx, st.suspect, st.guard, st.done = idx, false, false, false
		case "END":
			st.openIdx, st.lastEnd = -1, idx
		case "SUSPECT":
			st.suspect = true
			if i := strings.Index(sc.Text(), "stage="); i >= 0 {
				st.stage = sc.Text()[i+6:]
			}
		case "MEMGUARD":
			st.guard = true
		case "START":
			st.done = false
		case "DONE":
			st.done = true
		}
	}
	return st
}

// ---------------------------------------------------------------------------
// children

var maxStackMiB = envInt("C04_STACK_MIB", 16)

func childSetup(r *vf.Run) {
	debug.SetMaxStack(maxStackMiB << 20)
	tmp := filepath.Join(r.Scratch, "tmp")
	_ = os.MkdirAll(tmp, 0o755)
	os.Setenv("TMPDIR", tmp)
	if !r.RaceBuild {
		lim := uint64(envInt("C04_AS_GIB", 10)) << 30
		_ = syscall.Setrlimit(syscall.RLIMIT_AS, &syscall.Rlimit{Cur: lim, Max: lim})
	}
}

func rssBytes() int64 {
	b, err := os.ReadFile("/proc/self/statm")
	if err != nil {
		return 0
	}
	fs := strings.Fields(string(b))
	if len(fs) < 2 {
		return 0
	}
	p, _ := strconv.ParseInt(fs[1], 10, 64)
	return p * int64(os.Getpagesize())
}

func batch(r *vf.Run) {
	childSetup(r)
	if len(r.ChildArgs) < 4 {
		r.Inconclusive("batch: bad args")
		return
	}
	journal := r.ChildArgs[0]
	from, _ := strconv.Atoi(r.ChildArgs[1])
	to, _ := strconv.Atoi(r.ChildArgs[2])
	race := r.ChildArgs[3] == "true"
	jf, err := os.OpenFile(journal, os.O_CREATE|os.O_WRONLY|os.O_APPEND, 0o644)
	if err != nil {
		r.Inconclusive("batch: cannot open journal")
		return
	}
	// unbuffered write(2): the line is in the kernel before the case starts, which is what
	// surviving the death of this process needs (power loss is not in scope).
	jw := func(format string, a ...any) { _, _ = jf.WriteString(fmt.Sprintf(format, a...)) }
	jw("START %d %d\n", from, to)
	pool := newPool(r)
	sh := &shared{dir: filepath.Join(r.Scratch, "shared")}
	softCPU := time.Duration(envInt("C04_SOFT_CPU_S", 15)) * time.Second
	if r.RaceBuild {
		softCPU = time.Duration(envInt("C04_SOFT_CPU_RACE_S", 60)) * time.Second
	}
	var curIdx = -1
	if r.RaceBuild {
		go func() {
			for {
				time.Sleep(200 * time.Millisecond)
				if rssBytes() > 8<<30 {
					jw("MEMGUARD %d\n", curIdx)
					r.FlushPartial()
					os.Exit(9)
				}
			}
		}()
	}
	ran := 0
	for i := from; i < to; i++ {
		if isRaceCase(i) != race {
			continue
		}
		if gens := os.Getenv("C04_GENS"); gens != "" {
			// development aid (mutation runs): only the cases of the named generators,
			// same indices and inputs as in the full run
			if g, _ := ordinal(i); !strings.ContainsRune(gens, rune(g)) {
				continue
			}
		}
		var in *input
		if p, v, _ := vf.Recover(func() { in = makeInput(r, pool, i) }); p || in == nil {
			r.Inconclusive(fmt.Sprintf("harness: generator panic: %v", v))
			continue
		}
		curIdx = i
		jw("BEGIN %d %s\n", i, in.Gen)
		c := &caseRun{sh: sh, r: r, pool: pool, in: in, rng: r.RNG(0xc0de, uint64(i)), race: r.RaceBuild}
		c.cur.Store("start")
		c.dir = filepath.Join(r.Scratch, fmt.Sprintf("case-%d", i))
		_ = os.MkdirAll(c.dir, 0o755)
		done := make(chan struct{})
		t0, c0 := time.Now(), cpuNow()
		go func() {
			defer close(done)
			runCase(c)
		}()
		if why := awaitCase(done, softCPU, 25*time.Second, 10*time.Second); why != "" {
			jw("SUSPECT %d why=%s stage=%v\n", i, why, c.cur.Load())
			r.Count("soft_limit_fired/"+why, 1)
			r.FlushPartial()
			os.Exit(7)
		}
		account(r, c, time.Since(t0), cpuNow()-c0)
		_ = os.RemoveAll(c.dir)
		jw("END %d\n", i)
		ran++
		if ran%5 == 0 {
			r.FlushPartial()
		}
	}
	jw("DONE\n")
}

func cpuNow() time.Duration {
	var ru syscall.Rusage
	if syscall.Getrusage(syscall.RUSAGE_SELF, &ru) != nil {
		return 0
	}
	return time.Duration(ru.Utime.Nano() + ru.Stime.Nano())
}

// awaitCase waits for the case and decides on *state*, not on wall-clock alone (the box is
// shared and heavily loaded): "cpu" = the process burnt cpuLimit of CPU time inside this case
// (a spinning loop, whatever the load), "blocked" = at least idleWall elapsed and the process
// consumed (almost) no CPU during the last idleWindow (everything is parked). "" = finished.
func awaitCase(done <-chan struct{}, cpuLimit, idleWall, idleWindow time.Duration) string {
	t0, c0 := time.Now(), cpuNow()
	type smp struct {
		t time.Time
		c time.Duration
	}
	win := []smp{{t0, c0}}
	tick := time.NewTicker(250 * time.Millisecond)
	defer tick.Stop()
	for {
		select {
		case <-done:
			return ""
		case now := <-tick.C:
			c := cpuNow()
			if c-c0 >= cpuLimit {
				return "cpu"
			}
			win = append(win, smp{now, c})
			for len(win) > 1 && now.Sub(win[1].t) >= idleWindow {
				win = win[1:]
			}
			if now.Sub(t0) >= idleWall && now.Sub(win[0].t) >= idleWindow && c-win[0].c < idleWindow/50 {
				return "blocked"
			}
		}
	}
}

func runCase(c *caseRun) {
	c.maxFiles = maxFiles
	c.stage("case", func() {
		switch c.in.Gen {
		case "d":
			c.runHostile()
		case "e":
			c.runBuild()
		default:
			c.runBlobChain()
		}
	})
}

func account(r *vf.Run, c *caseRun, d, cpu time.Duration) {
	r.Eval(1)
	g := c.in.Gen
	r.Count("inputs/"+g, 1)
	m := c.marks.Load()
	for b, name := range stageNames {
		if m&(1<<uint(b)) != 0 {
			r.Count("past/"+g+"/"+name, 1)
		}
	}
	if c.nontrivial {
		h := c.in.Desc
		if c.in.Blob != nil {
			h = fmt.Sprintf("%x", sha(c.in.Blob))
		}
		r.NonTrivial(g + ":" + h + ":" + c.in.Desc)
	}
	if c.in.Idx%977 == 3 || c.in.Idx < 3 {
		r.Sample(map[string]any{"index": c.in.Idx, "gen": g, "desc": oneLine(c.in.Desc, 300), "past": stagesOf(m), "ms": d.Milliseconds()})
	}
	r.Count("cpu_ms/"+g, int(cpu.Milliseconds()))
	if cpu > 2*time.Second {
		r.Count("cases_over_2s_cpu", 1)
		r.Distinct("costly_cases", fmt.Sprintf("%d cpu=%dms wall=%dms %s", c.in.Idx, cpu.Milliseconds(), d.Milliseconds(), oneLine(c.in.Desc, 160)))
	}
	if c.race {
		r.Count("cases_in_race_build", 1)
	}
}

func stagesOf(m uint32) []string {
	var s []string
	for b, name := range stageNames {
		if m&(1<<uint(b)) != 0 {
			s = append(s, name)
		}
	}
	return s
}

func solo(r *vf.Run) {
	childSetup(r)
	if len(r.ChildArgs) < 1 {
		return
	}
	i, _ := strconv.Atoi(r.ChildArgs[0])
	pool := newPool(r)
	sh := &shared{dir: filepath.Join(r.Scratch, "shared")}
	in := makeInput(r, pool, i)
	c := &caseRun{sh: sh, r: r, pool: pool, in: in, rng: r.RNG(0xc0de, uint64(i)), race: r.RaceBuild}
	c.cur.Store("start")
	c.dir = filepath.Join(r.Scratch, fmt.Sprintf("case-%d", i))
	_ = os.MkdirAll(c.dir, 0o755)
	if os.Getenv("C04_DUMP") != "" {
		fmt.Printf("case %d gen=%s desc=%s\nblob(%d)=%x\next(%d)=%x\n", i, in.Gen, in.Desc, len(in.Blob), in.Blob, len(in.ExtTOC), in.ExtTOC)
	}
	if os.Getenv("C04_TIMING") != "" {
		stageTiming = map[string]time.Duration{}
	}
	// The runtime's own SIGQUIT dump cannot show a goroutine that spins on another
	// thread ("stack unavailable"); runtime.Stack stops the world first and can.
	sq := make(chan os.Signal, 1)
	signal.Notify(sq, syscall.SIGQUIT)
	go func() {
		<-sq
		buf := make([]byte, 32<<20)
		n := runtime.Stack(buf, true)
		fmt.Printf("\nSIGQUIT: goroutine dump of the suspect run (stage=%v)\n\n%s\n", c.cur.Load(), buf[:n])
		os.Exit(3)
	}()
	t0, c0 := time.Now(), cpuNow()
	done := make(chan struct{})
	go func() {
		defer close(done)
		runCase(c)
	}()
	// 240 s, not 60: the dearest finite cases of the generators (200 one-chunk files in a
	// zstd:chunked layer: a zstd decoder and a cache file per chunk) cost 5-10 s of CPU on an
	// idle machine and were measured at 40-50 s (half of it system time: tmpfs and scheduler
	// contention) at a load average of 46 — one of them crossed 60 s when three C04 runs
	// shared the machine. A dead loop burns through any budget; the price is the time to confirm.
	hangCPU := time.Duration(envInt("C04_HANG_CPU_S", 240)) * time.Second
	if r.RaceBuild {
		hangCPU = hangCPU * 5 / 2
	}
	if why := awaitCase(done, hangCPU, time.Duration(envInt("C04_HANG_S", 120))*time.Second, 30*time.Second); why != "" {
		buf := make([]byte, 32<<20)
		n := runtime.Stack(buf, true)
		fmt.Printf("\nC04-HANG why=%s cpu=%v wall=%v stage=%v\n\n%s\n", why, cpuNow()-c0, time.Since(t0), c.cur.Load(), buf[:n])
		os.Exit(4)
	}
	account(r, c, time.Since(t0), cpuNow()-c0)
	r.Count("solo_runs", 1)
	if stageTiming != nil {
		var ks []string
		for k := range stageTiming {
			ks = append(ks, k)
		}
		sort.Slice(ks, func(i, j int) bool { return stageTiming[ks[i]] > stageTiming[ks[j]] })
		fmt.Printf("total %v since process start %v\n", time.Since(t0), time.Since(procStart))
		for _, k := range ks {
			fmt.Printf("%12v %s\n", stageTiming[k], k)
		}
	}
}
