package main

// Generator (d): hostile registry replies against remote.NewResolver(...).Resolve ->
// Blob ReadAt / Cache / Check / Refresh, and the metadata parser on top of that blob.

import (
	"bytes"
	"context"
	"fmt"
	"io"
	"mime/multipart"
	"net/http"
	"net/textproto"
	"net/url"
	"reflect"
	"strconv"
	"sync"
	"sync/atomic"
	"time"

	"github.com/containerd/containerd/v2/core/remotes/docker"
	"github.com/containerd/containerd/v2/pkg/reference"
	"github.com/containerd/stargz-snapshotter/cache"
	"github.com/containerd/stargz-snapshotter/estargz/zstdchunked"
	"github.com/containerd/stargz-snapshotter/fs/config"
	"github.com/containerd/stargz-snapshotter/fs/remote"
	"github.com/containerd/stargz-snapshotter/fs/source"
	"github.com/containerd/stargz-snapshotter/metadata"
	memorymetadata "github.com/containerd/stargz-snapshotter/metadata/memory"
	"github.com/containerd/stargz-snapshotter/service/resolver"
	digest "github.com/opencontainers/go-digest"
	ocispec "github.com/opencontainers/image-spec/specs-go/v1"

	"verifharness/internal/memreg"
	"verifharness/internal/prng"
	"verifharness/internal/vf"
)

type blobOp struct {
	Kind string // readat cache check refresh fetched close
	Off  int64
	Len  int64
	Conc int
}

// redirPlan: 3xx replies that the HTTP client of a registry host (built the production
// way: service/resolver.RegistryHostsFromConfig, go-retryablehttp + http.Client) follows by
// itself inside one RoundTrip.
type redirPlan struct {
	Kind     string // self-forever | pingpong | chain-same | chain-cross | cross-forever
	N        int    // chain-*: number of redirects before the honest answer
	Status   int    // 301 302 303 307 308
	Relative bool   // Location without scheme and host
	When     string // "always" | "armed" (only after Resolve has returned)
}

var redirDirected = []redirPlan{
	{Kind: "self-forever", Status: 302, When: "always"},
	{Kind: "self-forever", Status: 307, When: "armed"},
	{Kind: "self-forever", Status: 301, Relative: true, When: "always"},
	{Kind: "pingpong", Status: 302, When: "always"},
	{Kind: "pingpong", Status: 308, When: "armed"},
	{Kind: "chain-same", N: 3, Status: 302, When: "always"},
	{Kind: "chain-same", N: 9, Status: 303, When: "always"},
	{Kind: "chain-same", N: 10, Status: 302, When: "always"},
	{Kind: "chain-same", N: 11, Status: 307, When: "always"},
	{Kind: "chain-same", N: 500, Status: 302, Relative: true, When: "always"},
	{Kind: "chain-same", N: 40, Status: 302, When: "armed"},
	{Kind: "chain-cross", N: 4, Status: 302, When: "always"},
	{Kind: "chain-cross", N: 11, Status: 302, When: "always"},
	{Kind: "chain-cross", N: 300, Status: 307, When: "armed"},
	{Kind: "cross-forever", Status: 302, When: "always"},
	{Kind: "cross-forever", Status: 308, When: "armed"},
}

type hostilePlan struct {
	// Prod: the registry hosts are built by service/resolver.RegistryHostsFromConfig (the
	// daemon's way: retrying client that follows redirects) with only the innermost
	// transport replaced by the scripted registry. ProdTimeout = request_timeout_sec of the
	// mirror entry (-1 none, 0 default 30 s, >0 seconds).
	Prod          bool
	ProdTimeout   int
	Redir         *redirPlan
	BaseK         int
	Seed          uint64
	ChunkSize     int64
	PrefetchChunk int64
	HostileOf10   int // how many requests out of 10 get a hostile answer
	SingleRange   bool
	Ops           []blobOp
	Focus         string // "" = any behaviour; else only this one
}

var hostileKinds = []string{
	"cr-garbage", "cr-shift", "cr-end-lt-begin", "cr-huge", "cr-missing", "cr-total-star", "body-short", "body-long", "body-empty",
	"mp-always", "mp-wrong-boundary", "mp-no-boundary", "mp-part-no-cr", "mp-part-garbage-cr", "mp-unaligned", "mp-dup", "mp-overlap",
	"mp-extra", "mp-first-only", "mp-reverse", "mp-truncated", "mp-part-short", "mp-part-long", "mp-zero-parts", "mp-huge-range",
	"ct-garbage", "206-no-ranges", "200-cl-garbage", "200-cl-negative", "200-cl-huge", "200-cl-small", "200-cl-large", "200-whole",
	"squash", "st-403", "st-400", "st-416", "st-500", "st-401", "st-302-noloc", "st-302-garbage", "st-204", "err-transport",
	// the status for every request for layer bytes, persistently, while the two-byte location probe (Range: bytes=0-1 of
	// redirect()/refreshURL) keeps being answered honestly: the fetcher's refresh-and-retry paths are entered again and again
	"st-403-keep-probe", "st-400-keep-probe", "st-401-keep-probe", "st-500-keep-probe",
	"head-cl-garbage", "head-cl-negative", "head-cl-huge", "head-cl-zero", "head-cl-missing", "head-405", "head-405-cr-garbage",
}

func genD(r *vf.Run, pool *basePool, idx, k int) *input {
	rng := r.RNG('d', uint64(k))
	b := pool.get(rng.Intn(poolSize))
	p := &hostilePlan{BaseK: b.K, Seed: rng.U64(), HostileOf10: rng.Pick(2, 5, 8, 10)}
	p.ChunkSize = int64(rng.Pick(1, 7, 64, 100, 512, 4096, 50000))
	if rng.Chance(1, 4) {
		p.PrefetchChunk = p.ChunkSize * int64(rng.Pick(2, 3, 10))
	}
	p.SingleRange = rng.Chance(1, 5)
	if k < len(hostileKinds)*2 {
		p.Focus = hostileKinds[k%len(hostileKinds)]
		p.HostileOf10 = 10
		if k >= len(hostileKinds) {
			p.HostileOf10 = 6
		}
	}
	size := int64(len(b.Built.Blob))
	offs := []int64{0, 1, p.ChunkSize - 1, p.ChunkSize, p.ChunkSize + 1, size / 2, size - 1, size, size + 1, size - p.ChunkSize}
	for i, n := 0, rng.Range(5, 12); i < n; i++ {
		o := blobOp{Kind: rng.PickS("readat", "readat", "readat", "cache", "check", "refresh", "fetched", "readat")}
		o.Off = offs[rng.Intn(len(offs))]
		if o.Off < 0 {
			o.Off = 0
		}
		o.Len = int64(rng.Pick(1, 2, int(p.ChunkSize), int(p.ChunkSize)+1, 3*int(p.ChunkSize)+1, 1000, 65536))
		if o.Kind == "cache" && rng.Chance(1, 4) {
			// In the daemon the length handed to Cache is the configured prefetch size or the
			// landmark offset, both limited by the size the registry reported. Keep the
			// harness-chosen argument in that domain (the registry lying about the size is
			// the directed plan "size-lie").
			o.Len = []int64{-1, 0, size * 2, size * 3, -(1 << 62)}[rng.Intn(5)]
		}
		if lim := 400 * p.ChunkSize; o.Len > lim {
			// the blob code handles the chunks of one call quadratically (regionSet.add,
			// sync key): with 1- or 7-byte chunks a 64 KiB read is tens of CPU-seconds of
			// finite work once the retrying production client multiplies it
			o.Len = lim
		}
		o.Conc = rng.Pick(1, 1, 2, 4)
		p.Ops = append(p.Ops, o)
	}
	if k >= len(hostileKinds)*2 && k < len(hostileKinds)*2+6 {
		// directed "size-lie": the registry reports a gigantic blob and the (equally
		// untrusted) prefetch landmark asks for a gigantic prefix of it
		p.Focus, p.HostileOf10 = "head-cl-huge", 10
		p.ChunkSize = int64([]int{50000, 512, 50000, 4096, 64, 50000}[k-len(hostileKinds)*2])
		p.PrefetchChunk = 0
		if k%2 == 1 {
			p.PrefetchChunk = p.ChunkSize * 4
		}
		p.Ops = []blobOp{{Kind: "cache", Off: 0, Len: 1 << 60, Conc: 1}, {Kind: "readat", Off: 1 << 40, Len: 100, Conc: 1}, {Kind: "cache", Off: 1 << 39, Len: 1 << 38, Conc: 1}}
	}
	nk := len(hostileKinds)*2 + 6
	switch {
	case k >= nk && k < nk+2*len(redirDirected):
		rp := redirDirected[(k-nk)%len(redirDirected)]
		p.Redir, p.Prod, p.Focus, p.HostileOf10 = &rp, true, "", 0
		p.ProdTimeout = -1
		if k >= nk+len(redirDirected) {
			p.ProdTimeout = []int{0, 4}[k%2] // the default (30 s) or a configured timeout
		}
	case k >= nk+2*len(redirDirected) && rng.Chance(1, 6):
		rp := redirPlan{Kind: rng.PickS("self-forever", "pingpong", "chain-same", "chain-same", "chain-cross", "cross-forever"),
			N: rng.Pick(1, 5, 9, 10, 11, 12, 30, 1000), Status: rng.Pick(301, 302, 302, 303, 307, 308), Relative: rng.Chance(1, 4), When: rng.PickS("always", "armed")}
		p.Redir, p.Prod = &rp, true
		p.ProdTimeout = rng.Pick(-1, -1, -1, 0, 3)
		p.HostileOf10 = rng.Pick(0, 0, 2) // mostly pure redirect games, sometimes mixed with other hostile replies
	case k >= nk+2*len(redirDirected) && rng.Chance(1, 5):
		p.Prod = true // the ordinary hostile replies through the production client (retries, redirect following)
		p.ProdTimeout = rng.Pick(-1, 3)
	}
	p.Ops = append(p.Ops, blobOp{Kind: "close"}, blobOp{Kind: "readat", Off: 0, Len: 10, Conc: 1})
	if p.Redir != nil {
		return &input{Idx: idx, Gen: "d", Framing: b.Framing, Host: p,
			Desc: fmt.Sprintf("base%d(%s) size=%d production-client request_timeout_sec=%d redirects=%+v chunk=%d hostile=%d/10 ops=%v", b.K, b.Framing, size, p.ProdTimeout, *p.Redir, p.ChunkSize, p.HostileOf10, p.Ops)}
	}
	return &input{Idx: idx, Gen: "d", Framing: b.Framing, Host: p,
		Desc: fmt.Sprintf("base%d(%s) size=%d chunk=%d prefetchChunk=%d hostile=%d/10 focus=%q single=%v prod=%v/%d ops=%v", b.K, b.Framing, size, p.ChunkSize, p.PrefetchChunk, p.HostileOf10, p.Focus, p.SingleRange, p.Prod, p.ProdTimeout, p.Ops)}
}

type readerAtFunc func([]byte, int64) (int, error)

func (f readerAtFunc) ReadAt(p []byte, off int64) (int, error) { return f(p, off) }

func setBody(res *http.Response, body []byte, declareLen bool) {
	res.Body = io.NopCloser(bytes.NewReader(body))
	if declareLen {
		res.ContentLength = int64(len(body))
		res.Header.Set("Content-Length", strconv.Itoa(len(body)))
	}
}

type mpPart struct {
	cr   string // Content-Range header value ("" = none)
	body []byte
}

func mpBody(parts []mpPart, closeIt bool) ([]byte, string) {
	var buf bytes.Buffer
	mw := multipart.NewWriter(&buf)
	for _, p := range parts {
		h := textproto.MIMEHeader{}
		h.Set("Content-Type", "application/octet-stream")
		if p.cr != "" {
			h.Set("Content-Range", p.cr)
		}
		w, _ := mw.CreatePart(h)
		_, _ = w.Write(p.body)
	}
	if closeIt {
		_ = mw.Close()
	}
	return buf.Bytes(), mw.Boundary()
}

func clampRanges(rs [][2]int64, size int64) [][2]int64 {
	var ok [][2]int64
	for _, x := range rs {
		if x[0] < 0 {
			x[0] = 0
		}
		if x[1] >= size {
			x[1] = size - 1
		}
		if x[0] <= x[1] {
			ok = append(ok, x)
		}
	}
	return ok
}

var garbageCR = []string{"", "bytes", "bytes 0-", "bytes -5-10/20", "bytes 0-1/abc", "bytes a-b/c", "items 0-1/2", "bytes 1-0/5",
	"bytes 99999999999999999999-1/5", "bytes 0-99999999999999999999/5", "bytes 0-1/99999999999999999999", "bytes 0-1", "bytes */5",
	"bytes 0-9223372036854775807/9223372036854775807", "bytes 9223372036854775807-9223372036854775807/1", "\x00\xff", "bytes 0-1/*"}

// hostileScript returns the personality script; delivered counts hostile answers handed out.
func hostileScript(p *hostilePlan, data []byte, cdn func() string, delivered *atomic.Int64, kinds *sync.Map) func(q *memreg.Request) memreg.Behaviour {
	var nreq atomic.Uint64
	size := int64(len(data))
	return func(q *memreg.Request) memreg.Behaviour {
		n := nreq.Add(1)
		rng := prng.New(p.Seed).Derive(n)
		if q.Kind != "blob" && q.Kind != "cdn" {
			return memreg.Behaviour{}
		}
		if rng.Intn(10) >= p.HostileOf10 {
			// honest, in a random legitimate personality
			return memreg.Behaviour{Mode: memreg.RangeMode(rng.Pick(0, 0, 0, 1, 2, 4))}
		}
		kind := p.Focus
		if kind == "" {
			kind = hostileKinds[rng.Intn(len(hostileKinds))]
		}
		isHead := q.Method == "HEAD"
		headKind := len(kind) > 5 && kind[:5] == "head-"
		if isHead != headKind {
			if p.Focus == "head-405-cr-garbage" && !isHead && len(q.Ranges) == 1 && q.Ranges[0] == [2]int64{0, 1} {
				kind = "cr-garbage" // the GET fallback of the refused HEAD
			} else if p.Focus != "" {
				// focused plans answer the other request kinds honestly so that the focus is reached
				return memreg.Behaviour{}
			} else if isHead {
				kind = []string{"head-cl-garbage", "head-cl-negative", "head-cl-huge", "head-cl-zero", "head-cl-missing", "head-405", "head-405-cr-garbage"}[rng.Intn(7)]
			} else {
				kind = "cr-garbage"
			}
		}
		delivered.Add(1)
		kinds.Store(kind, true)
		rs := clampRanges(q.Ranges, size)
		part := func(x [2]int64) mpPart {
			return mpPart{fmt.Sprintf("bytes %d-%d/%d", x[0], x[1], size), data[x[0] : x[1]+1]}
		}
		honestParts := func() []mpPart {
			var ps []mpPart
			for _, x := range rs {
				ps = append(ps, part(x))
			}
			return ps
		}
		multipartResp := func(parts []mpPart, closeIt bool, edit func(res *http.Response, body []byte, boundary string) []byte) memreg.Behaviour {
			return memreg.Behaviour{Label: kind, MutateResp: func(res *http.Response) {
				if res.Request != nil && res.Request.Method == "HEAD" {
					return
				}
				body, bd := mpBody(parts, closeIt)
				res.StatusCode, res.Status = 206, "206 Partial Content"
				res.Header.Del("Content-Range")
				res.Header.Set("Content-Type", "multipart/byteranges; boundary="+bd)
				if edit != nil {
					body = edit(res, body, bd)
				}
				setBody(res, body, true)
			}}
		}
		hdr := func(f func(res *http.Response)) memreg.Behaviour {
			return memreg.Behaviour{Label: kind, MutateResp: f}
		}
		switch kind {
		case "cr-garbage":
			g := garbageCR[rng.Intn(len(garbageCR))]
			return hdr(func(res *http.Response) { res.Header.Set("Content-Range", g) })
		case "cr-shift":
			d := int64(rng.Pick(-1, 1, 3, -7, 1000))
			return hdr(func(res *http.Response) {
				if len(rs) > 0 {
					b := rs[0][0] + d
					if b < 0 {
						b = 1
					}
					res.Header.Set("Content-Range", fmt.Sprintf("bytes %d-%d/%d", b, rs[0][1]+d, size))
				}
			})
		case "cr-end-lt-begin":
			return hdr(func(res *http.Response) {
				res.Header.Set("Content-Range", fmt.Sprintf("bytes %d-%d/%d", size-1, 0, size))
			})
		case "cr-huge":
			return hdr(func(res *http.Response) {
				res.Header.Set("Content-Range", rng.PickS("bytes 0-9223372036854775806/9223372036854775807", "bytes 0-4611686018427387903/4611686018427387904", fmt.Sprintf("bytes 0-%d/%d", size*1000, size*1000+1)))
			})
		case "cr-missing":
			return hdr(func(res *http.Response) { res.Header.Del("Content-Range") })
		case "cr-total-star":
			return hdr(func(res *http.Response) {
				if len(rs) > 0 {
					res.Header.Set("Content-Range", fmt.Sprintf("bytes %d-%d/*", rs[0][0], rs[0][1]))
				}
			})
		case "body-short":
			return memreg.Behaviour{Label: kind, MutateBody: func(b []byte) []byte { return b[:rng.Intn(len(b)+1)] }}
		case "body-long":
			return memreg.Behaviour{Label: kind, MutateBody: func(b []byte) []byte { return append(append([]byte{}, b...), rng.Bytes(rng.Range(1, 5000))...) }}
		case "body-empty":
			return memreg.Behaviour{Label: kind, MutateBody: func(b []byte) []byte { return nil }}
		case "mp-always":
			return memreg.Behaviour{Label: kind, Mode: memreg.MultipartAlways}
		case "mp-wrong-boundary":
			return multipartResp(honestParts(), true, func(res *http.Response, body []byte, bd string) []byte {
				res.Header.Set("Content-Type", "multipart/byteranges; boundary=nottheboundary")
				return body
			})
		case "mp-no-boundary":
			return multipartResp(honestParts(), true, func(res *http.Response, body []byte, bd string) []byte {
				res.Header.Set("Content-Type", rng.PickS("multipart/byteranges", "multipart/byteranges; boundary=", "multipart/; boundary=\"\""))
				return body
			})
		case "mp-part-no-cr":
			ps := honestParts()
			for i := range ps {
				ps[i].cr = ""
			}
			return multipartResp(ps, true, nil)
		case "mp-part-garbage-cr":
			ps := honestParts()
			for i := range ps {
				if rng.Bool() || i == 0 {
					ps[i].cr = garbageCR[rng.Intn(len(garbageCR))]
				}
			}
			return multipartResp(ps, true, nil)
		case "mp-unaligned":
			var ps []mpPart
			for _, x := range rs {
				if x[0]+1 <= x[1] {
					ps = append(ps, part([2]int64{x[0] + 1, x[1]}))
				} else {
					ps = append(ps, part(x))
				}
			}
			return multipartResp(ps, true, nil)
		case "mp-dup":
			ps := honestParts()
			ps = append(ps, ps...)
			return multipartResp(ps, true, nil)
		case "mp-overlap":
			var ps []mpPart
			for _, x := range rs {
				ps = append(ps, part(x))
				lo := x[0] - p.ChunkSize
				if lo < 0 {
					lo = 0
				}
				ps = append(ps, part([2]int64{lo, x[1]}))
			}
			return multipartResp(ps, true, nil)
		case "mp-extra":
			ps := honestParts()
			// chunk-aligned parts nobody asked for
			for i := 0; i < 3; i++ {
				c := int64(rng.Intn(int(size/p.ChunkSize)+1)) * p.ChunkSize
				e := c + p.ChunkSize*int64(rng.Range(1, 3)) - 1
				if c >= size {
					continue
				}
				if e >= size {
					e = size - 1
				}
				if rng.Bool() {
					ps = append([]mpPart{part([2]int64{c, e})}, ps...)
				} else {
					ps = append(ps, part([2]int64{c, e}))
				}
			}
			return multipartResp(ps, true, nil)
		case "mp-first-only":
			return memreg.Behaviour{Label: kind, Mode: memreg.FirstOnly}
		case "mp-reverse":
			ps := honestParts()
			for i, j := 0, len(ps)-1; i < j; i, j = i+1, j-1 {
				ps[i], ps[j] = ps[j], ps[i]
			}
			return multipartResp(ps, true, nil)
		case "mp-truncated":
			return multipartResp(honestParts(), rng.Bool(), func(res *http.Response, body []byte, bd string) []byte {
				return body[:rng.Intn(len(body)+1)]
			})
		case "mp-part-short":
			ps := honestParts()
			for i := range ps {
				ps[i].body = ps[i].body[:rng.Intn(len(ps[i].body)+1)]
			}
			return multipartResp(ps, true, nil)
		case "mp-part-long":
			ps := honestParts()
			for i := range ps {
				ps[i].body = append(append([]byte{}, ps[i].body...), rng.Bytes(rng.Range(1, 300))...)
			}
			return multipartResp(ps, true, nil)
		case "mp-zero-parts":
			return multipartResp(nil, true, nil)
		case "mp-huge-range":
			ps := honestParts()
			if len(ps) > 0 {
				ps[0].cr = fmt.Sprintf("bytes %d-%d/%d", rs[0][0], int64(1)<<62, size)
			}
			return multipartResp(ps, true, nil)
		case "ct-garbage":
			return hdr(func(res *http.Response) {
				if res.StatusCode == 200 {
					res.StatusCode, res.Status = 206, "206 Partial Content"
				}
				res.Header.Set("Content-Type", rng.PickS(";;;", "", "multipart", "a/b/c", "multipart/byteranges; boundary", "\x00"))
			})
		case "206-no-ranges":
			return memreg.Behaviour{Label: kind, Mode: memreg.Whole, MutateResp: func(res *http.Response) {
				res.StatusCode, res.Status = 206, "206 Partial Content"
				res.Header.Del("Content-Range")
			}}
		case "200-cl-garbage":
			return memreg.Behaviour{Label: kind, Mode: memreg.Whole, MutateResp: func(res *http.Response) { res.Header.Set("Content-Length", rng.PickS("abc", "", " 5", "0x10", "1e3")) }}
		case "200-cl-negative":
			return memreg.Behaviour{Label: kind, Mode: memreg.Whole, MutateResp: func(res *http.Response) {
				res.Header.Set("Content-Length", rng.PickS("-1", "-5", "-9223372036854775808"))
			}}
		case "200-cl-huge":
			return memreg.Behaviour{Label: kind, Mode: memreg.Whole, MutateResp: func(res *http.Response) {
				res.Header.Set("Content-Length", rng.PickS("9223372036854775807", "4611686018427387904", "99999999999999999999"))
			}}
		case "200-cl-small":
			return memreg.Behaviour{Label: kind, Mode: memreg.Whole, MutateResp: func(res *http.Response) { res.Header.Set("Content-Length", strconv.FormatInt(size/2, 10)) }}
		case "200-cl-large":
			return memreg.Behaviour{Label: kind, Mode: memreg.Whole, MutateResp: func(res *http.Response) { res.Header.Set("Content-Length", strconv.FormatInt(size*2+1, 10)) }}
		case "200-whole":
			return memreg.Behaviour{Label: kind, Mode: memreg.Whole}
		case "squash":
			return memreg.Behaviour{Label: kind, Mode: memreg.Squash}
		case "st-403-keep-probe", "st-400-keep-probe", "st-401-keep-probe", "st-500-keep-probe":
			if len(q.Ranges) == 1 && q.Ranges[0] == [2]int64{0, 1} {
				return memreg.Behaviour{}
			}
			return memreg.Behaviour{Label: kind, Status: map[string]int{"st-403-keep-probe": 403, "st-400-keep-probe": 400, "st-401-keep-probe": 401, "st-500-keep-probe": 500}[kind]}
		case "st-403":
			return memreg.Behaviour{Label: kind, Status: 403}
		case "st-400":
			return memreg.Behaviour{Label: kind, Status: 400}
		case "st-416":
			return memreg.Behaviour{Label: kind, Status: 416}
		case "st-500":
			return memreg.Behaviour{Label: kind, Status: 500}
		case "st-401":
			return memreg.Behaviour{Label: kind, Status: 401}
		case "st-204":
			return memreg.Behaviour{Label: kind, Status: 204}
		case "st-302-noloc":
			return memreg.Behaviour{Label: kind, Status: 302}
		case "st-302-garbage":
			return memreg.Behaviour{Label: kind, RedirectTo: rng.PickS("::bad url", "", "http://[::1", cdn(), "/relative/path", "https://cdn.example.test/cdn/expired/x/y/z")}
		case "err-transport":
			return memreg.Behaviour{Label: kind, Err: fmt.Errorf("hostile: connection reset")}
		case "head-cl-garbage":
			return hdr(func(res *http.Response) { res.Header.Set("Content-Length", rng.PickS("abc", "", "1e9", " 12")) })
		case "head-cl-negative":
			return hdr(func(res *http.Response) {
				res.Header.Set("Content-Length", rng.PickS("-1", "-100", "-9223372036854775808"))
			})
		case "head-cl-huge":
			return hdr(func(res *http.Response) {
				res.Header.Set("Content-Length", rng.PickS("9223372036854775807", "4611686018427387904", "1099511627776", strconv.FormatInt(size*3, 10)))
			})
		case "head-cl-zero":
			return hdr(func(res *http.Response) {
				res.Header.Set("Content-Length", rng.PickS("0", "1", strconv.FormatInt(size-1, 10)))
			})
		case "head-cl-missing":
			return hdr(func(res *http.Response) { res.Header.Del("Content-Length") })
		case "head-405":
			return memreg.Behaviour{Label: kind, Status: 405}
		case "head-405-cr-garbage":
			return memreg.Behaviour{Label: kind, Status: 405}
		}
		return memreg.Behaviour{}
	}
}

// runHostile drives one (d) case.
func (c *caseRun) runHostile() {
	p := c.in.Host
	b := c.pool.get(p.BaseK)
	data := b.Built.Blob
	reg := memreg.New()
	host, repo := "reg.test", fmt.Sprintf("c04/d%d", c.in.Idx)
	dgst := reg.AddBlob(host, repo, data)
	for _, h := range []string{host, mirrorHost} {
		reg.AddBlob(h, repo, data)
		reg.AddBlob(h, repo+"-b", data) // second path of the same host (redirect ping-pong)
	}
	reg.AllowToken("good", true)
	var delivered atomic.Int64
	var kinds sync.Map
	var armed atomic.Bool
	script := hostileScript(p, data, func() string { return reg.CDNURL(host, repo, dgst, "good") }, &delivered, &kinds)
	if p.Redir != nil {
		script = redirScript(p, reg, repo, script, &armed, &delivered, &kinds)
	}
	reg.SetScript(script)
	ref, err := reference.Parse(host + "/" + repo + ":v1")
	if err != nil {
		panic("harness: " + err.Error())
	}
	desc := ocispec.Descriptor{MediaType: ocispec.MediaTypeImageLayerGzip, Digest: dgst, Size: int64(len(data))}
	cfg := config.BlobConfig{ChunkSize: p.ChunkSize, PrefetchChunkSize: p.PrefetchChunk, CheckAlways: true, ForceSingleRangeMode: p.SingleRange, FetchTimeoutSec: 30, MaxRetries: 1, MinWaitMSec: 1, MaxWaitMSec: 2}
	hosts := reg.Hosts(nil)
	if p.Prod {
		hosts = prodHosts(reg, host, p.ProdTimeout)
		c.r.Count("d:production_client_cases", 1)
	}
	var bl remote.Blob
	c.stage("remote.Resolve", func() {
		// Resolve itself talks to the hostile registry (redirect probe + HEAD): retry a few
		// times so that the blob operations get their turn, too.
		for try := 0; try < 6 && bl == nil; try++ {
			x, err := remote.NewResolver(cfg, nil).Resolve(context.Background(), hosts, ref, desc, cache.NewMemoryCache())
			if err != nil {
				c.err("remote.Resolve", err)
				continue
			}
			bl = x
		}
	})
	armed.Store(true)
	if bl == nil {
		c.finishHostile(&delivered, &kinds, reg)
		return
	}
	c.mark(stFooter) // (d): "past the first parser" = the blob object exists on hostile replies
	size := bl.Size()
	for _, op := range p.Ops {
		op := op
		run := func(tag string) {
			switch op.Kind {
			case "readat":
				n := op.Len
				if n > 1<<20 {
					n = 1 << 20
				}
				buf := make([]byte, n)
				got, err := bl.ReadAt(buf, op.Off)
				if err != nil {
					c.err("blob.ReadAt", err)
				} else if got > 0 {
					c.mark(stRead)
				}
			case "cache":
				if err := bl.Cache(op.Off, op.Len); err != nil {
					c.err("blob.Cache", err)
				}
			case "check":
				if err := bl.Check(); err != nil {
					c.err("blob.Check", err)
				}
			case "refresh":
				if err := bl.Refresh(context.Background(), hosts, ref, desc); err != nil {
					c.err("blob.Refresh", err)
				}
			case "fetched":
				_ = bl.FetchedSize()
				_ = bl.Size()
			case "close":
				if err := bl.Close(); err != nil {
					c.err("blob.Close", err)
				}
			}
		}
		if op.Conc <= 1 {
			c.stage("blob."+op.Kind, func() { run("") })
			continue
		}
		var wg sync.WaitGroup
		for g := 0; g < op.Conc; g++ {
			wg.Add(1)
			go func(g int) {
				defer wg.Done()
				c.stage("blob."+op.Kind+"/conc", func() { run(fmt.Sprint(g)) })
			}(g)
		}
		wg.Wait()
		if op.Kind == "close" {
			break
		}
	}
	// the metadata parser on top of a blob whose bytes come from the hostile registry
	// (a fresh blob: the one above has been closed)
	c.stage("remote+memory.NewReader", func() {
		x, err := remote.NewResolver(cfg, nil).Resolve(context.Background(), hosts, ref, desc, cache.NewMemoryCache())
		if err != nil {
			c.err("remote.Resolve", err)
			return
		}
		defer x.Close()
		sr := io.NewSectionReader(readerAtFunc(func(pp []byte, off int64) (int, error) { return x.ReadAt(pp, off) }), 0, x.Size())
		mr, err := memorymetadata.NewReader(sr, metadata.WithDecompressors(new(zstdchunked.Decompressor), c.extDecompressor()))
		if err != nil {
			c.err("memory.NewReader(remote)", err)
			return
		}
		c.mark(stTOC)
		c.walkMeta("memory(remote)", mr, 200)
		_ = mr.Close()
	})
	_ = size
	c.finishHostile(&delivered, &kinds, reg)
}

func (c *caseRun) finishHostile(delivered *atomic.Int64, kinds *sync.Map, reg *memreg.Registry) {
	c.r.Count("d:requests", int(reg.Requests()))
	c.r.Count("d:hostile_replies_delivered", int(delivered.Load()))
	kinds.Range(func(k, _ any) bool {
		c.r.Distinct("hostile_reply_kinds", k.(string))
		return true
	})
	if delivered.Load() > 0 {
		c.nontrivial = true
	}
}

var _ = time.Second
var _ vf.Violation

const mirrorHost = "mirror.test"

// prodHosts builds the registry hosts exactly as the daemon does
// (service/resolver.RegistryHostsFromConfig: per host a go-retryablehttp client around an
// http.Client that follows redirects, a docker authorizer) and replaces only the innermost
// transport of each client by the scripted in-memory registry. The mirror entry carries the
// request_timeout_sec under test (a negative value, "no timeout", can only be configured
// for mirror entries); the registry host itself follows with the default timeout.
func prodHosts(reg *memreg.Registry, host string, timeoutSec int) source.RegistryHosts {
	cfg := resolver.Config{Host: map[string]resolver.HostConfig{
		host: {Mirrors: []resolver.MirrorConfig{{Host: mirrorHost, RequestTimeoutSec: timeoutSec}}},
	}}
	inner := resolver.RegistryHostsFromConfig(cfg)
	return func(ref reference.Spec) ([]docker.RegistryHost, error) {
		hs, err := inner(ref)
		if err != nil {
			return nil, err
		}
		for i := range hs {
			if !setInnermostTransport(hs[i].Client, reg) {
				return nil, fmt.Errorf("harness: host client of %q is not the retryable client", hs[i].Host)
			}
		}
		return hs, nil
	}
}

// setInnermostTransport reaches c.Transport.(*retryablehttp.RoundTripper).Client.HTTPClient
// by reflection (no direct dependency of the harness on go-retryablehttp).
func setInnermostTransport(c *http.Client, tr http.RoundTripper) bool {
	if c == nil || c.Transport == nil {
		return false
	}
	v := reflect.ValueOf(c.Transport)
	if v.Kind() != reflect.Ptr || v.Elem().Kind() != reflect.Struct {
		return false
	}
	cl := v.Elem().FieldByName("Client")
	if !cl.IsValid() || cl.Kind() != reflect.Ptr || cl.IsNil() {
		return false
	}
	hc := cl.Elem().FieldByName("HTTPClient")
	if !hc.IsValid() || !hc.CanInterface() {
		return false
	}
	inner, ok := hc.Interface().(*http.Client)
	if !ok || inner == nil {
		return false
	}
	inner.Transport = tr
	return true
}

// redirScript answers blob (and CDN) requests with redirects according to the plan and
// hands everything else to the next script.
func redirScript(p *hostilePlan, reg *memreg.Registry, repo string, next func(q *memreg.Request) memreg.Behaviour, armed *atomic.Bool, delivered *atomic.Int64, kinds *sync.Map) func(q *memreg.Request) memreg.Behaviour {
	rp := p.Redir
	var nreq atomic.Int64
	return func(q *memreg.Request) memreg.Behaviour {
		if n := nreq.Add(1); n%2048 == 0 {
			reg.ResetLog() // a followed redirect loop makes millions of requests: keep the harness' own log small
		}
		if (q.Kind != "blob" && q.Kind != "cdn") || (rp.When == "armed" && !armed.Load()) {
			return next(q)
		}
		vals, _ := url.ParseQuery(q.Query)
		hop, _ := strconv.Atoi(vals.Get("hop"))
		vals.Set("hop", strconv.Itoa(hop+1))
		regURL := func(host, rpo string) string {
			return "https://" + host + "/v2/" + rpo + "/blobs/" + q.Digest + "?" + vals.Encode()
		}
		self := "https://" + q.Host + q.Path + "?" + vals.Encode()
		if rp.Relative {
			self = "?" + vals.Encode()
		}
		otherRepo := repo + "-b"
		if q.Repo == otherRepo {
			otherRepo = repo
		}
		regHost := q.Host
		if q.Kind == "cdn" {
			regHost = "reg.test"
		}
		var loc string
		switch rp.Kind {
		case "self-forever":
			loc = self
		case "pingpong":
			loc = regURL(regHost, otherRepo)
			if rp.Relative {
				loc = "/v2/" + otherRepo + "/blobs/" + q.Digest + "?" + vals.Encode()
			}
		case "chain-same":
			if hop >= rp.N {
				return next(q)
			}
			loc = self
		case "chain-cross", "cross-forever":
			if rp.Kind == "chain-cross" && hop >= rp.N {
				return next(q)
			}
			if q.Kind == "cdn" {
				loc = regURL(regHost, repo)
			} else {
				loc = reg.CDNURL(regHost, repo, digest.Digest(q.Digest), "good") + "?" + vals.Encode()
			}
		default:
			return next(q)
		}
		delivered.Add(1)
		kinds.Store("redirect-"+rp.Kind, true)
		st := rp.Status
		return memreg.Behaviour{Label: "redirect-" + rp.Kind, RedirectTo: loc, MutateResp: func(res *http.Response) {
			if st != 0 {
				res.StatusCode, res.Status = st, fmt.Sprintf("%d %s", st, http.StatusText(st))
			}
		}}
	}
}
