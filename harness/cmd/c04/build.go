package main

// Generator (e): hostile tar / gzip / zstd inputs to estargz.Build, Writer.AppendTar*
// and Unpack.

import (
	"archive/tar"
	"bytes"
	"compress/gzip"
	"fmt"
	"io"
	"strings"

	"github.com/containerd/stargz-snapshotter/estargz"
	"github.com/containerd/stargz-snapshotter/estargz/externaltoc"
	"github.com/containerd/stargz-snapshotter/estargz/zstdchunked"
	"github.com/containerd/stargz-snapshotter/util/decompressutil"
	"github.com/klauspost/compress/zstd"

	"verifharness/internal/gen"
	"verifharness/internal/prng"
	"verifharness/internal/vf"
)

type buildPlan struct {
	In           []byte
	Compression  string
	ChunkSize    int
	MinChunkSize int
	Workers      int
	Prioritized  []string
	AllowMissing bool
	GzipHelper   bool
	TarOK        bool // the generator believes the tar layer is well-formed
}

type rawEnt struct {
	H    tar.Header
	Body []byte
}

func writeTar(ents []rawEnt) []byte {
	var buf bytes.Buffer
	tw := tar.NewWriter(&buf)
	for _, e := range ents {
		h := e.H
		if h.Typeflag == tar.TypeReg {
			h.Size = int64(len(e.Body))
		}
		if h.Format == 0 {
			h.Format = tar.FormatPAX
		}
		if err := tw.WriteHeader(&h); err != nil {
			continue
		}
		if h.Typeflag == tar.TypeReg {
			_, _ = tw.Write(e.Body)
		}
	}
	_ = tw.Close()
	return buf.Bytes()
}

func fixChecksum(hdr []byte) {
	if len(hdr) < 512 {
		return
	}
	for i := 148; i < 156; i++ {
		hdr[i] = ' '
	}
	var s int
	for _, b := range hdr[:512] {
		s += int(b)
	}
	copy(hdr[148:156], fmt.Sprintf("%06o\x00 ", s))
}

var evilTarNames = []string{"", ".", "./", "/", "..", "../x", "a//b", "a/../../b", estargz.TOCTarName, "./" + estargz.TOCTarName, estargz.PrefetchLandmark, estargz.NoPrefetchLandmark,
	"d/" + estargz.TOCTarName, ".wh..wh..opq", "x\x00y", strings.Repeat("p/", 60) + "deep", strings.Repeat("L", 300)}

func genE(r *vf.Run, pool *basePool, idx, k int) *input {
	rng := r.RNG('e', uint64(k))
	p := &buildPlan{Compression: rng.PickS("gzip", "gzip", "zstdchunked", "externaltoc"), ChunkSize: rng.Pick(0, 1, 7, 64, 4096), Workers: rng.Pick(1, 1, 2, 4)}
	if rng.Chance(1, 4) {
		p.MinChunkSize = rng.Pick(1, 64, 100000)
	}
	if p.ChunkSize == 1 {
		p.Compression = "gzip" // one gzip member per byte: keep it on the cheap compressor
	}
	var what []string
	o := gen.DefaultOpts(64)
	o.MaxEntries = 10
	base := gen.RandomTar(rng, o)
	var ents []rawEnt
	var names []string
	for _, e := range base {
		h := tar.Header{Name: e.Name, Typeflag: e.Type, Mode: e.Mode, Uid: e.UID, Gid: e.GID, Linkname: e.Linkname, Devmajor: e.Devmajor, Devminor: e.Devminor}
		if len(e.Xattrs) > 0 {
			h.PAXRecords = map[string]string{}
			for k, v := range e.Xattrs {
				h.PAXRecords["SCHILY.xattr."+k] = v
			}
		}
		re := rawEnt{H: h}
		if e.Type == tar.TypeReg {
			sz := e.Size
			if p.ChunkSize == 1 && sz > 40 {
				sz = 40
			}
			re.Body = make([]byte, sz)
			gen.FillContent(e.ContentID, 0, re.Body)
		}
		ents = append(ents, re)
		names = append(names, e.Name)
	}
	p.TarOK = true
	mode := k % 12
	if k >= 240 {
		mode = rng.Intn(12)
	}
	switch mode {
	case 0: // hardlink structures
		switch rng.Intn(5) {
		case 0:
			ents = append(ents, rawEnt{H: tar.Header{Name: "self", Typeflag: tar.TypeLink, Linkname: "self"}})
			names = append(names, "self")
			what = append(what, "hardlink-self")
		case 1:
			ents = append(ents, rawEnt{H: tar.Header{Name: "c1", Typeflag: tar.TypeLink, Linkname: "c2"}}, rawEnt{H: tar.Header{Name: "c2", Typeflag: tar.TypeLink, Linkname: "c1"}})
			names = append(names, "c1", "c2")
			what = append(what, "hardlink-2cycle")
		case 2:
			ents = append(ents, rawEnt{H: tar.Header{Name: "dd/", Typeflag: tar.TypeDir, Mode: 0o755}}, rawEnt{H: tar.Header{Name: "dd/up", Typeflag: tar.TypeLink, Linkname: "dd"}})
			names = append(names, "dd/up")
			what = append(what, "hardlink-parent")
		case 3:
			ents = append(ents, rawEnt{H: tar.Header{Name: "toroot", Typeflag: tar.TypeLink, Linkname: rng.PickS("", ".", "/", "./")}})
			names = append(names, "toroot")
			what = append(what, "hardlink-root")
		default:
			ents = append(ents, rawEnt{H: tar.Header{Name: "dangling", Typeflag: tar.TypeLink, Linkname: "nowhere/at/all"}})
			names = append(names, "dangling")
			what = append(what, "hardlink-dangling")
		}
	case 1: // evil names
		for i, n := 0, rng.Range(1, 4); i < n; i++ {
			nm := evilTarNames[rng.Intn(len(evilTarNames))]
			t := byte(rng.Pick(int(tar.TypeReg), int(tar.TypeDir), int(tar.TypeSymlink), int(tar.TypeLink)))
			e := rawEnt{H: tar.Header{Name: nm, Typeflag: t, Mode: 0o644, Linkname: evilTarNames[rng.Intn(len(evilTarNames))]}}
			if t == tar.TypeReg {
				e.Body = rng.Bytes(rng.Pick(0, 1, 100))
			}
			ents = append(ents, e)
			names = append(names, nm)
		}
		what = append(what, "evil-names")
	case 2: // duplicates and type changes
		if len(ents) > 0 {
			for i := 0; i < 3; i++ {
				src := ents[rng.Intn(len(ents))]
				src.H.Typeflag = byte(rng.Pick(int(tar.TypeReg), int(tar.TypeDir), int(tar.TypeSymlink), int(tar.TypeFifo)))
				src.Body = rng.Bytes(rng.Intn(50))
				ents = append(ents, src)
			}
		}
		what = append(what, "duplicates")
	case 3: // unsupported / odd type flags
		tf := byte(rng.Pick(int(tar.TypeCont), int(tar.TypeXGlobalHeader), int(tar.TypeGNUSparse), 'Z', 'V', 'M', 0))
		ents = append(ents, rawEnt{H: tar.Header{Name: "odd", Typeflag: tf, Mode: 0o644, Format: tar.FormatGNU}})
		what = append(what, fmt.Sprintf("typeflag=%q", tf))
		p.TarOK = false
		if directed := (k/12)%2 == 1; directed || rng.Bool() {
			// several rejected entries: more failing sub-blob writers than workers; in a layer without
			// payload (total size < workers) divideEntries gives every entry a part of its own.
			// Every second mode-3 case is that shape on purpose (workers >= 2, workers+1.. odd entries).
			n := rng.Pick(1, 2, 4, 8, 19)
			nopayload := rng.Bool()
			if directed {
				nopayload = true
				if p.Workers < 2 {
					p.Workers = rng.Pick(2, 4)
				}
				n = p.Workers + 1 + rng.Intn(6)
				p.MinChunkSize = 0
				ents[len(ents)-1].H.Typeflag = tar.TypeCont // the tar reader itself must accept the archive
			}
			if nopayload {
				kept := ents[:0]
				for _, e := range ents {
					if (e.H.Typeflag != tar.TypeReg || len(e.Body) == 0) && e.H.Typeflag != tar.TypeLink {
						kept = append(kept, e)
					}
				}
				ents = kept
				what = append(what, "no-payload")
			}
			for i := 0; i < n; i++ {
				tf := byte(rng.Pick(int(tar.TypeCont), int(tar.TypeCont), int(tar.TypeCont), 'Z', 'V'))
				ents = append(ents, rawEnt{H: tar.Header{Name: fmt.Sprintf("odd%d", i), Typeflag: tf, Mode: 0o644, Format: tar.FormatGNU}})
			}
			what = append(what, fmt.Sprintf("more-odd=%d", n))
		}
	case 4: // many entries
		n := rng.Pick(60, 200)
		for i := 0; i < n; i++ {
			ents = append(ents, rawEnt{H: tar.Header{Name: fmt.Sprintf("many/%d", i), Typeflag: tar.TypeReg, Mode: 0o644}, Body: []byte{byte(i)}})
		}
		what = append(what, fmt.Sprintf("many=%d", n))
	case 5: // huge xattrs / pax records
		ents = append(ents, rawEnt{H: tar.Header{Name: "pax", Typeflag: tar.TypeReg, Mode: 0o644, PAXRecords: map[string]string{
			"SCHILY.xattr.user.big": strings.Repeat("v", rng.Pick(1000, 70000)), "SCHILY.xattr.": "emptykey", "SCHILY.xattr.a\x00b": "nul", "VERIF.other": "x"}}, Body: []byte("x")})
		what = append(what, "pax")
	}
	p.In = writeTar(ents)
	// raw byte-level mutation of the tar stream
	switch mode {
	case 6:
		if len(p.In) > 512 {
			nb := len(p.In) / 512
			for i, n := 0, rng.Range(1, 3); i < n; i++ {
				blk := rng.Intn(nb) * 512
				pos := blk + rng.Intn(512)
				p.In[pos] ^= byte(1 << uint(rng.Intn(8)))
				if rng.Bool() {
					fixChecksum(p.In[blk:])
				}
			}
		}
		p.TarOK = false
		what = append(what, "header-flip")
	case 7:
		// size field games on the first header
		if len(p.In) >= 512 {
			v := rng.PickS("77777777777\x00", "00000000000\x00", "\x80\x00\x00\x00\x7f\xff\xff\xff\xff\xff\xff\xff", "\xff\xff\xff\xff\xff\xff\xff\xff\xff\xff\xff\xff", "-1\x00         ", "9999999999\x00\x00")
			blk := 0
			if nb := len(p.In) / 512; nb > 2 && rng.Bool() {
				blk = rng.Intn(nb) * 512
			}
			copy(p.In[blk+124:blk+136], v)
			fixChecksum(p.In[blk:])
		}
		p.TarOK = false
		what = append(what, "size-field")
	case 8:
		p.In = p.In[:rng.Intn(len(p.In)+1)]
		p.TarOK = false
		what = append(what, "truncated")
	case 9:
		p.In = append(p.In, rng.Bytes(rng.Range(1, 2000))...)
		what = append(what, "trailing-garbage")
	}
	// compression wrapper
	wrapMode := rng.Intn(10)
	if mode == 10 {
		wrapMode = rng.Range(0, 5)
	}
	if mode == 11 {
		wrapMode = 6 + rng.Intn(4)
	}
	switch wrapMode {
	case 0, 1, 2:
		var zb bytes.Buffer
		zw, _ := gzip.NewWriterLevel(&zb, 1)
		if wrapMode == 2 {
			zw.Extra = rng.Bytes(rng.Intn(100))
			zw.Name = "n"
			zw.Comment = "c"
		}
		_, _ = zw.Write(p.In)
		_ = zw.Close()
		z := zb.Bytes()
		switch rng.Intn(6) {
		case 0:
			z = z[:rng.Intn(len(z)+1)]
			what = append(what, "gzip-truncated")
			p.TarOK = false
		case 1:
			z[len(z)-6] ^= 0xff
			what = append(what, "gzip-crc")
			p.TarOK = false
		case 2:
			z = append(z, z...)
			what = append(what, "gzip-twice")
		case 3:
			if len(z) > 20 {
				z[10+rng.Intn(len(z)-18)] ^= byte(1 << uint(rng.Intn(8)))
			}
			what = append(what, "gzip-flip")
			p.TarOK = false
		default:
			what = append(what, "gzip")
		}
		p.In = z
		if rng.Chance(1, 3) {
			p.GzipHelper = true
		}
	case 3, 4:
		var zb bytes.Buffer
		zw, _ := zstd.NewWriter(&zb, zstd.WithEncoderLevel(zstd.SpeedFastest))
		_, _ = zw.Write(p.In)
		_ = zw.Close()
		z := zb.Bytes()
		switch rng.Intn(5) {
		case 0:
			z = z[:rng.Intn(len(z)+1)]
			what = append(what, "zstd-truncated")
			p.TarOK = false
		case 1:
			if len(z) > 8 {
				z[4+rng.Intn(len(z)-4)] ^= byte(1 << uint(rng.Intn(8)))
			}
			what = append(what, "zstd-flip")
			p.TarOK = false
		case 2:
			z = append(z, skippable(rng.Bytes(10))...)
			z = append(z, z...)
			what = append(what, "zstd-frames")
		default:
			what = append(what, "zstd")
		}
		p.In = z
	case 5:
		p.In = [][]byte{{}, {0x1f}, {0x1f, 0x8b}, {0x1f, 0x8b, 8}, {0x1f, 0x8b, 8, 0}, {0x28, 0xb5, 0x2f}, {0x28, 0xb5, 0x2f, 0xfd}, {0x28, 0xb5, 0x2f, 0xfd, 0}, {0x1f, 0x8b, 8, 4, 0, 0, 0, 0, 0, 0, 0xff, 0xff}}[rng.Intn(9)]
		p.TarOK = false
		what = append(what, fmt.Sprintf("magic-only len=%d", len(p.In)))
	}
	// prioritized files
	if len(names) > 0 && rng.Chance(2, 3) {
		for i, n := 0, rng.Range(1, 3); i < n; i++ {
			p.Prioritized = append(p.Prioritized, names[rng.Intn(len(names))])
		}
		if rng.Chance(1, 5) {
			p.Prioritized = append(p.Prioritized, rng.PickS("", "/", "nonexistent", "a/../b", "."))
		}
		p.AllowMissing = rng.Bool()
	}
	if mode == 0 && len(names) > 0 {
		// prioritize the hardlink that was just added: reaches moveRec's link following
		p.Prioritized = append(p.Prioritized, names[len(names)-1])
	}
	return &input{Idx: idx, Gen: "e", Build: p, Framing: map[string]string{"gzip": frGzip, "zstdchunked": frZstd, "externaltoc": frExt}[p.Compression],
		Desc: fmt.Sprintf("build mode=%d %v inlen=%d comp=%s chunk=%d minchunk=%d workers=%d prioritized=%q allowMissing=%v helper=%v", mode, what, len(p.In), p.Compression, p.ChunkSize, p.MinChunkSize, p.Workers, p.Prioritized, p.AllowMissing, p.GzipHelper)}
}

type zstdCompression struct {
	*zstdchunked.Compressor
	*zstdchunked.Decompressor
}

func (c *caseRun) runBuild() {
	p := c.in.Build
	mkOpts := func() ([]estargz.Option, *externaltoc.GzipCompression, *[]string) {
		var opts []estargz.Option
		if p.ChunkSize > 0 {
			opts = append(opts, estargz.WithChunkSize(p.ChunkSize))
		}
		if p.MinChunkSize > 0 {
			opts = append(opts, estargz.WithMinChunkSize(p.MinChunkSize))
		}
		opts = append(opts, estargz.WithParallelism(p.Workers))
		var missed *[]string
		if len(p.Prioritized) > 0 {
			opts = append(opts, estargz.WithPrioritizedFiles(p.Prioritized))
			if p.AllowMissing {
				missed = new([]string)
				opts = append(opts, estargz.WithAllowPrioritizeNotFound(missed))
			}
		}
		var ext *externaltoc.GzipCompression
		switch p.Compression {
		case "gzip":
			opts = append(opts, estargz.WithCompressionLevel(1))
		case "zstdchunked":
			opts = append(opts, estargz.WithCompression(&zstdCompression{&zstdchunked.Compressor{CompressionLevel: zstd.SpeedFastest}, &zstdchunked.Decompressor{}}))
		case "externaltoc":
			ext = externaltoc.NewGzipCompressionWithLevel(nil, 1).(*externaltoc.GzipCompression)
			opts = append(opts, estargz.WithCompression(ext))
		}
		if p.GzipHelper {
			if f, err := decompressutil.GetGzipHelperFunc("gzip"); err == nil {
				opts = append(opts, estargz.WithGzipHelperFunc(f))
			}
		}
		return opts, ext, missed
	}
	var out, extTOC []byte
	c.stage("estargz.Build", func() {
		opts, ext, _ := mkOpts()
		sr := io.NewSectionReader(bytes.NewReader(p.In), 0, int64(len(p.In)))
		b, err := estargz.Build(sr, opts...)
		if err != nil {
			c.err("estargz.Build", err)
			return
		}
		c.mark(stFooter) // (e): the builder accepted the input
		c.nontrivial = true
		data, err := io.ReadAll(io.LimitReader(b, 256<<20))
		if err != nil {
			c.err("estargz.Build/read", err)
		}
		if cerr := b.Close(); cerr != nil {
			c.err("estargz.Build/close", cerr)
		}
		if err != nil {
			return
		}
		_ = b.DiffID()
		_ = b.TOCDigest()
		_, _ = b.UncompressedSize()
		out = data
		if ext != nil {
			var tb bytes.Buffer
			if _, err := ext.WriteTOCTo(&tb); err != nil {
				c.err("externaltoc.WriteTOCTo", err)
			} else {
				extTOC = tb.Bytes()
			}
		}
	})
	if !c.nontrivial && tarHeaderAccepted(p.In) {
		c.nontrivial = true
	}
	// Writer API directly (what the converters use for the lossless path)
	for _, lossless := range []bool{false, true} {
		lossless := lossless
		c.stage(fmt.Sprintf("estargz.Writer.AppendTar(lossless=%v)", lossless), func() {
			var sink bytes.Buffer
			w := estargz.NewWriterLevel(&sink, 1)
			if p.ChunkSize > 0 {
				w.ChunkSize = p.ChunkSize
			}
			w.MinChunkSize = p.MinChunkSize
			var err error
			if lossless {
				err = w.AppendTarLossLess(bytes.NewReader(p.In))
			} else {
				err = w.AppendTar(bytes.NewReader(p.In))
			}
			if err != nil {
				c.err("Writer.AppendTar", err)
			}
			if _, err := w.Close(); err != nil {
				c.err("Writer.Close", err)
			}
			_ = w.DiffID()
			if err == nil && !lossless && out == nil {
				out = sink.Bytes()
			}
		})
	}
	// Unpack on the raw hostile input (as if it were an eStargz blob) ...
	c.unpackAll(p.In, nil)
	// ... and push what the builder produced from the hostile tar through the whole
	// consumer chain: names/links of the tar are now TOC structure.
	if out != nil {
		c.mark(stTOC)
		c.in.Blob, c.in.ExtTOC = out, extTOC
		c.runBlobChain()
	}
}

// tarHeaderAccepted reports whether the std tar reader accepts the first header of the
// (possibly compressed) input: the non-triviality rule of (e) inputs the builder rejects.
func tarHeaderAccepted(in []byte) bool {
	var r io.Reader = bytes.NewReader(in)
	if len(in) >= 3 && in[0] == 0x1f && in[1] == 0x8b {
		zr, err := gzip.NewReader(bytes.NewReader(in))
		if err != nil {
			return false
		}
		r = zr
	} else if len(in) >= 4 && bytes.Equal(in[:4], []byte{0x28, 0xb5, 0x2f, 0xfd}) {
		zr, err := zstd.NewReader(bytes.NewReader(in))
		if err != nil {
			return false
		}
		defer zr.Close()
		r = zr
	}
	_, err := tar.NewReader(r).Next()
	return err == nil
}

var _ = prng.New
