package main

// The consumer chain every blob input is pushed through. Each stage runs under its own
// recover(): a recovered panic is a violation and the next stage still runs. All walkers
// are depth- and visit-bounded: a cyclic tree is not a violation, only the daemon's own
// unbounded recursion / crash / hang is.

import (
	"bytes"
	"context"
	"crypto/sha256"
	"encoding/base64"
	"encoding/hex"
	"errors"
	"fmt"
	"io"
	"math"
	"os"
	"path/filepath"
	"strings"
	"sync"
	"sync/atomic"
	"time"

	"github.com/containerd/containerd/v2/pkg/reference"
	"github.com/containerd/stargz-snapshotter/cache"
	dbmetadata "github.com/containerd/stargz-snapshotter/cmd/containerd-stargz-grpc/db"
	"github.com/containerd/stargz-snapshotter/estargz"
	"github.com/containerd/stargz-snapshotter/estargz/externaltoc"
	"github.com/containerd/stargz-snapshotter/estargz/zstdchunked"
	"github.com/containerd/stargz-snapshotter/fs/config"
	"github.com/containerd/stargz-snapshotter/fs/layer"
	"github.com/containerd/stargz-snapshotter/fs/reader"
	"github.com/containerd/stargz-snapshotter/fs/source"
	"github.com/containerd/stargz-snapshotter/metadata"
	memorymetadata "github.com/containerd/stargz-snapshotter/metadata/memory"
	esgzexternaltoc "github.com/containerd/stargz-snapshotter/nativeconverter/estargz/externaltoc"
	"github.com/containerd/stargz-snapshotter/task"
	fusefs "github.com/hanwen/go-fuse/v2/fs"
	digest "github.com/opencontainers/go-digest"
	ocispec "github.com/opencontainers/image-spec/specs-go/v1"
	bolt "go.etcd.io/bbolt"

	"verifharness/internal/blob"
	"verifharness/internal/l2"
	"verifharness/internal/memreg"
	"verifharness/internal/nodefs"
	"verifharness/internal/prng"
	"verifharness/internal/vf"
)

const (
	stFooter = 1 << iota // a footer parser accepted the tail (d: blob resolved; e: builder accepted)
	stTOC                // a TOC parser produced a TOC
	stTree               // a reader / metadata store built its tree
	stOpen               // a file was opened
	stRead               // bytes were read from a file
)

var stageNames = []string{"footer_parsed", "toc_parsed", "tree_built", "file_opened", "bytes_read"}

const (
	maxVisits   = 300
	maxDepth    = 24
	maxChildren = 100
	maxFiles    = 6
	maxReadBuf  = 32 << 10
)

var (
	stageTiming   map[string]time.Duration
	stageTimingMu sync.Mutex
)

// shared is what one child process keeps across cases: like the daemon, one bolt
// database serves every layer.
type shared struct {
	mu  sync.Mutex
	dir string
	db  *bolt.DB
}

func (s *shared) store(kind string) (metadata.Store, error) {
	if kind != "db" {
		return memorymetadata.NewReader, nil
	}
	s.mu.Lock()
	defer s.mu.Unlock()
	if s.db == nil {
		if err := os.MkdirAll(s.dir, 0o700); err != nil {
			return nil, err
		}
		db, err := bolt.Open(filepath.Join(s.dir, "metadata.db"), 0o600, &bolt.Options{NoFreelistSync: true, InitialMmapSize: 16 << 20, FreelistType: bolt.FreelistMapType, NoSync: true})
		if err != nil {
			return nil, err
		}
		s.db = db
	}
	db := s.db
	return func(sr *io.SectionReader, opts ...metadata.Option) (metadata.Reader, error) {
		return dbmetadata.NewReader(db, sr, opts...)
	}, nil
}

// newEnv is l2.NewEnv with the shared metadata database.
func (c *caseRun) newEnv(reg *memreg.Registry, root string, cfg config.Config, store string) (*l2.Env, error) {
	ms, err := c.sh.store(store)
	if err != nil {
		return nil, err
	}
	tm := task.NewBackgroundTaskManager(2, 0)
	hosts := reg.Hosts(nil)
	rs, err := layer.NewResolver(root, tm, cfg, nil, ms, layer.OverlayOpaqueAll,
		func(ctx context.Context, hosts source.RegistryHosts, refspec reference.Spec, desc ocispec.Descriptor) []metadata.Decompressor {
			return []metadata.Decompressor{esgzexternaltoc.NewRemoteDecompressor(ctx, hosts, refspec, desc)}
		})
	if err != nil {
		return nil, err
	}
	return &l2.Env{Reg: reg, Hosts: hosts, Resolver: rs, TM: tm, Root: root, Cfg: cfg}, nil
}

type caseRun struct {
	sh         *shared
	r          *vf.Run
	pool       *basePool
	in         *input
	rng        *prng.R
	marks      atomic.Uint32
	nontrivial bool
	cur        atomic.Value // current stage name
	dir        string
	panics     atomic.Int32
	race       bool
	maxFiles   int
}

func (c *caseRun) mark(bit uint32) {
	for {
		o := c.marks.Load()
		if o&bit != 0 || c.marks.CompareAndSwap(o, o|bit) {
			return
		}
	}
}

func (c *caseRun) err(stage string, err error) {
	if err == nil {
		return
	}
	c.r.Count("errors_returned", 1)
	c.r.Distinct("error_shapes", stage+": "+normErr(err))
}

func (c *caseRun) replay() map[string]any {
	m := map[string]any{"index": c.in.Idx, "gen": c.in.Gen, "desc": c.in.Desc, "framing": c.in.Framing, "stage": fmt.Sprint(c.cur.Load())}
	put := func(k string, b []byte) {
		if b == nil {
			return
		}
		h := sha256.Sum256(b)
		m[k+"_len"] = len(b)
		m[k+"_sha256"] = hex.EncodeToString(h[:])
		if len(b) <= 24<<10 {
			m[k+"_b64"] = base64.StdEncoding.EncodeToString(b)
		}
	}
	put("blob", c.in.Blob)
	put("ext_toc", c.in.ExtTOC)
	if c.in.Build != nil {
		put("build_input", c.in.Build.In)
	}
	return m
}

// stage runs f under recover.
func (c *caseRun) stage(name string, f func()) {
	c.cur.Store(name)
	c.r.Count("stage_runs", 1)
	var t0 time.Duration
	if stageTiming != nil {
		t0 = cpuNow()
	}
	p, val, stack := vf.Recover(f)
	if stageTiming != nil {
		stageTimingMu.Lock()
		stageTiming[name] += cpuNow() - t0 // process CPU time (meaningful in solo runs)
		stageTimingMu.Unlock()
	}
	if !p {
		return
	}
	c.panics.Add(1)
	msg := fmt.Sprint(val)
	if e, ok := val.(error); ok {
		msg = e.Error()
	}
	s := sigFromStack("panic", msg, stack)
	// singleflight (and similar wrappers) re-panic with a value whose text carries the
	// stack of the original panic: the crash site is in there, not in the re-panic stack.
	if i := strings.Index(msg, "\n\n"); i >= 0 && strings.Contains(msg[i:], "\n\t/") {
		first := msg[:i]
		if j := strings.IndexByte(first, '\n'); j >= 0 {
			first = first[:j]
		}
		if s2 := sigFromStack("panic", first, msg[i+2:]); !s2.Harness {
			s = s2
		}
		msg = first + " (re-panicked by a wrapper; original stack used for the signature)"
	}
	if s.Harness {
		c.r.Inconclusive("harness-panic in stage " + name + ": " + oneLine(msg, 120))
		c.r.Logf("HARNESS PANIC case %d stage %s: %s\n%s", c.in.Idx, name, msg, stack)
		return
	}
	c.r.Distinct("crash_signatures", s.Key)
	rp := c.replay()
	rp["stage"] = name
	rp["panic"] = oneLine(msg, 300)
	rp["stack_head"] = s.StackHead
	c.r.Violate(s.Key, fmt.Sprintf("recovered panic in stage %s: %s (input: %s)", name, oneLine(msg, 200), oneLine(c.in.Desc, 200)), rp)
	c.r.FlushPartial()
}

func (c *caseRun) extDecompressor() *externaltoc.GzipDecompressor {
	toc := c.in.ExtTOC
	return externaltoc.NewGzipDecompressor(func() ([]byte, error) {
		if toc == nil {
			return nil, errors.New("no external TOC published")
		}
		return toc, nil
	})
}

type namedDec struct {
	name string
	d    metadata.Decompressor
}

func (c *caseRun) decs() []namedDec {
	return []namedDec{{"gzip", new(estargz.GzipDecompressor)}, {"legacy", new(estargz.LegacyGzipDecompressor)},
		{"zstd", new(zstdchunked.Decompressor)}, {"exttoc", c.extDecompressor()}}
}

func (c *caseRun) sr() *io.SectionReader {
	return io.NewSectionReader(bytes.NewReader(c.in.Blob), 0, int64(len(c.in.Blob)))
}

// runBlobChain pushes c.in.Blob through everything.
func (c *caseRun) runBlobChain() {
	// every read of a zstd:chunked layer costs the repo a complete decoder set-up
	// (tens of milliseconds of CPU): fewer files per stage there
	c.maxFiles = maxFiles
	if c.in.Framing == frZstd {
		c.maxFiles = 3
	}
	c.footers()
	c.openEstargz()
	c.unpackAll(c.in.Blob, c.in.ExtTOC)
	c.metaChain("memory")
	c.metaChain("db")
	store := "memory"
	if c.in.Idx%2 == 1 {
		store = "db"
	}
	c.l2Chain(store)
	if c.marks.Load()&stFooter != 0 {
		c.nontrivial = true
	}
}

// ---------------------------------------------------------------------------
// S1: every Decompressor's ParseFooter / ParseTOC / DecompressTOC, on exactly the slices
// estargz.Open and db.NewReader hand them.

func (c *caseRun) footers() {
	b := c.in.Blob
	ds := c.decs()
	var fetch int64
	for _, d := range ds {
		if s := d.d.FooterSize(); fetch < s && s <= int64(len(b)) {
			fetch = s
		}
	}
	footer := b[int64(len(b))-fetch:]
	if fetch == 0 {
		// The blob is shorter than every footer: Open / NewReader fail on reading the
		// (empty) footer before any ParseFooter is called, so a direct call would feed the
		// parsers slices the daemon never produces.
		c.r.Count("blob_shorter_than_any_footer", 1)
		ds = nil
	}
	for _, nd := range ds {
		nd := nd
		fsize := nd.d.FooterSize()
		foff := int64(len(footer)) - fsize
		if foff < 0 {
			foff = 0
		}
		p := footer[foff:]
		var tocOff, tocSize int64
		ok := false
		c.stage("ParseFooter/"+nd.name, func() {
			_, o, s, err := nd.d.ParseFooter(p)
			if err != nil {
				c.err("ParseFooter/"+nd.name, err)
				return
			}
			ok, tocOff, tocSize = true, o, s
		})
		if !ok {
			continue
		}
		c.mark(stFooter)
		c.r.Count("footer_accepted/"+nd.name, 1)
		// the TOC region as Open computes it
		var region io.Reader
		if tocOff >= 0 {
			if tocSize <= 0 {
				tocSize = int64(len(b)) - tocOff - fsize
			}
			if tocOff > int64(len(b)) || tocSize < 0 || tocSize > int64(len(b))-tocOff {
				continue // Open fails on reading the region (exercised by the Open stage)
			}
		}
		mk := func() io.Reader {
			if tocOff < 0 {
				return nil
			}
			return bytes.NewReader(b[tocOff : tocOff+tocSize])
		}
		region = mk()
		c.stage("ParseTOC/"+nd.name, func() {
			toc, dg, err := nd.d.ParseTOC(region)
			if err != nil {
				c.err("ParseTOC/"+nd.name, err)
				return
			}
			_ = dg
			if toc != nil {
				c.mark(stTOC)
				c.r.Count("toc_parsed/"+nd.name, 1)
			}
		})
		region2 := mk()
		c.stage("DecompressTOC/"+nd.name, func() {
			rc, err := nd.d.DecompressTOC(region2)
			if err != nil {
				c.err("DecompressTOC/"+nd.name, err)
				return
			}
			_, err = io.Copy(io.Discard, io.LimitReader(rc, 64<<20))
			c.err("DecompressTOC/read/"+nd.name, err)
			c.err("DecompressTOC/close/"+nd.name, rc.Close())
		})
	}
	c.stage("estargz.OpenFooter", func() {
		_, _, err := estargz.OpenFooter(c.sr())
		c.err("estargz.OpenFooter", err)
	})
}

func (c *caseRun) unpackAll(b, ext []byte) {
	for _, nd := range c.decs() {
		nd := nd
		c.stage("estargz.Unpack/"+nd.name, func() {
			rc, err := estargz.Unpack(io.NewSectionReader(bytes.NewReader(b), 0, int64(len(b))), nd.d)
			if err != nil {
				c.err("estargz.Unpack/"+nd.name, err)
				return
			}
			_, err = io.Copy(io.Discard, io.LimitReader(rc, 32<<20))
			c.err("estargz.Unpack/read/"+nd.name, err)
			_ = rc.Close()
		})
	}
}

// ---------------------------------------------------------------------------
// S2: estargz.Open + every Reader method on every entry reached by a bounded walk

func readOffsets(size int64, bounds []int64) []int64 {
	// 0, the start of the second chunk and the last byte cost a decompressor each; the
	// others are answered without touching the payload
	offs := []int64{0, size - 1, size, -1, math.MaxInt64}
	for _, b := range bounds {
		if b > 0 {
			offs = append(offs, b)
			break
		}
	}
	return offs
}

func bufFor(size int64) []byte {
	n := size
	if n <= 0 || n > maxReadBuf {
		n = maxReadBuf
	}
	if size <= 0 {
		n = 16
	}
	return make([]byte, n)
}

func (c *caseRun) openEstargz() {
	var r *estargz.Reader
	c.stage("estargz.Open", func() {
		tel := &estargz.Telemetry{GetFooterLatency: func(time.Time) {}, GetTocLatency: func(time.Time) {}, DeserializeTocLatency: func(time.Time) {}}
		x, err := estargz.Open(c.sr(), estargz.WithDecompressors(new(zstdchunked.Decompressor), c.extDecompressor()), estargz.WithTelemetry(tel))
		if err != nil {
			c.err("estargz.Open", err)
			return
		}
		r = x
	})
	if r == nil {
		return
	}
	c.mark(stTOC)
	c.mark(stTree)
	type qi struct {
		e     *estargz.TOCEntry
		depth int
	}
	var files []string
	c.stage("estargz.Reader/walk", func() {
		_ = r.TOCDigest()
		root, ok := r.Lookup("")
		if !ok || root == nil {
			return
		}
		seen := map[*estargz.TOCEntry]bool{root: true}
		q := []qi{{root, 0}}
		for visits := 0; len(q) > 0 && visits < maxVisits; visits++ {
			it := q[0]
			q = q[1:]
			e := it.e
			fi := e.Stat()
			_, _, _, _, _, _ = fi.Name(), fi.Size(), fi.Mode(), fi.ModTime(), fi.IsDir(), fi.Sys()
			_, _ = e.ModTime(), e.NextOffset()
			if l, ok := r.Lookup(e.Name); ok && l != nil {
				_ = l.Name
			}
			for _, off := range []int64{0, e.Size - 1, e.Size} {
				if off < 0 {
					continue
				}
				if ce, ok := r.ChunkEntryForOffset(e.Name, off); ok && ce != nil {
					_ = ce.ChunkOffset
				}
			}
			if fi.Mode().IsRegular() && len(files) < c.maxFiles {
				files = append(files, e.Name)
			}
			kids := 0
			e.ForeachChild(func(base string, ch *estargz.TOCEntry) bool {
				kids++
				if kids > maxChildren {
					return false
				}
				if lc, ok := e.LookupChild(base); ok && lc != nil {
					_ = lc.Type
				}
				if ch != nil && !seen[ch] && it.depth < maxDepth {
					seen[ch] = true
					q = append(q, qi{ch, it.depth + 1})
				}
				return true
			})
			_, _ = e.LookupChild("no-such-child")
		}
	})
	c.stage("estargz.Reader/names", func() {
		for i, n := range c.in.Names {
			if i >= 300 {
				break
			}
			if e, ok := r.Lookup(n); ok && e != nil {
				_ = e.Stat().Mode()
			}
			_, _ = r.ChunkEntryForOffset(n, 0)
			if i < 8 {
				if sr, err := r.OpenFile(n); err == nil {
					_, _ = sr.ReadAt(make([]byte, 8), 0)
				}
			}
		}
	})
	c.stage("estargz.Reader/VerifyTOC", func() {
		v, err := r.VerifyTOC(r.TOCDigest())
		c.err("estargz.VerifyTOC", err)
		if _, err := r.VerifyTOC(digest.FromString("other")); err != nil {
			c.err("estargz.VerifyTOC(other)", err)
		}
		if v == nil {
			v, err = r.Verifiers()
			c.err("estargz.Verifiers", err)
		}
		if v == nil {
			return
		}
		for _, n := range files {
			for _, off := range []int64{0, 64, 1 << 20} {
				if ce, ok := r.ChunkEntryForOffset(n, off); ok && ce != nil {
					if dv, err := v.Verifier(ce); err == nil {
						_, _ = dv.Write([]byte("x"))
						_ = dv.Verified()
					} else {
						c.err("estargz.Verifier", err)
					}
				}
			}
		}
	})
	for _, n := range files {
		n := n
		c.stage("estargz.Reader/OpenFile", func() {
			sr, err := r.OpenFile(n)
			if err != nil {
				c.err("estargz.OpenFile", err)
				return
			}
			c.mark(stOpen)
			size := sr.Size()
			var bounds []int64
			off := int64(0)
			for k := 0; k < 64; k++ {
				ce, ok := r.ChunkEntryForOffset(n, off)
				if !ok || ce == nil {
					break
				}
				bounds = append(bounds, ce.ChunkOffset)
				nx := ce.ChunkOffset + ce.ChunkSize
				if ce.ChunkSize <= 0 || nx <= off {
					nx = off + 1
				}
				off = nx
			}
			buf := bufFor(size)
			for _, o := range readOffsets(size, bounds) {
				got, err := sr.ReadAt(buf, o)
				if err != nil && err != io.EOF {
					c.err("estargz.file.ReadAt", err)
				}
				if got > 0 {
					c.mark(stRead)
				}
			}
			pr, err := r.OpenFileWithPreReader(n, func(e *estargz.TOCEntry, rd io.Reader) error {
				_, err := io.Copy(io.Discard, io.LimitReader(rd, 4<<20))
				return err
			})
			if err != nil {
				c.err("estargz.OpenFileWithPreReader", err)
				return
			}
			for _, o := range []int64{size / 2} {
				if _, err := pr.ReadAt(buf, o); err != nil && err != io.EOF {
					c.err("estargz.file(preread).ReadAt", err)
				}
			}
		})
	}
}

// ---------------------------------------------------------------------------
// S3/S4: metadata store (memory | db) + full metadata.Reader walk + fs/reader on top

type fileRef struct {
	id   uint32
	size int64
}

// walkMeta walks a metadata.Reader (bounded) and returns the regular files found.
func (c *caseRun) walkMeta(tag string, mr metadata.Reader, visitCap int) []fileRef {
	var files []fileRef
	c.stage(tag+"/walk", func() {
		root := mr.RootID()
		_ = mr.TOCDigest()
		if nn, ok := mr.(interface{ NumOfNodes() (int, error) }); ok {
			_, err := nn.NumOfNodes()
			c.err(tag+".NumOfNodes", err)
		}
		type qi struct {
			id    uint32
			depth int
		}
		seen := map[uint32]bool{root: true}
		q := []qi{{root, 0}}
		for visits := 0; len(q) > 0 && visits < visitCap; visits++ {
			it := q[0]
			q = q[1:]
			attr, err := mr.GetAttr(it.id)
			if err != nil {
				c.err(tag+".GetAttr", err)
				continue
			}
			if _, err := mr.GetOffset(it.id); err != nil {
				c.err(tag+".GetOffset", err)
			}
			if attr.Mode.IsRegular() && len(files) < c.maxFiles {
				files = append(files, fileRef{it.id, attr.Size})
			}
			if !attr.Mode.IsDir() {
				continue
			}
			type kid struct {
				name string
				id   uint32
			}
			var kids []kid
			err = mr.ForeachChild(it.id, func(name string, id uint32, mode os.FileMode) bool {
				kids = append(kids, kid{name, id})
				return len(kids) < maxChildren
			})
			c.err(tag+".ForeachChild", err)
			for _, k := range kids {
				cid, _, err := mr.GetChild(it.id, k.name)
				if err != nil {
					c.err(tag+".GetChild", err)
				}
				_ = cid
				if !seen[k.id] && it.depth < maxDepth {
					seen[k.id] = true
					q = append(q, qi{k.id, it.depth + 1})
				}
			}
			// (no empty name: neither the kernel nor the daemon ever looks up "")
			for _, n := range []string{"no-such", ".wh..wh..opq"} {
				_, _, _ = mr.GetChild(it.id, n)
			}
		}
		// (no probes with ids the reader did not hand out: the daemon never makes them)
	})
	return files
}

func (c *caseRun) sweepFile(tag string, f metadata.File, size int64) (bounds []int64) {
	off := int64(0)
	for k := 0; k < 96; k++ {
		co, cs, _, ok := f.ChunkEntryForOffset(off)
		if !ok {
			break
		}
		bounds = append(bounds, co)
		nx := co + cs
		if cs <= 0 || nx <= off {
			nx = off + 1
		}
		off = nx
	}
	for _, o := range []int64{size - 1, size, size + 1, math.MaxInt64} {
		if o >= 0 {
			_, _, _, _ = f.ChunkEntryForOffset(o)
		}
	}
	return
}

func (c *caseRun) metaChain(store string) {
	ms, err := c.sh.store(store)
	if err != nil {
		c.r.Inconclusive("harness: metadata store " + store + ": " + err.Error())
		return
	}
	opts := []metadata.Option{metadata.WithDecompressors(new(zstdchunked.Decompressor), c.extDecompressor()),
		metadata.WithTelemetry(&metadata.Telemetry{GetFooterLatency: func(time.Time) {}, GetTocLatency: func(time.Time) {}, DeserializeTocLatency: func(time.Time) {}})}
	var mr metadata.Reader
	c.stage(store+".NewReader", func() {
		x, err := ms(c.sr(), opts...)
		if err != nil {
			c.err(store+".NewReader", err)
			return
		}
		mr = x
	})
	if mr == nil {
		return
	}
	c.mark(stTOC)
	c.mark(stTree)
	c.r.Count("tree_built/"+store, 1)
	files := c.walkMeta(store, mr, maxVisits)
	for _, fr := range files {
		fr := fr
		c.stage(store+"/OpenFile", func() {
			f, err := mr.OpenFile(fr.id)
			if err != nil {
				c.err(store+".OpenFile", err)
				return
			}
			c.mark(stOpen)
			bounds := c.sweepFile(store, f, fr.size)
			buf := bufFor(fr.size)
			for _, o := range readOffsets(fr.size, bounds) {
				got, err := f.ReadAt(buf, o)
				if err != nil && err != io.EOF {
					c.err(store+".file.ReadAt", err)
				}
				if got > 0 {
					c.mark(stRead)
				}
			}
			pf, err := mr.OpenFileWithPreReader(fr.id, func(id uint32, co, cs int64, dg string, rd io.Reader) error {
				_, err := io.Copy(io.Discard, io.LimitReader(rd, 4<<20))
				return err
			})
			if err != nil {
				c.err(store+".OpenFileWithPreReader", err)
				return
			}
			for _, o := range []int64{fr.size / 2} {
				if _, err := pf.ReadAt(buf, o); err != nil && err != io.EOF {
					c.err(store+".file(preread).ReadAt", err)
				}
			}
		})
	}
	c.stage(store+"/Clone", func() {
		cl, err := mr.Clone(c.sr())
		if err != nil {
			c.err(store+".Clone", err)
			return
		}
		_, err = cl.GetAttr(cl.RootID())
		c.err(store+".Clone.GetAttr", err)
		if len(files) > 0 {
			if f, err := cl.OpenFile(files[0].id); err == nil {
				_, _ = f.ReadAt(make([]byte, 16), 0)
			}
		}
	})
	c.readerChain(store, mr, files)
}

func (c *caseRun) newCache(kind, sub string) (cache.BlobCache, bool) {
	if kind == "memory" {
		return cache.NewMemoryCache(), true
	}
	dc, err := cache.NewDirectoryCache(filepath.Join(c.dir, sub), cache.DirectoryCacheConfig{SyncAdd: true, MaxLRUCacheEntry: 8, MaxCacheFds: 8})
	if err != nil {
		c.r.Inconclusive("harness: directory cache: " + err.Error())
		return cache.NewMemoryCache(), false
	}
	return dc, true
}

// readerChain: reader.NewReader -> VerifyTOC / SkipVerify -> Cache() -> OpenFile / ReadAt /
// GetPassthroughFd on every file. Consumes (closes) mr.
func (c *caseRun) readerChain(store string, mr metadata.Reader, files []fileRef) {
	rng := c.rng.DeriveS("reader" + store)
	cacheKind := "memory"
	if rng.Chance(1, 3) {
		cacheKind = "dir"
	}
	bc, _ := c.newCache(cacheKind, "rcache-"+store)
	var vr *reader.VerifiableReader
	c.stage(store+"/reader.NewReader", func() {
		x, err := reader.NewReader(mr, bc, digest.FromBytes(c.in.Blob))
		if err != nil {
			c.err("reader.NewReader", err)
			return
		}
		vr = x
	})
	if vr == nil {
		_ = mr.Close()
		return
	}
	verifyFirst := rng.Bool()
	skip := rng.Chance(1, 3)
	var rd reader.Reader
	verify := func() {
		c.stage(store+"/reader.VerifyTOC", func() {
			_ = vr.Metadata()
			if _, err := vr.VerifyTOC(digest.FromString("not the toc")); err != nil {
				c.err("reader.VerifyTOC(other)", err)
			}
			if skip {
				rd = vr.SkipVerify()
				return
			}
			x, err := vr.VerifyTOC(mr.TOCDigest())
			if err != nil {
				c.err("reader.VerifyTOC", err)
				rd = vr.SkipVerify()
				return
			}
			rd = x
		})
	}
	cacheAll := func() {
		c.stage(store+"/reader.Cache", func() {
			var opts []reader.CacheOption
			switch rng.Intn(4) {
			case 0:
				opts = append(opts, reader.WithReader(c.sr()), reader.WithCacheOpts(cache.Direct()))
			case 1:
				lim := int64(rng.Pick(0, 100, 1<<20, -1))
				opts = append(opts, reader.WithFilter(func(off int64) bool { return off < lim }))
			}
			c.r.Count("cache_calls", 1)
			err := vr.Cache(opts...)
			c.err("reader.Cache", err)
			if err == nil {
				c.r.Count("cache_ok", 1)
			}
		})
	}
	if verifyFirst {
		verify()
		cacheAll()
	} else {
		cacheAll()
		verify()
	}
	if rd != nil {
		mergeBuf := int64(rng.Pick(64, 4096, 1<<20, 16<<20))
		workers := rng.Pick(1, 2, 10)
		for _, fr := range files {
			fr := fr
			c.stage(store+"/reader.OpenFile", func() {
				ra, err := rd.OpenFile(fr.id)
				if err != nil {
					c.err("reader.OpenFile", err)
					return
				}
				c.mark(stOpen)
				buf := bufFor(fr.size)
				var bounds []int64
				if f, err := mr.OpenFile(fr.id); err == nil {
					bounds = c.sweepFile(store, f, fr.size)
				}
				offs := readOffsets(fr.size, bounds)
				for _, o := range offs {
					if o < 0 || o >= fr.size {
						continue // the kernel only issues offsets inside the size the node reports
					}
					for k, bl := range []int{len(buf), 7} {
						if bl > len(buf) {
							bl = len(buf)
						}
						if k > 0 && o != 0 {
							break
						}
						got, err := ra.ReadAt(buf[:bl], o)
						if err != nil && err != io.EOF {
							c.err("reader.file.ReadAt", err)
						}
						if got > 0 {
							c.mark(stRead)
						}
					}
				}
				_ = rd.LastOnDemandReadTime()
			})
			if cacheKind == "dir" {
				c.stage(store+"/reader.GetPassthroughFd", func() {
					ra, err := rd.OpenFile(fr.id)
					if err != nil {
						return
					}
					pg, ok := ra.(reader.PassthroughFdGetter)
					if !ok {
						return
					}
					c.r.Count("passthrough_calls", 1)
					_, cr, err := pg.GetPassthroughFd(mergeBuf, workers)
					if err != nil {
						c.err("reader.GetPassthroughFd", err)
						return
					}
					c.r.Count("passthrough_ok", 1)
					_ = cr.Close()
				})
			}
		}
	}
	c.stage(store+"/reader.Close", func() {
		c.err("reader.Close", vr.Close())
		if _, err := vr.VerifyTOC(mr.TOCDigest()); err == nil {
			_ = err
		}
		c.err("reader.Cache(closed)", vr.Cache())
	})
}

// ---------------------------------------------------------------------------
// S6: the in-process stack: memreg -> layer.Resolver.Resolve -> Verify/SkipVerify ->
// Prefetch -> RootNode -> go-fuse node walk (Readdir/Lookup/Getattr/Open/Read)

func (c *caseRun) l2Chain(store string) {
	rng := c.rng.DeriveS("l2" + store)
	reg := memreg.New()
	comp := map[string]string{frGzip: "gzip", frLegacy: "gzip", frZstd: "zstdchunked", frExt: "externaltoc"}[c.in.Framing]
	if comp == "" {
		comp = "gzip"
	}
	bb := &blob.Built{Opts: blob.Opts{Compression: comp}, Blob: c.in.Blob, TOCDigest: digest.FromString("unknown"), DiffID: digest.FromString("diff"), ExternalTOC: c.in.ExtTOC}
	if len(bb.Blob) == 0 {
		bb.Blob = []byte{}
	}
	var im *l2.Image
	var env *l2.Env
	cfg := config.Config{}
	cfg.HTTPCacheType, cfg.FSCacheType = "memory", "memory"
	pass := rng.Chance(1, 3)
	if pass {
		cfg.FSCacheType = ""
		cfg.PassThrough = true
		cfg.MergeBufferSize = int64(rng.Pick(64, 4096, 1<<20, 16<<20))
		cfg.MergeWorkerCount = rng.Pick(1, 2, 10)
	}
	cfg.BlobConfig.ChunkSize = int64(rng.Pick(64, 512, 50000))
	if rng.Chance(1, 3) {
		cfg.BlobConfig.PrefetchChunkSize = cfg.BlobConfig.ChunkSize * 4
	}
	cfg.PrefetchTimeoutSec = 5
	c.stage("l2/setup", func() {
		var err error
		im, err = l2.Publish(reg, "reg.test", fmt.Sprintf("c04/i%d", c.in.Idx), "v1", []*blob.Built{bb})
		if err != nil {
			panic("harness: publish: " + err.Error())
		}
		env, err = c.newEnv(reg, filepath.Join(c.dir, "l2-"+store), cfg, store)
		if err != nil {
			panic("harness: env: " + err.Error())
		}
	})
	if env == nil || im == nil {
		return
	}
	var l layer.Layer
	c.stage("l2/"+store+"/Resolve", func() {
		x, err := env.Resolve(context.Background(), im, 0)
		if err != nil {
			c.err("layer.Resolve", err)
			return
		}
		l = x
	})
	if l == nil {
		return
	}
	c.mark(stTree)
	c.r.Count("l2_resolved/"+store, 1)
	c.stage("l2/"+store+"/Verify", func() {
		info := l.Info()
		if rng.Chance(1, 3) {
			l.SkipVerify()
			return
		}
		if err := l.Verify(digest.FromString("wrong")); err != nil {
			c.err("layer.Verify(wrong)", err)
		}
		if err := l.Verify(info.TOCDigest); err != nil {
			c.err("layer.Verify", err)
			l.SkipVerify()
		}
	})
	c.stage("l2/"+store+"/Prefetch", func() {
		c.err("layer.Prefetch", l.Prefetch(int64(rng.Pick(0, 100, 1<<20, 1<<40))))
		c.err("layer.WaitForPrefetchCompletion", l.WaitForPrefetchCompletion())
		_ = l.Info()
	})
	var rootN *nodefs.N
	c.stage("l2/"+store+"/RootNode", func() {
		rn, err := l.RootNode(uint32(rng.Pick(0, 1, math.MaxUint32)))
		if err != nil {
			c.err("layer.RootNode", err)
			return
		}
		rootN = nodefs.Root(rn)
	})
	if rootN != nil {
		c.walkNodes(store, rootN)
	}
	c.stage("l2/"+store+"/BackgroundFetch", func() {
		c.err("layer.BackgroundFetch", l.BackgroundFetch())
		c.err("layer.Check", l.Check())
		c.err("layer.Refresh", l.Refresh(context.Background(), env.Hosts, im.Ref, im.Layers[0]))
		buf := make([]byte, 100)
		_, err := l.ReadAt(buf, 0)
		c.err("layer.ReadAt", err)
	})
	c.stage("l2/"+store+"/Close", func() {
		l.Done()
		c.err("layer.Close", l.Close())
	})
}

func (c *caseRun) walkNodes(store string, root *nodefs.N) {
	type qi struct {
		n     *nodefs.N
		depth int
		name  string
	}
	visits, opened := 0, 0
	q := []qi{{root, 0, ""}}
	c.stage("l2/"+store+"/state-dir", func() {
		st, _, errno := root.Lookup(".stargz-snapshotter")
		if errno != 0 {
			return
		}
		ents, _ := st.Readdir()
		_, _ = st.Getattr()
		for _, e := range ents {
			if f, _, errno := st.Lookup(e.Name); errno == 0 {
				_, _ = f.Getattr()
				if o, ok := f.Ops.(fusefs.NodeOpener); ok {
					fh, _, errno := o.Open(context.Background(), 0)
					if errno == 0 {
						if rdr, ok := f.Ops.(fusefs.NodeReader); ok {
							_, _ = rdr.Read(context.Background(), fh, make([]byte, 4096), 0)
						}
					}
				}
			}
		}
	})
	for len(q) > 0 && visits < maxVisits {
		it := q[0]
		q = q[1:]
		visits++
		c.stage("l2/"+store+"/node", func() {
			n := it.n
			attr, errno := n.Getattr()
			if errno != 0 {
				c.err("node.Getattr", errno)
			}
			if xs, errno := n.Listxattr(); errno == 0 {
				for i, x := range xs {
					if i >= 8 {
						break
					}
					_, _ = n.Getxattr(x)
				}
			}
			_, _ = n.Getxattr("trusted.overlay.opaque")
			if st, ok := n.Ops.(fusefs.NodeStatfser); ok {
				_ = st
			}
			switch attr.Mode & 0o170000 {
			case 0o040000:
				ents, errno := n.Readdir()
				if errno != 0 {
					c.err("node.Readdir", errno)
				}
				for i, e := range ents {
					if i >= maxChildren {
						break
					}
					if e.Name == "." || e.Name == ".." {
						continue
					}
					ch, _, errno := n.Lookup(e.Name)
					if errno != 0 {
						c.err("node.Lookup", errno)
						continue
					}
					if it.depth < maxDepth {
						q = append(q, qi{ch, it.depth + 1, e.Name})
					}
				}
				for _, nm := range []string{"no-such", ".wh.x", estargz.PrefetchLandmark} {
					_, _, _ = n.Lookup(nm)
				}
			case 0o120000:
				_, _ = n.Readlink()
			case 0o100000:
				if opened >= c.maxFiles {
					return
				}
				opened++
				fh, _, errno := n.Open()
				if errno != 0 {
					c.err("node.Open", errno)
					return
				}
				c.mark(stOpen)
				size := int64(attr.Size)
				// offsets the kernel can send: inside [0, size) of the size the node reports
				for k, o := range []int64{0, 65, size / 2, size - 1} {
					if o < 0 || o >= size {
						continue
					}
					for j, sz := range []int{maxReadBuf, 1} {
						if j > 0 && k > 0 {
							break
						}
						got, errno := nodefs.Read(fh, o, sz)
						if errno != 0 {
							c.err("file.Read", errno)
						}
						if len(got) > 0 {
							c.mark(stRead)
						}
					}
				}
				if g, ok := fh.(fusefs.FileGetattrer); ok {
					_ = g
				}
				nodefs.Release(fh)
			default:
				// whiteouts, devices, fifos: Getattr only
			}
		})
	}
	c.r.Count("nodes_walked", visits)
}

var _ = vf.Recover
