package main

// Crash signatures: kind + normalised message + innermost function of the
// stargz-snapshotter modules (closure suffixes stripped so that the key does not
// depend on which frame of a recursion cycle tripped the limit).

import (
	"fmt"
	"os"
	"regexp"
	"sort"
	"strings"
)

const modPrefix = "github.com/containerd/stargz-snapshotter/"

var (
	closureRe = regexp.MustCompile(`(\.func\d+|\.\d+|\.gowrap\d+|\.deferwrap\d+|-fm)+$`)
	genericRe = regexp.MustCompile(`\[[^\]]*\]`)
	digitsRe  = regexp.MustCompile(`0x[0-9a-fA-F]+|[0-9]+`)
	nonAlnum  = regexp.MustCompile(`[^a-z0-9]+`)
)

// repoFunc maps a fully qualified function name to "<pkg path inside the module>.<func>"
// when it belongs to /repo (any of its modules), e.g.
// "estargz.(*Reader).getSource", "fs/reader.(*file).ReadAt", "metadata/memory.assignIDs".
func repoFunc(fn string) (string, bool) {
	if !strings.HasPrefix(fn, modPrefix) {
		return "", false
	}
	s := fn[len(modPrefix):]
	s = genericRe.ReplaceAllString(s, "")
	s = closureRe.ReplaceAllString(s, "")
	// a function inlined into its caller is printed as "pkg.(*T).Caller.(*T).Inlined":
	// keep the package and the innermost function
	if i := strings.LastIndex(s, ".("); i >= 0 {
		if slash := strings.LastIndex(s, "/"); strings.Index(s[slash+1:], ".") >= 0 {
			pkgEnd := slash + 1 + strings.Index(s[slash+1:], ".")
			if i > pkgEnd {
				s = s[:pkgEnd] + s[i:]
			}
		}
	}
	return s, true
}

// frames returns the function names of one goroutine block, innermost first.
func frames(block string) []string {
	var out []string
	for _, ln := range strings.Split(block, "\n") {
		if ln == "" || ln[0] == '\t' || ln[0] == ' ' {
			continue
		}
		if strings.HasPrefix(ln, "goroutine ") || strings.HasPrefix(ln, "created by ") || strings.HasPrefix(ln, "...") || strings.HasPrefix(ln, "runtime stack:") {
			continue
		}
		i := strings.LastIndex(ln, "(")
		if i <= 0 {
			continue
		}
		out = append(out, ln[:i])
	}
	return out
}

func isRuntimeFrame(f string) bool {
	return strings.HasPrefix(f, "runtime.") || strings.HasPrefix(f, "runtime/") || f == "panic" || strings.HasPrefix(f, "internal/")
}

func isHarnessFrame(f string) bool {
	return strings.HasPrefix(f, "main.") || (strings.HasPrefix(f, "verifharness/") && !strings.HasPrefix(f, "verifharness/internal/vf.Recover"))
}

// normMsg turns a panic / fatal message into a short stable slug.
func normMsg(msg string) string {
	m := strings.TrimSpace(msg)
	m = strings.TrimPrefix(m, "runtime error: ")
	if i := strings.Index(m, " [recovered]"); i >= 0 {
		m = m[:i]
	}
	switch {
	case strings.HasPrefix(m, "slice bounds out of range"):
		return "slice-bounds"
	case strings.HasPrefix(m, "index out of range"):
		return "index-range"
	case strings.Contains(m, "nil pointer dereference"):
		return "nil-deref"
	case strings.HasPrefix(m, "makeslice: len out of range"):
		return "makeslice-len"
	case strings.HasPrefix(m, "makeslice: cap out of range"):
		return "makeslice-cap"
	case strings.HasPrefix(m, "growslice"):
		return "growslice"
	case strings.HasPrefix(m, "integer divide by zero"):
		return "div-zero"
	case strings.Contains(m, "assignment to entry in nil map"):
		return "nil-map-write"
	case strings.HasPrefix(m, "stack overflow"):
		return "stack-overflow"
	case strings.HasPrefix(m, "concurrent map"):
		return strings.ReplaceAll(m, " ", "-")
	case strings.HasPrefix(m, "all goroutines are asleep"):
		return "deadlock"
	}
	m = strings.ToLower(m)
	m = digitsRe.ReplaceAllString(m, "N")
	m = nonAlnum.ReplaceAllString(m, "-")
	m = strings.Trim(m, "-")
	if len(m) > 48 {
		m = m[:48]
	}
	if m == "" {
		m = "unknown"
	}
	return m
}

type crashSig struct {
	Key       string // e.g. panic:slice-bounds@estargz.(*GzipDecompressor).ParseFooter
	Msg       string // raw first line
	Site      string
	Harness   bool // the panic originated in harness code (or stdlib called by it): not the repo's fault
	OOM       bool
	StackHead string
}

// sigFromStack builds the signature of a panic from its message and the stack of the
// panicking goroutine (debug.Stack() taken inside the deferred recover, or the
// goroutine block printed by the runtime for an unrecovered panic).
func sigFromStack(kind, msg, stack string) crashSig {
	fr := frames(stack)
	// skip everything up to and including the last "panic" frame (deferred recover
	// machinery sits above it in a debug.Stack() trace).
	start := 0
	for i, f := range fr {
		if f == "panic" || f == "runtime.gopanic" {
			start = i + 1
		}
	}
	fr = fr[start:]
	slug := normMsg(msg)
	s := crashSig{Msg: oneLine(msg, 300)}
	site := ""
	if slug == "stack-overflow" {
		// most frequent repo function among the printed frames
		cnt := map[string]int{}
		for _, f := range fr {
			if rf, ok := repoFunc(f); ok {
				cnt[rf]++
			}
		}
		var names []string
		for k := range cnt {
			names = append(names, k)
		}
		sort.Slice(names, func(i, j int) bool {
			if cnt[names[i]] != cnt[names[j]] {
				return cnt[names[i]] > cnt[names[j]]
			}
			return names[i] < names[j]
		})
		if len(names) > 0 {
			site = names[0]
		}
	} else {
		for _, f := range fr {
			if isRuntimeFrame(f) {
				continue
			}
			if rf, ok := repoFunc(f); ok {
				site = rf
				break
			}
			if isHarnessFrame(f) {
				// harness code (or a library called directly by it) panicked before any
				// repo frame: not attributable to /repo.
				s.Harness = true
				break
			}
		}
	}
	if site == "" {
		s.Harness = true
		site = "none"
	}
	s.Site = site
	s.Key = kind + ":" + slug + "@" + site
	hd := fr
	if len(hd) > 12 {
		hd = hd[:12]
	}
	s.StackHead = strings.Join(hd, " <- ")
	return s
}

// goroutineBlocks splits a runtime dump into goroutine blocks.
func goroutineBlocks(dump string) []string {
	var blocks []string
	idx := 0
	for {
		i := strings.Index(dump[idx:], "\ngoroutine ")
		if i < 0 {
			break
		}
		st := idx + i + 1
		j := strings.Index(dump[st:], "\n\n")
		if j < 0 {
			blocks = append(blocks, dump[st:])
			break
		}
		blocks = append(blocks, dump[st:st+j])
		idx = st + j
	}
	return blocks
}

// resource exhaustion of the (shared) machine: memory, threads
var oomMarks = []string{"out of memory", "cannot allocate memory", "failed to allocate", "runtime: out of memory",
	"pthread_create failed", "failed to create new OS thread", "newosproc", "Resource temporarily unavailable", "thread limit"}

// sigFromOutput analyses the output of a child that died.
func sigFromOutput(out string) (crashSig, bool) {
	type mark struct {
		pos  int
		kind string
		msg  string
	}
	best := mark{pos: -1}
	consider := func(prefix, kind string) {
		search := 0
		for {
			i := strings.Index(out[search:], prefix)
			if i < 0 {
				return
			}
			p := search + i
			if p == 0 || out[p-1] == '\n' {
				if best.pos < 0 || p < best.pos {
					e := strings.IndexByte(out[p:], '\n')
					if e < 0 {
						e = len(out) - p
					}
					best = mark{p, kind, out[p+len(prefix) : p+e]}
				}
				return
			}
			search = p + 1
		}
	}
	consider("panic: ", "panic")
	consider("fatal error: ", "fatal")
	consider("runtime: out of memory", "oom")
	consider("runtime: cannot allocate memory", "oom")
	consider("runtime/cgo: pthread_create failed", "oom")
	consider("runtime: failed to create new OS thread", "oom")
	consider("runtime: program exceeds", "oom")
	consider("SIGABRT: abort", "fatal")
	consider("SIGILL: illegal instruction", "fatal")
	consider("SIGFPE: floating-point exception", "fatal")
	consider("==ERROR: ThreadSanitizer", "oom")
	consider("ThreadSanitizer: failed to", "oom")
	consider("unexpected fault address", "fatal")
	consider("SIGSEGV: segmentation violation", "fatal")
	consider("SIGBUS: bus error", "fatal")
	if best.pos < 0 {
		return crashSig{}, false
	}
	rest := out[best.pos:]
	for _, m := range oomMarks {
		// an allocation failure reported right at the crash marker (first lines)
		head := rest
		if len(head) > 400 {
			head = head[:400]
		}
		if strings.Contains(head, m) {
			s := crashSig{OOM: true, Msg: oneLine(head, 200)}
			// still try to say where, for the evidence
			for _, b := range goroutineBlocks(rest) {
				for _, f := range frames(b) {
					if rf, ok := repoFunc(f); ok {
						s.Site = rf
						break
					}
				}
				if s.Site != "" {
					break
				}
			}
			return s, true
		}
	}
	if best.kind == "oom" {
		return crashSig{OOM: true, Msg: oneLine(rest, 200)}, true
	}
	blocks := goroutineBlocks(rest)
	msg := best.msg
	if strings.HasPrefix(rest, "SIGSEGV") || strings.HasPrefix(rest, "SIGBUS") || strings.HasPrefix(rest, "SIGABRT") || strings.HasPrefix(rest, "SIGILL") || strings.HasPrefix(rest, "SIGFPE") || strings.HasPrefix(rest, "unexpected fault") {
		msg = "signal " + strings.SplitN(rest, ":", 2)[0]
	}
	if strings.HasPrefix(msg, "unexpected signal") {
		msg = "signal"
	}
	// pick the first goroutine block that is running (the faulting one is printed first)
	block := ""
	for _, b := range blocks {
		hd := b
		if i := strings.IndexByte(b, '\n'); i >= 0 {
			hd = b[:i]
		}
		if strings.Contains(hd, "[running") || strings.Contains(hd, "[syscall") {
			block = b
			break
		}
	}
	if block == "" && len(blocks) > 0 {
		block = blocks[0]
	}
	s := sigFromStack(best.kind, msg, block)
	return s, true
}

// hangSig derives "hang@<outermost repo function>" from a SIGQUIT goroutine dump:
// the goroutine that carries both harness frames and repo frames is the case runner.
func hangSig(dump string) (key, detail string) {
	blocks := goroutineBlocks(dump)
	pick := func(needHarness bool) (string, string) {
		for _, b := range blocks {
			fr := frames(b)
			hasH := false
			outer, inner := "", ""
			for _, f := range fr {
				if strings.HasPrefix(f, "main.") {
					hasH = true
				}
				if rf, ok := repoFunc(f); ok {
					if inner == "" {
						inner = rf
					}
					outer = rf
				}
			}
			if outer == "" || (needHarness && !hasH) {
				continue
			}
			hd := fr
			if len(hd) > 14 {
				hd = hd[:14]
			}
			return outer, "innermost=" + inner + " stack: " + strings.Join(hd, " <- ")
		}
		return "", ""
	}
	site, det := pick(true)
	if site == "" {
		site, det = pick(false)
	}
	if site == "" {
		site = "unknown"
	}
	return "hang@" + site, det
}

func oneLine(s string, n int) string {
	s = strings.ReplaceAll(s, "\n", " | ")
	if len(s) > n {
		s = s[:n] + "…"
	}
	return s
}

func readHeadTail(path string, head, tail int64) string {
	f, err := os.Open(path)
	if err != nil {
		return ""
	}
	defer f.Close()
	st, err := f.Stat()
	if err != nil {
		return ""
	}
	if st.Size() <= head+tail {
		b := make([]byte, st.Size())
		_, _ = f.ReadAt(b, 0)
		return string(b)
	}
	h := make([]byte, head)
	_, _ = f.ReadAt(h, 0)
	t := make([]byte, tail)
	_, _ = f.ReadAt(t, st.Size()-tail)
	return string(h) + fmt.Sprintf("\n...[%d bytes elided]...\n", st.Size()-head-tail) + string(t)
}

var (
	errDigits = regexp.MustCompile(`sha256:[0-9a-f]+|0x[0-9a-fA-F]+|-?[0-9]+`)
	errQuoted = regexp.MustCompile(`"(?:[^"\\]|\\.)*"|'(?:[^'\\]|\\.)*'`)
)

// normErr folds an error string into its shape (distinct shapes ~ distinct code paths).
func normErr(err error) string {
	s := err.Error()
	if len(s) > 400 {
		s = s[:400]
	}
	s = errQuoted.ReplaceAllString(s, "Q")
	s = errDigits.ReplaceAllString(s, "N")
	s = strings.Map(func(r rune) rune {
		if r < 32 || r > 126 {
			return '?'
		}
		return r
	}, s)
	if len(s) > 160 {
		s = s[:160]
	}
	return s
}

func sha(b []byte) [32]byte { return sha256sum(b) }
