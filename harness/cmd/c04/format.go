package main

// Independent (std-library only) writers/parsers of the four blob framings, used to
// wrap generated TOCs into otherwise valid blobs and to take genuine blobs apart.
// Nothing here calls into /repo.

import (
	"archive/tar"
	"bytes"
	"compress/gzip"
	"encoding/binary"
	"encoding/json"
	"fmt"
	"io"

	"github.com/klauspost/compress/zstd"
)

const (
	footEstargz = 51
	footLegacy  = 47
	footZstd    = 40
	footExt     = 46
	tocTarName  = "stargz.index.json"
)

// gzEmptyMember returns an empty gzip member (stored block) with the given FLG and
// extra field: the shape of all gzip-based footers.
func gzEmptyMember(flg byte, extra []byte, xlen int) []byte {
	b := []byte{0x1f, 0x8b, 8, flg, 0, 0, 0, 0, 0, 255}
	if flg&4 != 0 {
		b = append(b, byte(xlen), byte(xlen>>8))
		b = append(b, extra...)
	}
	b = append(b, 1, 0, 0, 0xff, 0xff)
	b = append(b, make([]byte, 8)...)
	return b
}

func estargzFooter(tocOff int64) []byte {
	sub := fmt.Sprintf("%016xSTARGZ", uint64(tocOff))
	extra := append([]byte{'S', 'G', byte(len(sub)), 0}, sub...)
	return gzEmptyMember(4, extra, len(extra))
}

func legacyFooter(tocOff int64) []byte {
	extra := []byte(fmt.Sprintf("%016xSTARGZ", uint64(tocOff)))
	return gzEmptyMember(4, extra, len(extra))
}

func extFooter() []byte {
	sub := "STARGZEXTERNALTOC"
	extra := append([]byte{'S', 'G', byte(len(sub)), 0}, sub...)
	return gzEmptyMember(4, extra, len(extra))
}

var (
	skippableMagic = []byte{0x50, 0x2a, 0x4d, 0x18}
	zstdChunkedMag = []byte{0x47, 0x6e, 0x55, 0x6c, 0x49, 0x6e, 0x55, 0x78}
)

func skippable(b []byte) []byte {
	out := append([]byte{}, skippableMagic...)
	var sz [4]byte
	binary.LittleEndian.PutUint32(sz[:], uint32(len(b)))
	out = append(out, sz[:]...)
	return append(out, b...)
}

func zstdFooter40(tocOff, compLen, rawLen, typ uint64) []byte {
	f := make([]byte, 40)
	binary.LittleEndian.PutUint64(f[0:], tocOff)
	binary.LittleEndian.PutUint64(f[8:], compLen)
	binary.LittleEndian.PutUint64(f[16:], rawLen)
	binary.LittleEndian.PutUint64(f[24:], typ)
	copy(f[32:], zstdChunkedMag)
	return f
}

// gzipTOCMember = gzip(tar{stargz.index.json}) as the eStargz format asks.
func gzipTOCMember(tocJSON []byte, tarName string, declaredSize int64) []byte {
	var buf bytes.Buffer
	zw, _ := gzip.NewWriterLevel(&buf, gzip.BestSpeed)
	tw := tar.NewWriter(zw)
	if declaredSize < 0 {
		declaredSize = int64(len(tocJSON))
	}
	_ = tw.WriteHeader(&tar.Header{Typeflag: tar.TypeReg, Name: tarName, Size: declaredSize})
	n := int64(len(tocJSON))
	if n > declaredSize {
		n = declaredSize
	}
	_, _ = tw.Write(tocJSON[:n])
	_ = tw.Flush()
	if declaredSize == int64(len(tocJSON)) {
		_ = tw.Close()
	}
	_ = zw.Close()
	return buf.Bytes()
}

func zstdCompress(b []byte) []byte {
	var buf bytes.Buffer
	zw, _ := zstd.NewWriter(&buf, zstd.WithEncoderLevel(zstd.SpeedFastest))
	_, _ = zw.Write(b)
	_ = zw.Close()
	return buf.Bytes()
}

// framing kinds
const (
	frGzip   = "gzip"
	frLegacy = "legacy"
	frZstd   = "zstdchunked"
	frExt    = "externaltoc"
)

// wrap assembles payload + TOC + footer for a framing. For the external framing the TOC
// goes into the second return value (the separately fetched TOC blob).
func wrap(framing string, payload, tocJSON []byte) (blob, extTOC []byte) {
	switch framing {
	case frGzip:
		m := gzipTOCMember(tocJSON, tocTarName, -1)
		blob = append(append(append([]byte{}, payload...), m...), estargzFooter(int64(len(payload)))...)
	case frLegacy:
		m := gzipTOCMember(tocJSON, tocTarName, -1)
		blob = append(append(append([]byte{}, payload...), m...), legacyFooter(int64(len(payload)))...)
	case frZstd:
		c := zstdCompress(tocJSON)
		blob = append(append([]byte{}, payload...), skippable(c)...)
		blob = append(blob, skippable(zstdFooter40(uint64(len(payload))+8, uint64(len(c)), uint64(len(tocJSON)), 1))...)
	case frExt:
		blob = append(append([]byte{}, payload...), extFooter()...)
		extTOC = gzipTOCMember(tocJSON, tocTarName, -1)
	}
	return
}

// parts of a genuine blob
type parts struct {
	Framing string
	Payload []byte // everything before the TOC
	TOC     []byte // the compressed TOC member(s) (empty for external)
	Footer  []byte
	TOCJSON []byte
	ExtTOC  []byte
}

func splitGenuine(framing string, blob, extTOC []byte) (*parts, error) {
	p := &parts{Framing: framing, ExtTOC: extTOC}
	switch framing {
	case frGzip:
		if len(blob) < footEstargz {
			return nil, fmt.Errorf("short")
		}
		foot := blob[len(blob)-footEstargz:]
		var off int64
		if _, err := fmt.Sscanf(string(foot[16:32]), "%016x", &off); err != nil {
			return nil, err
		}
		if off < 0 || off > int64(len(blob)-footEstargz) {
			return nil, fmt.Errorf("bad toc offset %d", off)
		}
		p.Payload, p.TOC, p.Footer = blob[:off], blob[off:len(blob)-footEstargz], foot
		j, err := gunzipTarEntry(p.TOC)
		if err != nil {
			return nil, err
		}
		p.TOCJSON = j
	case frZstd:
		if len(blob) < footZstd+8 {
			return nil, fmt.Errorf("short")
		}
		foot := blob[len(blob)-footZstd:]
		off := int64(binary.LittleEndian.Uint64(foot[0:8]))
		cl := int64(binary.LittleEndian.Uint64(foot[8:16]))
		if off < 8 || off+cl > int64(len(blob)) {
			return nil, fmt.Errorf("bad zstd footer")
		}
		p.Payload, p.TOC, p.Footer = blob[:off-8], blob[off-8:off+cl], blob[off+cl:]
		zr, err := zstd.NewReader(bytes.NewReader(blob[off : off+cl]))
		if err != nil {
			return nil, err
		}
		defer zr.Close()
		j, err := io.ReadAll(zr)
		if err != nil {
			return nil, err
		}
		p.TOCJSON = j
	case frExt:
		if len(blob) < footExt {
			return nil, fmt.Errorf("short")
		}
		p.Payload, p.Footer = blob[:len(blob)-footExt], blob[len(blob)-footExt:]
		j, err := gunzipTarEntry(extTOC)
		if err != nil {
			return nil, err
		}
		p.TOCJSON = j
	default:
		return nil, fmt.Errorf("framing %q", framing)
	}
	return p, nil
}

func gunzipTarEntry(b []byte) ([]byte, error) {
	zr, err := gzip.NewReader(bytes.NewReader(b))
	if err != nil {
		return nil, err
	}
	tr := tar.NewReader(zr)
	if _, err := tr.Next(); err != nil {
		return nil, err
	}
	return io.ReadAll(tr)
}

// tocDoc is a TOC as free-form JSON so that any structure can be emitted.
type tocDoc struct {
	Version any
	Entries []any  // map[string]any | nil | anything
	Raw     []byte // when set, emitted verbatim instead of Version/Entries
}

func parseTOCDoc(j []byte) (*tocDoc, error) {
	dec := json.NewDecoder(bytes.NewReader(j))
	dec.UseNumber()
	var top map[string]any
	if err := dec.Decode(&top); err != nil {
		return nil, err
	}
	d := &tocDoc{Version: top["version"]}
	if es, ok := top["entries"].([]any); ok {
		d.Entries = es
	}
	return d, nil
}

func (d *tocDoc) JSON() []byte {
	if d.Raw != nil {
		return d.Raw
	}
	b, err := json.Marshal(map[string]any{"version": d.Version, "entries": d.Entries})
	if err != nil {
		return []byte(`{"version":1,"entries":[]}`)
	}
	return b
}

func num(v int64) json.Number { return json.Number(fmt.Sprintf("%d", v)) }

func entInt(e map[string]any, k string) int64 {
	switch v := e[k].(type) {
	case json.Number:
		n, _ := v.Int64()
		return n
	case float64:
		return int64(v)
	case int64:
		return v
	case int:
		return int64(v)
	}
	return 0
}

func entStr(e map[string]any, k string) string {
	s, _ := e[k].(string)
	return s
}
