package main

// The five seeded generators of DESIGN.md C04. Every input is a pure function of
// (VERIF_SEED, tier, case index): the parent never ships bytes to the batch children,
// both sides regenerate the input from the index.

import (
	"bytes"
	"encoding/binary"
	"encoding/json"
	"fmt"
	"math"
	"sort"
	"strings"
	"sync"

	"verifharness/internal/blob"
	"verifharness/internal/gen"
	"verifharness/internal/prng"
	"verifharness/internal/vf"
)

type input struct {
	Idx     int
	Gen     string // a b c d e
	Desc    string
	Framing string
	Blob    []byte
	ExtTOC  []byte
	Names   []string // names worth looking up (from the generator's own knowledge)
	Host    *hostilePlan
	Build   *buildPlan
}

// schedule of generators over the case index (20-periodic so that every batch is mixed)
// (a) and (d) inputs cost a few milliseconds, (b) (c) (e) up to a second: the cheap ones get
// more slots so that the systematic part of (a) (~1250 cases) fits into the quick tier.
var schedule = [20]byte{'a', 'b', 'a', 'c', 'a', 'd', 'b', 'a', 'e', 'a', 'b', 'a', 'c', 'a', 'd', 'b', 'a', 'c', 'a', 'b'}

var perPeriod = func() map[byte]int {
	m := map[byte]int{}
	for _, g := range schedule {
		m[g]++
	}
	return m
}()

// ordinal returns the generator of case i and its ordinal within that generator.
func ordinal(i int) (byte, int) {
	g := schedule[i%20]
	k := (i / 20) * perPeriod[g]
	for j := 0; j < i%20; j++ {
		if schedule[j] == g {
			k++
		}
	}
	return g, k
}

// ---------------------------------------------------------------------------
// base pool: genuine blobs built by the repo's own builder

type base struct {
	K       int
	Framing string
	Built   *blob.Built
	Parts   *parts
	Doc     *tocDoc
	Entries []gen.Entry
	Tar     []byte
}

const poolSize = 18

type basePool struct {
	r  *vf.Run
	mu sync.Mutex
	m  map[int]*base
}

func newPool(r *vf.Run) *basePool { return &basePool{r: r, m: map[int]*base{}} }

func (p *basePool) get(k int) *base {
	k = ((k % poolSize) + poolSize) % poolSize
	p.mu.Lock()
	defer p.mu.Unlock()
	if b, ok := p.m[k]; ok {
		return b
	}
	rng := p.r.RNG(0xba5e, uint64(k))
	// bases 0,1,2 = gzip, zstd, ext (the directed cases rely on it); zstd is kept to 3 of
	// 18 bases because every read of a zstd layer costs the repo a full decoder set-up
	framing := []string{frGzip, frZstd, frExt, frGzip, frGzip, frExt}[k%6]
	chunk := []int{64, 64, 512, 64, 256, 4096}[k/3%6]
	var b *base
	for attempt := 0; attempt < 8 && b == nil; attempt++ {
		o := gen.DefaultOpts(int64(chunk))
		o.MaxEntries = 14
		o.LongNames = false
		ents := gen.RandomTar(rng, o)
		// make sure there is a multi-chunk file
		ents = append(ents, gen.Entry{Name: fmt.Sprintf("big%d", k), Type: '0', Mode: 0o644, Size: int64(chunk)*3 + 5, ContentID: uint64(1000 + k)})
		tb := gen.TarBytes(ents)
		bo := blob.Opts{ChunkSize: chunk, Compression: framing, Level: 1, Workers: 1}
		if k%5 == 4 {
			bo.MinChunkSize = chunk * 4 // several files per stream: innerOffset paths
		}
		if k%4 == 1 && len(ents) > 2 {
			for _, e := range ents {
				if e.Type == '0' && e.Size > 0 {
					bo.Prioritized = []string{e.Name}
					break
				}
			}
		}
		built, err := blob.Build(tb, bo)
		if err != nil {
			continue
		}
		ps, err := splitGenuine(framing, built.Blob, built.ExternalTOC)
		if err != nil {
			continue
		}
		doc, err := parseTOCDoc(ps.TOCJSON)
		if err != nil {
			continue
		}
		b = &base{K: k, Framing: framing, Built: built, Parts: ps, Doc: doc, Entries: ents, Tar: tb}
	}
	if b == nil {
		panic(fmt.Sprintf("harness: cannot build base blob %d", k))
	}
	p.m[k] = b
	return b
}

func (b *base) names() []string {
	var ns []string
	for _, e := range b.Doc.Entries {
		if m, ok := e.(map[string]any); ok {
			ns = append(ns, entStr(m, "name"))
		}
	}
	return ns
}

func cloneDoc(d *tocDoc) *tocDoc {
	n := &tocDoc{Version: d.Version}
	for _, e := range d.Entries {
		if m, ok := e.(map[string]any); ok {
			c := make(map[string]any, len(m))
			for k, v := range m {
				c[k] = v
			}
			n.Entries = append(n.Entries, c)
		} else {
			n.Entries = append(n.Entries, e)
		}
	}
	return n
}

// ---------------------------------------------------------------------------
// (a) raw byte strings, footer variants, single-field footer mutations

type footMut struct {
	Name string
	F    []byte
}

func put16(b []byte, off int, v int) {
	if off+1 < len(b) {
		b[off], b[off+1] = byte(v), byte(v>>8)
	}
}

// gzipFooterMutations returns every single-field mutation of a gzip-based footer.
// kind: frGzip | frLegacy | frExt ; blobLen is the length of the blob the footer will end.
func gzipFooterMutations(kind string, valid []byte, blobLen int64) []footMut {
	var out []footMut
	add := func(name string, f func(b []byte) []byte) {
		b := append([]byte{}, valid...)
		out = append(out, footMut{kind + ":" + name, f(b)})
	}
	set := func(off int, v byte) func([]byte) []byte {
		return func(b []byte) []byte { b[off] = v; return b }
	}
	add("id1", set(0, 0x1e))
	add("id2", set(1, 0x8c))
	add("cm", set(2, 7))
	for _, flg := range []byte{0, 1, 2, 6, 8, 16, 0x0c, 0x14, 0x1c, 0xe4, 0xff} {
		add(fmt.Sprintf("flg=%#x", flg), set(3, flg))
	}
	add("mtime", set(4, 0xff))
	add("xfl", set(8, 0xff))
	add("os", set(9, 3))
	for _, x := range []int{0, 1, 2, 3, 4, 5, 6, 16, 20, 21, 22, 23, 25, 26, 27, 28, 255, 0xffff} {
		x := x
		add(fmt.Sprintf("xlen=%d", x), func(b []byte) []byte { put16(b, 10, x); return b })
	}
	hexOff := 16 // first hex digit of the offset in an estargz footer
	if kind == frLegacy {
		hexOff = 12
	}
	if kind != frLegacy {
		add("si1", set(12, 'T'))
		add("si2", set(13, 'H'))
		for _, l := range []int{0, 1, 2, 6, 15, 16, 17, 18, 21, 22, 23, 24, 255, 0xffff} {
			l := l
			add(fmt.Sprintf("len=%d", l), func(b []byte) []byte { put16(b, 14, l); return b })
		}
	}
	if kind != frExt {
		for _, s := range []string{
			"ffffffffffffffff", "-000000000000001", "+000000000000001", "000000000000000g", "0x00000000000001",
			" 00000000000001f", "0000000000000000", "0000000000000001", "7fffffffffffffff", "8000000000000000",
			"-7ffffffffffffff", "\x00\x00\x00\x00\x00\x00\x00\x00\x00\x00\x00\x00\x00\x00\x00\x00",
			fmt.Sprintf("%016x", blobLen), fmt.Sprintf("%016x", blobLen-int64(len(valid))), fmt.Sprintf("%016x", blobLen-int64(len(valid))+1),
			fmt.Sprintf("%016x", blobLen+1), fmt.Sprintf("%016x", blobLen-1), fmt.Sprintf("%016x", uint64(blobLen)<<32),
		} {
			s := s
			add(fmt.Sprintf("off=%q", s), func(b []byte) []byte { copy(b[hexOff:hexOff+16], s); return b })
		}
		add("magic-lower", func(b []byte) []byte { copy(b[hexOff+16:], "stargz"); return b })
		add("magic-cut", func(b []byte) []byte { b[hexOff+21] = 0; return b })
	} else {
		add("magic-lower", func(b []byte) []byte { copy(b[16:], "stargzexternaltoc"); return b })
		add("magic-cut", func(b []byte) []byte { b[32] = 0; return b })
		add("magic-estargz", func(b []byte) []byte { copy(b[16:], "0000000000000000S"); return b })
	}
	n := len(valid)
	add("bfinal0", set(n-13, 0))
	add("btype3", set(n-13, 7))
	add("len1", set(n-12, 1))
	add("nlen", set(n-10, 0))
	add("crc", set(n-8, 1))
	add("isize", set(n-1, 1))
	// length changes (the decompressor gets a footer of the wrong size or Open picks another one)
	for d := 1; d <= 4; d++ {
		d := d
		add(fmt.Sprintf("short-front%d", d), func(b []byte) []byte { return b[d:] })
		add(fmt.Sprintf("short-back%d", d), func(b []byte) []byte { return b[:len(b)-d] })
		add(fmt.Sprintf("pad%d", d), func(b []byte) []byte { return append(b, make([]byte, d)...) })
	}
	// XLEN shortened together with the extra field so that the member stays well-formed
	for _, keep := range []int{0, 1, 2, 3, 4, 5, 10, 19, 20, 21} {
		keep := keep
		add(fmt.Sprintf("extra-cut%d", keep), func(b []byte) []byte {
			xl := int(b[10]) | int(b[11])<<8
			if keep >= xl {
				return b
			}
			ex := b[12 : 12+keep]
			nb := gzEmptyMember(4, append([]byte{}, ex...), keep)
			// pad in front with gzip-ish junk so that the total length is unchanged
			pad := len(b) - len(nb)
			return append(bytes.Repeat([]byte{0}, pad), nb...)
		})
	}
	return out
}

func zstdFooterMutations(valid []byte, blobLen int64) []footMut {
	// valid = skippable header (8) + 40 byte footer
	var out []footMut
	add := func(name string, f func(b []byte) []byte) {
		b := append([]byte{}, valid...)
		out = append(out, footMut{"zstd:" + name, f(b)})
	}
	u := func(off int, v uint64) func([]byte) []byte {
		return func(b []byte) []byte { binary.LittleEndian.PutUint64(b[8+off:], v); return b }
	}
	bl := uint64(blobLen)
	for _, v := range []uint64{0, 1, 7, 8, 9, bl, bl - 40, bl - 48, bl + 1, 1 << 31, 1 << 62, math.MaxInt64, 1 << 63, 1<<63 + 8, math.MaxUint64, math.MaxUint64 - 7} {
		add(fmt.Sprintf("off=%d", v), u(0, v))
	}
	for _, v := range []uint64{0, 1, bl, bl + 1, 1 << 31, 1 << 47, 1 << 62, math.MaxInt64, 1 << 63, math.MaxUint64} {
		add(fmt.Sprintf("clen=%d", v), u(8, v))
	}
	for _, v := range []uint64{0, 1 << 62, math.MaxUint64} {
		add(fmt.Sprintf("rawlen=%d", v), u(16, v))
	}
	for _, v := range []uint64{0, 2, math.MaxUint64} {
		add(fmt.Sprintf("type=%d", v), u(24, v))
	}
	for i := 0; i < 8; i++ {
		i := i
		add(fmt.Sprintf("magic%d", i), func(b []byte) []byte { b[8+32+i] ^= 0x20; return b })
	}
	add("skip-magic", func(b []byte) []byte { b[0] = 0x51; return b })
	add("skip-size0", func(b []byte) []byte { b[4] = 0; return b })
	add("skip-sizeff", func(b []byte) []byte { b[4], b[5], b[6], b[7] = 0xff, 0xff, 0xff, 0xff; return b })
	for d := 1; d <= 4; d++ {
		d := d
		add(fmt.Sprintf("short-front%d", d), func(b []byte) []byte { return b[d:] })
		add(fmt.Sprintf("short-back%d", d), func(b []byte) []byte { return b[:len(b)-d] })
		add(fmt.Sprintf("pad%d", d), func(b []byte) []byte { return append(b, make([]byte, d)...) })
	}
	return out
}

func validFooter(kind string, tocOff int64) []byte {
	switch kind {
	case frGzip:
		return estargzFooter(tocOff)
	case frLegacy:
		return legacyFooter(tocOff)
	case frExt:
		return extFooter()
	case frZstd:
		return skippable(zstdFooter40(uint64(tocOff)+8, 0, 0, 1))
	}
	return nil
}

var footKinds = []string{frGzip, frLegacy, frZstd, frExt}

// number of systematic (a) cases before the random ones
const (
	aLenCases   = 161               // random bytes of every length
	aFootCases  = 4 * 161           // every length ending in every footer kind
	aFrontCases = 51 + 47 + 48 + 46 // footers truncated at the back (first L bytes)
)

var aMutCount = func() int {
	n := 0
	for _, k := range []string{frGzip, frLegacy, frExt} {
		n += len(gzipFooterMutations(k, validFooter(k, 0), 100))
	}
	n += len(zstdFooterMutations(validFooter(frZstd, 0), 100))
	return n
}()

func genA(r *vf.Run, pool *basePool, idx, k int) *input {
	rng := r.RNG('a', uint64(k))
	in := &input{Idx: idx, Gen: "a"}
	switch {
	case k < aLenCases:
		in.Blob = rng.Bytes(k)
		if rng.Chance(1, 4) {
			in.Blob = make([]byte, k)
		}
		in.Desc = fmt.Sprintf("raw len=%d", k)
		return in
	case k < aLenCases+aFootCases:
		j := k - aLenCases
		kind, L := footKinds[j/161], j%161
		f := validFooter(kind, 0)
		if L >= len(f) {
			pre := rng.Bytes(L - len(f))
			f = validFooter(kind, int64(rng.Intn(L-len(f)+1)))
			in.Blob = append(pre, f...)
		} else {
			in.Blob = f[len(f)-L:]
		}
		in.Framing = kind
		in.Desc = fmt.Sprintf("len=%d ending in %s footer", L, kind)
		return in
	case k < aLenCases+aFootCases+aFrontCases:
		j := k - aLenCases - aFootCases
		for _, kind := range footKinds {
			f := validFooter(kind, 0)
			if j < len(f) {
				in.Blob = f[:j]
				in.Framing = kind
				in.Desc = fmt.Sprintf("first %d bytes of %s footer", j, kind)
				return in
			}
			j -= len(f)
		}
	case k < aLenCases+aFootCases+aFrontCases+aMutCount:
		j := k - aLenCases - aFootCases - aFrontCases
		return footerMutationCase(r, pool, in, rng, j)
	}
	// random longer ones
	switch rng.Intn(4) {
	case 0:
		n := rng.Range(161, 70000)
		in.Blob = rng.Bytes(n)
		kind := footKinds[rng.Intn(4)]
		f := validFooter(kind, int64(rng.Intn(n)))
		if rng.Bool() {
			copy(in.Blob[n-len(f):], f)
		}
		in.Framing = kind
		in.Desc = fmt.Sprintf("random len=%d %s footer", n, kind)
	case 1:
		// a footer mutation again, other placement / other random content
		return footerMutationCase(r, pool, in, rng, rng.Intn(aMutCount))
	case 2:
		// footer of one kind glued on the payload+TOC of another
		b := pool.get(rng.Intn(poolSize))
		kind := footKinds[rng.Intn(4)]
		body := append(append([]byte{}, b.Parts.Payload...), b.Parts.TOC...)
		in.Blob = append(body, validFooter(kind, int64(len(b.Parts.Payload)))...)
		in.ExtTOC = b.Parts.ExtTOC
		in.Framing = kind
		in.Names = b.names()
		in.Desc = fmt.Sprintf("base%d(%s) body + %s footer", b.K, b.Framing, kind)
	default:
		// several footers in a row, or a footer repeated
		var bb []byte
		bb = append(bb, rng.Bytes(rng.Intn(200))...)
		for i, n := 0, rng.Range(2, 4); i < n; i++ {
			bb = append(bb, validFooter(footKinds[rng.Intn(4)], int64(rng.Intn(300)))...)
		}
		in.Blob = bb
		in.Desc = fmt.Sprintf("footer chain len=%d", len(bb))
	}
	return in
}

func footerMutationCase(r *vf.Run, pool *basePool, in *input, rng *prng.R, j int) *input {
	// placement: alone | after random bytes | on a genuine blob of that framing
	place := rng.Intn(3)
	var b *base
	body := []byte{}
	tocOff := int64(0)
	if place == 1 {
		body = rng.Bytes(rng.Range(1, 300))
		tocOff = int64(rng.Intn(len(body)))
	}
	pick := func(kind string) {
		if place != 2 {
			return
		}
		for t := 0; t < poolSize; t++ {
			c := pool.get(rng.Intn(poolSize))
			if c.Framing == kind || (kind == frLegacy && c.Framing == frGzip) {
				b = c
				body = append(append([]byte{}, c.Parts.Payload...), c.Parts.TOC...)
				tocOff = int64(len(c.Parts.Payload))
				in.ExtTOC = c.Parts.ExtTOC
				in.Names = c.names()
				return
			}
		}
	}
	orig := j
	for _, kind := range []string{frGzip, frLegacy, frExt, frZstd} {
		pick(kind)
		valid := validFooter(kind, tocOff)
		if kind == frZstd && b != nil {
			valid = append([]byte{}, b.Parts.Footer...)
		}
		blobLen := int64(len(body) + len(valid))
		var ms []footMut
		if kind == frZstd {
			ms = zstdFooterMutations(valid, blobLen)
		} else {
			ms = gzipFooterMutations(kind, valid, blobLen)
		}
		if j < len(ms) {
			in.Blob = append(body, ms[j].F...)
			in.Framing = kind
			in.Desc = fmt.Sprintf("footer mutation #%d %s placement=%d bodylen=%d", orig, ms[j].Name, place, len(body))
			return in
		}
		j -= len(ms)
		b, body, in.ExtTOC, in.Names = nil, body[:0:0], nil, nil
		if place == 1 {
			body = rng.Bytes(rng.Range(1, 300))
		}
	}
	in.Blob = []byte{}
	in.Desc = "empty"
	return in
}

// ---------------------------------------------------------------------------
// (b) structure-aware TOC generator

// directed TOCs: minimal adversarial documents (they also serve as the minimal
// reproducers of the crashes listed in NOTES.md).
var directedTOCs = []struct {
	Name string
	JSON string
}{
	{"entries-null-element", `{"version":1,"entries":[null]}`},
	{"toc-null", `null`},
	{"hardlink-self", `{"version":1,"entries":[{"name":"a","type":"hardlink","linkName":"a"}]}`},
	{"hardlink-parent-dir", `{"version":1,"entries":[{"name":"d/","type":"dir"},{"name":"d/l","type":"hardlink","linkName":"d"}]}`},
	{"size-2^62-chunk-1", `{"version":1,"entries":[{"name":"f","type":"reg","size":4611686018427387904,"chunkSize":1,"offset":1}]}`},
	{"hardlink-2-cycle", `{"version":1,"entries":[{"name":"a","type":"hardlink","linkName":"b"},{"name":"b","type":"hardlink","linkName":"a"}]}`},
	{"hardlink-root", `{"version":1,"entries":[{"name":"x","type":"hardlink","linkName":""}]}`},
	{"hardlink-dot", `{"version":1,"entries":[{"name":"d/","type":"dir"},{"name":"d/x","type":"hardlink","linkName":"."}]}`},
	{"hardlink-grandparent", `{"version":1,"entries":[{"name":"a/","type":"dir"},{"name":"a/b/","type":"dir"},{"name":"a/b/up","type":"hardlink","linkName":"a"}]}`},
	{"chunk-first", `{"version":1,"entries":[{"name":"f","type":"chunk","chunkOffset":1,"offset":5}]}`},
	{"reg-chunksize-2^62", `{"version":1,"entries":[{"name":"f","type":"reg","size":4611686018427387904,"chunkSize":4611686018427387904,"offset":1,"digest":"sha256:e3b0c44298fc1c149afbf4c8996fb92427ae41e4649b934ca495991b7852b855","chunkDigest":"sha256:e3b0c44298fc1c149afbf4c8996fb92427ae41e4649b934ca495991b7852b855"}]}`},
	{"reg-size-2^62-nochunk", `{"version":1,"entries":[{"name":"f","type":"reg","size":4611686018427387904,"offset":1}]}`},
	{"reg-size-2^40", `{"version":1,"entries":[{"name":"f","type":"reg","size":1099511627776,"offset":1}]}`},
	{"reg-negative-size", `{"version":1,"entries":[{"name":"f","type":"reg","size":-1,"offset":1}]}`},
	{"reg-negative-chunksize", `{"version":1,"entries":[{"name":"f","type":"reg","size":10,"chunkSize":-5,"offset":1},{"name":"f","type":"chunk","chunkOffset":5,"chunkSize":-5,"offset":2}]}`},
	{"zero-size-trailing-chunk", `{"version":1,"entries":[{"name":"f","type":"reg","size":10,"chunkSize":5,"offset":1},{"name":"f","type":"chunk","chunkOffset":10,"offset":2}]}`},
	{"reg-chunkoffset-beyond", `{"version":1,"entries":[{"name":"f","type":"reg","size":10,"chunkOffset":100,"chunkSize":5,"offset":1}]}`},
	{"chunk-negative-size", `{"version":1,"entries":[{"name":"f","type":"reg","size":10,"chunkSize":5,"offset":1},{"name":"f","type":"chunk","chunkOffset":5,"chunkSize":-5,"offset":2}]}`},
	{"reg-minint", `{"version":1,"entries":[{"name":"f","type":"reg","size":-9223372036854775808,"chunkSize":-9223372036854775808,"offset":-9223372036854775808,"innerOffset":-9223372036854775808}]}`},
	{"reg-maxint", `{"version":1,"entries":[{"name":"f","type":"reg","size":9223372036854775807,"chunkSize":9223372036854775807,"offset":9223372036854775807,"innerOffset":9223372036854775807}]}`},
	{"names-empty-dot", `{"version":1,"entries":[{"name":"","type":"reg","size":1,"offset":1},{"name":".","type":"dir"},{"name":"..","type":"dir"},{"name":"/","type":"dir"},{"name":"//","type":"reg"},{"name":"../..","type":"symlink","linkName":"x"}]}`},
	{"root-is-file", `{"version":1,"entries":[{"name":"","type":"reg","size":3,"offset":1},{"name":"a","type":"reg","size":1,"offset":2}]}`},
	{"file-with-children", `{"version":1,"entries":[{"name":"a","type":"reg","size":3,"offset":1},{"name":"a/b","type":"reg","size":1,"offset":2},{"name":"a/b/c","type":"dir"}]}`},
	{"unknown-types", `{"version":1,"entries":[{"name":"s","type":"socket"},{"name":"e","type":""},{"name":"R","type":"REG","size":3},{"name":"h","type":"hardlink"},{"name":"c","type":"char","devMajor":-1,"devMinor":4611686018427387904}]}`},
	{"entries-missing", `{"version":1}`},
	{"entries-null", `{"version":1,"entries":null}`},
	{"entries-object", `{"version":1,"entries":{}}`},
	{"empty-object", `{}`},
	{"array-top", `[]`},
	{"number-top", `0`},
	{"empty", ``},
	{"trailing-garbage", `{"version":1,"entries":[]}}}}garbage`},
	{"two-docs", `{"version":1,"entries":[{"name":"a","type":"dir"}]}{"version":1,"entries":[null]}`},
	{"version-string", `{"version":"1","entries":[]}`},
	{"entry-wrong-types", `{"version":1,"entries":[{"name":5,"type":[],"size":"big"}]}`},
	{"entry-number", `{"version":1,"entries":[1,2,3]}`},
	{"xattrs-odd", `{"version":1,"entries":[{"name":"x","type":"reg","xattrs":{"":"","a":null,"b":"!!!notbase64"}}]}`},
	{"xattrs-empty-key", `{"version":1,"entries":[{"name":"x","type":"reg","xattrs":{"":"QQ==","k":"QQ=="}}]}`},
	{"whiteouts", `{"version":1,"entries":[{"name":".wh..wh..opq","type":"reg"},{"name":".wh.x","type":"reg"},{"name":".wh..wh.y","type":"char"},{"name":"d/","type":"dir"},{"name":"d/.wh..wh..opq","type":"dir"},{"name":".wh.","type":"reg"}]}`},
	{"landmarks", `{"version":1,"entries":[{"name":".prefetch.landmark","type":"dir"},{"name":".no.prefetch.landmark","type":"hardlink","linkName":".prefetch.landmark"},{"name":"stargz.index.json","type":"dir"}]}`},
	{"prefetch-landmark-offset", `{"version":1,"entries":[{"name":".prefetch.landmark","type":"reg","size":1,"offset":4611686018427387904}]}`},
	{"prefetch-landmark-negative", `{"version":1,"entries":[{"name":".prefetch.landmark","type":"reg","size":1,"offset":-4611686018427387904}]}`},
	{"dup-offsets", `{"version":1,"entries":[{"name":"a","type":"reg","size":1,"offset":7},{"name":"b","type":"reg","size":1,"offset":7}]}`},
	{"modtime-garbage", `{"version":1,"entries":[{"name":"a","type":"reg","modtime":"not a time"},{"name":"b","type":"dir","modtime":"9999999-99-99T99:99:99Z"}]}`},
	{"numlink-json", `{"version":1,"entries":[{"name":"a","type":"dir","NumLink":-5,"numLink":-7}]}`},
	{"state-dir-name", `{"version":1,"entries":[{"name":".stargz-snapshotter","type":"reg","size":1,"offset":1},{"name":".stargz-snapshotter/x","type":"reg"}]}`},
}

func bigInts() []int64 {
	return []int64{-1, -2, math.MinInt64, -(1 << 62), 0, 1, 2, 1<<31 - 1, 1 << 31, 1 << 32, 1 << 62, 1<<62 + 1, math.MaxInt64, math.MaxInt64 - 1}
}

// medium values make allocations that fail under RLIMIT_AS (inconclusive noise): rare.
func pickNum(rng *prng.R) int64 {
	if rng.Chance(1, 25) {
		return int64(1) << uint(rng.Range(33, 46))
	}
	bs := bigInts()
	return bs[rng.Intn(len(bs))]
}

type tocOp struct {
	Name string
	F    func(rng *prng.R, d *tocDoc) bool // false = not applicable
}

func entMaps(d *tocDoc) []map[string]any {
	var ms []map[string]any
	for _, e := range d.Entries {
		if m, ok := e.(map[string]any); ok {
			ms = append(ms, m)
		}
	}
	return ms
}

func pickOfType(rng *prng.R, d *tocDoc, types ...string) map[string]any {
	var c []map[string]any
	for _, m := range entMaps(d) {
		for _, t := range types {
			if entStr(m, "type") == t {
				c = append(c, m)
			}
		}
	}
	if len(c) == 0 {
		return nil
	}
	return c[rng.Intn(len(c))]
}

func insertAt(d *tocDoc, i int, e any) {
	if i > len(d.Entries) {
		i = len(d.Entries)
	}
	d.Entries = append(d.Entries, nil)
	copy(d.Entries[i+1:], d.Entries[i:])
	d.Entries[i] = e
}

func parentOf(name string) string {
	name = strings.TrimSuffix(name, "/")
	i := strings.LastIndex(name, "/")
	if i < 0 {
		return ""
	}
	return name[:i]
}

// multiChunk returns the index of a reg entry that is followed by chunk entries.
func multiChunk(rng *prng.R, d *tocDoc) (reg int, last int) {
	var cand [][2]int
	for i, e := range d.Entries {
		m, ok := e.(map[string]any)
		if !ok || entStr(m, "type") != "reg" {
			continue
		}
		j := i
		for j+1 < len(d.Entries) {
			n, ok := d.Entries[j+1].(map[string]any)
			if !ok || entStr(n, "type") != "chunk" {
				break
			}
			j++
		}
		if j > i {
			cand = append(cand, [2]int{i, j})
		}
	}
	if len(cand) == 0 {
		return -1, -1
	}
	c := cand[rng.Intn(len(cand))]
	return c[0], c[1]
}

var evilNames = []string{"", ".", "..", "/", "//", "./", "../", "../..", "a//b", "a/./b/../c", "a/", "/abs", "\u0000", "a\u0000b", "a\nb",
	".wh.x", ".wh..wh..opq", ".wh.", ".prefetch.landmark", ".no.prefetch.landmark", "stargz.index.json", ".stargz-snapshotter",
	"childName", "childrenExtra", "nodes", "metadata", "�", "é", " ", "a b", "con", strings.Repeat("n", 255), strings.Repeat("N", 300)}

var tocOps = []tocOp{
	{"null-entry", func(rng *prng.R, d *tocDoc) bool {
		insertAt(d, rng.Intn(len(d.Entries)+1), nil)
		return true
	}},
	{"hardlink-self", func(rng *prng.R, d *tocDoc) bool {
		n := fmt.Sprintf("hl%d", rng.Intn(100))
		if m := pickOfType(rng, d, "dir"); m != nil && rng.Bool() {
			n = strings.TrimSuffix(entStr(m, "name"), "/") + "/" + n
		}
		insertAt(d, rng.Intn(len(d.Entries)+1), map[string]any{"name": n, "type": "hardlink", "linkName": n})
		return true
	}},
	{"hardlink-to-ancestor", func(rng *prng.R, d *tocDoc) bool {
		m := pickOfType(rng, d, "dir", "reg", "symlink")
		if m == nil {
			return false
		}
		name := strings.TrimSuffix(entStr(m, "name"), "/")
		anc := parentOf(name)
		for anc != "" && rng.Bool() {
			anc = parentOf(anc)
		}
		if entStr(m, "type") == "dir" && rng.Bool() {
			anc = name // link inside the directory to the directory itself
		}
		ln := anc
		if rng.Chance(1, 3) {
			ln = "./" + anc + "/."
		}
		base := name
		if entStr(m, "type") != "dir" {
			base = parentOf(name)
		}
		nn := "up" + fmt.Sprint(rng.Intn(10))
		if base != "" {
			nn = base + "/" + nn
		}
		d.Entries = append(d.Entries, map[string]any{"name": nn, "type": "hardlink", "linkName": ln})
		return true
	}},
	{"hardlink-cycle", func(rng *prng.R, d *tocDoc) bool {
		n := rng.Range(2, 5)
		pos := rng.Intn(len(d.Entries) + 1)
		for i := 0; i < n; i++ {
			insertAt(d, pos, map[string]any{"name": fmt.Sprintf("cy%d", i), "type": "hardlink", "linkName": fmt.Sprintf("cy%d", (i+1)%n)})
		}
		return true
	}},
	{"hardlink-retarget", func(rng *prng.R, d *tocDoc) bool {
		m := pickOfType(rng, d, "hardlink")
		if m == nil {
			return false
		}
		ms := entMaps(d)
		t := ms[rng.Intn(len(ms))]
		m["linkName"] = entStr(t, "name")
		if rng.Chance(1, 4) {
			m["linkName"] = evilNames[rng.Intn(len(evilNames))]
		}
		return true
	}},
	{"hardlink-chain", func(rng *prng.R, d *tocDoc) bool {
		m := pickOfType(rng, d, "reg", "dir", "symlink", "hardlink")
		if m == nil {
			return false
		}
		prev := entStr(m, "name")
		n := rng.Pick(2, 10, 300, 2000)
		for i := 0; i < n; i++ {
			nn := fmt.Sprintf("ch%d", i)
			e := map[string]any{"name": nn, "type": "hardlink", "linkName": prev}
			if rng.Bool() {
				d.Entries = append(d.Entries, e)
			} else {
				insertAt(d, 0, e) // link before its target
			}
			prev = nn
		}
		return true
	}},
	{"dir-dag", func(rng *prng.R, d *tocDoc) bool {
		// k levels of directories, each with two hardlinks to the next level: 2^k paths
		k := rng.Pick(3, 8, 24, 40)
		pre := fmt.Sprintf("dag%d", rng.Intn(10))
		var es []any
		for i := 0; i <= k; i++ {
			es = append(es, map[string]any{"name": fmt.Sprintf("%s_%d/", pre, i), "type": "dir"})
		}
		for i := 0; i < k; i++ {
			for _, s := range []string{"l", "r"} {
				es = append(es, map[string]any{"name": fmt.Sprintf("%s_%d/%s", pre, i, s), "type": "hardlink", "linkName": fmt.Sprintf("%s_%d", pre, i+1)})
			}
		}
		d.Entries = append(d.Entries, es...)
		return true
	}},
	{"num-field", func(rng *prng.R, d *tocDoc) bool {
		m := pickOfType(rng, d, "reg", "chunk", "reg", "chunk", "dir", "char")
		if m == nil {
			return false
		}
		f := rng.PickS("size", "offset", "chunkOffset", "chunkSize", "innerOffset", "size", "chunkSize", "mode", "uid", "gid", "devMajor", "devMinor")
		m[f] = num(pickNum(rng))
		return true
	}},
	{"num-all-of-one", func(rng *prng.R, d *tocDoc) bool {
		f := rng.PickS("size", "offset", "chunkOffset", "chunkSize", "innerOffset")
		v := pickNum(rng)
		for _, m := range entMaps(d) {
			if t := entStr(m, "type"); t == "reg" || t == "chunk" {
				m[f] = num(v)
			}
		}
		return true
	}},
	{"num-nudge", func(rng *prng.R, d *tocDoc) bool {
		m := pickOfType(rng, d, "reg", "chunk")
		if m == nil {
			return false
		}
		f := rng.PickS("size", "offset", "chunkOffset", "chunkSize", "innerOffset")
		m[f] = num(entInt(m, f) + int64(rng.Pick(-1, 1, -7, 7, 64, -64, 1000)))
		return true
	}},
	{"zero-chunk-at-end", func(rng *prng.R, d *tocDoc) bool {
		i, j := multiChunk(rng, d)
		if i < 0 {
			return false
		}
		reg := d.Entries[i].(map[string]any)
		last := d.Entries[j].(map[string]any)
		e := map[string]any{"name": entStr(reg, "name"), "type": "chunk", "chunkOffset": num(entInt(reg, "size")), "offset": num(entInt(last, "offset") + 1)}
		if rng.Bool() {
			e["chunkDigest"] = last["chunkDigest"]
		}
		insertAt(d, j+1, e)
		return true
	}},
	{"chunk-dup", func(rng *prng.R, d *tocDoc) bool {
		i, j := multiChunk(rng, d)
		if i < 0 {
			return false
		}
		k := rng.Range(i+1, j)
		c := d.Entries[k].(map[string]any)
		cp := map[string]any{}
		for a, b := range c {
			cp[a] = b
		}
		if rng.Bool() {
			cp["offset"] = num(entInt(c, "offset") + 1) // keep offsets unique for VerifyTOC
		}
		insertAt(d, rng.Range(i+1, j+1), cp)
		return true
	}},
	{"chunk-shuffle", func(rng *prng.R, d *tocDoc) bool {
		i, j := multiChunk(rng, d)
		if i < 0 || j-i < 2 {
			return false
		}
		seg := d.Entries[i+1 : j+1]
		p := rng.Perm(len(seg))
		cp := append([]any{}, seg...)
		for a, b := range p {
			seg[a] = cp[b]
		}
		return true
	}},
	{"chunk-overlap", func(rng *prng.R, d *tocDoc) bool {
		i, j := multiChunk(rng, d)
		if i < 0 {
			return false
		}
		k := rng.Range(i+1, j)
		c := d.Entries[k].(map[string]any)
		c["chunkOffset"] = num(entInt(c, "chunkOffset") - int64(rng.Pick(1, 10, 64, 100000)))
		if rng.Bool() {
			c["chunkSize"] = num(int64(rng.Pick(0, 1, 1000, -1)))
		}
		return true
	}},
	{"chunk-orphan", func(rng *prng.R, d *tocDoc) bool {
		e := map[string]any{"name": "orphan", "type": "chunk", "chunkOffset": num(int64(rng.Pick(0, 1, 64))), "offset": num(int64(rng.Intn(1000)))}
		if rng.Bool() {
			e["chunkSize"] = num(int64(rng.Pick(0, 1, 64, -1)))
		}
		pos := 0
		if rng.Bool() {
			pos = rng.Intn(len(d.Entries) + 1)
		}
		insertAt(d, pos, e)
		return true
	}},
	{"many-chunks", func(rng *prng.R, d *tocDoc) bool {
		m := pickOfType(rng, d, "reg")
		if m == nil {
			return false
		}
		n := rng.Pick(20, 60, 150)
		m["size"] = num(int64(n))
		m["chunkSize"] = num(1)
		off := entInt(m, "offset")
		var cs []any
		for i := 1; i < n; i++ {
			cs = append(cs, map[string]any{"name": entStr(m, "name"), "type": "chunk", "chunkOffset": num(int64(i)), "chunkSize": num(1), "offset": num(off), "innerOffset": num(int64(i))})
		}
		// place right after m
		for i, e := range d.Entries {
			if mm, ok := e.(map[string]any); ok && entStr(mm, "name") == entStr(m, "name") && entStr(mm, "type") == "reg" {
				rest := append([]any{}, d.Entries[i+1:]...)
				d.Entries = append(append(d.Entries[:i+1], cs...), rest...)
				break
			}
		}
		return true
	}},
	{"name-evil", func(rng *prng.R, d *tocDoc) bool {
		ms := entMaps(d)
		if len(ms) == 0 {
			return false
		}
		m := ms[rng.Intn(len(ms))]
		n := evilNames[rng.Intn(len(evilNames))]
		if rng.Chance(1, 3) {
			n = parentOf(entStr(m, "name")) + "/" + n
		}
		m["name"] = n
		return true
	}},
	{"name-deep", func(rng *prng.R, d *tocDoc) bool {
		depth := rng.Pick(50, 300, 1500)
		n := strings.Repeat("d/", depth) + "leaf"
		t := rng.PickS("reg", "dir", "symlink", "hardlink")
		e := map[string]any{"name": n, "type": t}
		if t == "hardlink" {
			e["linkName"] = strings.Repeat("d/", depth/2)
		}
		d.Entries = append(d.Entries, e)
		return true
	}},
	{"name-dup", func(rng *prng.R, d *tocDoc) bool {
		ms := entMaps(d)
		if len(ms) == 0 {
			return false
		}
		m := ms[rng.Intn(len(ms))]
		e := map[string]any{"name": entStr(m, "name"), "type": rng.PickS("reg", "dir", "symlink", "char", "fifo", "hardlink")}
		if e["type"] == "hardlink" {
			e["linkName"] = entStr(ms[rng.Intn(len(ms))], "name")
		}
		if e["type"] == "reg" {
			e["size"] = num(int64(rng.Pick(0, 1, 100)))
			e["offset"] = num(int64(rng.Intn(5000)))
		}
		d.Entries = append(d.Entries, e)
		return true
	}},
	{"child-of-file", func(rng *prng.R, d *tocDoc) bool {
		m := pickOfType(rng, d, "reg", "symlink", "char", "hardlink")
		if m == nil {
			return false
		}
		d.Entries = append(d.Entries, map[string]any{"name": entStr(m, "name") + "/kid", "type": rng.PickS("reg", "dir", "hardlink"), "linkName": entStr(m, "name")})
		return true
	}},
	{"type-change", func(rng *prng.R, d *tocDoc) bool {
		ms := entMaps(d)
		if len(ms) == 0 {
			return false
		}
		m := ms[rng.Intn(len(ms))]
		m["type"] = rng.PickS("reg", "dir", "chunk", "hardlink", "symlink", "char", "block", "fifo", "socket", "", "REG", "whiteout")
		return true
	}},
	{"digest-evil", func(rng *prng.R, d *tocDoc) bool {
		m := pickOfType(rng, d, "reg", "chunk")
		if m == nil {
			return false
		}
		f := rng.PickS("digest", "chunkDigest")
		switch rng.Intn(6) {
		case 0:
			delete(m, f)
		case 1:
			m[f] = "sha256:xyz"
		case 2:
			m[f] = "md5:d41d8cd98f00b204e9800998ecf8427e"
		case 3:
			m[f] = "sha256:" + strings.Repeat("0", 64)
		case 4:
			m[f] = "sha512:" + strings.Repeat("a", 128)
		default:
			m[f] = strings.Repeat("x", 5000)
		}
		return true
	}},
	{"digest-drop-all", func(rng *prng.R, d *tocDoc) bool {
		for _, m := range entMaps(d) {
			delete(m, "chunkDigest")
			if rng.Bool() {
				delete(m, "digest")
			}
		}
		return true
	}},
	{"xattrs-evil", func(rng *prng.R, d *tocDoc) bool {
		ms := entMaps(d)
		if len(ms) == 0 {
			return false
		}
		m := ms[rng.Intn(len(ms))]
		x := map[string]any{}
		switch rng.Intn(5) {
		case 0:
			x[""] = "QQ=="
			x["k"] = "QQ=="
		case 1:
			for i := 0; i < 600; i++ {
				x[fmt.Sprintf("user.k%d", i)] = "QUJD"
			}
		case 2:
			x["user.big"] = strings.Repeat("QUJD", 20000)
		case 3:
			x[strings.Repeat("K", 40000)] = "QQ=="
			x["a"] = ""
		default:
			x["trusted.overlay.opaque"] = "eQ=="
			x["user.overlay.opaque"] = nil
			x["a\u0000b"] = "QQ=="
		}
		m["xattrs"] = x
		return true
	}},
	{"field-wrong-type", func(rng *prng.R, d *tocDoc) bool {
		ms := entMaps(d)
		if len(ms) == 0 {
			return false
		}
		m := ms[rng.Intn(len(ms))]
		f := rng.PickS("name", "type", "size", "offset", "xattrs", "linkName", "mode", "modtime", "chunkDigest")
		m[f] = []any{"x", 1.5, map[string]any{}, nil, true, "str", json.Number("1e400"), json.Number("1.5"), json.Number("99999999999999999999")}[rng.Intn(9)]
		return true
	}},
	{"entry-nonobject", func(rng *prng.R, d *tocDoc) bool {
		insertAt(d, rng.Intn(len(d.Entries)+1), []any{json.Number("5"), "str", []any{}, true, map[string]any{}}[rng.Intn(5)])
		return true
	}},
	{"landmark", func(rng *prng.R, d *tocDoc) bool {
		n := rng.PickS(".prefetch.landmark", ".no.prefetch.landmark")
		// drop existing landmarks sometimes
		if rng.Bool() {
			var keep []any
			for _, e := range d.Entries {
				if m, ok := e.(map[string]any); ok && strings.Contains(entStr(m, "name"), "prefetch.landmark") {
					continue
				}
				keep = append(keep, e)
			}
			d.Entries = keep
		}
		e := map[string]any{"name": n, "type": rng.PickS("reg", "reg", "dir", "hardlink", "symlink"), "size": num(1), "offset": num(pickNum(rng)), "linkName": n}
		insertAt(d, rng.Intn(len(d.Entries)+1), e)
		return true
	}},
	{"huge-dir", func(rng *prng.R, d *tocDoc) bool {
		n := rng.Pick(300, 2500)
		t := rng.PickS("reg", "dir", "symlink", "hardlink")
		for i := 0; i < n; i++ {
			d.Entries = append(d.Entries, map[string]any{"name": fmt.Sprintf("huge/e%d", i), "type": t, "linkName": "huge/e0"})
		}
		return true
	}},
	{"mode-evil", func(rng *prng.R, d *tocDoc) bool {
		ms := entMaps(d)
		if len(ms) == 0 {
			return false
		}
		m := ms[rng.Intn(len(ms))]
		m["mode"] = num([]int64{-1, 0, 0o7777, 0o177777, 1 << 31, 1 << 40, math.MaxInt64, math.MinInt64}[rng.Intn(8)])
		if rng.Bool() {
			m["uid"] = num(pickNum(rng))
			m["gid"] = num(pickNum(rng))
		}
		return true
	}},
	{"entries-truncate", func(rng *prng.R, d *tocDoc) bool {
		if len(d.Entries) < 2 {
			return false
		}
		d.Entries = d.Entries[:rng.Intn(len(d.Entries))]
		return true
	}},
	{"entries-reverse", func(rng *prng.R, d *tocDoc) bool {
		for i, j := 0, len(d.Entries)-1; i < j; i, j = i+1, j-1 {
			d.Entries[i], d.Entries[j] = d.Entries[j], d.Entries[i]
		}
		return true
	}},
	{"entries-shuffle", func(rng *prng.R, d *tocDoc) bool {
		p := rng.Perm(len(d.Entries))
		cp := append([]any{}, d.Entries...)
		for a, b := range p {
			d.Entries[a] = cp[b]
		}
		return true
	}},
	{"version-evil", func(rng *prng.R, d *tocDoc) bool {
		d.Version = []any{json.Number("-1"), json.Number("0"), json.Number("9223372036854775807"), json.Number("99999999999999999999"), "1", nil, json.Number("1.5")}[rng.Intn(7)]
		return true
	}},
	{"linkname-long", func(rng *prng.R, d *tocDoc) bool {
		m := pickOfType(rng, d, "symlink", "hardlink")
		if m == nil {
			return false
		}
		m["linkName"] = strings.Repeat(rng.PickS("x", "../", "/", "a/"), rng.Pick(100, 2000, 8000))
		return true
	}},
	{"innerOffset-streams", func(rng *prng.R, d *tocDoc) bool {
		// make several files share one offset with various innerOffsets
		var regs []map[string]any
		for _, m := range entMaps(d) {
			if entStr(m, "type") == "reg" && entInt(m, "size") > 0 {
				regs = append(regs, m)
			}
		}
		if len(regs) < 2 {
			return false
		}
		off := entInt(regs[0], "offset")
		for i, m := range regs {
			if rng.Bool() {
				m["offset"] = num(off)
				m["innerOffset"] = num(int64(i) * int64(rng.Pick(0, 1, 10, 512, -1)))
			}
		}
		return true
	}},
}

var tocOpIndex = func() map[string]int {
	m := map[string]int{}
	for i, o := range tocOps {
		m[o.Name] = i
	}
	return m
}()

// directedOnBase: adversarial edits that need a genuine payload to bite.
var directedOnBase = []string{"zero-chunk-at-end", "chunk-dup", "chunk-overlap", "chunk-shuffle", "hardlink-to-ancestor", "dir-dag", "many-chunks", "innerOffset-streams", "landmark", "huge-dir", "hardlink-chain"}

func genB(r *vf.Run, pool *basePool, idx, k int) *input {
	rng := r.RNG('b', uint64(k))
	in := &input{Idx: idx, Gen: "b"}
	framings := []string{frGzip, frZstd, frExt, frLegacy}
	nd := len(directedTOCs)
	if k < nd*2 {
		// every directed document in two framings (k and k+nd pick different ones)
		dt := directedTOCs[k%nd]
		in.Framing = framings[(k%nd+k/nd*2)%4]
		if k/nd == 1 && in.Framing == frLegacy {
			in.Framing = frZstd
		}
		in.Blob, in.ExtTOC = wrap(in.Framing, nil, []byte(dt.JSON))
		in.Desc = fmt.Sprintf("directed toc %q framing=%s: %s", dt.Name, in.Framing, oneLine(dt.JSON, 300))
		in.Names = []string{"a", "f", "d", "d/l", "x", "b", ""}
		return in
	}
	k2 := k - nd*2
	var ops []string
	var b *base
	if k2 < len(directedOnBase)*3 {
		b = pool.get(k2 / len(directedOnBase)) // bases 0,1,2 = gzip, zstd, ext
		ops = []string{directedOnBase[k2%len(directedOnBase)]}
	} else {
		b = pool.get(rng.Intn(poolSize))
		for i, n := 0, rng.Range(1, 4); i < n; i++ {
			ops = append(ops, tocOps[rng.Intn(len(tocOps))].Name)
		}
	}
	d := cloneDoc(b.Doc)
	var applied []string
	for _, on := range ops {
		if tocOps[tocOpIndex[on]].F(rng, d) {
			applied = append(applied, on)
		}
	}
	if len(applied) == 0 {
		insertAt(d, 0, nil)
		applied = append(applied, "null-entry")
	}
	in.Framing = b.Framing
	if b.Framing == frGzip && rng.Chance(1, 5) {
		in.Framing = frLegacy
	}
	if rng.Chance(1, 12) {
		in.Framing = framings[rng.Intn(4)] // payload compressed for another framing
	}
	tj := d.JSON()
	in.Blob, in.ExtTOC = wrap(in.Framing, b.Parts.Payload, tj)
	// TOC member oddities
	if rng.Chance(1, 15) && (in.Framing == frGzip || in.Framing == frLegacy) {
		var m []byte
		what := rng.Intn(5)
		switch what {
		case 0:
			m = gzipTOCMember(tj, "other.json", -1)
		case 1:
			m = gzipTOCMember(tj, tocTarName, int64(len(tj))+int64(rng.Pick(1, 1000, 1<<40)))
		case 2:
			m = gzipTOCMember(tj, tocTarName, int64(rng.Intn(len(tj)+1)))
		case 3:
			m = gzipTOCMember(tj, tocTarName, -1)
			m = m[:rng.Intn(len(m)+1)]
		default:
			m = append(gzipTOCMember([]byte{}, "x", -1), gzipTOCMember(tj, tocTarName, -1)...)
		}
		foot := estargzFooter(int64(len(b.Parts.Payload)))
		if in.Framing == frLegacy {
			foot = legacyFooter(int64(len(b.Parts.Payload)))
		}
		in.Blob = append(append(append([]byte{}, b.Parts.Payload...), m...), foot...)
		applied = append(applied, fmt.Sprintf("toc-member-odd%d", what))
	}
	for _, m := range entMaps(d) {
		if len(in.Names) < 400 {
			in.Names = append(in.Names, entStr(m, "name"))
		}
	}
	in.Desc = fmt.Sprintf("base%d(%s) framing=%s ops=%v entries=%d toclen=%d", b.K, b.Framing, in.Framing, applied, len(d.Entries), len(tj))
	return in
}

// ---------------------------------------------------------------------------
// (c) mutations of genuine blobs

func genC(r *vf.Run, pool *basePool, idx, k int) *input {
	rng := r.RNG('c', uint64(k))
	b := pool.get(rng.Intn(poolSize))
	in := &input{Idx: idx, Gen: "c", Framing: b.Framing, ExtTOC: b.Parts.ExtTOC, Names: b.names()}
	blobB := append([]byte{}, b.Built.Blob...)
	pl, tl, fl := len(b.Parts.Payload), len(b.Parts.TOC), len(b.Parts.Footer)
	region := rng.PickS("footer", "toc", "payload", "any", "toc", "payload", "toctext", "toctext", "exttoc")
	lo, hi := 0, len(blobB)
	switch region {
	case "footer":
		lo, hi = pl+tl, pl+tl+fl
	case "toc":
		lo, hi = pl, pl+tl
		if tl == 0 {
			region = "exttoc"
		}
	case "payload":
		lo, hi = 0, pl
	}
	if hi <= lo {
		lo, hi = 0, len(blobB)
	}
	if region == "toctext" {
		// mutate the TOC JSON text and re-wrap: gets past the decompressor
		tj := append([]byte{}, b.Parts.TOCJSON...)
		n := rng.Range(1, 6)
		var what []string
		for i := 0; i < n && len(tj) > 0; i++ {
			p := rng.Intn(len(tj))
			switch rng.Intn(5) {
			case 0:
				tj[p] ^= byte(1 << uint(rng.Intn(8)))
				what = append(what, "bit")
			case 1:
				const toks = "0123456789-\"{}[],:nulltrue"
				tj[p] = toks[rng.Intn(len(toks))]
				what = append(what, "tok")
			case 2:
				q := p + rng.Intn(40)
				if q > len(tj) {
					q = len(tj)
				}
				tj = append(tj[:p], tj[q:]...)
				what = append(what, "del")
			case 3:
				q := rng.Intn(len(tj))
				e := q + rng.Intn(200)
				if e > len(tj) {
					e = len(tj)
				}
				seg := append([]byte{}, tj[q:e]...)
				tj = append(tj[:p], append(seg, tj[p:]...)...)
				what = append(what, "dupseg")
			default:
				// replace a number by a boundary value
				q := p
				for q < len(tj) && (tj[q] < '0' || tj[q] > '9') {
					q++
				}
				e := q
				for e < len(tj) && tj[e] >= '0' && tj[e] <= '9' {
					e++
				}
				if e > q {
					tj = append(tj[:q], append([]byte(fmt.Sprint(pickNum(rng))), tj[e:]...)...)
					what = append(what, "num")
				}
			}
		}
		in.Blob, in.ExtTOC = wrap(b.Framing, b.Parts.Payload, tj)
		in.Desc = fmt.Sprintf("base%d(%s) toc-text %v", b.K, b.Framing, what)
		return in
	}
	if region == "exttoc" && len(b.Parts.ExtTOC) > 0 {
		x := append([]byte{}, b.Parts.ExtTOC...)
		switch rng.Intn(4) {
		case 0:
			x[rng.Intn(len(x))] ^= byte(1 << uint(rng.Intn(8)))
		case 1:
			x = x[:rng.Intn(len(x))]
		case 2:
			x = rng.Bytes(rng.Intn(100))
		default:
			x = nil
		}
		in.Blob, in.ExtTOC = blobB, x
		in.Desc = fmt.Sprintf("base%d(%s) external toc mutated len=%d", b.K, b.Framing, len(x))
		return in
	}
	op := rng.Intn(9)
	var what string
	switch op {
	case 0, 1:
		n := rng.Range(1, 8)
		for i := 0; i < n; i++ {
			blobB[lo+rng.Intn(hi-lo)] ^= byte(1 << uint(rng.Intn(8)))
		}
		what = fmt.Sprintf("flip%d", n)
	case 2:
		p := lo + rng.Intn(hi-lo)
		q := p + rng.Intn(64)
		if q > hi {
			q = hi
		}
		v := byte(rng.Pick(0, 0xff, 0x41))
		for i := p; i < q; i++ {
			blobB[i] = v
		}
		what = "fill"
	case 3:
		blobB = blobB[:lo+rng.Intn(hi-lo)]
		what = "truncate-tail"
	case 4:
		blobB = blobB[lo+rng.Intn(hi-lo):]
		what = "truncate-head"
	case 5:
		p := lo + rng.Intn(hi-lo)
		ins := rng.Bytes(rng.Range(1, 100))
		blobB = append(blobB[:p], append(ins, blobB[p:]...)...)
		what = "insert"
	case 6:
		p := lo + rng.Intn(hi-lo)
		q := p + rng.Intn(100)
		if q > hi {
			q = hi
		}
		blobB = append(blobB[:p], blobB[q:]...)
		what = "delete"
	case 7:
		o := pool.get(rng.Intn(poolSize))
		ob := o.Built.Blob
		p := lo + rng.Intn(hi-lo)
		q := rng.Intn(len(ob))
		n := rng.Range(1, 300)
		for i := 0; i < n && p+i < len(blobB) && q+i < len(ob); i++ {
			blobB[p+i] = ob[q+i]
		}
		what = fmt.Sprintf("splice-from-base%d", o.K)
	default:
		blobB = append(blobB, rng.Bytes(rng.Range(1, 120))...)
		if rng.Bool() {
			blobB = append(blobB, b.Parts.Footer...)
		}
		what = "append"
	}
	in.Blob = blobB
	in.Desc = fmt.Sprintf("base%d(%s) %s in %s [%d,%d)", b.K, b.Framing, what, region, lo, hi)
	return in
}

// makeInput is the pure function (seed, tier, index) -> input.
func makeInput(r *vf.Run, pool *basePool, i int) *input {
	g, k := ordinal(i)
	switch g {
	case 'a':
		return genA(r, pool, i, k)
	case 'b':
		return genB(r, pool, i, k)
	case 'c':
		return genC(r, pool, i, k)
	case 'd':
		return genD(r, pool, i, k)
	default:
		return genE(r, pool, i, k)
	}
}

func sortedKeys(m map[string]int) []string {
	var ks []string
	for k := range m {
		ks = append(ks, k)
	}
	sort.Strings(ks)
	return ks
}
