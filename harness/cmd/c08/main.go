// C08 — snapshotter keeps snapshot metadata, directories and backend (FUSE) mounts in step.
//
// Real code under test: snapshot.NewSnapshotter(root, recfs, opts...) of /repo, driven
// through the snapshots.Snapshotter API with model-based random operation sequences
// (Prepare with/without target label, View, Commit, Mounts, Remove, Cleanup, Walk, Stat,
// Update, Close+reopen) over a recording, fault-scripted backend (internal/recfs):
// every backend Mount / Check / Unmount call has a scripted outcome, a "broken" flag per
// mountpoint is toggled between operations.
//
// Sequential phase (this plain process): after every operation the reference model
// (internal/recfs/snapdrv) is compared with Walk / Stat / the id map / the snapshots
// directory / the backend's mount table; oracle clauses (a)-(f) of DESIGN.md C08.
// Concurrent phase (child process, -race build): 2-8 callers on overlapping names,
// per-call judgements that are decidable locally plus the state invariants at
// quiescence; race reports attributed to package snapshot count against the property.
package main

import (
	"fmt"
	"os"
	"path/filepath"
	"sort"
	"strings"
	"sync"
	"sync/atomic"
	"time"

	"github.com/containerd/log"
	"github.com/containerd/stargz-snapshotter/util/verifhook"
	"github.com/sirupsen/logrus"

	"verifharness/internal/recfs"
	"verifharness/internal/recfs/snapdrv"
	"verifharness/internal/vf"
)

const rule = "sequential: each case is one operation sequence (10-200 ops over <=10 names, sync/async removal, optional bind-mount backend) drawn from the seed; " +
	"non-trivial = the sequence created >=1 remote snapshot through Prepare+target AND showed >=2 of {fallback to a writable snapshot after a failed backend mount, target already existed, " +
	"a call refused as unavailable because a remote ancestor's check failed, mounts handed out over a chain containing a remote layer, removal of a snapshot carrying a live backend mount, close+reopen}; distinct by the operation script. " +
	"concurrent: each case is one schedule of 2-8 callers x ~14 ops; non-trivial = >=1 remote snapshot created, >=1 Prepare whose target already existed and >=1 backend unmount of a live mount happened while callers overlapped"

func main() {
	logrus.SetLevel(logrus.PanicLevel)
	log.L.Logger.SetLevel(logrus.PanicLevel)
	vf.Main("C08", "exploration", rule, 40, 600, body)
}

func body(r *vf.Run) {
	if r.Child == "conc" {
		concPhase(r)
		return
	}
	// hook-point hit counts (plain process only)
	var hmu sync.Mutex
	hits := map[string]int{}
	verifhook.SetHandler(func(name string, _ ...interface{}) {
		hmu.Lock()
		hits[name]++
		hmu.Unlock()
	})
	seqPhase(r)
	verifhook.SetHandler(nil)
	for k, v := range hits {
		r.Count("hook:"+k, v)
	}
	if r.Violations() <= 20 {
		ex := r.RunChild(vf.ChildSpec{Stage: "conc", Race: true, Timeout: 40 * time.Minute, Attribution: []string{"snapshot."}})
		switch {
		case ex.TimedOut:
			r.Inconclusive("concurrent phase: child watchdog fired")
		case !ex.Partial:
			r.Inconclusive("concurrent phase: child delivered no result (exit " + fmt.Sprint(ex.ExitCode) + " " + ex.Signal + ")")
			r.Set("concurrent_child_tail", ex.Tail)
		}
		r.Count("race_child_runs", 1)
	}
	r.Assume("internal/recfs (recording backend) and the reference model in internal/recfs/snapdrv are correct")
	r.Assume("a bbolt read transaction observes exactly the last committed state (used to decide whether a snapshot was already removed when the backend Unmount is called)")
	r.Assume("restore behaviour (mount failures at reopen, NoRestore) is judged by C09, not here; reopen in this check always restores")
}

func seqPhase(r *vf.Run) {
	work, ram, done := recfs.RamDir(r.Scratch)
	defer done()
	r.Set("sequential_scratch_on_tmpfs", ram)
	n := r.N(150, 2000)
	workers := 4
	var next atomic.Int64
	var wg sync.WaitGroup
	for w := 0; w < workers; w++ {
		wg.Add(1)
		go func() {
			defer wg.Done()
			for {
				i := int(next.Add(1)) - 1
				if i >= n || r.Violations() > 20 {
					return
				}
				runSequence(r, work, i)
			}
		}()
	}
	wg.Wait()
}

func runSequence(r *vf.Run, work string, idx int) {
	rng := r.RNG(1, uint64(idx))
	root := filepath.Join(work, fmt.Sprintf("seq-%d", idx))
	defer os.RemoveAll(root)
	length := rng.Range(10, 200)
	if rng.Chance(1, 2) {
		length = rng.Range(10, 60)
	}
	cfg := snapdrv.Config{Root: filepath.Join(root, "root"), Async: rng.Bool(), Count: r.Count, Distinct: r.Distinct}
	bindEvery := 12
	if r.Thorough() {
		bindEvery = 10
	}
	if idx%bindEvery == 5 {
		cfg.BindSrc = filepath.Join(root, "bindsrc")
		r.Count("sequences_bind_backend", 1)
	}
	var ops []snapdrv.Op
	nviol := 0
	cfg.Violate = func(key, what string) {
		nviol++
		r.Violate(key, what, map[string]any{"phase": "sequential", "case": idx, "async_at_start": cfg.Async, "bind_backend": cfg.BindSrc != "", "ops_so_far": snapdrv.Script(ops)})
	}
	d, err := snapdrv.New(cfg)
	if err != nil {
		r.Inconclusive("sequential: cannot open snapshotter: " + err.Error())
		return
	}
	r.Eval(1)
	if cfg.Async {
		r.Count("sequences_async_remove", 1)
	} else {
		r.Count("sequences_sync_remove", 1)
	}
	g := &snapdrv.Gen{Rng: rng, P: snapdrv.Profile{Names: rng.Range(4, 10), Reopen: true, Collisions: true, EmptyTarget: true, RestoreFails: true, InjectAtMount: true, PlantFaults: true}}
	for i := 0; i < length && d.Aborted == "" && nviol < 5; i++ {
		var mounted []string
		for mp := range d.FS.Live() {
			mounted = append(mounted, mp)
		}
		sort.Strings(mounted)
		op := g.Next(d.M, mounted)
		ops = append(ops, op)
		d.Step(i, op)
	}
	if d.Aborted == "" {
		// final cleanup so that clause (e) is evaluated at least once per sequence
		fin := snapdrv.Op{Kind: "cleanup"}
		ops = append(ops, fin)
		d.Step(len(ops)-1, fin)
	} else {
		r.Count("sequences_aborted", 1)
		if strings.HasPrefix(d.Aborted, "watchdog") {
			r.Inconclusive("sequential: " + d.Aborted)
		}
		r.Distinct("abort_reasons", oneWord(d.Aborted))
	}
	d.Close()
	r.Count("ops_executed", len(ops))
	for c, n := range d.Classes {
		r.Count("class:"+c, n)
	}
	cl := d.Classes
	extra := 0
	for _, c := range []string{"fallback", "target_existed", "unavailable_refused", "mounts_over_remote_chain", "removed_mounted", "reopen"} {
		if cl[c] > 0 {
			extra++
		}
	}
	if cl["remote_created"] > 0 && extra >= 2 {
		r.NonTrivial("seq:" + snapdrv.Script(ops))
	}
	if idx < 4 {
		s := snapdrv.Script(ops)
		if len(s) > 1500 {
			s = s[:1500] + "…"
		}
		r.Sample(map[string]any{"phase": "sequential", "case": idx, "async": cfg.Async, "ops": len(ops), "classes": d.Classes, "script": s})
	}
}

func oneWord(s string) string {
	if len(s) > 40 {
		s = s[:40]
	}
	return s
}
