package main

// Concurrent phase of C08 (runs in the -race build as a child stage).
//
// 2-8 callers share one snapshotter. Every caller owns its keys (so that the fate of a
// key is decided by one goroutine) and shares the committed names (targets, parents).
// Judged per call (only what is decidable under concurrency):
//   (a) Prepare+target on a fresh own key reporting AlreadyExists => Stat(target) is
//       Committed, unless some Remove(target) overlapped or followed (then skipped);
//   (b) Prepare returning mounts => own key Active, not remote-labelled, no live backend
//       mount on its upper directory;
//   (c) a call returning mounts => no remote ancestor is flagged broken (flags only
//       change between rounds; ancestors of a live child cannot be removed) and the lower
//       directories are the parent chain nearest first (chain read from one Walk after
//       the call: parents of an existing child are pinned);
//   (d) every backend Unmount of a live mount sees its directory and, unless closing, a
//       committed metadata state without that id.
// Judged at quiescence after each round: Cleanup, then directories == live ids, every
// committed remote-labelled snapshot has exactly one live backend mount, every live
// mount sits on an existing directory of a live snapshot, no uncommitted snapshot is
// remote-labelled, parents exist and are committed, every acknowledged own key is there.
//
// Extra actor: inside a quarter of the successful backend Mount calls of a
// Prepare(key, target=T) the monitor itself creates an active or view snapshot whose key is
// T (injectDuringMount), the interleaving a concurrent caller needs to hit the window
// between any "is the target committed" test and the internal commit; clause (a) then
// decides. (A committed T cannot become an active/view key without a Remove(T), so the
// judgement stays sound.)
//
// No shared lock or counter is placed on the operation path by the monitor: events are
// kept per goroutine, the per-name removal counters are per-object atomics, and the
// backend's table lock mirrors the lock the real filesystem has.

import (
	"context"
	"fmt"
	"os"
	"path/filepath"
	"sort"
	"strings"
	"sync"
	"sync/atomic"
	"time"

	"github.com/containerd/containerd/v2/core/mount"
	"github.com/containerd/containerd/v2/core/snapshots"
	"github.com/containerd/errdefs"
	"github.com/containerd/stargz-snapshotter/snapshot"

	"verifharness/internal/prng"
	"verifharness/internal/recfs"
	"verifharness/internal/recfs/snapdrv"
	"verifharness/internal/vf"
)

func concPhase(r *vf.Run) {
	work, ram, done := recfs.RamDir(r.Scratch)
	defer done()
	r.Set("concurrent_scratch_on_tmpfs", ram)
	r.Set("concurrent_phase_ran_in_race_build", r.RaceBuild)
	n := r.N(40, 300)
	for i := 0; i < n && r.Violations() <= 20; i++ {
		runConc(r, work, i)
		if i%20 == 19 {
			r.FlushPartial()
		}
	}
}

type rmCounter struct{ started, finished atomic.Int64 }

type ownKey struct {
	kind   string
	parent string
}

type viol struct{ key, what string }

type caller struct {
	g       int
	rng     *prng.R
	own     map[string]*ownKey
	keyN    int
	viols   []viol
	counts  map[string]int
	log     []string
	commits map[string]int64 // name -> removal-started counter when this caller's Commit(name) succeeded
}

type concCase struct {
	r       *vf.Run
	idx     int
	root    string
	sn      snapshots.Snapshotter
	fs      *recfs.FS
	closing atomic.Bool
	names   []string
	rm      map[string]*rmCounter
	ctx     context.Context
	failMod uint64
	seed    uint64
	injWG   sync.WaitGroup
	injOK, injFail, injLate atomic.Int64
}

// injectDuringMount: see the OnCall handler. The wait inside Mount is bounded because
// the caller of Mount holds a bbolt read transaction (a writer that must grow the memory
// map waits for it); a late injection finishes after Mount returned. Every injected call
// is joined before the quiescence checks.
func (c *concCase) injectDuringMount(target string, view bool) {
	done := make(chan struct{})
	c.injWG.Add(1)
	go func() {
		defer c.injWG.Done()
		defer close(done)
		var err error
		if view {
			_, err = c.sn.View(c.ctx, target, "", snapshots.WithLabels(map[string]string{snapdrv.UserLabel: "inj"}))
		} else {
			_, err = c.sn.Prepare(c.ctx, target, "", snapshots.WithLabels(map[string]string{snapdrv.UserLabel: "inj"}))
		}
		if err == nil {
			c.injOK.Add(1)
		} else {
			c.injFail.Add(1)
		}
	}()
	select {
	case <-done:
	case <-time.After(300 * time.Millisecond):
		c.injLate.Add(1)
	}
}

func (c *concCase) walk() (map[string]snapshots.Info, error) {
	obs := map[string]snapshots.Info{}
	err := c.sn.Walk(c.ctx, func(_ context.Context, info snapshots.Info) error {
		obs[info.Name] = info
		return nil
	})
	if err != nil && !errdefs.IsNotFound(err) {
		return nil, err
	}
	return obs, nil
}

func (c *concCase) ids() (byKey map[string]string, byID map[string]string, err error) {
	byID, err = snapshot.VerifIDMap(c.ctx, c.sn)
	if err != nil {
		if errdefs.IsNotFound(err) {
			return map[string]string{}, map[string]string{}, nil
		}
		return nil, nil, err
	}
	byKey = map[string]string{}
	for id, k := range byID {
		byKey[k] = id
	}
	return byKey, byID, nil
}

func runConc(r *vf.Run, work string, idx int) {
	rng := r.RNG(2, uint64(idx))
	base := filepath.Join(work, fmt.Sprintf("conc-%d", idx))
	defer os.RemoveAll(base)
	c := &concCase{r: r, idx: idx, root: filepath.Join(base, "root"), ctx: context.Background(), rm: map[string]*rmCounter{}, seed: rng.U64()}
	async := rng.Bool()
	c.fs = recfs.New()
	c.fs.OnCall = func(ev *recfs.Event) {
		if ev.Kind == recfs.KMount && !ev.Injected && ev.DirExists {
			// a quarter of the successful backend mounts: while the Mount of
			// Prepare(key, target=T) is in progress "another caller" (this monitor) creates
			// an active or view snapshot whose key is T
			if t, ok := ev.Labels[snapdrv.TargetLabel]; ok && prng.Hash64(c.seed, 77, uint64(ev.N))%4 == 0 {
				c.injectDuringMount(t, prng.Hash64(c.seed, 78, uint64(ev.N))%2 == 0)
			}
		}
		if ev.Kind != recfs.KUnmount || !ev.WasMounted {
			return
		}
		ev.Note = map[string]any{}
		if c.closing.Load() {
			ev.Note["closing"] = true
			return
		}
		id := snapdrv.IDOfMP(c.root, ev.Mountpoint)
		if ids, err := snapshot.VerifIDMap(c.ctx, c.sn); err == nil {
			_, live := ids[id]
			ev.Note["id_live"] = live
		}
	}
	// every third Mount call (by a hash of the call index) fails
	c.fs.SetScript(recfs.Script{FailMount: func(n int, _ string) bool { return prng.Hash64(c.seed, uint64(n))%3 == 0 }})
	var opts []snapshot.Opt
	if async {
		opts = append(opts, snapshot.AsynchronousRemove)
	}
	sn, err := snapshot.NewSnapshotter(c.ctx, c.root, c.fs, opts...)
	if err != nil {
		r.Inconclusive("concurrent: cannot open snapshotter: " + err.Error())
		return
	}
	c.sn = sn
	r.Eval(1)
	nn := rng.Range(3, 6)
	for i := 0; i < nn; i++ {
		c.names = append(c.names, fmt.Sprintf("n%d", i))
	}
	for _, n := range c.names {
		c.rm[n] = &rmCounter{}
	}
	G := rng.Range(2, 8)
	rounds := 2
	replay := map[string]any{"phase": "concurrent", "case": idx, "callers": G, "async": async}
	total := map[string]int{}
	var allLogs []string
	callers := make([]*caller, G)
	for g := 0; g < G; g++ {
		callers[g] = &caller{g: g, own: map[string]*ownKey{}, counts: map[string]int{}, commits: map[string]int64{}}
	}
	for round := 0; round < rounds; round++ {
		// flags change only here, at quiescence
		live := c.fs.Live()
		var mps []string
		for mp := range live {
			mps = append(mps, mp)
		}
		sort.Strings(mps)
		for _, mp := range mps {
			if rng.Chance(1, 3) {
				c.fs.SetBroken(mp, !c.fs.IsBroken(mp))
			}
		}
		var wg sync.WaitGroup
		start := make(chan struct{})
		for g := 0; g < G; g++ {
			cl := callers[g]
			cl.rng = r.RNG(2, uint64(idx), uint64(round), uint64(g))
			wg.Add(1)
			go func() {
				defer wg.Done()
				<-start
				nops := cl.rng.Range(8, 20)
				for j := 0; j < nops; j++ {
					c.oneOp(cl)
				}
			}()
		}
		close(start)
		wg.Wait()
		c.injWG.Wait()
		for _, cl := range callers {
			for _, v := range cl.viols {
				replay["log_of_caller"] = cl.log
				r.Violate(v.key, v.what, replay)
			}
			cl.viols = nil
		}
		c.quiescence(callers, round, replay)
	}
	c.closing.Store(true)
	_ = c.sn.Close()
	for _, ev := range c.fs.Drain() {
		if ev.Kind == recfs.KUnmount && ev.WasMounted && !ev.DirExists {
			r.Violate("d:unmount-after-directory-deleted:close", "Close: backend Unmount of a live mount called when its directory was already gone", replay)
		}
	}
	for _, cl := range callers {
		for k, v := range cl.counts {
			total[k] += v
		}
		if len(allLogs) < 60 {
			allLogs = append(allLogs, cl.log...)
		}
	}
	total["key_equal_target_created_during_mount"] = int(c.injOK.Load())
	total["key_equal_target_injection_refused"] = int(c.injFail.Load())
	total["key_equal_target_injection_late"] = int(c.injLate.Load())
	for k, v := range total {
		r.Count("conc:"+k, v)
	}
	if total["remote_created"] > 0 && total["target_existed"] > 0 && total["unmount_live_seen"] > 0 {
		r.NonTrivial(fmt.Sprintf("conc:%d:%d:%v:%s", idx, G, async, strings.Join(allLogs, ";")))
		r.Count("conc:nontrivial_cases", 1)
	}
	if idx < 2 {
		if len(allLogs) > 40 {
			allLogs = allLogs[:40]
		}
		r.Sample(map[string]any{"phase": "concurrent", "case": idx, "callers": G, "async": async, "counts": total, "first_calls": allLogs})
	}
}

func (c *concCase) pickParent(cl *caller) string {
	if cl.rng.Chance(1, 4) {
		return ""
	}
	return c.names[cl.rng.Intn(len(c.names))]
}

func (c *concCase) oneOp(cl *caller) {
	rng := cl.rng
	ctx := c.ctx
	var ownActive, ownAll []string
	for k, o := range cl.own {
		ownAll = append(ownAll, k)
		if o.kind == snapdrv.Active {
			ownActive = append(ownActive, k)
		}
	}
	sort.Strings(ownAll)
	sort.Strings(ownActive)
	x := rng.Intn(100)
	switch {
	case x < 40: // prepare
		cl.keyN++
		key := fmt.Sprintf("g%d-k%d", cl.g, cl.keyN)
		parent := c.pickParent(cl)
		labels := map[string]string{snapdrv.UserLabel: key}
		target := ""
		if rng.Chance(7, 10) {
			target = c.names[rng.Intn(len(c.names))]
			labels[snapdrv.TargetLabel] = target
		}
		var s0, f0 int64
		if target != "" {
			s0, f0 = c.rm[target].started.Load(), c.rm[target].finished.Load()
		}
		ms, err := c.sn.Prepare(ctx, key, parent, snapshots.WithLabels(labels))
		cl.log = append(cl.log, fmt.Sprintf("g%d Prepare(%s,parent=%q,target=%q)->%s", cl.g, key, parent, target, errShort(err)))
		switch {
		case err == nil:
			cl.own[key] = &ownKey{kind: snapdrv.Active, parent: parent}
			if target != "" {
				cl.counts["fallback"]++
			}
			c.judgeMounts(cl, "prepare", key, snapdrv.Active, ms, true)
		case target != "" && errdefs.IsAlreadyExists(err):
			info, serr := c.sn.Stat(ctx, target)
			s1 := c.rm[target].started.Load()
			quiet := s0 == f0 && s1 == s0
			switch {
			case serr == nil && info.Kind == snapshots.KindCommitted:
				cl.counts["prepare_target_reported_existing"]++
			case !quiet:
				cl.counts["skipped_target_stat_overlapping_remove"]++
			default:
				// a committed target cannot turn into an active/view key or vanish without a
				// Remove(target); none overlapped, so the report was wrong when it was made
				// (e.g. the name was taken by an uncommitted key while the backend mount ran)
				cl.viols = append(cl.viols, viol{"a:already-exists-reported-but-target-not-committed:concurrent", fmt.Sprintf("Prepare(%s,target=%s) reported AlreadyExists, Stat(target)=%s/%v and no Remove(target) overlapped", key, target, snapdrv.KindName(info.Kind), serr)})
			}
			// is the key left behind? (it is when the target existed before)
			if ki, kerr := c.sn.Stat(ctx, key); kerr == nil {
				cl.own[key] = &ownKey{kind: snapdrv.KindName(ki.Kind), parent: ki.Parent}
				cl.counts["target_existed"]++
				if _, ok := ki.Labels[snapdrv.RemoteLabel]; ok {
					cl.viols = append(cl.viols, viol{"b:leftover-key-marked-remote", fmt.Sprintf("Prepare(%s,target=%s): key left behind carries the remote label", key, target)})
				}
			} else {
				cl.counts["remote_created"]++
			}
		default:
			// failed: the key may or may not exist (unspecified)
			if ki, kerr := c.sn.Stat(ctx, key); kerr == nil {
				cl.own[key] = &ownKey{kind: snapdrv.KindName(ki.Kind), parent: ki.Parent}
			}
			if errdefs.IsUnavailable(err) {
				cl.counts["unavailable"]++
			}
		}
	case x < 48: // view
		cl.keyN++
		key := fmt.Sprintf("g%d-k%d", cl.g, cl.keyN)
		parent := c.pickParent(cl)
		ms, err := c.sn.View(ctx, key, parent, snapshots.WithLabels(map[string]string{snapdrv.UserLabel: key}))
		cl.log = append(cl.log, fmt.Sprintf("g%d View(%s,parent=%q)->%s", cl.g, key, parent, errShort(err)))
		if err == nil {
			cl.own[key] = &ownKey{kind: snapdrv.View, parent: parent}
			c.judgeMounts(cl, "view", key, snapdrv.View, ms, false)
		} else if ki, kerr := c.sn.Stat(ctx, key); kerr == nil {
			cl.own[key] = &ownKey{kind: snapdrv.KindName(ki.Kind), parent: ki.Parent}
		}
	case x < 62: // commit own active key to a shared name
		if len(ownActive) == 0 {
			return
		}
		key := ownActive[rng.Intn(len(ownActive))]
		name := c.names[rng.Intn(len(c.names))]
		s0, f0 := c.rm[name].started.Load(), c.rm[name].finished.Load()
		err := c.sn.Commit(ctx, name, key, snapshots.WithLabels(map[string]string{snapdrv.UserLabel: key}))
		cl.log = append(cl.log, fmt.Sprintf("g%d Commit(%s<-%s)->%s", cl.g, name, key, errShort(err)))
		if err == nil {
			delete(cl.own, key)
			if s0 == f0 { // no Remove(name) was in flight when the commit was issued
				cl.commits[name] = s0
			}
			cl.counts["commit_ok"]++
		}
	case x < 72: // mounts
		if len(ownAll) == 0 {
			return
		}
		key := ownAll[rng.Intn(len(ownAll))]
		ms, err := c.sn.Mounts(ctx, key)
		cl.log = append(cl.log, fmt.Sprintf("g%d Mounts(%s)->%s", cl.g, key, errShort(err)))
		if err == nil {
			c.judgeMounts(cl, "mounts", key, cl.own[key].kind, ms, false)
		} else if errdefs.IsUnavailable(err) {
			cl.counts["unavailable"]++
		}
	case x < 87: // remove
		var key string
		if len(ownAll) > 0 && rng.Chance(1, 2) {
			key = ownAll[rng.Intn(len(ownAll))]
		} else {
			key = c.names[rng.Intn(len(c.names))]
		}
		if ctr := c.rm[key]; ctr != nil {
			ctr.started.Add(1)
		}
		err := c.sn.Remove(ctx, key)
		if ctr := c.rm[key]; ctr != nil {
			ctr.finished.Add(1)
		}
		cl.log = append(cl.log, fmt.Sprintf("g%d Remove(%s)->%s", cl.g, key, errShort(err)))
		if err == nil {
			delete(cl.own, key)
			cl.counts["remove_ok"]++
		}
	case x < 92:
		err := snapdrv.Cleanup(ctx, c.sn)
		cl.log = append(cl.log, fmt.Sprintf("g%d Cleanup()->%s", cl.g, errShort(err)))
	case x < 96:
		name := c.names[rng.Intn(len(c.names))]
		_, err := c.sn.Update(ctx, snapshots.Info{Name: name, Labels: map[string]string{snapdrv.UserLabel: fmt.Sprintf("u%d", cl.g)}}, "labels."+snapdrv.UserLabel)
		cl.log = append(cl.log, fmt.Sprintf("g%d Update(%s)->%s", cl.g, name, errShort(err)))
	default:
		_, err := c.walk()
		cl.log = append(cl.log, fmt.Sprintf("g%d Walk()->%s", cl.g, errShort(err)))
	}
}

func errShort(err error) string {
	switch {
	case err == nil:
		return "ok"
	case errdefs.IsAlreadyExists(err):
		return "already_exists"
	case errdefs.IsNotFound(err):
		return "not_found"
	case errdefs.IsUnavailable(err):
		return "unavailable"
	case errdefs.IsInvalidArgument(err):
		return "invalid_argument"
	case errdefs.IsFailedPrecondition(err):
		return "failed_precondition"
	}
	return "error"
}

// judgeMounts: clauses (b) and (c) for a call of cl that returned mounts for its own key.
func (c *concCase) judgeMounts(cl *caller, opKind, key, kind string, ms []mount.Mount, isPrepare bool) {
	obs, err := c.walk()
	if err != nil {
		return
	}
	byKey, _, err := c.ids()
	if err != nil {
		return
	}
	info, ok := obs[key]
	if !ok {
		cl.viols = append(cl.viols, viol{"f:acknowledged-key-missing:" + opKind, fmt.Sprintf("%s returned mounts for own key %s but Walk does not list it", opKind, key)})
		return
	}
	if isPrepare {
		if info.Kind != snapshots.KindActive {
			cl.viols = append(cl.viols, viol{"b:prepare-returned-mounts-but-key-not-active", fmt.Sprintf("Prepare(%s) returned mounts, key is %s", key, snapdrv.KindName(info.Kind))})
		}
		if _, rem := info.Labels[snapdrv.RemoteLabel]; rem {
			cl.viols = append(cl.viols, viol{"b:fallback-snapshot-marked-remote", fmt.Sprintf("Prepare(%s) returned mounts but the key carries the remote label", key)})
		}
		if id := byKey[key]; id != "" && c.fs.LiveCount(snapdrv.MP(c.root, id)) > 0 {
			cl.viols = append(cl.viols, viol{"b:writable-snapshot-has-live-backend-mount", fmt.Sprintf("Prepare(%s) returned mounts for a writable snapshot whose upper directory carries a live backend mount", key)})
		}
	}
	var want []string
	p := info.Parent
	for i := 0; p != "" && i < 1000; i++ {
		pi, ok := obs[p]
		if !ok {
			cl.viols = append(cl.viols, viol{"f:dangling-parent", fmt.Sprintf("%s: ancestor %s of live key %s is not listed by Walk", opKind, p, key)})
			return
		}
		id := byKey[p]
		mp := snapdrv.MP(c.root, id)
		want = append(want, mp)
		if _, rem := pi.Labels[snapdrv.RemoteLabel]; rem && c.fs.IsBroken(mp) {
			cl.viols = append(cl.viols, viol{"c:mounts-handed-out-despite-failed-check:" + opKind, fmt.Sprintf("%s(%s) returned mounts although remote ancestor %s is flagged broken", opKind, key, p)})
		} else if rem {
			cl.counts["mounts_over_remote_chain"]++
		}
		p = pi.Parent
	}
	cl.counts["mounts_handed_out"]++
	if k, what := snapdrv.LowerVerdict(kind, want, ms); k != "" {
		cl.viols = append(cl.viols, viol{k, fmt.Sprintf("%s(%s): %s", opKind, key, what)})
	}
}

// quiescence applies the state invariants after all callers of a round have returned.
func (c *concCase) quiescence(callers []*caller, round int, replay map[string]any) {
	r := c.r
	if err := snapdrv.Cleanup(c.ctx, c.sn); err != nil && !errdefs.IsNotFound(err) { // NotFound: the store is still empty
		r.Inconclusive("concurrent: Cleanup at quiescence failed")
		return
	}
	evs := c.fs.Drain()
	for _, ev := range evs {
		r.Count("conc:backend_"+string(ev.Kind)+"_calls", 1)
		if ev.Kind != recfs.KUnmount || !ev.WasMounted {
			continue
		}
		callers[0].counts["unmount_live_seen"]++
		if !ev.DirExists {
			r.Violate("d:unmount-after-directory-deleted:concurrent", fmt.Sprintf("backend Unmount(%s) of a live mount was called when its directory was already gone", ev.Mountpoint[len(c.root):]), replay)
		}
		if live, ok := ev.Note["id_live"].(bool); ok && live {
			r.Violate("d:unmount-before-snapshot-removed:concurrent", fmt.Sprintf("backend Unmount(%s) of a live mount was called while the committed metadata still holds its snapshot", ev.Mountpoint[len(c.root):]), replay)
		}
	}
	obs, err := c.walk()
	if err != nil {
		return
	}
	byKey, byID, err := c.ids()
	if err != nil {
		return
	}
	dirs, err := snapdrv.ReadDirs(c.root)
	if err != nil {
		return
	}
	seen := map[string]bool{}
	for _, n := range dirs {
		seen[n] = true
		if _, ok := byID[n]; !ok {
			k := "e:orphan-directory-left-after-cleanup"
			if strings.HasPrefix(n, "new-") {
				k = "e:temp-directory-left-after-cleanup"
			}
			r.Violate(k, fmt.Sprintf("quiescence after round %d: snapshots/%s exists but no live snapshot has that id", round, n), replay)
		}
	}
	for id, k := range byID {
		if !seen[id] {
			r.Violate("e:live-snapshot-directory-missing-after-cleanup", fmt.Sprintf("quiescence after round %d: live snapshot %s (id %s) has no directory", round, k, id), replay)
		}
	}
	live := c.fs.Live()
	for mp, mi := range live {
		id := snapdrv.IDOfMP(c.root, mp)
		if _, err := os.Lstat(mp); err != nil {
			r.Violate("d:directory-deleted-while-backend-mount-live:concurrent", fmt.Sprintf("quiescence: live backend mount on %s but the directory is gone", mp[len(c.root):]), replay)
		} else if _, ok := byID[id]; !ok {
			r.Violate("e:orphan-directory-left-after-cleanup", fmt.Sprintf("quiescence: live backend mount on %s whose id is not live", mp[len(c.root):]), replay)
		}
		if mi.Count > 1 {
			r.Violate("a:mountpoint-mounted-twice", fmt.Sprintf("quiescence: %d live mounts on %s", mi.Count, mp[len(c.root):]), replay)
		}
	}
	for n, info := range obs {
		_, rem := info.Labels[snapdrv.RemoteLabel]
		if rem && info.Kind != snapshots.KindCommitted {
			r.Violate("b:uncommitted-snapshot-marked-remote", fmt.Sprintf("quiescence: %s is %s and carries the remote label", n, snapdrv.KindName(info.Kind)), replay)
		}
		if rem && info.Kind == snapshots.KindCommitted {
			// every remote snapshot of this phase was created by a Prepare of this process
			if cnt := c.fs.LiveCount(snapdrv.MP(c.root, byKey[n])); cnt != 1 {
				r.Violate("a:remote-snapshot-without-exactly-one-live-mount:concurrent", fmt.Sprintf("quiescence: committed remote snapshot %s (id %s) has %d live backend mounts", n, byKey[n], cnt), replay)
			}
			r.Count("conc:remote_snapshots_checked_at_quiescence", 1)
		}
		if info.Parent != "" {
			if pi, ok := obs[info.Parent]; !ok || pi.Kind != snapshots.KindCommitted {
				r.Violate("f:dangling-parent", fmt.Sprintf("quiescence: %s names parent %s which is missing or not committed", n, info.Parent), replay)
			}
		}
	}
	for _, cl := range callers {
		for k, o := range cl.own {
			info, ok := obs[k]
			if !ok {
				r.Violate("f:acknowledged-key-missing:quiescence", fmt.Sprintf("own key %s of caller %d was acknowledged and never removed or committed by its owner, but is gone", k, cl.g), replay)
				continue
			}
			if snapdrv.KindName(info.Kind) != o.kind || info.Parent != o.parent {
				r.Violate("f:acknowledged-key-changed:quiescence", fmt.Sprintf("own key %s: %s parent %q, acknowledged as %s parent %q", k, snapdrv.KindName(info.Kind), info.Parent, o.kind, o.parent), replay)
			}
		}
		for name, s0 := range cl.commits {
			if c.rm[name].started.Load() == s0 {
				if info, ok := obs[name]; !ok || info.Kind != snapshots.KindCommitted {
					r.Violate("f:acknowledged-commit-missing:quiescence", fmt.Sprintf("Commit(%s) was acknowledged, no Remove(%s) was issued since, but it is not a committed snapshot now", name, name), replay)
				}
			}
			delete(cl.commits, name)
		}
	}
	r.Count("conc:quiescence_checks", 1)
}
