// C11 — a chunk-cache hit returns exactly the bytes committed under that key.
//
// Real code under test: cache.NewDirectoryCache (wired exactly like fs/layer.newCache wires
// it: shared bytes.Buffer pool, data LRU and fd LRU from util/cacheutil with the production
// OnEvicted callbacks; and, alternately, with the LRUs/pool NewDirectoryCache builds itself)
// and cache.NewMemoryCache, driven through the public BlobCache / Writer / Reader API only.
//
// Workload: rounds. One round = one fresh cache of one configuration
// ({Direct, SyncAdd, FadvDontNeed} x wiring, or the memory cache; LRU capacities 1-4),
// 8-32 goroutines, a key set larger than both LRU capacities, every goroutine executing a
// pre-generated script of
//
//	write : Add [Direct()], 1-4 partial Writes, then Commit | Abort | Close only; optionally
//	        a second writer of the same key opened before the first one finished (duplicate add)
//	read  : Get [Direct()] [PassThrough()], full ReadAt, random ranges read twice (once
//	        through GetReaderAt()), then Close, or keep the Reader open ("held")
//	reread: full ReadAt of the oldest held Reader again (evictions happened in between), Close
//
// Values are self-describing: 24-byte header (magic|key id, writer id, length) followed by
// PRNG(round, key, writer) words. Writers that abort or never commit write a *poison* value
// (other magic, 0xDEADBEEF body), so whatever a hit returns can be classified.
//
// Oracle (from the property statement only): a miss (any error from Get) is always
// acceptable. A hit must be, in full, the value of ONE writer w' of THAT key whose Commit
// had been called before Get returned: header decodes to (key, w', L), the writer's
// per-writer commit-call stamp (set immediately BEFORE invoking Commit) is non-zero and not
// later than the time taken right after Get returned, the total length read is L, every byte
// equals the writer's value, every ranged ReadAt returns exactly min(len, L-off) bytes (short
// only at the end, io.EOF when short), two reads of one range through one open Reader are
// equal, and a Reader that is kept open still yields the same bytes later.
//
// Process structure (BUILDS: plain, race): the plain top process only schedules; the workload
// runs in children of the race build, 17 rounds (= every configuration once) per child,
// because a broken cache can also kill the process (see body). The race detector is the
// direct monitor for "a buffer that is being recycled"; reports are attributed to functions
// in cache. and util/cacheutil. (plus: races between two harness goroutines on memory that
// only the cache can have handed to both). Per AUTHORING rule 4 the operation path takes no
// harness lock and touches no shared atomic except the per-writer commit stamp (and one
// eviction counter per LRU, incremented under that LRU's own mutex): scripts and writer
// plans are immutable during a round, counters/logs are per goroutine.
package main

import (
	"bytes"
	"encoding/binary"
	"errors"
	"fmt"
	"io"
	"io/fs"
	"os"
	"path/filepath"
	"regexp"
	"runtime"
	"sort"
	"strconv"
	"strings"
	"sync"
	"sync/atomic"
	"syscall"
	"time"

	"github.com/containerd/stargz-snapshotter/cache"
	"github.com/containerd/stargz-snapshotter/util/cacheutil"

	"verifharness/internal/prng"
	"verifharness/internal/vf"
)

var t0 = time.Now()

// now is the monotonic clock (never 0).
func now() int64 { return int64(time.Since(t0)) + 1 }

const (
	magicOK     = uint64(0xC11DA7A5)
	magicPoison = uint64(0xBAD0DEAD)
	hdrLen      = 24
	maxLen      = 256 << 10
	golden      = uint64(0x9E3779B97F4A7C15)
	poisonWord  = uint64(0xDEADBEEFDEADBEEF)
	readCap     = maxLen + 64 // a hit longer than any value fills this
)

//go:norace
func mix(z uint64) uint64 {
	z = (z ^ (z >> 30)) * 0xBF58476D1CE4E5B9
	z = (z ^ (z >> 27)) * 0x94D049BB133111EB
	return z ^ (z >> 31)
}

// ---------------------------------------------------------------------------
// self-describing values

// The value generator/comparator below only ever touches per-goroutine harness scratch
// memory (bytes reach it through the instrumented ReadAt/Write copies), so it is exempt
// from race instrumentation: that halves the harness' own cost in the race build.

// valWord is the j-th little-endian 8-byte word of the value of writer wid of key.
//go:norace
func valWord(base uint64, key, wid, length int, poison bool, j int) uint64 {
	switch j {
	case 0:
		if poison {
			return magicPoison<<32 | uint64(key)
		}
		return magicOK<<32 | uint64(key)
	case 1:
		return uint64(wid)
	case 2:
		return uint64(length)
	}
	if poison {
		return poisonWord
	}
	return mix(base + uint64(j)*golden)
}

func valBase(salt uint64, key, wid int) uint64 {
	return prng.Hash64(salt, uint64(key), uint64(wid))
}

// fill writes the whole value (len(dst) bytes) into dst.
//
//go:norace
func fill(dst []byte, salt uint64, key, wid int, poison bool) {
	L := len(dst)
	base := valBase(salt, key, wid)
	var tmp [8]byte
	for j := 0; j*8 < L; j++ {
		w := valWord(base, key, wid, L, poison, j)
		if j*8+8 <= L {
			binary.LittleEndian.PutUint64(dst[j*8:], w)
		} else {
			binary.LittleEndian.PutUint64(tmp[:], w)
			copy(dst[j*8:], tmp[:])
		}
	}
}

// firstMismatch compares buf with the first len(buf) bytes of the (non-poison) value
// (key, wid, length) and returns the first differing offset or -1.
//
//go:norace
func firstMismatch(buf []byte, salt uint64, key, wid, length int) int {
	base := valBase(salt, key, wid)
	n := len(buf)
	var tmp [8]byte
	for j := 0; j*8 < n; j++ {
		w := valWord(base, key, wid, length, false, j)
		if j*8+8 <= n {
			if binary.LittleEndian.Uint64(buf[j*8:]) == w {
				continue
			}
		}
		binary.LittleEndian.PutUint64(tmp[:], w)
		for i := 0; i < 8 && j*8+i < n; i++ {
			if buf[j*8+i] != tmp[i] {
				return j*8 + i
			}
		}
	}
	return -1
}

// ---------------------------------------------------------------------------
// configurations

type cfg struct {
	Kind    string // "dir-prod" (layer.newCache wiring) | "dir-default" (NewDirectoryCache's own LRUs/pool) | "memory"
	Direct  bool
	SyncAdd bool
	Fadv    bool
	CapData int
	CapFd   int
}

func (c cfg) String() string {
	if c.Kind == "memory" {
		return "memory"
	}
	return fmt.Sprintf("%s{direct=%v,syncAdd=%v,fadvDontNeed=%v,dataLRU=%d,fdLRU=%d}", c.Kind, c.Direct, c.SyncAdd, c.Fadv, c.CapData, c.CapFd)
}

// class is the stable (seed independent) part used in violation keys.
func (c cfg) class() string {
	if c.Kind == "memory" {
		return "memory"
	}
	return "dir"
}

func allConfigs() []cfg {
	var res []cfg
	for _, kind := range []string{"dir-prod", "dir-default"} {
		for m := 0; m < 8; m++ {
			res = append(res, cfg{Kind: kind, Direct: m&1 != 0, SyncAdd: m&2 != 0, Fadv: m&4 != 0})
		}
	}
	res = append(res, cfg{Kind: "memory"})
	return res
}

// evictions counted inside the production-shaped OnEvicted callbacks. The callbacks run
// under the owning LRUCache's own mutex (every path to refCounter.dec holds it), so one
// atomic counter PER LRU orders nothing that this mutex does not order already (it is atomic
// only because the driver reads it while a late asynchronous commit may still release).
type evCount struct {
	data atomic.Int64
	fd   atomic.Int64
}

// newCache builds the cache of one round. "dir-prod" is a verbatim copy of what
// fs/layer.newCache does (it is unexported): one sync.Pool of *bytes.Buffer shared by the
// data LRU's OnEvicted (Reset + Put) and the cache, an fd LRU whose OnEvicted closes the
// file, a unique directory under root.
func newCache(c cfg, root string) (cache.BlobCache, string, *evCount, error) {
	ev := &evCount{}
	switch c.Kind {
	case "memory":
		return cache.NewMemoryCache(), "", ev, nil
	case "dir-prod":
		bufPool := &sync.Pool{
			New: func() any {
				return new(bytes.Buffer)
			},
		}
		dCache, fCache := cacheutil.NewLRUCache(c.CapData), cacheutil.NewLRUCache(c.CapFd)
		dCache.OnEvicted = func(key string, value any) {
			ev.data.Add(1)
			value.(*bytes.Buffer).Reset()
			bufPool.Put(value)
		}
		fCache.OnEvicted = func(key string, value any) {
			ev.fd.Add(1)
			value.(*os.File).Close()
		}
		if err := os.MkdirAll(root, 0700); err != nil {
			return nil, "", nil, err
		}
		cachePath, err := os.MkdirTemp(root, "")
		if err != nil {
			return nil, "", nil, err
		}
		bc, err := cache.NewDirectoryCache(cachePath, cache.DirectoryCacheConfig{
			SyncAdd:      c.SyncAdd,
			DataCache:    dCache,
			FdCache:      fCache,
			BufPool:      bufPool,
			Direct:       c.Direct,
			FadvDontNeed: c.Fadv,
		})
		return bc, cachePath, ev, err
	default: // dir-default
		cachePath := filepath.Join(root, "dc")
		bc, err := cache.NewDirectoryCache(cachePath, cache.DirectoryCacheConfig{
			MaxLRUCacheEntry: c.CapData,
			MaxCacheFds:      c.CapFd,
			SyncAdd:          c.SyncAdd,
			Direct:           c.Direct,
			FadvDontNeed:     c.Fadv,
		})
		return bc, cachePath, ev, err
	}
}

// ---------------------------------------------------------------------------
// round plan (immutable while the goroutines run)

const (
	fateCommit = iota
	fateAbort
	fateCloseOnly
)

var fateName = [...]string{"commit", "abort", "close-only"}

type wplan struct {
	g      int
	key    int
	length int
	fate   int
	direct bool  // Direct() passed to Add
	cuts   []int // ascending split points of the partial Writes
}

const (
	opWrite = iota
	opRead
	opReread
)

type rng2 struct{ a, b uint64 }

type op struct {
	kind      int
	w, w2     int // writer indices (w2 = -1: no duplicate writer)
	swapFin   bool
	key       int
	direct    bool // Direct() on Get
	pass      bool // PassThrough() on Get
	hold      bool
	ranges    []rng2
	yieldMask uint64
}

type round struct {
	idx        int
	cfg        cfg
	salt       uint64
	nG, nKeys  int
	keys       []string
	ws         []wplan
	commitCall []atomic.Int64 // per writer: monotonic time taken immediately before Commit is invoked (0 = never)
	script     [][]op
	short      map[[2]int][]int // (key, length<hdrLen) -> writers with that planned value
	c          cache.BlobCache
	dir        string
}

// drawLen: 0...256 KiB, every boundary in play, but skewed to small values: under the race
// detector every fresh large allocation (bytes.Buffer growth inside the cache) costs
// milliseconds of shadow-memory page faults that serialise the whole process, which would
// leave no budget for interleavings (measured: one fresh 256 KiB buffer = 100-300 ms on this VM).
// Values above 16 KiB stay in at about 1 writer in 25, above 64 KiB at 1 in 70.
func drawLen(rng *prng.R) int {
	switch x := rng.Intn(200); {
	case x < 10:
		return 0
	case x < 20:
		return rng.Range(1, hdrLen-1)
	case x < 23:
		return rng.Pick(hdrLen, hdrLen+1, 4095, 4096, 4097, 50000, 65536, maxLen-1, maxLen)
	case x < 130:
		return rng.Range(hdrLen, 1024)
	case x < 191:
		return rng.Range(1025, 8192)
	case x < 198:
		return rng.Range(8193, 64<<10)
	default:
		return rng.Range(64<<10, maxLen)
	}
}

func genRound(r *vf.Run, idx int, configs []cfg) *round {
	rng := r.RNG(uint64(idx))
	rd := &round{idx: idx, cfg: configs[idx%len(configs)], salt: rng.U64()}
	rd.cfg.CapData = rng.Range(1, 4)
	rd.cfg.CapFd = rng.Range(1, 4)
	rd.nG = rng.Range(8, 32)
	mx := rd.cfg.CapData
	if rd.cfg.CapFd > mx {
		mx = rd.cfg.CapFd
	}
	rd.nKeys = mx + rng.Range(1, 5) // larger than both LRU capacities
	opsPerG := rng.Range(30, 90)
	// keys look like the sha256 hex ids production uses; few distinct 2-char prefixes so
	// that different keys share a cache sub-directory.
	for k := 0; k < rd.nKeys; k++ {
		rd.keys = append(rd.keys, fmt.Sprintf("%02x%016x%016x%016x%014x", k%2, prng.Hash64(rd.salt, uint64(k), 1), prng.Hash64(rd.salt, uint64(k), 2), prng.Hash64(rd.salt, uint64(k), 3), prng.Hash64(rd.salt, uint64(k), 4)>>8))
	}
	rd.short = map[[2]int][]int{}
	newWriter := func(g *prng.R, gi, key int) int {
		wp := wplan{g: gi, key: key, length: drawLen(g)}
		switch x := g.Intn(100); {
		case x < 65:
			wp.fate = fateCommit
		case x < 85:
			wp.fate = fateAbort
		default:
			wp.fate = fateCloseOnly
		}
		wp.direct = g.Chance(1, 4)
		nc := g.Range(1, 4)
		for i := 1; i < nc; i++ {
			wp.cuts = append(wp.cuts, g.Intn(wp.length+1))
		}
		sort.Ints(wp.cuts)
		rd.ws = append(rd.ws, wp)
		id := len(rd.ws) - 1
		if wp.length < hdrLen && wp.fate == fateCommit {
			kk := [2]int{key, wp.length}
			rd.short[kk] = append(rd.short[kk], id)
		}
		return id
	}
	rd.script = make([][]op, rd.nG)
	for gi := 0; gi < rd.nG; gi++ {
		g := rng.Derive(uint64(gi) + 1)
		for j := 0; j < opsPerG; j++ {
			o := op{key: g.Intn(rd.nKeys), w2: -1, yieldMask: g.U64()}
			switch x := g.Intn(100); {
			case x < 38:
				o.kind = opWrite
				o.w = newWriter(g, gi, o.key)
				if g.Chance(1, 6) {
					o.w2 = newWriter(g, gi, o.key)
					o.swapFin = g.Bool()
				}
			case x < 90:
				o.kind = opRead
				o.direct = g.Chance(1, 5)
				o.pass = g.Chance(1, 4)
				o.hold = g.Chance(1, 3)
				for i, n := 0, g.Range(1, 3); i < n; i++ {
					o.ranges = append(o.ranges, rng2{g.U64(), g.U64()})
				}
			default:
				o.kind = opReread
			}
			rd.script[gi] = append(rd.script[gi], o)
		}
	}
	rd.commitCall = make([]atomic.Int64, len(rd.ws))
	return rd
}

func (rd *round) describe() string {
	return fmt.Sprintf("round %d: %s, %d goroutines, %d keys, %d writers, %d ops/goroutine", rd.idx, rd.cfg, rd.nG, rd.nKeys, len(rd.ws), len(rd.script[0]))
}

// ---------------------------------------------------------------------------
// per-goroutine state

const (
	cAdd = iota
	cAddErr
	cWrite
	cWriteErr
	cCommit
	cCommitErr
	cAbort
	cAbortErr
	cCloseOnly
	cDupAdd
	cZeroLenCommit
	cGet
	cMiss
	cHit
	cHitMem
	cHitFile
	cHitOther
	cHitZeroLen
	cHitShort
	cHitOfOtherGoroutine
	cRangeReads
	cRangeViaReaderAt
	cHeld
	cReread
	cGetDirect
	cGetPass
	cPassGotFile
	cBytesVerified
	nCounters
)

var counterName = [...]string{"add", "add_error", "write_calls", "write_error", "commit_called", "commit_error", "abort_called", "abort_error",
	"closed_without_commit", "duplicate_add_same_goroutine", "zero_length_commits", "get", "miss", "hit_verified", "hit_from_memory_lru", "hit_from_file",
	"hit_from_other_readerat", "hit_zero_length", "hit_shorter_than_header", "hit_value_written_by_other_goroutine", "range_reads", "range_reads_via_GetReaderAt",
	"readers_held_open", "held_reader_rereads", "get_direct", "get_passthrough", "passthrough_get_returned_file", "bytes_verified"}

type heldReader struct {
	rd     cache.Reader
	key    int
	wid    int // -1: value shorter than the header
	n      int
	short  []byte
	src    string
	getRet int64
}

type trailEnt struct {
	op   int
	kind string
	key  int
	wid  int
	n    int
	note string
}

type gstate struct {
	r     *vf.Run
	rd    *round
	id    int
	genA  []byte
	genB  []byte
	full  []byte
	ra    []byte
	rb    []byte
	held  []heldReader
	cnt   [nCounters]int64
	errs  map[string]int // distinct error classes (normalised)
	trail []trailEnt
	cur   int
}

func (g *gstate) note(kind string, key, wid, n int, note string) {
	if len(g.trail) >= 16 {
		copy(g.trail, g.trail[1:])
		g.trail = g.trail[:15]
	}
	g.trail = append(g.trail, trailEnt{g.cur, kind, key, wid, n, note})
}

func (g *gstate) trailStrings() []string {
	var res []string
	for _, t := range g.trail {
		res = append(res, fmt.Sprintf("op%d %s key%d writer%d n=%d %s", t.op, t.kind, t.key, t.wid, t.n, t.note))
	}
	return res
}

var quoted = regexp.MustCompile(`"[^"]*"`)
var pathish = regexp.MustCompile(`/[^\s:]+`)
var digits = regexp.MustCompile(`[0-9]+`)

func errClass(where string, err error) string {
	switch {
	case errors.Is(err, fs.ErrNotExist):
		return where + ": no such file"
	case strings.Contains(err.Error(), "missed cache"):
		return where + ": missed cache (memory)"
	}
	s := quoted.ReplaceAllString(err.Error(), `"…"`)
	s = pathish.ReplaceAllString(s, "<path>")
	s = digits.ReplaceAllString(s, "N")
	return where + ": " + s
}

func (g *gstate) violate(clause, src, what string, extra map[string]any) {
	rp := map[string]any{
		"round":        g.rd.describe(),
		"round_index":  g.rd.idx,
		"goroutine":    g.id,
		"op_index":     g.cur,
		"recent_ops":   g.trailStrings(),
		"how_to_rerun": fmt.Sprintf("VERIF_SEED=%d /verif/run.sh C11 %s (round index %d is generated from the seed)", g.r.Seed, g.r.Tier, g.rd.idx),
	}
	for k, v := range extra {
		rp[k] = v
	}
	g.r.Violate(clause+"@"+g.rd.cfg.class()+"/"+src, what+" ["+g.rd.cfg.String()+"]", rp)
}

// ---------------------------------------------------------------------------
// oracle

type verdict struct {
	ok     bool
	clause string
	what   string
	wid    int
	extra  map[string]any
}

// judge decides whether buf (ALL bytes a hit on key yielded) is exactly one committed value.
func (rd *round) judge(buf []byte, key int, getRet int64) verdict {
	n := len(buf)
	if n >= readCap {
		return verdict{clause: "hit:longer-than-any-value", what: "a hit yielded more bytes than any writer ever wrote"}
	}
	if n < hdrLen {
		// Values shorter than the header cannot name their writer: accept iff SOME writer
		// of this key with exactly these n bytes had called Commit before Get returned.
		// (For n <= 8 all committed values of one key are byte-identical, for n = 0 trivially.)
		for _, w := range rd.short[[2]int{key, n}] {
			cc := rd.commitCall[w].Load()
			if cc != 0 && cc <= getRet && firstMismatch(buf, rd.salt, key, w, n) < 0 {
				return verdict{ok: true, wid: -1}
			}
		}
		planned := len(rd.short[[2]int{key, n}])
		if n == 0 {
			return verdict{clause: "hit:empty-without-empty-commit", what: fmt.Sprintf("a hit yielded 0 bytes but no zero-length value had been committed under the key before Get returned (%d writers planned one)", planned),
				extra: map[string]any{"bytes": 0}}
		}
		return verdict{clause: "hit:short-value-never-committed", what: fmt.Sprintf("a hit yielded %d bytes (less than a header) that are not a value committed under the key before Get returned", n),
			extra: map[string]any{"bytes_hex": fmt.Sprintf("%x", buf)}}
	}
	w0 := binary.LittleEndian.Uint64(buf[0:])
	w1 := binary.LittleEndian.Uint64(buf[8:])
	w2 := binary.LittleEndian.Uint64(buf[16:])
	ex := map[string]any{"header_magic": fmt.Sprintf("%#x", w0>>32), "header_key": int64(w0 & 0xffffffff), "header_writer": int64(w1), "header_length": int64(w2), "bytes_read": n, "asked_key": key}
	switch w0 >> 32 {
	case magicPoison:
		if int(w0&0xffffffff) == key {
			return verdict{clause: "hit:data-of-aborted-or-unclosed-writer", what: "a hit yielded the poison value of a writer of this key that aborted or never committed", extra: ex}
		}
		return verdict{clause: "hit:data-of-aborted-or-unclosed-writer-of-other-key", what: "a hit yielded the poison value of a writer of another key", extra: ex}
	case magicOK:
	default:
		return verdict{clause: "hit:not-a-value", what: "a hit yielded bytes that do not start with the header of any written value", extra: ex}
	}
	if int(w0&0xffffffff) != key {
		return verdict{clause: "hit:bytes-of-another-key", what: "a hit yielded a value that was written under another key", extra: ex}
	}
	if w1 >= uint64(len(rd.ws)) || rd.ws[w1].key != key {
		return verdict{clause: "hit:not-a-value", what: "header names a writer that never wrote this key", extra: ex}
	}
	wid := int(w1)
	wp := rd.ws[wid]
	ex["writer_planned_fate"] = fateName[wp.fate]
	ex["writer_planned_length"] = wp.length
	cc := rd.commitCall[wid].Load()
	if cc == 0 {
		return verdict{clause: "hit:writer-never-called-commit", what: "a hit yielded data of a writer whose Commit had not been called (still open)", extra: ex}
	}
	if cc > getRet {
		ex["commit_call_ns"], ex["get_returned_ns"] = cc, getRet
		return verdict{clause: "hit:before-commit-was-called", what: "a hit yielded data of a writer whose Commit was called only after this Get had returned", extra: ex}
	}
	if int(w2) != wp.length {
		return verdict{clause: "hit:not-a-value", what: "header length differs from what that writer wrote", extra: ex}
	}
	if n < wp.length {
		return verdict{clause: "hit:prefix", what: fmt.Sprintf("a hit yielded only the first %d of %d committed bytes", n, wp.length), extra: ex}
	}
	if n > wp.length {
		return verdict{clause: "hit:trailing-bytes", what: fmt.Sprintf("a hit yielded %d bytes for a committed value of %d bytes", n, wp.length), extra: ex}
	}
	if off := firstMismatch(buf, rd.salt, key, wid, wp.length); off >= 0 {
		ex["first_mismatch_offset"] = off
		hi := off + 32
		if hi > n {
			hi = n
		}
		ex["bytes_at_mismatch_hex"] = fmt.Sprintf("%x", buf[off:hi])
		return verdict{clause: "hit:body-mismatch", what: "a hit yielded the header of a committed value but a body that differs from what its writer wrote (torn / mixed / recycled buffer)", extra: ex}
	}
	return verdict{ok: true, wid: wid}
}

// ---------------------------------------------------------------------------
// operations

func (g *gstate) yield(o *op, bit uint) {
	if o.yieldMask>>(bit*2)&3 == 3 { // 1 in 4
		runtime.Gosched()
	}
}

func (g *gstate) doWrite(o *op) {
	rd := g.rd
	type live struct {
		wid  int
		w    cache.Writer
		data []byte
		next int // next cut index
		off  int
		dead bool
	}
	var ls []*live
	for i, wid := range []int{o.w, o.w2} {
		if wid < 0 {
			continue
		}
		wp := &rd.ws[wid]
		var opts []cache.Option
		if wp.direct {
			opts = append(opts, cache.Direct())
		}
		g.cnt[cAdd]++
		w, err := rd.c.Add(rd.keys[wp.key], opts...)
		if err != nil {
			g.cnt[cAddErr]++
			g.errs[errClass("Add", err)]++
			continue
		}
		buf := g.genA
		if i == 1 {
			buf = g.genB
			g.cnt[cDupAdd]++
		}
		data := buf[:wp.length]
		fill(data, rd.salt, wp.key, wid, wp.fate != fateCommit)
		ls = append(ls, &live{wid: wid, w: w, data: data})
		g.yield(o, uint(i))
	}
	// partial writes, interleaved between the (up to two) writers of this op
	for step := 0; step < 4; step++ {
		for _, l := range ls {
			if l.dead {
				continue
			}
			wp := &rd.ws[l.wid]
			var end int
			if l.next < len(wp.cuts) {
				end = wp.cuts[l.next]
			} else if l.next == len(wp.cuts) {
				end = wp.length
			} else {
				continue
			}
			l.next++
			g.cnt[cWrite]++
			n, err := l.w.Write(l.data[l.off:end])
			if err != nil || n != end-l.off {
				// what production does on a failed write: abort
				g.cnt[cWriteErr]++
				if err != nil {
					g.errs[errClass("Write", err)]++
				}
				l.w.Abort()
				l.w.Close()
				l.dead = true
				continue
			}
			l.off = end
			g.yield(o, uint(2+step))
		}
	}
	if o.swapFin && len(ls) == 2 {
		ls[0], ls[1] = ls[1], ls[0]
	}
	for i, l := range ls {
		if l.dead {
			continue
		}
		wp := &rd.ws[l.wid]
		switch wp.fate {
		case fateCommit:
			g.cnt[cCommit]++
			if wp.length == 0 {
				g.cnt[cZeroLenCommit]++
			}
			g.note("commit", wp.key, l.wid, wp.length, "")
			// COMMIT-CALL is stamped BEFORE invoking Commit (observe at the boundary)
			rd.commitCall[l.wid].Store(now())
			if err := l.w.Commit(); err != nil {
				g.cnt[cCommitErr]++
				g.errs[errClass("Commit", err)]++
			}
		case fateAbort:
			g.cnt[cAbort]++
			g.note("abort", wp.key, l.wid, wp.length, "")
			if err := l.w.Abort(); err != nil {
				g.cnt[cAbortErr]++
				g.errs[errClass("Abort", err)]++
			}
		default:
			g.cnt[cCloseOnly]++
			g.note("close-only", wp.key, l.wid, wp.length, "")
		}
		l.w.Close()
		g.yield(o, uint(8+i))
	}
}

func srcOf(rd cache.Reader, c cfg) string {
	switch rd.GetReaderAt().(type) {
	case *os.File:
		return "file"
	case *bytes.Reader:
		if c.Kind == "memory" {
			return "membuf"
		}
		return "mem"
	}
	return "other"
}

// checkRange judges one ranged ReadAt against the (already judged) full content.
func checkRange(full []byte, p []byte, off int, got int, err error) (clause, what string) {
	n := len(full)
	want := 0
	if off < n {
		want = n - off
		if want > len(p) {
			want = len(p)
		}
	}
	if err != nil && err != io.EOF {
		return "read:error-on-open-reader", "ReadAt on an open Reader of a hit failed: " + errClass("ReadAt", err)
	}
	if got < want {
		return "read:short-read-before-end", fmt.Sprintf("ReadAt(len %d, off %d) of a %d byte value returned %d bytes", len(p), off, n, got)
	}
	if got > want {
		return "read:read-past-end", fmt.Sprintf("ReadAt(len %d, off %d) of a %d byte value returned %d bytes", len(p), off, n, got)
	}
	if got < len(p) && err != io.EOF {
		return "read:short-read-without-eof", fmt.Sprintf("ReadAt returned %d < %d bytes with a nil error", got, len(p))
	}
	if !bytes.Equal(p[:got], full[off:off+got]) {
		return "read:range-differs-from-full-read", fmt.Sprintf("ReadAt(len %d, off %d) returned bytes that differ from the same range of the full read through the same Reader", len(p), off)
	}
	return "", ""
}

func (g *gstate) doRead(o *op) {
	rd := g.rd
	var opts []cache.Option
	if o.direct {
		opts = append(opts, cache.Direct())
		g.cnt[cGetDirect]++
	}
	if o.pass {
		opts = append(opts, cache.PassThrough())
		g.cnt[cGetPass]++
	}
	g.cnt[cGet]++
	r, err := rd.c.Get(rd.keys[o.key], opts...)
	getRet := now() // taken AFTER Get returned
	if err != nil {
		// Slack: a miss is always acceptable (statement: "either misses or ...").
		g.cnt[cMiss]++
		g.errs[errClass("Get", err)]++
		g.note("get", o.key, -1, -1, "miss")
		return
	}
	src := srcOf(r, rd.cfg)
	if o.pass && src == "file" {
		g.cnt[cPassGotFile]++
	}
	g.yield(o, 0)
	n, rerr := r.ReadAt(g.full[:readCap], 0)
	if rerr != nil && rerr != io.EOF {
		g.violate("read:error-on-open-reader", src, "first ReadAt on the Reader of a hit failed: "+errClass("ReadAt", rerr), map[string]any{"key": o.key})
		r.Close()
		return
	}
	if n < readCap && rerr != io.EOF {
		g.violate("read:short-read-without-eof", src, fmt.Sprintf("ReadAt returned %d bytes of %d asked with a nil error", n, readCap), map[string]any{"key": o.key})
		r.Close()
		return
	}
	full := g.full[:n]
	v := rd.judge(full, o.key, getRet)
	if !v.ok {
		g.note("get", o.key, v.wid, n, "VIOLATION "+v.clause)
		if v.extra == nil {
			v.extra = map[string]any{}
		}
		v.extra["get_options"] = fmt.Sprintf("direct=%v passthrough=%v", o.direct, o.pass)
		g.violate(v.clause, src, v.what, v.extra)
		r.Close()
		return
	}
	g.cnt[cHit]++
	g.cnt[cBytesVerified] += int64(n)
	switch src {
	case "mem", "membuf":
		g.cnt[cHitMem]++
	case "file":
		g.cnt[cHitFile]++
	default:
		g.cnt[cHitOther]++
	}
	if n == 0 {
		g.cnt[cHitZeroLen]++
	}
	if n < hdrLen {
		g.cnt[cHitShort]++
	} else if rd.ws[v.wid].g != g.id {
		g.cnt[cHitOfOtherGoroutine]++
	}
	g.note("get", o.key, v.wid, n, "hit/"+src)

	// random ranges, each read twice through the same open Reader
	for i, rs := range o.ranges {
		var off, m int
		switch rs.a % 6 {
		case 0:
			off = 0
		case 1:
			off = n
		case 2:
			off = n + int(rs.a>>8%7)
		case 3:
			if n > 0 {
				off = n - 1
			}
		default:
			off = int((rs.a >> 8) % uint64(n+1))
		}
		switch rs.b % 6 {
		case 0:
			m = 1 + int((rs.b>>8)%64)
		case 1:
			m = n - off
		case 2:
			m = n - off + 1
		case 3:
			m = 1 + int((rs.b>>8)%65536)
		default:
			m = 1 + int((rs.b>>8)%4096)
		}
		if m <= 0 {
			m = 1
		}
		if m > len(g.ra) {
			m = len(g.ra)
		}
		g.cnt[cRangeReads] += 2
		n1, e1 := r.ReadAt(g.ra[:m], int64(off))
		g.yield(o, uint(1+i))
		var second io.ReaderAt = r
		if rs.b>>40&1 == 1 {
			second = r.GetReaderAt()
			g.cnt[cRangeViaReaderAt]++
		}
		n2, e2 := second.ReadAt(g.rb[:m], int64(off))
		for j, x := range []struct {
			p   []byte
			n   int
			err error
		}{{g.ra[:m], n1, e1}, {g.rb[:m], n2, e2}} {
			if cl, what := checkRange(full, x.p, off, x.n, x.err); cl != "" {
				g.violate(cl, src, what, map[string]any{"key": o.key, "writer": v.wid, "which_read": j + 1})
			}
		}
		if n1 != n2 || !bytes.Equal(g.ra[:n1], g.rb[:n2]) {
			g.violate("read:double-read-differs", src, "two ReadAt of the same range through one open Reader returned different results", map[string]any{"key": o.key, "writer": v.wid, "off": off, "len": m})
		}
	}

	if o.hold {
		h := heldReader{rd: r, key: o.key, wid: v.wid, n: n, src: src, getRet: getRet}
		if v.wid < 0 {
			h.short = append([]byte(nil), full...) // before g.full is reused below
		}
		if len(g.held) >= 3 {
			g.rereadOldest()
		}
		g.held = append(g.held, h)
		g.cnt[cHeld]++
		return
	}
	r.Close()
}

// rereadOldest reads the oldest held Reader again: it must still yield the very same value.
func (g *gstate) rereadOldest() {
	if len(g.held) == 0 {
		return
	}
	h := g.held[0]
	g.held = g.held[1:]
	g.cnt[cReread]++
	n, err := h.rd.ReadAt(g.full[:readCap], 0)
	ex := map[string]any{"key": h.key, "writer": h.wid, "first_read_bytes": h.n, "reread_bytes": n}
	switch {
	case err != nil && err != io.EOF:
		g.violate("held:read-error", h.src, "ReadAt on a Reader that is still open (held across other operations) failed: "+errClass("ReadAt", err), ex)
	case n != h.n:
		g.violate("held:length-changed", h.src, fmt.Sprintf("a Reader held open yielded %d bytes at first and %d bytes later", h.n, n), ex)
	default:
		off := -1
		if h.wid < 0 {
			if !bytes.Equal(g.full[:n], h.short) {
				off = 0
			}
		} else {
			off = firstMismatch(g.full[:n], g.rd.salt, h.key, h.wid, h.n)
		}
		if off >= 0 {
			ex["first_mismatch_offset"] = off
			g.violate("held:content-changed", h.src, "a Reader held open yielded a committed value at first and different bytes later (buffer recycled / descriptor reused while referenced)", ex)
		} else {
			g.cnt[cBytesVerified] += int64(n)
		}
	}
	g.note("reread", h.key, h.wid, n, h.src)
	h.rd.Close()
}

func (g *gstate) run() {
	for i := range g.rd.script[g.id] {
		o := &g.rd.script[g.id][i]
		g.cur = i
		switch o.kind {
		case opWrite:
			g.doWrite(o)
		case opRead:
			g.doRead(o)
		case opReread:
			g.rereadOldest()
		}
	}
	for len(g.held) > 0 {
		g.rereadOldest()
	}
}

// ---------------------------------------------------------------------------
// round driver

// drainBudget: total wall time this (child) process may still spend waiting for
// asynchronous commits; on a healthy tree a round drains within milliseconds.
var drainBudget = 20 * time.Second

// cpuMillis: user+system CPU time of this process (rounds run one after the other).
func cpuMillis() int64 {
	var ru syscall.Rusage
	if syscall.Getrusage(syscall.RUSAGE_SELF, &ru) != nil {
		return 0
	}
	return (ru.Utime.Sec+ru.Stime.Sec)*1000 + int64(ru.Utime.Usec+ru.Stime.Usec)/1000
}

func countWip(dir string) int {
	ents, err := os.ReadDir(filepath.Join(dir, "wip"))
	if err != nil {
		return -1
	}
	return len(ents)
}

func runRound(r *vf.Run, rd *round, bufs [][]byte) (goOn bool) {
	r.Eval(1)
	cpu0 := cpuMillis()
	defer func() {
		r.Count(fmt.Sprintf("cpu_ms[%s direct=%v syncAdd=%v fadv=%v]", rd.cfg.Kind, rd.cfg.Direct, rd.cfg.SyncAdd, rd.cfg.Fadv), int(cpuMillis()-cpu0))
	}()
	root := filepath.Join(r.Scratch, fmt.Sprintf("round-%d", rd.idx))
	c, dir, ev, err := newCache(rd.cfg, root)
	if err != nil {
		r.Inconclusive("cannot construct cache: " + errClass("new", err))
		return true
	}
	rd.c, rd.dir = c, dir
	gs := make([]*gstate, rd.nG)
	for i := range gs {
		b := bufs[i]
		gs[i] = &gstate{r: r, rd: rd, id: i, errs: map[string]int{},
			genA: b[0:maxLen], genB: b[maxLen : 2*maxLen], full: b[2*maxLen : 2*maxLen+readCap],
			ra: b[2*maxLen+readCap : 2*maxLen+readCap+65536], rb: b[2*maxLen+readCap+65536 : 2*maxLen+readCap+2*65536]}
	}
	var wg sync.WaitGroup
	start := make(chan struct{})
	for i := range gs {
		wg.Add(1)
		go func(g *gstate) {
			defer wg.Done()
			<-start
			g.run()
		}(gs[i])
	}
	finished := r.Watchdog(10*time.Minute, "round did not finish", func() {
		close(start)
		wg.Wait()
	})
	if !finished {
		return false // goroutines leaked and still use the scratch buffers: stop the run (inconclusive recorded)
	}

	var tot [nCounters]int64
	for _, g := range gs {
		for i, v := range g.cnt {
			tot[i] += v
		}
		for e := range g.errs {
			r.Distinct("error_classes", e)
		}
	}

	// Quiescence, decided on state: every writer that was closed without Commit/Abort leaves
	// exactly one file in wip/, every other wip file disappears (rename or remove) when its
	// (possibly asynchronous) commit finished. Waiting for that only makes the final sweep
	// more useful (more hits) and keeps Close() free of "failed to commit" noise; the sweep
	// is judged by the same oracle whether or not the cache is quiescent (a miss is always
	// fine), so the wait is bounded tightly (per round and per run) and decides no verdict.
	drained := true
	if dir != "" {
		want := int(tot[cCloseOnly])
		limit := 5 * time.Second
		if drainBudget < limit {
			limit = drainBudget
		}
		t := time.Now()
		for countWip(dir) != want {
			if time.Since(t) > limit {
				drained = false
				break
			}
			time.Sleep(time.Millisecond)
		}
		if !drained {
			drainBudget -= time.Since(t)
			if drainBudget < 200*time.Millisecond {
				drainBudget = 200 * time.Millisecond
			}
			r.Inconclusive("asynchronous commits did not drain (wip/ not in its expected final state) before the final sweep; sweep judged anyway")
		}
	}
	// Final sweep (single goroutine): every key, default and Direct Get.
	sweepHits := 0
	{
		g := gs[0]
		g.cur = -1
		before := g.cnt[cHit]
		for k := 0; k < rd.nKeys; k++ {
			for _, d := range []bool{false, true} {
				o := op{kind: opRead, key: k, direct: d, ranges: []rng2{{uint64(k)*7 + 4, uint64(k)*11 + 4}}}
				g.doRead(&o)
			}
		}
		sweepHits = int(g.cnt[cHit] - before)
		r.Count("final_sweep_hits", sweepHits)
		if drained {
			r.Count("rounds_drained_before_sweep", 1)
		}
	}
	c.Close()
	if dir != "" {
		os.RemoveAll(root)
	}

	for i, v := range tot {
		if v != 0 {
			r.Count(counterName[i], int(v))
		}
	}
	r.Count("evictions_data_lru(dir-prod wiring only)", int(ev.data.Load()))
	r.Count("evictions_fd_lru(dir-prod wiring only)", int(ev.fd.Load()))
	r.Count("rounds_"+rd.cfg.Kind, 1)
	r.Distinct("configurations", fmt.Sprintf("%s direct=%v syncAdd=%v fadv=%v", rd.cfg.Kind, rd.cfg.Direct, rd.cfg.SyncAdd, rd.cfg.Fadv))
	r.Distinct("lru_capacities(data,fd)", fmt.Sprintf("%d,%d", rd.cfg.CapData, rd.cfg.CapFd))

	// Non-triviality: the round verified hits from every tier its configuration can serve
	// from, re-read at least one held Reader, and saw values written by other goroutines.
	nt := tot[cHit] >= 10 && tot[cReread] >= 1 && tot[cHitOfOtherGoroutine] >= 1
	if rd.cfg.Kind != "memory" {
		nt = nt && tot[cHitFile] >= 1
		if !rd.cfg.Direct {
			nt = nt && tot[cHitMem] >= 1
		}
	}
	if nt {
		r.NonTrivial(rd.describe() + fmt.Sprintf(" salt=%x", rd.salt))
	}
	if rd.idx < 4 || (rd.idx%17 == 16 && rd.idx < 40) {
		r.Sample(map[string]any{"round": rd.describe(), "gets": tot[cGet], "hits_verified": tot[cHit], "hits_memory": tot[cHitMem], "hits_file": tot[cHitFile], "misses": tot[cMiss],
			"commits": tot[cCommit], "aborts": tot[cAbort], "closed_without_commit": tot[cCloseOnly], "held_rereads": tot[cReread], "final_sweep_hits": sweepHits,
			"evictions_data": ev.data.Load(), "evictions_fd": ev.fd.Load(), "first_ops_of_goroutine_0": sampleOps(rd, 0, 6)})
	}
	return true
}

func sampleOps(rd *round, g, n int) []string {
	var res []string
	for i, o := range rd.script[g] {
		if i >= n {
			break
		}
		switch o.kind {
		case opWrite:
			wp := rd.ws[o.w]
			s := fmt.Sprintf("write key%d writer%d len=%d cuts=%v addDirect=%v -> %s", o.key, o.w, wp.length, wp.cuts, wp.direct, fateName[wp.fate])
			if o.w2 >= 0 {
				w2 := rd.ws[o.w2]
				s += fmt.Sprintf(" + duplicate writer%d len=%d -> %s", o.w2, w2.length, fateName[w2.fate])
			}
			res = append(res, s)
		case opRead:
			res = append(res, fmt.Sprintf("read key%d direct=%v passthrough=%v ranges=%d hold=%v", o.key, o.direct, o.pass, len(o.ranges), o.hold))
		default:
			res = append(res, "reread oldest held reader")
		}
	}
	return res
}

var attribution = []string{"cache.", "util/cacheutil."}

const roundsPerChild = 17 // one child process = every configuration once

func numRounds(r *vf.Run) int {
	n := r.N(17*3, 17*10) // every configuration 3 / 10 times (capacities, goroutine and key counts redrawn each time)
	if v, err := strconv.Atoi(os.Getenv("C11_ROUNDS")); err == nil && v > 0 {
		n = v // development only (timing experiments); a run below the floor exits 3
	}
	return n
}

// body of the top-level (plain) process: the workload runs in race-build children, 17
// rounds each, because a broken cache does not only return wrong bytes: it can panic inside
// bytes.Buffer or die with "fatal error: concurrent map writes" in its own commit goroutine,
// which no recover() in the harness can catch. A child that dies is a violation
// (crash:<what>@<innermost cache frame>), the rounds it completed are kept (partial result
// flushed after every round) and the run resumes after the round that crashed.
func body(r *vf.Run) {
	if r.Child != "" {
		childBody(r)
		return
	}
	n := numRounds(r)
	journal := filepath.Join(r.Scratch, "journal")
	next, crashes := 0, 0
	for next < n && crashes <= 3 && r.Violations() <= 25 {
		to := next + roundsPerChild
		if to > n {
			to = n
		}
		_ = os.Remove(journal)
		ex := r.RunChild(vf.ChildSpec{Stage: "rounds", Args: []string{strconv.Itoa(next), strconv.Itoa(to), journal}, Race: true,
			Timeout: 25 * time.Minute, Attribution: attribution})
		accountHarnessVisibleRaces(r, ex.Races)
		last := lastBegun(journal)
		switch {
		case ex.TimedOut:
			r.Inconclusive(fmt.Sprintf("child watchdog (25 min for %d rounds) fired", to-next))
			crashes++
		case ex.ExitCode != 0 || !ex.Partial:
			crashes++
			kind, site := classifyCrash(ex.Output)
			r.Violate("crash:"+kind+"@"+site, "the process running the cache workload died: "+kind+" (innermost frame of the cache: "+site+")",
				map[string]any{"round_index": last, "exit_code": ex.ExitCode, "signal": ex.Signal, "output_head": crashHead(ex.Output),
					"how_to_rerun": fmt.Sprintf("VERIF_SEED=%d /verif/run.sh C11 %s", r.Seed, r.Tier)})
		default:
			next = to
			continue
		}
		if last < next {
			last = next // died before the first round began: skip it all the same (bounded by `crashes`)
		}
		next = last + 1
	}
	r.Assume("CLOCK_MONOTONIC is consistent across CPUs (orders the commit-call stamp of a writer against the return of a Get)")
	r.Assume("the harness copy of fs/layer.newCache's wiring (buffer pool, LRU OnEvicted callbacks) is what production builds; newCache itself is unexported")
	r.Assume("splitmix64 value generator: two different (key, writer) values do not collide on a compared range")
}

// childBody runs rounds [from,to) and journals every round before it starts.
func childBody(r *vf.Run) {
	if len(r.ChildArgs) != 3 {
		r.Inconclusive("child started without arguments")
		return
	}
	from, _ := strconv.Atoi(r.ChildArgs[0])
	to, _ := strconv.Atoi(r.ChildArgs[1])
	jf, _ := os.OpenFile(r.ChildArgs[2], os.O_WRONLY|os.O_CREATE|os.O_APPEND, 0o644)
	configs := allConfigs()
	r.Set("workload_ran_in_race_build", r.RaceBuild)
	// Per-goroutine scratch (value to write x2, full read, two range reads) lives outside
	// the Go heap: 29 MB of permanently live heap would only inflate the GC target and with
	// it the number of fresh (page-faulting, shadow-mapped) pages the race build touches.
	bufs := make([][]byte, 32)
	for i := range bufs {
		b, err := syscall.Mmap(-1, 0, 2*maxLen+readCap+2*65536, syscall.PROT_READ|syscall.PROT_WRITE, syscall.MAP_ANON|syscall.MAP_PRIVATE)
		if err != nil {
			b = make([]byte, 2*maxLen+readCap+2*65536)
		}
		bufs[i] = b
	}
	for i := from; i < to; i++ {
		if jf != nil {
			fmt.Fprintf(jf, "BEGIN %d\n", i)
			jf.Sync()
		}
		rd := genRound(r, i, configs)
		if !runRound(r, rd, bufs) {
			break
		}
		r.FlushPartial()
		if i%8 == 7 {
			runtime.GC() // lets the runtime close wip files leaked by writers closed without commit
		}
		if r.Violations() > 25 {
			break
		}
	}
}

func lastBegun(journal string) int {
	b, err := os.ReadFile(journal)
	if err != nil {
		return -1
	}
	last := -1
	for _, l := range strings.Split(string(b), "\n") {
		var i int
		if _, err := fmt.Sscanf(l, "BEGIN %d", &i); err == nil {
			last = i
		}
	}
	return last
}

var hexAddr = regexp.MustCompile(`0x[0-9a-f]+`)

// classifyCrash finds the first "panic:" / "fatal error:" line of the child's output and
// the innermost frame of the crashing goroutine that lies in the cache packages (else the
// innermost frame at all). Numbers are stripped so that the key is stable.
func classifyCrash(path string) (kind, site string) {
	kind, site = "died-without-message", "unknown"
	b, err := os.ReadFile(path)
	if err != nil {
		return
	}
	lines := strings.Split(string(b), "\n")
	start := -1
	for i, l := range lines {
		if strings.HasPrefix(l, "panic: ") || strings.HasPrefix(l, "fatal error: ") || strings.HasPrefix(l, "unexpected fault address") {
			k := hexAddr.ReplaceAllString(l, "ADDR")
			k = digits.ReplaceAllString(k, "N")
			if len(k) > 120 {
				k = k[:120]
			}
			kind, start = k, i
			break
		}
	}
	if start < 0 {
		return
	}
	first := ""
	inTrace := false
	for _, l := range lines[start+1:] {
		if strings.HasPrefix(l, "goroutine ") {
			if inTrace {
				break // only the first (crashing) goroutine
			}
			inTrace = true
			continue
		}
		if !inTrace || l == "" || strings.HasPrefix(l, "\t") || strings.HasPrefix(l, "[") {
			continue
		}
		fn := l
		if i := strings.LastIndex(fn, "("); i > 0 {
			fn = fn[:i]
		}
		if first == "" && !strings.HasPrefix(fn, "panic") && !strings.HasPrefix(fn, "runtime.") {
			first = fn
		}
		if strings.Contains(fn, "stargz-snapshotter/cache.") || strings.Contains(fn, "stargz-snapshotter/util/cacheutil.") {
			return kind, strings.TrimPrefix(fn, "github.com/containerd/stargz-snapshotter/")
		}
	}
	if first != "" {
		site = first
	}
	return
}

func crashHead(path string) string {
	b, err := os.ReadFile(path)
	if err != nil {
		return ""
	}
	s := string(b)
	for _, m := range []string{"panic: ", "fatal error: "} {
		if i := strings.Index(s, m); i >= 0 {
			s = s[i:]
			break
		}
	}
	if len(s) > 3000 {
		s = s[:3000]
	}
	return s
}

// accountHarnessVisibleRaces: a report in which NEITHER access stack has a frame inside
// the stargz-snapshotter module is "unattributed" for vf. The harness itself shares no
// bytes.Buffer, byte slice or *os.File between goroutines (scripts are immutable, scratch
// buffers are per goroutine), so a race whose two sides are harness frames touching memory
// through bytes.*/os.*/syscall (the cache handed the same buffer or descriptor to both)
// still counts against the property.
func accountHarnessVisibleRaces(r *vf.Run, reps []vf.RaceReport) {
	for _, rep := range reps {
		a, b := rep.InnermostRepoFrames()
		if a != "" || b != "" {
			continue // has repo frames: vf's attribution decided
		}
		fa, fb := rep.InnermostFrames()
		inHarness := func(st []string) bool {
			for _, f := range st {
				if strings.HasPrefix(f, "main.") {
					return true
				}
			}
			return false
		}
		if !inHarness(rep.Access[0]) || !inHarness(rep.Access[1]) {
			continue
		}
		fr := []string{fa, fb}
		sort.Strings(fr)
		r.Violate("race:shared-buffer-seen-from-harness:"+fr[0]+"|"+fr[1],
			"data race between two harness goroutines on memory that only the cache can have handed to both (a buffer or descriptor shared while in use)", map[string]any{"report": rep.Text})
	}
}

// tuneRaceRuntime re-executes the race build once with one extra ThreadSanitizer runtime
// flag. By default tsan resets the shadow of every allocation above 64 KiB (each growth of
// a bytes.Buffer inside the cache beyond that) by re-mmap()ing it; on this (virtualised,
// loaded) machine the mmap + TLB shootdown + re-faulting costs 100-300 ms per buffer and
// serialises all threads (measured: one memory-cache round 12 s -> 0.6 s with the flag).
// The flag only changes HOW shadow is cleared (memset instead of mmap), not what is detected.
func tuneRaceRuntime() {
	const flag = "clear_shadow_mmap_threshold"
	if !raceBuild || strings.Contains(os.Getenv("GORACE"), flag) {
		return
	}
	self, err := os.Executable()
	if err != nil {
		return
	}
	os.Setenv("GORACE", strings.TrimSpace(os.Getenv("GORACE")+" "+flag+"=1073741824"))
	_ = syscall.Exec(self, os.Args, os.Environ()) // same pid, same race log name; on failure just carry on
}

func main() {
	tuneRaceRuntime()
	vf.Main("C11", "exploration",
		"each case is one round: a fresh cache of one configuration (directory cache x {Direct,SyncAdd,FadvDontNeed} x {layer.newCache wiring, default wiring} or the memory cache; LRU capacities 1-4), "+
			"8-32 goroutines x 30-90 scripted ops over a key set larger than both LRU capacities, all drawn from the seed; "+
			"non-trivial = the round fully verified >=10 hits, among them values written by another goroutine, hits from every tier the configuration serves from (memory LRU and file for non-direct directory caches, file for direct ones), and re-read at least one Reader held open across other operations; distinct by round script",
		15, 50, body)
}
