package main

// Stage "hostile" (race build, own child process because a frozen bolt DB cannot be closed):
//
//  1. failing sibling: healthy layers are opened in ONE bolt file concurrently with layers whose
//     background load fails INSIDE its bolt batch (hardlink to a missing target). bolt coalesces
//     concurrent Batch calls into one transaction and, when one function fails, rolls back and
//     re-runs the others; every healthy layer must still walk equal to its private-DB walk.
//  2. freeze: several goroutines hammer GetChild/GetAttr/ForeachChild on an already loaded
//     survivor while 10-20 sizeable layers are opened (and half of them closed) in the same
//     bolt file opened with DEFAULT bolt options (32 KiB initial size: the file is re-mapped at
//     every doubling). Progress is decided on state (all openers and walkers finished). No
//     progress for a long time is a violation only when two goroutine dumps 5 s apart show the
//     same goroutines parked in bbolt's beginTx and a writer parked in (*DB).mmap, i.e. the
//     reader/re-map deadlock; otherwise it is inconclusive (slow machine).

import (
	"archive/tar"
	"fmt"
	"os"
	"path/filepath"
	"regexp"
	"runtime"
	"sort"
	"strings"
	"sync"
	"sync/atomic"
	"time"

	"github.com/containerd/stargz-snapshotter/metadata"
	bolt "go.etcd.io/bbolt"

	"verifharness/internal/gen"
	"verifharness/internal/prng"
	"verifharness/internal/vf"
)

func stageHostile(r *vf.Run) {
	t0 := time.Now()
	failingSibling(r)
	r.Logf("failing-sibling rounds: %v", time.Since(t0))
	r.FlushPartial()
	t0 = time.Now()
	failingBatchClients(r)
	r.Logf("failing-batch-client rounds: %v", time.Since(t0))
	r.FlushPartial()
	t0 = time.Now()
	for k := 0; k < r.N(3, 10); k++ {
		if frozen := freezeRound(r, k); frozen {
			break // the DB of this process is dead; nothing more can be learnt here
		}
		r.FlushPartial()
	}
	r.Logf("freeze rounds: %v", time.Since(t0))
}

// ---------------------------------------------------------------------------
// 1. failing sibling

func failingBlob(rng *prng.R, v int) []byte {
	b := &hb{rng: rng, next: rng.U64() | 1, c: 64}
	b.dir("f/", 0o755)
	for i := 0; i < 3+v; i++ {
		b.reg(fmt.Sprintf("f/x%d", i), 1+int64(i))
	}
	b.link("f/l", "f/missing-target") // spec violation that db.initNodes rejects inside its batch
	b.reg("f/after", 9)
	return assemble(handSpec{Entries: b.es, Level: 1}).Blob
}

func healthyCase(r *vf.Run, k int) *oneCase {
	rng := r.RNG(7000, uint64(k))
	feats := [][]string{
		{"implicit", "hardchain", "nodigest", "dotnames", "innershared"},
		{"hardchain", "dotnames"}, {"implicit"}, {"innershared", "nodigest"}, {"dupdir", "emptyxattr", "rootentry"},
	}[k%5]
	return handCase(rng, append([]string(nil), feats...), false)
}

func failingSibling(r *vf.Run) {
	const nHealthyKinds = 5
	healthy := make([]*oneCase, nHealthyKinds)
	alone := make([]*Dump, nHealthyKinds)
	probe := prng.Hash64(r.Seed, 4242)
	for k := range healthy {
		healthy[k] = healthyCase(r, k)
		p := filepath.Join(r.Scratch, fmt.Sprintf("fs-alone-%d.db", k))
		bdb, err := openBolt(p)
		if err != nil {
			r.Inconclusive("cannot open bolt file")
			return
		}
		if o := openDB(bdb, healthy[k]); o.err == nil {
			alone[k] = walk("db-alone", o.r, healthy[k].Blob, r.RNG(7001, uint64(k)), probe, healthy[k].Truth, 0, true)
			o.r.Close()
		}
		bdb.Close()
		os.Remove(p)
	}
	var failing [][]byte
	for v := 0; v < 3; v++ {
		failing = append(failing, failingBlob(r.RNG(7002, uint64(v)), v))
	}
	rounds := r.N(25, 150)
	sawFailure, broken := 0, 0
	for round := 0; round < rounds; round++ {
		rng := r.RNG(7003, uint64(round))
		p := filepath.Join(r.Scratch, fmt.Sprintf("fs-%d.db", round))
		bdb, err := openBolt(p)
		if err != nil {
			r.Inconclusive("cannot open bolt file")
			return
		}
		nh, nf := rng.Range(2, 4), rng.Range(1, 4)
		type res struct {
			kind    int // healthy kind, -1 = failing
			openErr error
			loadErr error
			d       *Dump
		}
		rs := make([]*res, nh+nf)
		order := rng.Perm(nh + nf)
		start := make(chan struct{})
		var wg sync.WaitGroup
		for slot := 0; slot < nh+nf; slot++ {
			x := &res{kind: -1}
			if order[slot] < nh {
				x.kind = rng.Intn(nHealthyKinds)
			}
			rs[slot] = x
			fb := failing[rng.Intn(len(failing))]
			wrng := r.RNG(7004, uint64(round), uint64(slot))
			wg.Add(1)
			go func(x *res) {
				defer wg.Done()
				<-start
				if x.kind < 0 {
					rd, err := openDBBlob(bdb, fb)
					x.openErr = err
					if err == nil {
						_, _, x.loadErr = rd.GetChild(rd.RootID(), "f")
						_ = rd.Close()
					}
					return
				}
				cs := healthy[x.kind]
				o := openDB(bdb, cs)
				x.openErr = o.err
				if o.err != nil {
					return
				}
				x.d = walk("db-with-failing-sibling", o.r, cs.Blob, wrng, probe, cs.Truth, 0, true)
				_ = o.r.Close()
			}(x)
		}
		close(start)
		wg.Wait()
		r.Eval(1)
		roundSawFailure := false
		for slot, x := range rs {
			idx := fmt.Sprintf("failing-sibling-%d-slot-%d", round, slot)
			if x.kind < 0 {
				if x.openErr != nil || x.loadErr != nil {
					roundSawFailure = true
					r.Distinct("failing_sibling_rejections", errShape(firstErr(x.openErr, x.loadErr)))
				} else {
					r.Count("failing_sibling:invalid_layer_accepted(not judged here)", 1)
				}
				continue
			}
			cs := healthy[x.kind]
			if alone[x.kind] == nil {
				continue
			}
			if x.openErr != nil {
				broken++
				r.Violate("sharing:failing-sibling:healthy-layer-open-fails", "a valid layer cannot be opened while a layer whose load fails is opened in the same bolt file: "+x.openErr.Error(),
					map[string]any{"case": idx, "desc": cs.Desc})
				continue
			}
			countDump(r, x.d)
			c := compareDumps("sharing", "alone", "shared", alone[x.kind], x.d, cs.Facts)
			initBroken := (alone[x.kind].InitErr == "") != (x.d.InitErr == "")
			if len(c.out) > 0 || initBroken {
				broken++
				det := map[string]any{"case": idx, "desc": cs.Desc, "init_error_of_the_healthy_layer": x.d.InitErr}
				var ks []string
				for _, f := range c.out {
					ks = append(ks, f.Key+" @"+f.Path)
				}
				sort.Strings(ks)
				if len(ks) > 12 {
					ks = ks[:12]
				}
				det["differences_to_the_private_db_walk"] = ks
				for k, v := range cs.Replay {
					det[k] = v
				}
				r.Violate("sharing:failing-sibling:healthy-layer-differs", "a valid layer opened concurrently with a layer whose background load fails (hardlink to a missing target) in the same bolt file answers differently from the same blob alone in a private bolt file", det)
				r.Distinct("divergence_keys", "sharing:failing-sibling:healthy-layer-differs")
			}
		}
		if roundSawFailure {
			sawFailure++
			r.NonTrivial(fmt.Sprintf("failing-sibling:%d:%v", round, order))
		}
		bdb.Close()
		os.Remove(p)
	}
	r.Count("failing_sibling_rounds", rounds)
	r.Count("failing_sibling_rounds_where_the_sibling_failed", sawFailure)
	r.Count("failing_sibling_healthy_layers_broken", broken)
}

func firstErr(es ...error) error {
	for _, e := range es {
		if e != nil {
			return e
		}
	}
	return nil
}

// ---------------------------------------------------------------------------
// 1b. failing Batch functions of OTHER clients while healthy layers load
//
// The later stages of the db store's TOC load (metadata buckets, stream buckets) and
// initRootNode still go through db.Batch, so they are re-run whenever another client's
// function in the same coalesced batch fails. Any client can make one fail with an ordinary
// call sequence: Close() twice, or Close() of a reader and of its Clone (they share the
// bucket; the memory store's Close is a no-op). Several goroutines keep doing exactly that
// while healthy layers are opened concurrently; every healthy layer must equal its
// private-DB walk (tree, attrs, chunk table, bytes).
func failingBatchClients(r *vf.Run) {
	const nKinds = 5
	healthy := make([]*oneCase, nKinds)
	alone := make([]*Dump, nKinds)
	probe := prng.Hash64(r.Seed, 4343)
	for k := range healthy {
		healthy[k] = healthyCase(r, k)
		p := filepath.Join(r.Scratch, fmt.Sprintf("fb-alone-%d.db", k))
		bdb, err := openBolt(p)
		if err != nil {
			r.Inconclusive("cannot open bolt file")
			return
		}
		if o := openDB(bdb, healthy[k]); o.err == nil {
			alone[k] = walk("db-alone", o.r, healthy[k].Blob, r.RNG(7101, uint64(k)), probe, healthy[k].Truth, 0, true)
			o.r.Close()
		}
		bdb.Close()
		os.Remove(p)
	}
	rounds := r.N(20, 100)
	broken, roundsWithFailures := 0, 0
	for round := 0; round < rounds; round++ {
		rng := r.RNG(7103, uint64(round))
		p := filepath.Join(r.Scratch, fmt.Sprintf("fb-%d.db", round))
		bdb, err := openBolt(p)
		if err != nil {
			r.Inconclusive("cannot open bolt file")
			return
		}
		// the other clients' readers: one already closed, one closed with a live clone
		var victims []metadata.Reader
		if o := openDB(bdb, healthy[rng.Intn(nKinds)]); o.err == nil {
			_, _, _ = o.r.GetChild(o.r.RootID(), "x")
			_ = o.r.Close()
			victims = append(victims, o.r) // every further Close is a failing bolt Batch function
		}
		if o := openDB(bdb, healthy[rng.Intn(nKinds)]); o.err == nil {
			if c, err := o.r.Clone(section(healthy[0].Blob)); err == nil {
				_ = o.r.Close()
				victims = append(victims, c) // Close of the clone of a closed reader
			} else {
				_ = o.r.Close()
			}
		}
		if len(victims) == 0 {
			bdb.Close()
			os.Remove(p)
			continue
		}
		const nClosers = 3
		var failedCloses [nClosers]atomic.Int64
		stop := make(chan struct{})
		var cwg sync.WaitGroup
		for g := 0; g < nClosers; g++ {
			cwg.Add(1)
			go func(g int) {
				defer cwg.Done()
				for {
					select {
					case <-stop:
						return
					default:
					}
					for _, v := range victims {
						if err := v.Close(); err != nil {
							failedCloses[g].Add(1)
						}
					}
				}
			}(g)
		}
		nh := rng.Range(4, 7)
		type res struct {
			kind    int
			openErr error
			d       *Dump
		}
		rs := make([]*res, nh)
		start := make(chan struct{})
		var wg sync.WaitGroup
		for slot := 0; slot < nh; slot++ {
			x := &res{kind: rng.Intn(nKinds)}
			rs[slot] = x
			wrng := r.RNG(7104, uint64(round), uint64(slot))
			wg.Add(1)
			go func(x *res) {
				defer wg.Done()
				<-start
				cs := healthy[x.kind]
				o := openDB(bdb, cs)
				x.openErr = o.err
				if o.err != nil {
					return
				}
				x.d = walk("db-with-failing-batch-clients", o.r, cs.Blob, wrng, probe, cs.Truth, 0, true)
				_ = o.r.Close()
			}(x)
		}
		close(start)
		wg.Wait()
		close(stop)
		cwg.Wait()
		r.Eval(1)
		var nfail int64
		for g := range failedCloses {
			nfail += failedCloses[g].Load()
		}
		r.Count("failing_batch_client:failed_Close_calls_of_other_clients(memory: nil; not judged)", int(nfail))
		if nfail > 0 {
			roundsWithFailures++
			r.NonTrivial(fmt.Sprintf("failing-batch-client:%d", round))
		}
		for slot, x := range rs {
			idx := fmt.Sprintf("failing-batch-client-%d-slot-%d", round, slot)
			cs := healthy[x.kind]
			if alone[x.kind] == nil {
				continue
			}
			if x.openErr != nil {
				broken++
				r.Violate("sharing:failing-batch-client:healthy-layer-open-fails", "a valid layer cannot be opened while other clients of the same bolt file make failing calls (double Close / Close of a clone): "+x.openErr.Error(), map[string]any{"case": idx, "desc": cs.Desc})
				continue
			}
			countDump(r, x.d)
			c := compareDumps("sharing", "alone", "shared", alone[x.kind], x.d, cs.Facts)
			if len(c.out) > 0 || (alone[x.kind].InitErr == "") != (x.d.InitErr == "") {
				broken++
				det := map[string]any{"case": idx, "desc": cs.Desc, "init_error_of_the_healthy_layer": x.d.InitErr, "failed_Close_calls_of_other_clients_in_this_round": nfail}
				var ks []string
				for _, f := range c.out {
					ks = append(ks, fmt.Sprintf("%s @%s: %v", f.Key, f.Path, f.Detail["shared"]))
				}
				sort.Strings(ks)
				if len(ks) > 12 {
					ks = ks[:12]
				}
				det["differences_to_the_private_db_walk"] = ks
				for k, v := range cs.Replay {
					det[k] = v
				}
				r.Violate("sharing:failing-batch-client:healthy-layer-differs", "a valid layer opened while other clients of the same bolt file call Close() on an already closed reader / on the clone of a closed reader (each a failing bolt Batch function) answers differently from the same blob alone in a private bolt file", det)
				r.Distinct("divergence_keys", "sharing:failing-batch-client:healthy-layer-differs")
			}
		}
		bdb.Close()
		os.Remove(p)
	}
	r.Count("failing_batch_client_rounds", rounds)
	r.Count("failing_batch_client_rounds_with_failed_calls", roundsWithFailures)
	r.Count("failing_batch_client_healthy_layers_broken", broken)
}

// ---------------------------------------------------------------------------
// 2. freeze

// bigBlob: dirs x files small files in ONE gzip stream (cheap to assemble, many nodes).
func bigBlob(rng *prng.R, tag, dirs, files int) []byte {
	b := &hb{rng: rng, next: rng.U64() | 1, c: 4096}
	first := true
	for d := 0; d < dirs; d++ {
		b.dir(fmt.Sprintf("big%d-%d/", tag, d), 0o755)
		for f := 0; f < files; f++ {
			e := b.reg(fmt.Sprintf("big%d-%d/file-with-a-rather-long-name-%d", tag, d, f), 5)
			e.Chunks, e.NewStream = nil, []bool{first}
			e.NoDigest = true
			first = false
		}
	}
	return assemble(handSpec{Entries: b.es, Level: 1}).Blob
}

type lookupTarget struct {
	pid  uint32
	base string
	id   uint32
	want string
	dir  bool
}

var goroutineHdr = regexp.MustCompile(`^goroutine (\d+) \[([^\]]*)\]:`)

type dumpFacts struct {
	parkedBegin map[string]bool // goroutine ids parked inside bbolt beginTx
	remapWriter map[string]bool // goroutine ids parked in (*DB).mmap / allocate waiting for the mmap lock
	nested      int             // goroutines with two (*DB).View frames (a read tx begun inside a read tx)
	excerpt     string
}

func analyseDump() dumpFacts {
	buf := make([]byte, 32<<20)
	n := runtime.Stack(buf, true)
	f := dumpFacts{parkedBegin: map[string]bool{}, remapWriter: map[string]bool{}}
	var ex []string
	for _, blk := range strings.Split(string(buf[:n]), "\n\n") {
		m := goroutineHdr.FindStringSubmatch(blk)
		if m == nil || !strings.Contains(blk, "go.etcd.io/bbolt.") {
			continue
		}
		waiting := strings.Contains(m[2], "sync.RWMutex") || strings.Contains(m[2], "sync.Mutex") || strings.Contains(m[2], "semacquire")
		hit := false
		if waiting && strings.Contains(blk, "bbolt.(*DB).beginTx") {
			f.parkedBegin[m[1]] = true
			hit = true
		}
		if waiting && strings.Contains(blk, "bbolt.(*DB).mmap") {
			f.remapWriter[m[1]] = true
			hit = true
		}
		if strings.Count(blk, "bbolt.(*DB).View(") >= 2 {
			f.nested++
			hit = true
		}
		if hit && len(ex) < 6 {
			lines := strings.Split(blk, "\n")
			if len(lines) > 24 {
				lines = lines[:24]
			}
			ex = append(ex, strings.Join(lines, "\n"))
		}
	}
	f.excerpt = strings.Join(ex, "\n\n")
	return f
}

func sameKeys(a, b map[string]bool) bool {
	if len(a) != len(b) {
		return false
	}
	for k := range a {
		if !b[k] {
			return false
		}
	}
	return true
}

func freezeRound(r *vf.Run, round int) (frozen bool) {
	rng := r.RNG(8000, uint64(round))
	p := filepath.Join(r.Scratch, fmt.Sprintf("freeze-%d.db", round))
	bdb, err := bolt.Open(p, 0o600, nil) // DEFAULT options: small initial mmap, re-mapped at every doubling
	if err != nil {
		r.Inconclusive("cannot open bolt file")
		return false
	}
	cs := handCase(r.RNG(8001, uint64(round)), []string{"implicit", "hardchain", "dotnames", "innershared"}, false)
	o := openDB(bdb, cs)
	if o.err != nil {
		r.Inconclusive("freeze: survivor cannot be opened: " + errShape(o.err))
		bdb.Close()
		return false
	}
	a := o.r
	d0 := walk("db-survivor", a, cs.Blob, r.RNG(8002, uint64(round)), 1, cs.Truth, 0, true)
	var targets []lookupTarget
	for path, n := range d0.Nodes {
		if path == "" || n.Via == nil || n.Via.Err != "" {
			continue
		}
		par := ""
		base := path
		if i := strings.LastIndex(path, "/"); i >= 0 {
			par, base = path[:i], path[i+1:]
		}
		targets = append(targets, lookupTarget{pid: d0.Nodes[par].id, base: base, id: n.id, want: fmt.Sprintf("%+v", *n.Via), dir: n.Via.Mode.IsDir()})
	}
	sort.Slice(targets, func(i, j int) bool { return targets[i].want+targets[i].base < targets[j].want+targets[j].base })
	if len(targets) < 5 {
		r.Inconclusive("freeze: survivor tree too small")
		return false
	}
	nBig := rng.Range(10, 20)
	var bigs [][]byte
	for k := 0; k < 4; k++ {
		bigs = append(bigs, bigBlob(r.RNG(8003, uint64(round), uint64(k)), k, rng.Range(4, 8), rng.Range(40, 80)))
	}
	r.Eval(1)

	const nHammer = 6
	const nOpeners = 2
	var hRounds [nHammer]atomic.Int64
	var hErr [nHammer]atomic.Value
	var opened [nOpeners]atomic.Int64
	var oErr [nOpeners]atomic.Value
	stop := make(chan struct{})
	var hwg, owg sync.WaitGroup
	for g := 0; g < nHammer; g++ {
		hwg.Add(1)
		go func(g int) {
			defer hwg.Done()
			for it := 0; ; it++ {
				select {
				case <-stop:
					return
				default:
				}
				for k, t := range targets {
					id, at, err := a.GetChild(t.pid, t.base)
					got := fmt.Sprintf("%+v", *mkAttr(at, err))
					if err != nil || id != t.id || got != t.want {
						hErr[g].Store(fmt.Sprintf("GetChild(%d,%q) = %d, %s, %v; before the other layers were opened: %d, %s", t.pid, t.base, id, got, err, t.id, t.want))
						return
					}
					if (k+it+g)%5 == 0 {
						if _, err := a.GetAttr(t.id); err != nil {
							hErr[g].Store("GetAttr: " + err.Error())
							return
						}
						if t.dir {
							if err := a.ForeachChild(t.id, func(string, uint32, os.FileMode) bool { return true }); err != nil {
								hErr[g].Store("ForeachChild: " + err.Error())
								return
							}
						}
					}
				}
				hRounds[g].Add(1)
			}
		}(g)
	}
	for w := 0; w < nOpeners; w++ {
		owg.Add(1)
		go func(w int) {
			defer owg.Done()
			var keep []metadata.Reader
			for k := w; k < nBig; k += nOpeners {
				rd, err := openDBBlob(bdb, bigs[k%len(bigs)])
				if err == nil {
					_, _, err = rd.GetChild(rd.RootID(), fmt.Sprintf("big%d-0", k%len(bigs))) // waits for the load
				}
				if err != nil {
					oErr[w].Store(err.Error())
					return
				}
				if k%2 == 0 {
					if err := rd.Close(); err != nil {
						oErr[w].Store("Close: " + err.Error())
						return
					}
				} else {
					keep = append(keep, rd)
				}
				opened[w].Add(1)
			}
			for _, rd := range keep {
				_ = rd.Close()
				opened[w].Add(1)
			}
		}(w)
	}
	openersDone := make(chan struct{})
	go func() { owg.Wait(); close(openersDone) }()
	hammerDone := make(chan struct{})
	go func() { hwg.Wait(); close(hammerDone) }()

	progress := func() int64 {
		var s int64
		for g := range hRounds {
			s += hRounds[g].Load()
		}
		for w := range opened {
			s += opened[w].Load()
		}
		return s
	}
	patience := 25 * time.Second
	last, lastChange := progress(), time.Now()
	phase := "open"
	tick := time.NewTicker(100 * time.Millisecond)
	defer tick.Stop()
	stopped := false
loop:
	for {
		select {
		case <-openersDone:
			openersDone = nil
			if !stopped {
				close(stop)
				stopped = true
			}
			phase = "drain"
			if hammerDone == nil {
				break loop
			}
		case <-hammerDone:
			// normally after stop; earlier when an answer changed or failed
			hammerDone = nil
			if openersDone == nil {
				break loop
			}
		case <-tick.C:
			if cur := progress(); cur != last {
				last, lastChange = cur, time.Now()
				continue
			}
			if time.Since(lastChange) < patience {
				continue
			}
			// no operation finished for a long time: look at the goroutines, twice
			f1 := analyseDump()
			time.Sleep(5 * time.Second)
			f2 := analyseDump()
			still := progress() == last
			if still && len(f1.parkedBegin) > 0 && len(f1.remapWriter) > 0 && sameKeys(f1.parkedBegin, f2.parkedBegin) && sameKeys(f1.remapWriter, f2.remapWriter) {
				var rounds int64
				for g := range hRounds {
					rounds += hRounds[g].Load()
				}
				var op int64
				for w := range opened {
					op += opened[w].Load()
				}
				r.Violate("sharing:db-frozen:lookup-during-concurrent-open",
					fmt.Sprintf("the shared bolt DB froze while %d goroutines looked up paths of a loaded layer and other layers were being opened/closed in the same file: no operation finished for %v; two goroutine dumps 5 s apart show the same %d goroutine(s) parked in bbolt (*DB).beginTx and %d writer(s) parked in (*DB).mmap waiting for the mmap lock (%d goroutine(s) hold a read transaction begun inside another read transaction); %d lookup rounds and %d layer opens/closes had finished", nHammer, patience, len(f1.parkedBegin), len(f1.remapWriter), f1.nested, rounds, op),
					map[string]any{"round": round, "phase": phase, "layers_to_open": nBig, "goroutines": f2.excerpt, "survivor": cs.Desc})
				r.Distinct("divergence_keys", "sharing:db-frozen:lookup-during-concurrent-open")
				return true // goroutines and the DB are leaked on purpose: it cannot be closed any more
			}
			if still {
				r.Inconclusive("watchdog: freeze scenario made no progress, but the goroutine dumps do not show the bbolt beginTx/re-map deadlock (slow machine?)")
				return true
			}
			last, lastChange = progress(), time.Now()
		}
	}
	// judge what the hammerers saw
	var rounds int64
	for g := range hRounds {
		rounds += hRounds[g].Load()
		if e, _ := hErr[g].Load().(string); e != "" {
			r.Violate("sharing:lookup-answer-changed-while-other-layers-opened", "a lookup on a loaded layer failed or changed its answer while other layers were opened/closed in the same bolt file: "+errShapeS(e), map[string]any{"round": round, "what": e, "survivor": cs.Desc})
		}
	}
	for w := range oErr {
		if e, _ := oErr[w].Load().(string); e != "" {
			r.Violate("sharing:open-fails-while-lookups-run:"+errShapeS(e), "opening/closing a further layer fails while lookups run on another layer of the same bolt file: "+e, map[string]any{"round": round})
		}
	}
	_ = a.Close()
	st, _ := os.Stat(p)
	bdb.Close()
	os.Remove(p)
	var size int64
	if st != nil {
		size = st.Size()
	}
	r.Count("freeze_rounds", 1)
	r.Count("freeze_lookup_rounds_during_opens", int(rounds))
	r.Count("freeze_layers_opened", nBig)
	r.Count("freeze_bolt_file_KiB_at_end", int(size>>10))
	if size >= 8*32<<10 && rounds >= 20 {
		// the file was re-mapped at least three times while lookups were running
		r.NonTrivial(fmt.Sprintf("freeze:%d:%d", round, nBig))
		r.Count("freeze_rounds_nontrivial", 1)
	}
	return false
}

var _ = tar.TypeReg
var _ = gen.Clean
