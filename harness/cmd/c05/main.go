// C05 — memory and DB metadata stores expose the same filesystem for the same blob;
// layers in one bolt DB don't influence each other.
//
// Real code under test: metadata/memory.NewReader (estargz.Open/initFields) and
// cmd/containerd-stargz-grpc/db.NewReader (+ db.go encoders) behind metadata.Reader.
//
// Stages (children of the plain top process):
//
//	diff  (plain, several batches)  blobs from the builder under random options + hand
//	      assembled spec-conforming blobs the builder never emits; both stores are opened
//	      on each blob and walked in random operation order; path-keyed deep comparison.
//	share (race build)  2–12 layers opened concurrently in ONE bolt file, some closed while
//	      others are walked, survivors re-walked; each shared walk must equal the walk of
//	      the same blob alone in a private bolt file, the second walk must equal the first.
//	      Also concurrent walkers + Clone on one reader of either store. Race reports with a
//	      frame in cmd/containerd-stargz-grpc/db. or metadata/memory. count.
package main

import (
	"bytes"
	"crypto/sha256"
	"encoding/binary"
	"encoding/hex"
	"encoding/json"
	"fmt"
	"io"
	"os"
	"path/filepath"
	"regexp"
	"runtime/pprof"
	"sort"
	"strconv"
	"strings"
	"sync"
	"sync/atomic"
	"time"

	"github.com/containerd/log"
	dbmetadata "github.com/containerd/stargz-snapshotter/cmd/containerd-stargz-grpc/db"
	"github.com/containerd/stargz-snapshotter/metadata"
	memorymetadata "github.com/containerd/stargz-snapshotter/metadata/memory"
	digest "github.com/opencontainers/go-digest"
	"github.com/sirupsen/logrus"
	bolt "go.etcd.io/bbolt"

	"verifharness/internal/blob"
	"verifharness/internal/prng"
	"verifharness/internal/vf"
)

const rule = "a case is one blob (builder: gen.RandomTar + random build options; hand: spec-conforming TOC assembled by the check with the listed features) opened by BOTH stores and walked with a random operation order, or one sharing scenario (2-12 such blobs in one bolt file); " +
	"non-trivial = both stores accepted the blob, the comparison covered >=3 paths and the bytes of >=1 non-empty regular file were read through both stores (sharing: >=1 layer was closed while >=1 survivor was walked and re-walked); distinct by blob digest / scenario layer digests"

var attribution = []string{"cmd/containerd-stargz-grpc/db.", "metadata/memory."}

func main() {
	vf.Main("C05", "exploration", rule, 25, 250, body)
}

func body(r *vf.Run) {
	logrus.SetLevel(logrus.PanicLevel)
	log.L.Logger.SetLevel(logrus.PanicLevel)
	// db.NewReader spools the TOC through os.CreateTemp("", ""): keep it out of /tmp
	_ = os.Setenv("TMPDIR", r.Scratch)
	switch r.Child {
	case "":
		top(r)
	case "diff":
		lo, _ := strconv.Atoi(r.ChildArgs[0])
		hi, _ := strconv.Atoi(r.ChildArgs[1])
		stageDiff(r, lo, hi)
	case "share":
		prebuiltDir = r.ChildArgs[0]
		stageShare(r)
	case "hostile":
		stageHostile(r)
	}
}

// ---------------------------------------------------------------------------
// case list

func caseCounts(r *vf.Run) (nBuilder, nHand, nCombo int) {
	hl, _ := handList(r.Thorough())
	return r.N(30, 600), len(hl), r.N(4, 60)
}

func getCase(r *vf.Run, i int) *oneCase {
	return getCaseZ(r, i, r.RaceBuild)
}

func getCaseZ(r *vf.Run, i int, noZstd bool) *oneCase {
	nb, nh, _ := caseCounts(r)
	rng := r.RNG(uint64(i), 0)
	switch {
	case i < nb:
		var load func(bo blob.Opts) (*blob.Built, error)
		if prebuiltDir != "" {
			load = func(bo blob.Opts) (*blob.Built, error) { return loadPrebuilt(prebuiltDir, i, bo) }
		}
		return builderCase(rng, r.Thorough(), noZstd, load)
	case i < nb+nh:
		hl, mini := handList(r.Thorough())
		return handCase(rng, hl[i-nb], mini[i-nb])
	default:
		return handCase(rng, randomCombo(rng), false)
	}
}

// prebuiltDir: set in the race child; builder blobs come from files written by the top process.
var prebuiltDir string

type prebuiltMeta struct {
	TOCDigest string `json:"toc_digest"`
	External  bool   `json:"external"`
	Err       string `json:"err,omitempty"`
}

func savePrebuilt(dir string, i int, cs *oneCase, b []byte, ext []byte, tocDigest string, err error) {
	m := prebuiltMeta{TOCDigest: tocDigest, External: ext != nil}
	if err != nil {
		m.Err = err.Error()
	} else {
		_ = os.WriteFile(filepath.Join(dir, fmt.Sprintf("%d.blob", i)), b, 0o600)
		if ext != nil {
			_ = os.WriteFile(filepath.Join(dir, fmt.Sprintf("%d.etoc", i)), ext, 0o600)
		}
	}
	js, _ := json.Marshal(m)
	_ = os.WriteFile(filepath.Join(dir, fmt.Sprintf("%d.json", i)), js, 0o600)
}

func loadPrebuilt(dir string, i int, bo blob.Opts) (*blob.Built, error) {
	js, err := os.ReadFile(filepath.Join(dir, fmt.Sprintf("%d.json", i)))
	if err != nil {
		return nil, errSkipped // not planned for this stage
	}
	var m prebuiltMeta
	if err := json.Unmarshal(js, &m); err != nil {
		return nil, err
	}
	if m.Err != "" {
		return nil, fmt.Errorf("%s", m.Err)
	}
	b, err := os.ReadFile(filepath.Join(dir, fmt.Sprintf("%d.blob", i)))
	if err != nil {
		return nil, err
	}
	res := &blob.Built{Opts: bo, Blob: b, TOCDigest: digest.Digest(m.TOCDigest)}
	if m.External {
		if res.ExternalTOC, err = os.ReadFile(filepath.Join(dir, fmt.Sprintf("%d.etoc", i))); err != nil {
			return nil, err
		}
	}
	return res, nil
}

// sharePlan is what the race stage will run; a pure function of (seed, tier).
type sharePlan struct {
	RaceDiff  []int         `json:"race_diff"`
	Scenarios [][]planLayer `json:"scenarios"`
}

type planLayer struct {
	Cands []int  `json:"cands"` // candidate case indices, first buildable non-zstd one is used
	Idx   int    `json:"idx"`   // chosen (filled by the top process)
	Role  string `json:"role"`
}

func mkSharePlan(r *vf.Run) *sharePlan {
	nb, nh, nc := caseCounts(r)
	total := nb + nh + nc
	p := &sharePlan{}
	pr := r.RNG(999)
	for k := 0; k < r.N(12, 40); k++ {
		p.RaceDiff = append(p.RaceDiff, pr.Intn(total))
	}
	for s := 0; s < r.N(10, 40); s++ {
		rng := r.RNG(5000, uint64(s))
		k := rng.Range(2, 12)
		if !r.Thorough() && k > 8 {
			k = rng.Range(2, 8)
		}
		var ls []planLayer
		for j := 0; j < k; j++ {
			l := planLayer{Idx: -1}
			for t := 0; t < 5; t++ {
				l.Cands = append(l.Cands, rng.Intn(total))
			}
			l.Role = rng.PickS("survivor", "survivor", "close-at-once", "close-after-walk", "close-when-others-walk")
			ls = append(ls, l)
		}
		ls[0].Role = "survivor"
		if ls[1].Role == "survivor" {
			ls[1].Role = rng.PickS("close-at-once", "close-after-walk", "close-when-others-walk")
		}
		p.Scenarios = append(p.Scenarios, ls)
	}
	return p
}

// prebuild builds (plain process) every builder blob the race stage needs.
func prebuild(r *vf.Run, dir string) string {
	_ = os.MkdirAll(dir, 0o700)
	nb, _, _ := caseCounts(r)
	p := mkSharePlan(r)
	done := map[int]bool{} // index -> usable
	try := func(i int) bool {
		if ok, seen := done[i]; seen {
			return ok
		}
		if i >= nb {
			done[i] = true // hand cases are assembled in the child
			return true
		}
		cs := getCaseZ(r, i, true)
		ok := cs.BuildErr == nil
		done[i] = ok
		if cs.BuildErr == errSkipped {
			return false
		}
		if ok {
			var ext []byte
			if cs.built != nil {
				ext = cs.built.ExternalTOC
			}
			savePrebuilt(dir, i, cs, cs.Blob, ext, cs.Facts.tocTruth, nil)
		} else {
			savePrebuilt(dir, i, cs, nil, nil, "", cs.BuildErr)
		}
		return ok
	}
	for _, i := range p.RaceDiff {
		try(i)
	}
	for s := range p.Scenarios {
		for j := range p.Scenarios[s] {
			l := &p.Scenarios[s][j]
			for _, c := range l.Cands {
				if try(c) {
					l.Idx = c
					break
				}
			}
		}
	}
	js, _ := json.Marshal(p)
	pf := filepath.Join(dir, "plan.json")
	_ = os.WriteFile(pf, js, 0o600)
	return pf
}

func top(r *vf.Run) {
	nb, nh, nc := caseCounts(r)
	total := nb + nh + nc
	if only := os.Getenv("VERIF_C05_ONLY"); only != "" { // development / replay aid: run listed cases in-process
		if pf := os.Getenv("VERIF_C05_PROF"); pf != "" {
			f, _ := os.Create(pf)
			_ = pprof.StartCPUProfile(f)
			defer pprof.StopCPUProfile()
		}
		for _, f := range strings.Split(only, ",") {
			i, _ := strconv.Atoi(f)
			t0 := time.Now()
			diffCase(r, i, "")
			r.Logf("case %d took %v", i, time.Since(t0))
		}
		return
	}
	batches := r.N(3, 6)
	stages := os.Getenv("VERIF_C05_STAGES") // development aid: "diff" or "share" alone

	var wg sync.WaitGroup
	per := (total + batches - 1) / batches
	for b := 0; b < batches; b++ {
		lo, hi := b*per, (b+1)*per
		if hi > total {
			hi = total
		}
		if lo >= hi || stages == "share" || stages == "hostile" {
			continue
		}
		wg.Add(1)
		go func(lo, hi int) {
			defer wg.Done()
			ex := r.RunChild(vf.ChildSpec{Stage: "diff", Args: []string{strconv.Itoa(lo), strconv.Itoa(hi)}, Timeout: time.Duration(r.N(8, 25)) * time.Minute})
			judgeChild(r, "diff", ex)
		}(lo, hi)
	}
	if stages != "diff" && stages != "hostile" {
		wg.Add(1)
	}
	go func() {
		if stages == "diff" || stages == "hostile" {
			return
		}
		defer wg.Done()
		t0 := time.Now()
		defer func() { r.Logf("stage share took %v", time.Since(t0)) }()
		pdir := filepath.Join(r.Scratch, "prebuilt")
		prebuild(r, pdir)
		r.Logf("prebuilt the race stage's builder blobs in %v", time.Since(t0))
		ex := r.RunChild(vf.ChildSpec{Stage: "share", Race: true, Args: []string{pdir}, Timeout: time.Duration(r.N(10, 30)) * time.Minute, Attribution: attribution})
		judgeChild(r, "share", ex)
	}()
	if stages == "" || stages == "hostile" {
		wg.Add(1)
		go func() {
			defer wg.Done()
			t0 := time.Now()
			defer func() { r.Logf("stage hostile took %v", time.Since(t0)) }()
			ex := r.RunChild(vf.ChildSpec{Stage: "hostile", Race: true, Timeout: time.Duration(r.N(10, 30)) * time.Minute, Attribution: attribution})
			judgeChild(r, "hostile", ex)
		}()
	}
	wg.Wait()
	r.Set("case_list", map[string]int{"builder": nb, "hand_listed": nh, "hand_random_combos": nc})
	r.Assume("std archive/tar, compress/gzip, encoding/json and crypto/sha256 (used by the hand assembler and the ground truth) are correct; klauspost zstd only through the repo's own builder")
	r.Assume("gen.Model (tar -> expected content per path) is correct; it is only used to say WHICH store returned wrong bytes, never to decide that two stores differ")
	r.Assume("bbolt v1.4.3 transactions are correct (the check shares one *bolt.DB between layers exactly as fsopts does)")
}

var goroutineRe = regexp.MustCompile(`(?m)^(panic: .*|fatal error: .*)$`)
var frameRe = regexp.MustCompile(`(?m)^(github\.com/containerd/stargz-snapshotter/[^\s(]+)\(`)

func judgeChild(r *vf.Run, stage string, ex vf.ChildExit) {
	if os.Getenv("VERIF_C05_VERBOSE") != "" {
		for _, l := range strings.Split(ex.Tail, "\n") {
			if strings.HasPrefix(l, "[C05") {
				fmt.Fprintln(os.Stderr, "  child:", l)
			}
		}
	}
	switch {
	case ex.TimedOut:
		r.Inconclusive("watchdog: stage " + stage + " exceeded its generous wall-clock limit")
	case ex.ExitCode == 66 && ex.Partial && len(ex.Races) > 0:
		// the race detector's exit status after reports (halt_on_error=0): the stage ran to
		// its end; the reports were parsed and attributed by RunChild
	case ex.ExitCode != 0 || !ex.Partial:
		// the child died: crash signature = first panic/fatal line + innermost repo frame
		sig := "unknown"
		if m := goroutineRe.FindString(ex.Tail); m != "" {
			sig = regexp.MustCompile(`[0-9]+`).ReplaceAllString(m, "N")
		}
		fr := ""
		if m := frameRe.FindStringSubmatch(ex.Tail); m != nil {
			fr = strings.TrimPrefix(m[1], "github.com/containerd/stargz-snapshotter/")
		}
		if sig == "unknown" && ex.Signal != "" {
			r.Inconclusive("stage " + stage + " killed by signal " + ex.Signal)
			return
		}
		r.Violate("crash:"+stage+":"+sig+"@"+fr, "a stage process died while the stores were handling a VALID blob: "+sig, map[string]any{"tail": ex.Tail, "exit": ex.ExitCode, "signal": ex.Signal})
	}
}

// ---------------------------------------------------------------------------
// opening

func openBolt(path string) (*bolt.DB, error) {
	// exactly the options of cmd/containerd-stargz-grpc/main.go
	return bolt.Open(path, 0o600, &bolt.Options{NoFreelistSync: true, InitialMmapSize: 64 * 1024 * 1024, FreelistType: bolt.FreelistMapType})
}

func section(b []byte) *io.SectionReader {
	return io.NewSectionReader(bytes.NewReader(b), 0, int64(len(b)))
}

type opened struct {
	r        metadata.Reader
	err      error
	panicked string
}

// resolverOpts: the options layer.Resolver.Resolve passes to the configured store
// (telemetry hooks + the additional decompressors: zstd:chunked, external TOC).
func resolverOpts(c *oneCase) []metadata.Option {
	nop := func(time.Time) {}
	return []metadata.Option{
		metadata.WithTelemetry(&metadata.Telemetry{GetFooterLatency: nop, GetTocLatency: nop, DeserializeTocLatency: nop}),
		metadata.WithDecompressors(c.Decomp...),
	}
}

func openMem(c *oneCase) (o opened) {
	p, v, st := vf.Recover(func() {
		if c.memStore != nil {
			o.r, o.err = c.memStore(section(c.Blob), resolverOpts(c)...)
			return
		}
		o.r, o.err = memorymetadata.NewReader(section(c.Blob), metadata.WithDecompressors(c.Decomp...))
	})
	if p {
		o.panicked = crashSite(fmt.Sprint(v), st)
		o.err = fmt.Errorf("panic")
	}
	return
}

// openDBBlob opens raw blob bytes (gzip eStargz) with the db store; panics become errors.
func openDBBlob(db *bolt.DB, blob []byte) (rd metadata.Reader, err error) {
	p, v, _ := vf.Recover(func() { rd, err = dbmetadata.NewReader(db, section(blob)) })
	if p {
		return nil, fmt.Errorf("panic: %v", v)
	}
	return rd, err
}

func openDB(db *bolt.DB, c *oneCase) (o opened) {
	p, v, st := vf.Recover(func() {
		if c.dbStore != nil {
			o.r, o.err = c.dbStore(section(c.Blob), resolverOpts(c)...)
			return
		}
		o.r, o.err = dbmetadata.NewReader(db, section(c.Blob), metadata.WithDecompressors(c.Decomp...))
	})
	if p {
		o.panicked = crashSite(fmt.Sprint(v), st)
		o.err = fmt.Errorf("panic")
	}
	return
}

func crashSite(val, stack string) string {
	val = regexp.MustCompile(`[0-9]+`).ReplaceAllString(val, "N")
	if len(val) > 80 {
		val = val[:80]
	}
	site := ""
	for _, m := range frameRe.FindAllStringSubmatch(stack, -1) {
		site = strings.TrimPrefix(m[1], "github.com/containerd/stargz-snapshotter/")
		break
	}
	return val + "@" + site
}

func blobID(b []byte) string {
	s := sha256.Sum256(b)
	return hex.EncodeToString(s[:8])
}

func errShape(err error) string {
	if err == nil {
		return ""
	}
	s := err.Error()
	s = regexp.MustCompile(`"[^"]*"`).ReplaceAllString(s, `"…"`)
	s = regexp.MustCompile(`[0-9]+`).ReplaceAllString(s, "N")
	if len(s) > 160 {
		s = s[:160]
	}
	return s
}

// report turns the findings of one comparison into violations / counters.
func report(r *vf.Run, c *cmpCtx, cs *oneCase, idx string) int {
	for _, f := range c.out {
		rep := map[string]any{"case": idx, "desc": cs.Desc, "divergence": f.Detail}
		for k, v := range cs.Replay {
			rep[k] = v
		}
		r.Violate(f.Key, f.What+" [e.g. path "+strconv.Quote(f.Path)+" in "+cs.Class+" case with features "+strings.Join(cs.Features, "+")+"]", rep)
		r.Distinct("divergence_keys", f.Key)
		r.Count("divergences_total", 1)
	}
	for k, n := range c.obs {
		r.Count("obs:"+k, n)
	}
	return len(c.out)
}

func countDump(r *vf.Run, d *Dump) {
	for k, n := range d.Ops {
		r.Count("op:"+d.Store+":"+k, n)
	}
	if d.Truncated != "" {
		r.Count("walks_truncated:"+d.Truncated+"@"+d.Store, 1)
	}
}

// ---------------------------------------------------------------------------
// stage diff

func stageDiff(r *vf.Run, lo, hi int) {
	for i := lo; i < hi; i++ {
		diffCase(r, i, "")
		if i%8 == 7 {
			r.FlushPartial()
		}
	}
}

// diffCase: one blob through both stores.
func diffCase(r *vf.Run, i int, tag string) {
	cs := getCase(r, i)
	idx := fmt.Sprintf("%s%d", tag, i)
	if cs.BuildErr == errSkipped {
		return
	}
	if cs.BuildErr != nil {
		r.Count("builder_refused_tar(not a case)", 1)
		r.Distinct("builder_errors", errShape(cs.BuildErr))
		return
	}
	r.Eval(1)
	if cs.Class == "builder" && !cs.tocParsed {
		r.Count("builder_toc_not_extracted(classifier falls back to tar order)", 1)
	}
	for _, f := range cs.Features {
		r.Count("cases_with:"+f, 1)
	}
	// a share of the cases (every blob that needs an additional decompressor, and every 4th
	// other one) gets its two stores from the daemon's configuration layer
	var bdb *bolt.DB
	var err error
	if needsDecomp := cs.built != nil && cs.built.Opts.Compression != "gzip"; needsDecomp || i%4 == 1 {
		root := filepath.Join(r.Scratch, "fsopts-"+idx)
		defer os.RemoveAll(root)
		var e1, e2 error
		cs.memStore, _, e1 = storeViaFsopts("memory", filepath.Join(root, "m"))
		cs.dbStore, bdb, e2 = storeViaFsopts("db", filepath.Join(root, "d"))
		if e1 != nil || e2 != nil {
			if bdb != nil {
				bdb.Close()
			}
			r.Inconclusive("capability missing: stores through fsopts.ConfigFsOpts: " + errShape(firstErr(e1, e2)))
			cs.memStore, cs.dbStore, bdb = nil, nil, nil
		} else {
			cs.via = "@via-fsopts"
			r.Count("cases_with_stores_from_fsopts.ConfigFsOpts", 1)
			if needsDecomp {
				r.Count("cases_with_stores_from_fsopts.ConfigFsOpts:zstd_or_external_toc", 1)
			}
		}
	}
	if bdb == nil {
		bdb, err = openBolt(filepath.Join(r.Scratch, fmt.Sprintf("diff-%s.db", idx)))
		if err != nil {
			r.Inconclusive("cannot open bolt file")
			return
		}
	}
	defer func() {
		p := bdb.Path()
		bdb.Close()
		os.Remove(p)
	}()
	mem := openMem(cs)
	dbo := openDB(bdb, cs)
	// --- clause "immediately after open": the only call that does not wait is GetAttr(root)
	var early *attrRec
	if dbo.err == nil {
		a, err := dbo.r.GetAttr(dbo.r.RootID())
		early = mkAttr(a, err)
	}
	rep := func(extra map[string]any) map[string]any {
		m := map[string]any{"case": idx, "desc": cs.Desc}
		for k, v := range cs.Replay {
			m[k] = v
		}
		for k, v := range extra {
			m[k] = v
		}
		return m
	}
	for _, o := range []struct {
		n string
		o opened
	}{{"memory", mem}, {"db", dbo}} {
		if o.o.panicked != "" {
			r.Violate("crash:panic-on-valid-blob@"+o.n+":"+o.o.panicked, "NewReader of the "+o.n+" store panics on a valid blob", rep(nil))
		}
	}
	// --- accept / reject: the db store may reject late (background load), surfaced by
	// the first call that waits
	dbErr := dbo.err
	if dbErr == nil {
		if _, _, err := dbo.r.GetChild(dbo.r.RootID(), "\x01"); err != nil && strings.Contains(err.Error(), "initialization failed") {
			dbErr = err
		}
	}
	r.Distinct("open_outcomes", fmt.Sprintf("memory:%v db:%v", mem.err == nil, dbErr == nil))
	if (mem.err == nil) != (dbErr == nil) {
		who := "db"
		e := dbErr
		if mem.err != nil {
			who, e = "memory", mem.err
		}
		r.Violate("accept:"+who+"-rejects-valid-blob"+cs.via+":"+errShape(e), "only the "+who+" store rejects this valid blob: "+fmt.Sprint(e), rep(nil))
		r.Distinct("divergence_keys", "accept:"+who+"-rejects-valid-blob")
	}
	if mem.err != nil || dbErr != nil {
		if mem.err != nil && dbErr != nil {
			// all blobs here are valid by construction: both rejecting is not a store
			// divergence, but it is not a pass either
			r.Inconclusive("both stores reject a blob the generator believes valid: " + errShape(mem.err))
		}
		if mem.r != nil {
			mem.r.Close()
		}
		if dbo.r != nil {
			dbo.r.Close()
		}
		return
	}
	probeSeed := prng.Hash64(r.Seed, uint64(i), 77)
	orng := r.RNG(uint64(i), 1)
	nclone := orng.Pick(0, 1, 2)
	// the two walks use different operation orders; probes depend on the path only
	var dm, dd *Dump
	if r.RaceBuild {
		var wg sync.WaitGroup
		wg.Add(2)
		go func() {
			defer wg.Done()
			dm = walk("memory", mem.r, cs.Blob, r.RNG(uint64(i), 2), probeSeed, cs.Truth, nclone, cs.Light)
		}()
		go func() {
			defer wg.Done()
			dd = walk("db", dbo.r, cs.Blob, r.RNG(uint64(i), 3), probeSeed, cs.Truth, nclone, cs.Light)
		}()
		wg.Wait()
	} else {
		dm = walk("memory", mem.r, cs.Blob, r.RNG(uint64(i), 2), probeSeed, cs.Truth, nclone, cs.Light)
		dd = walk("db", dbo.r, cs.Blob, r.RNG(uint64(i), 3), probeSeed, cs.Truth, nclone, cs.Light)
	}
	countDump(r, dm)
	countDump(r, dd)
	cc := compareDumps("stores", "memory", "db", dm, dd, cs.Facts)
	// early root attributes: what a mount captures (layer.RootNode -> GetAttr(root))
	if early != nil && dm.Nodes[""].Attr != nil && dd.Nodes[""].Attr != nil {
		late := dd.Nodes[""].Attr
		e2 := &cmpCtx{mode: "stores", an: "memory", bn: "db", f: cs.Facts, obs: map[string]int{}}
		e2.cmpAttr("", dm.Nodes[""].Attr, early, "", nil)
		l2 := &cmpCtx{mode: "stores", an: "memory", bn: "db", f: cs.Facts, obs: map[string]int{}}
		l2.cmpAttr("", dm.Nodes[""].Attr, late, "", nil)
		persists := map[string]bool{}
		for _, f := range l2.out {
			persists[f.Key+"="+fmt.Sprint(f.Detail["db"])] = true
		}
		n := 0
		for _, f := range e2.out {
			if persists[f.Key+"="+fmt.Sprint(f.Detail["db"])] {
				continue // the same divergence persists after the load: reported by the main comparison
			}
			n++
			f.Detail["db_immediately_after_open"] = f.Detail["db"]
			f.Detail["db_after_load"] = fmt.Sprintf("%+v", *late)
			f.Detail["field"] = f.Key
			cc.out = append(cc.out, finding{Key: "rootattr:not-waiting-for-load@db",
				What: "GetAttr(root) right after NewReader (the call a mount makes; it does not wait for the background load) differs from the memory store and from the db store's own later answer", Path: "", Detail: f.Detail})
			break
		}
		if n == 0 {
			r.Count("early_rootattr_equal", 1)
		} else {
			r.Count("early_rootattr_differs", 1)
		}
	}
	nd := report(r, cc, cs, idx)
	// --- Clone + Close: closing a clone must not change what the origin answers
	//     (memory: Close is a no-op). Done last because it may destroy the db reader.
	tocOffsetHints(r, cs, idx, i, bdb, probeSeed)
	cloneRightAfterOpen(r, cs, idx, i, bdb, dm, dd, probeSeed)
	cloneClose(r, cs, idx, mem.r, dbo.r, rep)

	// non-triviality
	paths, filesRead := 0, 0
	for p, na := range dm.Nodes {
		nb := dd.Nodes[p]
		if nb == nil {
			continue
		}
		paths++
		for k, x := range na.Reads {
			if y, ok := nb.Reads[k]; ok && strings.HasPrefix(k, "chunk@") && x.N > 0 && y.N > 0 {
				filesRead++
				break
			}
		}
	}
	if paths >= 3 && filesRead >= 1 {
		r.NonTrivial(blobID(cs.Blob))
	}
	r.Count("paths_compared", paths)
	r.Count("files_with_bytes_compared", filesRead)
	r.Distinct("feature_sets", strings.Join(cs.Features, "+"))
	if i%7 == 0 || nd > 0 {
		r.Sample(map[string]any{"case": idx, "desc": trunc(cs.Desc, 600), "paths": paths, "files_read": filesRead, "divergences": nd,
			"memory_ops": strings.Join(dm.OpTrace, ","), "db_ops": strings.Join(dd.OpTrace, ","), "toc_digest": dm.TOCDigest})
	}
}

// realTOCOffset reads the TOC position out of the blob's footer (gzip: 51-byte footer,
// zstd:chunked: 40-byte footer); -1 when the blob holds no TOC (external TOC).
func realTOCOffset(b []byte) int64 {
	if n := len(b); n >= 51 && string(b[n-51+32:n-51+38]) == "STARGZ" {
		if off, err := strconv.ParseInt(string(b[n-51+16:n-51+32]), 16, 64); err == nil {
			return off
		}
	}
	if n := len(b); n >= 40 && string(b[n-8:]) == "GnUlInUx" {
		return int64(binary.LittleEndian.Uint64(b[n-40 : n-32]))
	}
	return -1
}

// tocOffsetHints: clause "open options". Both stores are opened with
// metadata.WithTOCOffset(hint) (what store/manager.go passes from the zstd:chunked
// manifest-position annotation) for hints {real, real±small, far below, size/4, 0}. The
// footer stays authoritative in both implementations, so for these valid blobs the stores
// must accept/reject alike, report the same TOC digest, and (one lower hint per case)
// walk alike.
func tocOffsetHints(r *vf.Run, cs *oneCase, idx string, i int, bdb *bolt.DB, probeSeed uint64) {
	size := int64(len(cs.Blob))
	real := realTOCOffset(cs.Blob)
	if real < 0 {
		real = size / 2
	}
	rng := r.RNG(uint64(i), 6)
	type hint struct {
		class string
		off   int64
	}
	lowerNear := []hint{{"lower", real - 1}, {"lower", real - 7}}
	lowerFar := []hint{{"lower", real / 2}, {"lower", size / 4}, {"lower", real - 100}}
	other := []hint{{"higher", real + 1}, {"higher", real + 10}, {"zero", 0}}
	hs := []hint{{"exact", real}, lowerNear[rng.Intn(2)], lowerFar[rng.Intn(3)], other[rng.Intn(3)]}
	walkAt := 1 + rng.Intn(2) // one of the two lower hints gets a full (light) walk
	for k, h := range hs {
		if h.off < 0 || h.off > size {
			continue
		}
		opts := append(resolverOpts(cs), metadata.WithTOCOffset(h.off))
		var mo, do opened
		pm, vm, sm := vf.Recover(func() {
			if cs.memStore != nil {
				mo.r, mo.err = cs.memStore(section(cs.Blob), opts...)
			} else {
				mo.r, mo.err = memorymetadata.NewReader(section(cs.Blob), opts...)
			}
		})
		pd, vd, sd := vf.Recover(func() {
			if cs.dbStore != nil {
				do.r, do.err = cs.dbStore(section(cs.Blob), opts...)
			} else {
				do.r, do.err = dbmetadata.NewReader(bdb, section(cs.Blob), opts...)
			}
		})
		det := map[string]any{"case": idx, "desc": cs.Desc, "hint": h.off, "real_toc_offset": real, "blob_size": size}
		for k, v := range cs.Replay {
			det[k] = v
		}
		if pm {
			r.Violate("crash:panic-on-valid-blob@memory@toc-offset-hint:"+crashSite(fmt.Sprint(vm), sm), "memory NewReader panics with a TOC offset hint", det)
			mo.err = fmt.Errorf("panic")
		}
		if pd {
			r.Violate("crash:panic-on-valid-blob@db@toc-offset-hint:"+crashSite(fmt.Sprint(vd), sd), "db NewReader panics with a TOC offset hint", det)
			do.err = fmt.Errorf("panic")
		}
		dbErr := do.err
		if dbErr == nil {
			if _, _, err := do.r.GetChild(do.r.RootID(), "\x01"); err != nil && strings.Contains(err.Error(), "initialization failed") {
				dbErr = err
			}
		}
		r.Count("toc_offset_hint_opens:"+h.class, 1)
		r.Distinct("toc_offset_hint_outcomes", fmt.Sprintf("%s memory:%v db:%v", h.class, mo.err == nil, dbErr == nil))
		switch {
		case (mo.err == nil) != (dbErr == nil):
			who, e := "db", dbErr
			if mo.err != nil {
				who, e = "memory", mo.err
			}
			det["memory_error"], det["db_error"] = fmt.Sprint(mo.err), fmt.Sprint(dbErr)
			r.Violate("accept:"+who+"-rejects-valid-blob@toc-offset-hint-"+h.class+cs.via+":"+errShape(e),
				fmt.Sprintf("opened with metadata.WithTOCOffset(%d) (real TOC offset %d, blob size %d) only the %s store rejects this valid blob: %v", h.off, real, size, who, e), det)
			r.Distinct("divergence_keys", "accept:"+who+"-rejects-valid-blob@toc-offset-hint-"+h.class)
		case mo.err == nil:
			if a, b := mo.r.TOCDigest(), do.r.TOCDigest(); a != b {
				det["memory"], det["db"] = a.String(), b.String()
				r.Violate("tocdigest:differs@toc-offset-hint-"+h.class, "TOCDigest() differs when opened with a TOC offset hint", det)
			}
			if k == walkAt {
				a := walk("memory", mo.r, cs.Blob, r.RNG(uint64(i), 7), probeSeed, cs.Truth, 0, true)
				b := walk("db", do.r, cs.Blob, r.RNG(uint64(i), 8), probeSeed, cs.Truth, 0, true)
				c := compareDumps("stores", "memory", "db", a, b, cs.Facts)
				for k := range c.out {
					c.out[k].Key += "@toc-offset-hint-" + h.class
					c.out[k].Detail["hint"] = h.off
					c.out[k].Detail["real_toc_offset"] = real
				}
				report(r, c, cs, idx)
				r.Count("toc_offset_hint_walks", 1)
			}
		}
		if mo.r != nil {
			mo.r.Close()
		}
		if do.r != nil {
			do.r.Close()
		}
	}
}

// cloneRightAfterOpen: clause "clone right after open". A fresh reader of each store is
// opened and Clone(sr) is called IMMEDIATELY, before any other call on the original; the
// CLONE is then walked fully. This is what the production background fetch does
// (VerifiableReader.Cache(WithReader(sr)) clones first). The db store fills its buckets in a
// background goroutine and every accessor waits on the reader's own initG; a clone has a
// fresh initG, so nothing but Clone itself can make a clone wait for the load.
//
// Compared: memory clone vs db clone, and db original (walked after the load, dd) vs db
// clone. GetAttr(root) of the clone never waits by design (known finding): its divergences
// go under rootattr:not-waiting-for-load@db; everything else under
// clone:right-after-open:<class>@db.
func cloneRightAfterOpen(r *vf.Run, cs *oneCase, idx string, i int, bdb *bolt.DB, dm, dd *Dump, probeSeed uint64) {
	m2 := openMem(cs)
	d2 := openDB(bdb, cs)
	var mc, dc metadata.Reader
	var merr, derr error
	if d2.err == nil {
		dc, derr = d2.r.Clone(section(cs.Blob)) // first call on the fresh db reader
	}
	if m2.err == nil {
		mc, merr = m2.r.Clone(section(cs.Blob))
	}
	defer func() {
		// clones are never closed (a db clone shares its origin's bucket: known finding)
		if m2.r != nil {
			m2.r.Close()
		}
		if d2.r != nil {
			d2.r.Close()
		}
	}()
	if m2.err != nil || d2.err != nil {
		r.Count("clone_right_after_open:skipped(open failed)", 1)
		return
	}
	if (merr == nil) != (derr == nil) {
		who, e := "db", derr
		if merr != nil {
			who, e = "memory", merr
		}
		r.Violate("clone:right-after-open:clone-fails@"+who, "Clone right after open fails on the "+who+" store only: "+fmt.Sprint(e), map[string]any{"case": idx, "desc": cs.Desc})
		return
	}
	if merr != nil {
		return
	}
	var cm, cd *Dump
	if r.RaceBuild {
		var wg sync.WaitGroup
		wg.Add(2)
		go func() {
			defer wg.Done()
			cm = walk("memory-clone", mc, cs.Blob, r.RNG(uint64(i), 4), probeSeed, cs.Truth, 0, true)
		}()
		go func() {
			defer wg.Done()
			cd = walk("db-clone", dc, cs.Blob, r.RNG(uint64(i), 5), probeSeed, cs.Truth, 0, true)
		}()
		wg.Wait()
	} else {
		// the db clone first: it is the one that must not have been given time
		cd = walk("db-clone", dc, cs.Blob, r.RNG(uint64(i), 5), probeSeed, cs.Truth, 0, true)
		cm = walk("memory-clone", mc, cs.Blob, r.RNG(uint64(i), 4), probeSeed, cs.Truth, 0, true)
	}
	countDump(r, cm)
	countDump(r, cd)
	r.Count("clone_right_after_open:walked", 1)
	r.Count("clone_right_after_open:paths_in_db_clone", len(cd.Nodes))
	remap := func(c *cmpCtx, what string) {
		for k := range c.out {
			f := &c.out[k]
			orig := f.Key
			f.Detail["comparison"] = what
			f.Detail["original_key"] = orig
			if f.Path == "" && !strings.HasSuffix(orig, "@getchild") {
				switch strings.SplitN(orig, ":", 2)[0] {
				case "attr", "nlink", "xattr", "dup-dir":
					f.Key = "rootattr:not-waiting-for-load@db"
					f.What = "GetAttr(root) of a clone taken right after open differs (" + orig + "): " + f.What
					continue
				}
			}
			class := "reader-differs"
			switch strings.SplitN(orig, ":", 2)[0] {
			case "tree":
				class = "tree-differs"
			case "attr", "nlink", "xattr", "dup-dir", "foreachchild", "getchild", "hardlink":
				class = "attrs-differ"
			case "chunks", "bytes", "openfile", "openfilewithprereader", "preread", "getoffset":
				class = "files-differ"
			}
			side := "db"
			if strings.HasSuffix(orig, "@memory") {
				side = "memory"
			}
			f.Key = "clone:right-after-open:" + class + "@" + side
			f.What = "a clone taken right after NewReader (no other call on the original first) answers differently (" + what + "; " + orig + "): " + f.What
		}
	}
	c1 := compareDumps("stores", "memory", "db", cm, cd, cs.Facts)
	remap(c1, "memory clone vs db clone")
	n := report(r, c1, cs, idx)
	// db original after its load (light probing on the clone: compare what both asked)
	c2 := compareDumps("stores", "db-original", "db", dd, cd, cs.Facts)
	remap(c2, "db original walked after the load vs db clone")
	n += report(r, c2, cs, idx)
	if n == 0 {
		r.Count("clone_right_after_open:equal", 1)
	}
	_ = dm
}

// cloneClose: two call sequences around Clone + Close, the same on both stores.
//
//	A: c := r.Clone(sr); c.Close(); r.GetAttr(root); r.ForeachChild(root)
//	B: c := r.Clone(sr); r.Close(); c.GetAttr(root); c.ForeachChild(root); c.Close()
//
// The memory store's Close is a no-op, so there both sequences leave the other reader
// usable; the comparison demands the same of the db store. B is only judged when A left
// both origins intact. Closes both readers.
func cloneClose(r *vf.Run, cs *oneCase, idx string, mem, db metadata.Reader, rep func(map[string]any) map[string]any) {
	usable := func(x metadata.Reader) string {
		if _, err := x.GetAttr(x.RootID()); err != nil {
			return "getattr-fails"
		}
		if err := x.ForeachChild(x.RootID(), func(string, uint32, os.FileMode) bool { return true }); err != nil {
			return "foreachchild-fails"
		}
		return "intact"
	}
	resA, resB := map[string]string{}, map[string]string{}
	stores := []struct {
		n string
		r metadata.Reader
	}{{"memory", mem}, {"db", db}}
	for _, s := range stores {
		c, err := s.r.Clone(section(cs.Blob))
		if err != nil {
			resA[s.n] = "clone-error"
			continue
		}
		if err := c.Close(); err != nil {
			resA[s.n] = "close-error"
			continue
		}
		resA[s.n] = "origin-" + usable(s.r)
	}
	r.Count("clone_close_A:"+resA["memory"]+"/"+resA["db"], 1)
	if resA["memory"] != resA["db"] {
		r.Violate("clone:close-destroys-origin@"+pick(resA["db"] != "origin-intact", "db", "memory"),
			"call sequence c := r.Clone(sr); c.Close(); r.GetAttr/ForeachChild(root): memory -> "+resA["memory"]+", db -> "+resA["db"], rep(map[string]any{"memory": resA["memory"], "db": resA["db"]}))
		r.Distinct("divergence_keys", "clone:close-destroys-origin")
	}
	if resA["memory"] != "origin-intact" || resA["db"] != "origin-intact" {
		mem.Close()
		db.Close()
		return
	}
	for _, s := range stores {
		c, err := s.r.Clone(section(cs.Blob))
		if err != nil {
			resB[s.n] = "clone-error"
			s.r.Close()
			continue
		}
		if err := s.r.Close(); err != nil {
			resB[s.n] = "close-error"
			continue
		}
		resB[s.n] = "clone-" + usable(c)
		c.Close()
	}
	r.Count("clone_close_B:"+resB["memory"]+"/"+resB["db"], 1)
	if resB["memory"] != resB["db"] {
		r.Violate("clone:origin-close-destroys-clone@"+pick(resB["db"] != "clone-intact", "db", "memory"),
			"call sequence c := r.Clone(sr); r.Close(); c.GetAttr/ForeachChild(root): memory -> "+resB["memory"]+", db -> "+resB["db"], rep(map[string]any{"memory": resB["memory"], "db": resB["db"]}))
		r.Distinct("divergence_keys", "clone:origin-close-destroys-clone")
	}
}

// ---------------------------------------------------------------------------
// stage share (race build)

func stageShare(r *vf.Run) {
	var plan sharePlan
	js, err := os.ReadFile(filepath.Join(prebuiltDir, "plan.json"))
	if err != nil || json.Unmarshal(js, &plan) != nil {
		r.Inconclusive("race stage: plan of prebuilt blobs unreadable")
		return
	}
	// a few differential cases under the race detector (db background load vs readers)
	t0 := time.Now()
	for _, i := range plan.RaceDiff {
		diffCase(r, i, "race-")
	}
	r.Logf("race diff cases: %v", time.Since(t0))
	r.FlushPartial()
	for s := range plan.Scenarios {
		shareScenario(r, s, plan.Scenarios[s])
		r.FlushPartial()
	}
}

type layerRun struct {
	cs                         *oneCase
	role                       string // "survivor" | "close-at-once" | "close-after-walk" | "close-when-others-walk"
	alone                      *Dump
	first                      *Dump
	firstB                     *Dump // concurrent second walker on the same reader (survivors)
	second                     *Dump
	openErr                    error
	closeErr                   error
	walking                    atomic.Bool
	closedWhileSurvivorWalking bool
	earlyClone                 bool
}

func shareScenario(r *vf.Run, s int, pl []planLayer) {
	var ls []*layerRun
	for _, p := range pl {
		if p.Idx < 0 {
			continue
		}
		cs := getCase(r, p.Idx)
		if cs.BuildErr != nil {
			continue
		}
		ls = append(ls, &layerRun{cs: cs, role: p.Role})
	}
	if len(ls) < 2 {
		return
	}
	ls[0].role = "survivor"
	if ls[1].role == "survivor" {
		ls[1].role = "close-when-others-walk"
	}
	r.Eval(1)
	probe := prng.Hash64(r.Seed, uint64(s), 99)
	t0 := time.Now()
	defer func() { r.Logf("share scenario %d: %d layers, %v", s, len(ls), time.Since(t0)) }()

	// baseline: each blob alone in a private bolt file
	for j, l := range ls {
		p := filepath.Join(r.Scratch, fmt.Sprintf("alone-%d-%d.db", s, j))
		bdb, err := openBolt(p)
		if err != nil {
			r.Inconclusive("cannot open bolt file")
			return
		}
		o := openDB(bdb, l.cs)
		if o.err == nil {
			l.alone = walk("db-alone", o.r, l.cs.Blob, r.RNG(5001, uint64(s), uint64(j)), probe, l.cs.Truth, 1, l.cs.Light)
			o.r.Close()
		}
		bdb.Close()
		os.Remove(p)
	}

	p := filepath.Join(r.Scratch, fmt.Sprintf("shared-%d.db", s))
	bdb, err := openBolt(p)
	if err != nil {
		r.Inconclusive("cannot open bolt file")
		return
	}
	defer func() {
		bdb.Close()
		os.Remove(p)
	}()
	var closers sync.WaitGroup
	closersDone := make(chan struct{})
	var all sync.WaitGroup
	start := make(chan struct{})
	anySurvivorWalking := func() bool {
		for _, l := range ls {
			if l.role == "survivor" && l.walking.Load() {
				return true
			}
		}
		return false
	}
	for j, l := range ls {
		if l.role != "survivor" {
			closers.Add(1)
		}
		all.Add(1)
		go func(j int, l *layerRun) {
			defer all.Done()
			<-start
			o := openDB(bdb, l.cs) // concurrent NewReader on one *bolt.DB
			if o.err != nil {
				l.openErr = o.err
				if l.role != "survivor" {
					closers.Done()
				}
				return
			}
			rd := o.r
			// every other survivor: Clone as the FIRST call on the fresh reader; the
			// second walker then walks that clone instead of the reader itself
			var early metadata.Reader
			if l.role == "survivor" && j%2 == 0 {
				if c, err := rd.Clone(section(l.cs.Blob)); err == nil {
					early = c
					l.earlyClone = true
				}
			}
			w1 := r.RNG(5002, uint64(s), uint64(j))
			switch l.role {
			case "close-at-once":
				l.closedWhileSurvivorWalking = anySurvivorWalking()
				l.closeErr = rd.Close() // waits for its own background load, then deletes its bucket
				closers.Done()
			case "close-after-walk":
				l.walking.Store(true)
				l.first = walk("db-shared", rd, l.cs.Blob, w1, probe, l.cs.Truth, 1, l.cs.Light)
				l.closedWhileSurvivorWalking = anySurvivorWalking()
				l.closeErr = rd.Close()
				closers.Done()
			case "close-when-others-walk":
				// state-based wait (bounded): until some survivor is inside its first walk
				for t := 0; t < 2000 && !anySurvivorWalking(); t++ {
					time.Sleep(100 * time.Microsecond)
				}
				l.closedWhileSurvivorWalking = anySurvivorWalking()
				l.closeErr = rd.Close()
				closers.Done()
			case "survivor":
				l.walking.Store(true)
				var wg sync.WaitGroup
				wg.Add(1)
				go func() { // a second walker on the very same reader
					defer wg.Done()
					tgt := rd
					if early != nil {
						tgt = early
					}
					l.firstB = walk("db-shared-b", tgt, l.cs.Blob, r.RNG(5003, uint64(s), uint64(j)), probe, l.cs.Truth, 1, l.cs.Light)
				}()
				l.first = walk("db-shared", rd, l.cs.Blob, w1, probe, l.cs.Truth, 1, l.cs.Light)
				wg.Wait()
				l.walking.Store(false)
				<-closersDone
				l.second = walk("db-shared-rewalk", rd, l.cs.Blob, r.RNG(5004, uint64(s), uint64(j)), probe, l.cs.Truth, 0, l.cs.Light)
				l.closeErr = rd.Close()
			}
		}(j, l)
	}
	go func() { closers.Wait(); close(closersDone) }()
	close(start)
	all.Wait()

	// judge (single-threaded from here on)
	var ids []string
	closedDuring, survivors := 0, 0
	for j, l := range ls {
		ids = append(ids, blobID(l.cs.Blob)+":"+l.role)
		idx := fmt.Sprintf("share-%d-layer-%d(%s)", s, j, l.role)
		r.Count("share_layers:"+l.role, 1)
		if l.closedWhileSurvivorWalking {
			closedDuring++
		}
		if l.openErr != nil {
			if l.alone != nil {
				r.Violate("sharing:open-fails-in-shared-db:"+errShape(l.openErr), "NewReader fails in the shared bolt file but works alone: "+l.openErr.Error(), map[string]any{"case": idx, "desc": l.cs.Desc})
			}
			continue
		}
		if l.closeErr != nil {
			r.Violate("sharing:close-fails:"+errShape(l.closeErr), "Close fails in the shared bolt file: "+l.closeErr.Error(), map[string]any{"case": idx, "desc": l.cs.Desc})
		}
		for _, d := range []*Dump{l.first, l.firstB, l.second} {
			if d != nil {
				countDump(r, d)
			}
		}
		if l.alone == nil {
			continue
		}
		if l.first != nil {
			report(r, compareDumps("sharing", "alone", "shared", l.alone, l.first, l.cs.Facts), l.cs, idx)
			initErrs(r, "sharing", l.alone, l.first, idx, l.cs)
		}
		if l.firstB != nil {
			if l.earlyClone {
				r.Count("share_survivors_second_walker_on_clone_taken_right_after_open", 1)
				cc := compareDumps("concurrent", "reader", "clone-right-after-open", l.first, l.firstB, l.cs.Facts)
				for k := range cc.out {
					cc.out[k].Detail["original_key"] = cc.out[k].Key
					cc.out[k].Key = "clone:right-after-open:differs-from-its-origin@db"
					cc.out[k].What = "shared bolt file: a clone taken right after NewReader answers differently from the reader it was cloned from: " + cc.out[k].What
				}
				report(r, cc, l.cs, idx)
			} else {
				report(r, compareDumps("concurrent", "walker-a", "walker-b", l.first, l.firstB, l.cs.Facts), l.cs, idx)
			}
		}
		if l.second != nil {
			survivors++
			report(r, compareDumps("rewalk", "first", "second", l.first, l.second, l.cs.Facts), l.cs, idx)
			initErrs(r, "rewalk", l.first, l.second, idx, l.cs)
		}
	}
	// leftover buckets: observation only (resource reclamation is C12's business)
	left := 0
	_ = bdb.View(func(tx *bolt.Tx) error {
		if b := tx.Bucket([]byte("filesystems")); b != nil {
			_ = b.ForEach(func(k, v []byte) error { left++; return nil })
		}
		return nil
	})
	r.Count("share_buckets_left_after_all_closed", left)
	r.Count("share_layers_closed_while_a_survivor_walked", closedDuring)
	sort.Strings(ids)
	if survivors >= 1 && closedDuring >= 1 {
		r.NonTrivial("share:" + strings.Join(ids, ","))
		r.Count("share_scenarios_nontrivial", 1)
	}
	r.Count("share_scenarios", 1)
	r.Distinct("share_layer_counts", strconv.Itoa(len(ls)))
	if s < 3 {
		r.Sample(map[string]any{"scenario": s, "layers": ids, "closed_while_survivor_walked": closedDuring, "survivors_rewalked": survivors})
	}

	// memory store: concurrent walkers + Clone on one reader (race detector, equality)
	l := ls[0]
	if m := openMem(l.cs); m.err == nil {
		var d1, d2 *Dump
		var wg sync.WaitGroup
		wg.Add(2)
		go func() {
			defer wg.Done()
			d1 = walk("memory-a", m.r, l.cs.Blob, r.RNG(5005, uint64(s)), probe, l.cs.Truth, 2, l.cs.Light)
		}()
		go func() {
			defer wg.Done()
			d2 = walk("memory-b", m.r, l.cs.Blob, r.RNG(5006, uint64(s)), probe, l.cs.Truth, 2, l.cs.Light)
		}()
		wg.Wait()
		countDump(r, d1)
		countDump(r, d2)
		report(r, compareDumps("concurrent", "walker-a", "walker-b", d1, d2, l.cs.Facts), l.cs, fmt.Sprintf("share-%d-memory", s))
		m.r.Close()
	}
}

// initErrs: a waiting call reported "initialization failed" on one side only.
func initErrs(r *vf.Run, mode string, a, b *Dump, idx string, cs *oneCase) {
	if (a.InitErr == "") != (b.InitErr == "") {
		r.Violate(mode+":background-load-fails-on-one-side:"+errShape(fmt.Errorf("%s%s", a.InitErr, b.InitErr)), "the db store's background load failed in one of two opens of the same blob: "+a.InitErr+b.InitErr, map[string]any{"case": idx, "desc": cs.Desc})
	}
}
