package main

// The two stores as the daemon's CONFIGURATION layer hands them out
// (cmd/containerd-stargz-grpc/fsopts.ConfigFsOpts with Config.MetadataStore "memory" / "db";
// fsopts.go is an anchored file of C05). ConfigFsOpts returns opaque fs.Option values whose only
// consumer is fs.NewFilesystem (a full filesystem with a registry behind it), and the function
// that builds the store (getMetadataStore) is unexported; the store is therefore taken out of
// the option set by applying the options to a zero value of fs's private options struct through
// reflection and reading its metadataStore field. If that shape ever changes the clause reports
// a missing capability (inconclusive), never a violation.

import (
	"context"
	"fmt"
	"os"
	"reflect"
	"unsafe"

	"github.com/containerd/stargz-snapshotter/cmd/containerd-stargz-grpc/fsopts"
	"github.com/containerd/stargz-snapshotter/metadata"
	bolt "go.etcd.io/bbolt"
)

// storeViaFsopts returns the metadata.Store configured for kind ("memory" | "db") and, for
// "db", the bolt DB the configuration layer opened through OpenBoltDB.
func storeViaFsopts(kind, rootDir string) (st metadata.Store, bdb *bolt.DB, err error) {
	if err := os.MkdirAll(rootDir, 0o700); err != nil {
		return nil, nil, err
	}
	cfg := &fsopts.Config{MetadataStore: kind, OpenBoltDB: func(p string) (*bolt.DB, error) {
		d, err := openBolt(p) // the options of cmd/containerd-stargz-grpc/main.go
		bdb = d
		return d, err
	}}
	opts, err := fsopts.ConfigFsOpts(context.Background(), rootDir, cfg)
	if err != nil {
		return nil, nil, err
	}
	defer func() {
		if x := recover(); x != nil {
			st, err = nil, fmt.Errorf("capability: cannot read the store out of fs.Option: %v", x)
		}
	}()
	if len(opts) == 0 {
		return nil, bdb, fmt.Errorf("capability: ConfigFsOpts returned no option")
	}
	ft := reflect.TypeOf(opts[0]) // func(*fs.options)
	if ft.Kind() != reflect.Func || ft.NumIn() != 1 || ft.In(0).Kind() != reflect.Ptr {
		return nil, bdb, fmt.Errorf("capability: unexpected shape of fs.Option")
	}
	ov := reflect.New(ft.In(0).Elem())
	for _, o := range opts {
		reflect.ValueOf(o).Call([]reflect.Value{ov})
	}
	f := ov.Elem().FieldByName("metadataStore")
	if !f.IsValid() {
		return nil, bdb, fmt.Errorf("capability: fs.options has no field metadataStore")
	}
	v := reflect.NewAt(f.Type(), unsafe.Pointer(f.UnsafeAddr())).Elem().Interface()
	s, ok := v.(metadata.Store)
	if !ok || s == nil {
		return nil, bdb, fmt.Errorf("capability: fs.options.metadataStore is %T", v)
	}
	return s, bdb, nil
}
