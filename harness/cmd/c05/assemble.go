package main

// Hand assembler of spec-conforming eStargz blobs (docs/estargz.md) that the repo's
// builder never emits. It shares no code with /repo/estargz: std archive/tar,
// compress/gzip, encoding/json only.
//
// Layout produced (exactly the one the spec describes, incl. the innerOffset variant):
//
//	gzip member(s) holding the raw tar stream, cut at chosen chunk payload starts
//	gzip member holding the tar entry "stargz.index.json" (+ tar end blocks)
//	51-byte footer (empty gzip member whose Extra field holds the TOC offset)
//
// A chunk whose NewStream flag is true begins a fresh gzip member exactly at its
// payload (offset = member start, innerOffset = 0); otherwise it stays in the running
// member (offset = that member's start, innerOffset = uncompressed distance).

import (
	"archive/tar"
	"bytes"
	"compress/gzip"
	"crypto/sha256"
	"encoding/binary"
	"encoding/hex"
	"encoding/json"
	"fmt"
	"sort"
	"sync"
	"time"

	digest "github.com/opencontainers/go-digest"

	"verifharness/internal/gen"
)

// hEntry is one tar entry + how it is described in the TOC.
type hEntry struct {
	gen.Entry
	// TOCXattrs, when non-nil, replaces Entry.Xattrs in the TOC (may hold empty values,
	// which a tar PAX record cannot carry: the TOC is authoritative per the spec).
	TOCXattrs map[string][]byte
	NoDigest  bool    // omit the OPTIONAL per-file "digest"
	Chunks    []int64 // chunk sizes (sum == Size); nil = one chunk
	NewStream []bool  // per chunk; missing = true
}

type handSpec struct {
	Entries  []hEntry
	Trailing string // whitespace appended after the TOC JSON value
	Level    int    // gzip level
	Features []string
}

type handBlob struct {
	Blob      []byte
	TOCJSON   []byte
	TOCDigest digest.Digest // sha256 over the whole stargz.index.json payload
}

type jEntry struct {
	Name        string            `json:"name"`
	Type        string            `json:"type"`
	Size        int64             `json:"size,omitempty"`
	ModTime     string            `json:"modtime,omitempty"`
	LinkName    string            `json:"linkName,omitempty"`
	Mode        int64             `json:"mode,omitempty"` // omitempty as in every TOC written by the reference builder
	UID         int               `json:"uid,omitempty"`
	GID         int               `json:"gid,omitempty"`
	Uname       string            `json:"userName,omitempty"`
	Gname       string            `json:"groupName,omitempty"`
	Offset      int64             `json:"offset,omitempty"`
	InnerOffset int64             `json:"innerOffset,omitempty"`
	DevMajor    int               `json:"devMajor,omitempty"`
	DevMinor    int               `json:"devMinor,omitempty"`
	Xattrs      map[string][]byte `json:"xattrs,omitempty"`
	Digest      string            `json:"digest,omitempty"`
	ChunkOffset int64             `json:"chunkOffset,omitempty"`
	ChunkSize   int64             `json:"chunkSize,omitempty"`
	ChunkDigest string            `json:"chunkDigest,omitempty"`
}

type jTOC struct {
	Version int       `json:"version"`
	Entries []*jEntry `json:"entries"`
}

func sha(b []byte) string {
	s := sha256.Sum256(b)
	return "sha256:" + hex.EncodeToString(s[:])
}

func tocType(t byte) string {
	switch t {
	case tar.TypeReg:
		return "reg"
	case tar.TypeDir:
		return "dir"
	case tar.TypeSymlink:
		return "symlink"
	case tar.TypeLink:
		return "hardlink"
	case tar.TypeChar:
		return "char"
	case tar.TypeBlock:
		return "block"
	case tar.TypeFifo:
		return "fifo"
	}
	panic("unknown type")
}

// tocXattrs returns the xattrs of the entry as the TOC states them.
func (e *hEntry) tocXattrs() map[string][]byte {
	if e.TOCXattrs != nil {
		return e.TOCXattrs
	}
	if len(e.Xattrs) == 0 {
		return nil
	}
	m := map[string][]byte{}
	for k, v := range e.Xattrs {
		m[k] = []byte(v)
	}
	return m
}

func (e *hEntry) chunkSizes() []int64 {
	if e.Type != tar.TypeReg || e.Size == 0 {
		return nil
	}
	if len(e.Chunks) == 0 {
		return []int64{e.Size}
	}
	var sum int64
	for _, c := range e.Chunks {
		if c <= 0 {
			panic("assemble: non-positive chunk")
		}
		sum += c
	}
	if sum != e.Size {
		panic(fmt.Sprintf("assemble: chunks of %q sum to %d, size %d", e.Name, sum, e.Size))
	}
	return e.Chunks
}

// one gzip.Writer per level, reused: a fresh one allocates ~1 MiB of state, which under
// the race detector made assembling a blob of a few dozen members take seconds
var (
	gzMu sync.Mutex
	gzWs = map[int]*gzip.Writer{}
)

func gzMember(p []byte, level int) []byte {
	gzMu.Lock()
	defer gzMu.Unlock()
	var b bytes.Buffer
	zw := gzWs[level]
	if zw == nil {
		var err error
		zw, err = gzip.NewWriterLevel(&b, level)
		if err != nil {
			panic(err)
		}
		gzWs[level] = zw
	} else {
		zw.Reset(&b)
	}
	if _, err := zw.Write(p); err != nil {
		panic(err)
	}
	if err := zw.Close(); err != nil {
		panic(err)
	}
	return b.Bytes()
}

// footer51 is the footer of docs/estargz.md ("The footer MUST be the following 51 bytes").
func footer51(tocOff int64) []byte {
	b := []byte{0x1f, 0x8b, 8, 4, 0, 0, 0, 0, 0, 255} // gzip header, FEXTRA
	sub := fmt.Sprintf("%016xSTARGZ", tocOff)
	x := make([]byte, 2)
	binary.LittleEndian.PutUint16(x, uint16(4+len(sub)))
	b = append(b, x...)
	b = append(b, 'S', 'G')
	binary.LittleEndian.PutUint16(x, uint16(len(sub)))
	b = append(b, x...)
	b = append(b, sub...)
	b = append(b, 1, 0, 0, 0xff, 0xff) // final stored block of length 0
	b = append(b, make([]byte, 8)...)  // CRC32 = 0, ISIZE = 0
	if len(b) != 51 {
		panic("footer size")
	}
	return b
}

// assemble writes the blob.
func assemble(s handSpec) *handBlob {
	level := s.Level
	if level == 0 {
		level = gzip.BestSpeed
	}
	// 1. raw tar stream, remembering where each payload begins
	var raw bytes.Buffer
	tw := tar.NewWriter(&raw)
	payloadAt := make([]int64, len(s.Entries))
	for i := range s.Entries {
		e := &s.Entries[i]
		h := &tar.Header{Typeflag: e.Type, Name: e.Name, Linkname: e.Linkname, Mode: e.Mode, Uid: e.UID, Gid: e.GID,
			Uname: e.Uname, Gname: e.Gname, ModTime: time.Unix(e.ModTime, 0), Devmajor: e.Devmajor, Devminor: e.Devminor, Format: tar.FormatPAX}
		if e.Type == tar.TypeReg {
			h.Size = e.Size
		}
		for k, v := range e.Xattrs {
			if v == "" {
				continue // a PAX record cannot carry an empty value; the TOC states it
			}
			if h.PAXRecords == nil {
				h.PAXRecords = map[string]string{}
			}
			h.PAXRecords["SCHILY.xattr."+k] = v
		}
		if err := tw.WriteHeader(h); err != nil {
			panic(fmt.Sprintf("assemble: header %q: %v", e.Name, err))
		}
		payloadAt[i] = int64(raw.Len())
		if e.Type == tar.TypeReg && e.Size > 0 {
			if _, err := tw.Write(e.Content()); err != nil {
				panic(err)
			}
		}
		if err := tw.Flush(); err != nil { // padding now, so the next header position is exact
			panic(err)
		}
	}
	// no tw.Close(): the TOC entry follows, the end blocks come after it
	tarBytes := raw.Bytes()

	// 2. cut points
	type chunkRef struct {
		ent, idx   int
		start, len int64 // uncompressed position in the tar stream
		newStream  bool
	}
	var chunks []chunkRef
	cutSet := map[int64]bool{0: true}
	for i := range s.Entries {
		e := &s.Entries[i]
		off := payloadAt[i]
		for j, c := range e.chunkSizes() {
			ns := true
			if j < len(e.NewStream) {
				ns = e.NewStream[j]
			}
			chunks = append(chunks, chunkRef{i, j, off, c, ns})
			if ns {
				cutSet[off] = true
			}
			off += c
		}
	}
	var cuts []int64
	for c := range cutSet {
		cuts = append(cuts, c)
	}
	sort.Slice(cuts, func(i, j int) bool { return cuts[i] < cuts[j] })

	// 3. members
	var blob bytes.Buffer
	memberStart := map[int64]int64{} // uncompressed cut -> compressed offset
	for i, c := range cuts {
		end := int64(len(tarBytes))
		if i+1 < len(cuts) {
			end = cuts[i+1]
		}
		memberStart[c] = int64(blob.Len())
		if end > c {
			blob.Write(gzMember(tarBytes[c:end], level))
		} else if c == 0 {
			// nothing before the TOC at all (empty archive): no member needed
		}
	}
	cutOf := func(pos int64) int64 { // greatest cut <= pos
		i := sort.Search(len(cuts), func(i int) bool { return cuts[i] > pos })
		return cuts[i-1]
	}

	// 4. TOC
	toc := &jTOC{Version: 1}
	ci := 0
	for i := range s.Entries {
		e := &s.Entries[i]
		je := &jEntry{Name: e.Name, Type: tocType(e.Type), Mode: e.Mode, UID: e.UID, GID: e.GID, Uname: e.Uname, Gname: e.Gname,
			LinkName: e.Linkname, DevMajor: int(e.Devmajor), DevMinor: int(e.Devminor), Xattrs: e.tocXattrs()}
		if e.ModTime != 0 {
			je.ModTime = time.Unix(e.ModTime, 0).UTC().Format(time.RFC3339)
		}
		toc.Entries = append(toc.Entries, je)
		if e.Type != tar.TypeReg {
			continue
		}
		je.Size = e.Size
		if e.Size == 0 {
			if !e.NoDigest {
				je.Digest = sha(nil)
			}
			continue
		}
		content := e.Content()
		if !e.NoDigest {
			je.Digest = sha(content)
		}
		cs := e.chunkSizes()
		var coff int64
		cur := je
		for j, c := range cs {
			ch := chunks[ci]
			ci++
			if ch.ent != i || ch.idx != j {
				panic("assemble: chunk bookkeeping")
			}
			if j > 0 {
				cur = &jEntry{Name: e.Name, Type: "chunk"}
				toc.Entries = append(toc.Entries, cur)
			}
			cut := cutOf(ch.start)
			cur.Offset = memberStart[cut]
			cur.InnerOffset = ch.start - cut
			cur.ChunkOffset = coff
			if j < len(cs)-1 {
				cur.ChunkSize = c // the last chunk (or an unchunked file) leaves it zero
			}
			cur.ChunkDigest = sha(content[coff : coff+c])
			coff += c
		}
	}
	js, err := json.MarshalIndent(toc, "", "\t")
	if err != nil {
		panic(err)
	}
	js = append(js, s.Trailing...)

	// 5. TOC member + footer
	var tb bytes.Buffer
	ttw := tar.NewWriter(&tb)
	if err := ttw.WriteHeader(&tar.Header{Typeflag: tar.TypeReg, Name: "stargz.index.json", Size: int64(len(js))}); err != nil {
		panic(err)
	}
	if _, err := ttw.Write(js); err != nil {
		panic(err)
	}
	if err := ttw.Close(); err != nil {
		panic(err)
	}
	tocOff := int64(blob.Len())
	if tocOff == 0 {
		// offset 0 would read as "no offset" nowhere, but keep the blob shape uniform
	}
	blob.Write(gzMember(tb.Bytes(), level))
	blob.Write(footer51(tocOff))
	return &handBlob{Blob: blob.Bytes(), TOCJSON: js, TOCDigest: digest.Digest(sha(js))}
}

// genEntries returns the plain gen entries of a spec (for gen.Model and facts).
func (s *handSpec) genEntries() []gen.Entry {
	es := make([]gen.Entry, len(s.Entries))
	for i := range s.Entries {
		es[i] = s.Entries[i].Entry
		if s.Entries[i].TOCXattrs != nil {
			m := map[string]string{}
			for k, v := range s.Entries[i].TOCXattrs {
				m[k] = string(v)
			}
			es[i].Xattrs = m
		}
	}
	return es
}
