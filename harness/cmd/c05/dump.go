package main

// Bounded, randomly ordered walker over ONE metadata.Reader. The result (*Dump) is keyed
// by path only (node ids are store-private), so two dumps of the same blob can be compared
// whatever store, whatever order of calls and whatever Clone generation produced them.
//
// The walker keeps a frontier of pending operations and executes them in an order drawn
// from the case's PRNG, so every run is a different interleaving of
// RootID/TOCDigest/GetAttr/GetChild/ForeachChild/GetOffset/OpenFile(.ChunkEntryForOffset,
// .ReadAt)/OpenFileWithPreReader/Clone. Probes (offsets, ranges) are a function of the path
// alone so that both stores are asked the same questions.

import (
	"bytes"
	"crypto/sha256"
	"encoding/hex"
	"errors"
	"fmt"
	"io"
	"os"
	"sort"
	"strings"

	"github.com/containerd/stargz-snapshotter/metadata"

	"verifharness/internal/gen"
	"verifharness/internal/prng"
)

const (
	maxDepth     = 24   // a self-referencing child once OOM-killed an unbounded walker
	maxVisits    = 3000 // paths per dump
	maxChunks    = 600  // chunk starts probed per file
	maxReadBytes = 1 << 20
)

type attrRec struct {
	Err      string
	Size     int64
	MTime    int64 // unix nanoseconds; MZero when the time is the zero time
	MZero    bool
	LinkName string
	Mode     os.FileMode
	UID, GID int
	DevMajor int
	DevMinor int
	NumLink  int
	Xattrs   map[string]string
}

func mkAttr(a metadata.Attr, err error) *attrRec {
	if err != nil {
		return &attrRec{Err: "error"}
	}
	r := &attrRec{Size: a.Size, LinkName: a.LinkName, Mode: a.Mode, UID: a.UID, GID: a.GID, DevMajor: a.DevMajor, DevMinor: a.DevMinor, NumLink: a.NumLink}
	if a.ModTime.IsZero() {
		r.MZero = true
	} else {
		r.MTime = a.ModTime.UnixNano()
	}
	if len(a.Xattrs) > 0 {
		r.Xattrs = map[string]string{}
		for k, v := range a.Xattrs {
			r.Xattrs[k] = string(v)
		}
	}
	return r
}

// nlink normalises the documented equivalence "zero means one name references this
// entry" (estargz/types.go); fs/layer maps 0 to 1 before a container sees it.
func nlink(n int) int {
	if n == 0 {
		return 1
	}
	return n
}

type chunkRes struct {
	OK   bool
	Off  int64
	Size int64
	Dgst string
}

type readRes struct {
	N       int
	Err     string // "", "EOF", "error"
	Sum     string
	Truth   string // "" = bytes equal the ground truth, "?" = no ground truth, else description
	ErrText string // not compared, only shown
}

type nodeRec struct {
	Path     string
	Depth    int
	Attr     *attrRec // GetAttr(id)
	Via      *attrRec // attr returned by GetChild(parent, base)
	FEMode   os.FileMode
	HasFE    bool
	LookupID string // "", or a description when GetChild returned another id than ForeachChild
	id       uint32
	IDKey    string // smallest path that has the same node id (filled after the walk)

	Listed    bool
	ChildErr  string
	Children  []string
	SelfChild []string // children whose id is the directory's own id
	MissingOK string   // "" not asked; "err" = lookup of an absent name failed (expected); "found"

	OffsetAsked bool
	Offset      int64
	OffsetErr   string

	Opened   bool
	OpenErr  string
	Starts   []int64 // chunk starts as enumerated with ChunkEntryForOffset from 0
	Chunks   map[int64]chunkRes
	Reads    map[string]readRes
	POpenErr string
	PReads   map[string]readRes
	PreCB    []string // defects seen inside pre-read callbacks
	PreCBn   int
}

type Dump struct {
	Store     string
	RootID0   uint32
	RootIDOK  bool // RootID() stable over the walk and across clones
	TOCDigest string
	DigestOK  bool     // TOCDigest() stable over the walk on the ORIGINAL reader
	CloneDgst []string // TOCDigest() of each clone taken
	CloneErr  []string
	Nodes     map[string]*nodeRec
	Truncated string
	Ops       map[string]int
	OpTrace   []string // first operations, for evidence samples
	InitErr   string   // first "initialization failed" style error seen on any waiting call
}

type truth struct {
	// content ground truth by clean path (regular files incl. hardlinked names)
	fs *gen.FS
}

func (t *truth) content(p string) (id uint64, size int64, ok bool) {
	if t == nil || t.fs == nil {
		return 0, 0, false
	}
	n := t.fs.Nodes[p]
	if n == nil || n.Type != '0' {
		return 0, 0, false
	}
	return n.ContentID, n.Size, true
}

type task struct {
	kind string
	path string
}

type walker struct {
	cur    metadata.Reader
	orig   metadata.Reader
	blob   []byte
	rng    *prng.R
	seed   uint64 // probe seed (same for every store of the case)
	tr     *truth
	d      *Dump
	front  []task
	byID   map[uint32][]string
	visits int
	clones int
	preRaw []preRawRec
	light  bool // zstd blobs: every ReadAt of the repo allocates a fresh zstd decoder (~50 ms); probe fewer ranges
}

type preRawRec struct {
	from  string
	nid   uint32
	off   int64
	size  int64
	dgst  string
	data  []byte
	short bool
}

func sum(b []byte) string {
	s := sha256.Sum256(b)
	return hex.EncodeToString(s[:8])
}

func errClass(err error) string {
	switch {
	case err == nil:
		return ""
	case errors.Is(err, io.EOF):
		return "EOF"
	}
	return "error"
}

func (w *walker) op(name string) {
	w.d.Ops[name]++
	if len(w.d.OpTrace) < 40 {
		w.d.OpTrace = append(w.d.OpTrace, name)
	}
}

func (w *walker) noteErr(err error) {
	if err != nil && w.d.InitErr == "" && strings.Contains(err.Error(), "initialization failed") {
		w.d.InitErr = err.Error()
	}
}

func join(p, base string) string {
	if p == "" {
		return base
	}
	return p + "/" + base
}

// walk runs the whole bounded exploration. clonesWanted: how many times the reader is
// swapped for r.Clone(new SectionReader) in the middle of the walk.
func walk(store string, r metadata.Reader, blob []byte, rng *prng.R, probeSeed uint64, tr *truth, clonesWanted int, light ...bool) *Dump {
	d := &Dump{Store: store, Nodes: map[string]*nodeRec{}, Ops: map[string]int{}, RootIDOK: true, DigestOK: true}
	w := &walker{cur: r, orig: r, blob: blob, rng: rng, seed: probeSeed, tr: tr, d: d, byID: map[uint32][]string{}}
	w.light = len(light) > 0 && light[0]
	d.RootID0 = r.RootID()
	d.TOCDigest = r.TOCDigest().String()
	// The db store answers GetAttr(root) without waiting for its background load (judged
	// by a clause of its own in diffCase). Exercise that call, then make one waiting call
	// so that everything recorded below is the settled state.
	_, _ = r.GetAttr(d.RootID0)
	_, _, err0 := r.GetChild(d.RootID0, "no\x01such\x02name")
	w0 := &walker{d: d}
	w0.noteErr(err0)
	w.op("RootID")
	w.op("TOCDigest")
	root := &nodeRec{Path: "", id: d.RootID0}
	d.Nodes[""] = root
	w.byID[root.id] = append(w.byID[root.id], "")
	w.visits = 1
	w.front = append(w.front, task{"attr", ""})
	for i := 0; i < clonesWanted; i++ {
		w.front = append(w.front, task{"clone", ""})
	}
	for i := 0; i < 3; i++ {
		w.front = append(w.front, task{"rootid", ""}, task{"tocdigest", ""})
	}
	steps := 0
	for len(w.front) > 0 {
		steps++
		if steps > 40*maxVisits {
			d.Truncated = "steps"
			break
		}
		i := w.rng.Intn(len(w.front))
		t := w.front[i]
		w.front[i] = w.front[len(w.front)-1]
		w.front = w.front[:len(w.front)-1]
		w.run(t)
	}
	w.finish()
	return d
}

func (w *walker) run(t task) {
	n := w.d.Nodes[t.path]
	switch t.kind {
	case "rootid":
		w.op("RootID")
		if w.cur.RootID() != w.d.RootID0 {
			w.d.RootIDOK = false
		}
	case "tocdigest":
		w.op("TOCDigest")
		if w.orig.TOCDigest().String() != w.d.TOCDigest {
			w.d.DigestOK = false
		}
	case "clone":
		w.op("Clone")
		sr := io.NewSectionReader(bytes.NewReader(w.blob), 0, int64(len(w.blob)))
		c, err := w.cur.Clone(sr)
		w.noteErr(err)
		if err != nil {
			w.d.CloneErr = append(w.d.CloneErr, "error")
			return
		}
		w.d.CloneDgst = append(w.d.CloneDgst, c.TOCDigest().String())
		if c.RootID() != w.d.RootID0 {
			w.d.RootIDOK = false
		}
		w.cur = c // never closed: a db clone shares the bucket of its origin
		w.clones++
	case "attr":
		w.op("GetAttr")
		a, err := w.cur.GetAttr(n.id)
		w.noteErr(err)
		n.Attr = mkAttr(a, err)
		if err != nil {
			return
		}
		if a.Mode.IsDir() {
			w.front = append(w.front, task{"children", t.path}, task{"missing", t.path})
		} else if a.Mode.IsRegular() {
			w.front = append(w.front, task{"offset", t.path}, task{"open", t.path}, task{"popen", t.path})
		}
	case "children":
		w.op("ForeachChild")
		type ch struct {
			name string
			id   uint32
			mode os.FileMode
		}
		var cs []ch
		cnt := 0
		err := w.cur.ForeachChild(n.id, func(name string, id uint32, mode os.FileMode) bool {
			cnt++
			if cnt > maxVisits {
				return false
			}
			cs = append(cs, ch{name, id, mode})
			return true
		})
		w.noteErr(err)
		n.Listed = true
		n.ChildErr = errClass(err)
		sort.Slice(cs, func(i, j int) bool { return cs[i].name < cs[j].name })
		for _, c := range cs {
			n.Children = append(n.Children, c.name)
			if c.id == n.id {
				n.SelfChild = append(n.SelfChild, c.name)
				continue // never descend into a self reference
			}
			if n.Depth+1 > maxDepth {
				w.d.Truncated = "depth"
				continue
			}
			if w.visits >= maxVisits {
				w.d.Truncated = "visits"
				continue
			}
			p := join(t.path, c.name)
			if _, dup := w.d.Nodes[p]; dup {
				continue
			}
			w.visits++
			cn := &nodeRec{Path: p, Depth: n.Depth + 1, id: c.id, FEMode: c.mode, HasFE: true}
			w.d.Nodes[p] = cn
			w.byID[c.id] = append(w.byID[c.id], p)
			w.front = append(w.front, task{"lookup", p}, task{"attr", p})
		}
	case "lookup":
		w.op("GetChild")
		i := strings.LastIndex(t.path, "/")
		parent, base := "", t.path
		if i >= 0 {
			parent, base = t.path[:i], t.path[i+1:]
		}
		pn := w.d.Nodes[parent]
		id, a, err := w.cur.GetChild(pn.id, base)
		w.noteErr(err)
		n.Via = mkAttr(a, err)
		if err == nil && id != n.id {
			n.LookupID = "GetChild returned another node id than ForeachChild"
		}
	case "missing":
		w.op("GetChild(absent)")
		_, _, err := w.cur.GetChild(n.id, "no\x01such\x02name")
		w.noteErr(err)
		if err != nil {
			n.MissingOK = "err"
		} else {
			n.MissingOK = "found"
		}
	case "offset":
		w.op("GetOffset")
		off, err := w.cur.GetOffset(n.id)
		w.noteErr(err)
		n.OffsetAsked = true
		n.Offset, n.OffsetErr = off, errClass(err)
	case "open":
		w.op("OpenFile")
		f, err := w.cur.OpenFile(n.id)
		w.noteErr(err)
		n.Opened = true
		n.OpenErr = errClass(err)
		if err != nil {
			return
		}
		w.probeFile(n, f, false)
	case "popen":
		w.op("OpenFileWithPreReader")
		from := t.path
		f, err := w.cur.OpenFileWithPreReader(n.id, func(nid uint32, chunkOffset, chunkSize int64, chunkDigest string, r io.Reader) error {
			n.PreCBn++
			rec := preRawRec{from: from, nid: nid, off: chunkOffset, size: chunkSize, dgst: chunkDigest}
			if chunkSize < 0 || chunkSize > maxReadBytes {
				rec.short = true
				w.preRaw = append(w.preRaw, rec)
				_, _ = io.Copy(io.Discard, io.LimitReader(r, maxReadBytes))
				return nil
			}
			b, _ := io.ReadAll(io.LimitReader(r, chunkSize+1))
			rec.data = b
			w.preRaw = append(w.preRaw, rec)
			return nil
		})
		w.noteErr(err)
		n.POpenErr = errClass(err)
		if err != nil {
			return
		}
		w.probeFile(n, f, true)
	}
}

// probeFile: chunk table via ChunkEntryForOffset from 0 (as VerifiableReader.Cache walks
// it), probes at every start, start±1, size, size+1, then reads.
func (w *walker) probeFile(n *nodeRec, f metadata.File, pre bool) {
	size := int64(0)
	if n.Attr != nil {
		size = n.Attr.Size
	}
	cid, tsize, haveTruth := w.tr.content(n.Path)
	if haveTruth && tsize != size {
		haveTruth = false // size divergence is reported by the attr comparison
	}
	prng0 := prng.New(w.seed).DeriveS(n.Path)
	var starts []int64
	var sizes []int64
	{
		var nr int64
		for k := 0; nr < size && k < maxChunks; k++ {
			w.op("ChunkEntryForOffset")
			off, sz, _, ok := f.ChunkEntryForOffset(nr)
			if !ok || sz <= 0 {
				break
			}
			starts = append(starts, off)
			sizes = append(sizes, sz)
			nr = off + sz
		}
	}
	doRead := func(off int64, ln int) readRes {
		if ln > maxReadBytes {
			ln = maxReadBytes
		}
		p := make([]byte, ln)
		w.op("ReadAt")
		nn, err := f.ReadAt(p, off)
		rr := readRes{N: nn, Err: errClass(err), Truth: "?"}
		if err != nil {
			rr.ErrText = err.Error()
		}
		if nn < 0 || nn > ln {
			rr.Truth = "n out of range"
			return rr
		}
		rr.Sum = sum(p[:nn])
		if haveTruth && off >= 0 {
			if i := gen.CheckContent(cid, off, p[:nn]); i >= 0 {
				rr.Truth = fmt.Sprintf("byte differs from the tar content (first at +%s of the request)", bucket(i))
			} else {
				rr.Truth = ""
			}
		}
		return rr
	}
	if !pre {
		n.Starts = starts
		n.Chunks = map[int64]chunkRes{}
		probe := map[int64]bool{-1: true, 0: true, size - 1: true, size: true, size + 1: true}
		for i, s := range starts {
			probe[s-1], probe[s], probe[s+1] = true, true, true
			probe[s+sizes[i]-1], probe[s+sizes[i]] = true, true
		}
		for o := range probe {
			w.op("ChunkEntryForOffset")
			off, sz, dg, ok := f.ChunkEntryForOffset(o)
			n.Chunks[o] = chunkRes{ok, off, sz, dg}
		}
		n.Reads = map[string]readRes{}
		// (a) each chunk exactly (what fs/reader asks for)
		for i, s := range starts {
			if w.light && i >= 3 {
				break
			}
			n.Reads[fmt.Sprintf("chunk@%d+%d", s, sizes[i])] = doRead(s, int(sizes[i]))
		}
		// (b) the whole file in one call, and past its end
		n.Reads[fmt.Sprintf("whole@0+%d", size)] = doRead(0, int(size))
		n.Reads[fmt.Sprintf("tail@%d+3", size-1)] = doRead(size-1, 3)
		n.Reads[fmt.Sprintf("eof@%d+1", size)] = doRead(size, 1)
		// (c) random ranges (may cross chunk boundaries)
		for k := 0; k < 4 && size > 0 && !(w.light && k >= 1); k++ {
			o := prng0.Int63n(size)
			l := 1 + prng0.Intn(int(min64(size-o+2, 5000)))
			n.Reads[fmt.Sprintf("rand@%d+%d", o, l)] = doRead(o, l)
		}
		return
	}
	// pre-reader variant: only whole-chunk and in-chunk reads (the only use in the repo;
	// a read that runs past its chunk is refused by both implementations by design)
	n.PReads = map[string]readRes{}
	for i, s := range starts {
		if i >= 40 || (w.light && i >= 2) {
			break
		}
		n.PReads[fmt.Sprintf("chunk@%d+%d", s, sizes[i])] = doRead(s, int(sizes[i]))
		if sizes[i] > 2 {
			o := s + 1 + prng0.Int63n(sizes[i]-1)
			l := int(s + sizes[i] - o)
			n.PReads[fmt.Sprintf("in@%d+%d", o, l)] = doRead(o, l)
		}
	}
}

func bucket(i int) string {
	switch {
	case i == 0:
		return "0"
	case i < 512:
		return "<512"
	}
	return ">=512"
}

func min64(a, b int64) int64 {
	if a < b {
		return a
	}
	return b
}

// finish resolves ids to canonical paths and judges pre-read callbacks against the
// ground truth (the callback's node id is resolved through the walk's own id table).
func (w *walker) finish() {
	for _, ps := range w.byID {
		sort.Strings(ps)
		for _, p := range ps {
			w.d.Nodes[p].IDKey = ps[0]
		}
	}
	for _, pr := range w.preRaw {
		n := w.d.Nodes[pr.from]
		ps := w.byID[pr.nid]
		switch {
		case pr.short:
			n.PreCB = append(n.PreCB, "callback announced an absurd chunk size")
			continue
		case len(ps) == 0:
			if w.d.Truncated == "" {
				n.PreCB = append(n.PreCB, "callback named a node id that no path of the tree has")
			}
			continue
		}
		if int64(len(pr.data)) != pr.size {
			n.PreCB = append(n.PreCB, "callback reader delivered another length than the announced chunk size")
			continue
		}
		if pr.dgst != "" && strings.HasPrefix(pr.dgst, "sha256:") {
			s := sha256.Sum256(pr.data)
			if "sha256:"+hex.EncodeToString(s[:]) != pr.dgst {
				n.PreCB = append(n.PreCB, "callback bytes do not match the digest passed with them")
				continue
			}
		}
		if cid, tsize, ok := w.tr.content(ps[0]); ok && pr.off >= 0 && pr.off+pr.size <= tsize {
			if gen.CheckContent(cid, pr.off, pr.data) >= 0 {
				n.PreCB = append(n.PreCB, "callback bytes are not the bytes of the named file at the named chunk offset")
			}
		}
	}
}
