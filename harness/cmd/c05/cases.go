package main

// Case generators: (a) blobs from the repo's builder under random options, (b) hand
// assembled spec-conforming blobs with one feature each and combined.

import (
	"archive/tar"
	"fmt"
	"sort"
	"strings"

	"github.com/containerd/stargz-snapshotter/metadata"

	"verifharness/internal/blob"
	"verifharness/internal/gen"
	"verifharness/internal/prng"
)

// oneCase is everything the stages need to know about one blob.
type oneCase struct {
	Desc     string
	Class    string // "builder" | "hand"
	Features []string
	Blob     []byte
	Decomp   []metadata.Decompressor
	Truth    *truth
	Facts    *facts
	Replay   map[string]any
	BuildErr error
	built    *blob.Built
	// set by diffCase when the stores of this case come from fsopts.ConfigFsOpts
	memStore, dbStore metadata.Store
	via               string
	tocParsed         bool
	Light             bool // zstd: probe fewer ranges (decoder set-up dominates the run time)
}

var errSkipped = fmt.Errorf("skipped in this stage")

var handFeatures = []string{"implicit", "dupdir", "hardchain", "nodigest", "dotnames", "emptyxattr", "trailing", "innershared", "rootentry"}

// builderCase. load, when non-nil, supplies the blob built earlier by the plain top
// process from the very same (deterministic) tar and options: estargz.Build under the
// race detector costs ~8 s per blob, and the builder is not what this check is about.
func builderCase(rng *prng.R, thorough bool, noZstd bool, load func(bo blob.Opts) (*blob.Built, error)) *oneCase {
	chunk := int64(rng.Pick(1, 7, 64, 512, 512, 4096))
	o := gen.DefaultOpts(chunk)
	if thorough {
		o.MaxEntries = rng.Pick(24, 24, 40)
	}
	// switch single generator features off now and then so that they are also seen alone
	if rng.Chance(1, 5) {
		o.Prefixes = false
	}
	if rng.Chance(1, 5) {
		o.Duplicates = false
	}
	if rng.Chance(1, 5) {
		o.ImplicitDirs = false
	}
	es := gen.RandomTar(rng, o)
	bo := blob.RandomOpts(rng, int(chunk))
	if bo.Compression == "zstdchunked" && rng.Chance(1, 2) {
		bo.Compression, bo.Level = "gzip", rng.Pick(1, 6, 9) // 1/8 of the builder cases stay zstd
	}
	fsm := gen.Model(es)
	if rng.Chance(1, 3) {
		regs := fsm.RegularFiles()
		for i := 0; i < 3 && len(regs) > 0; i++ {
			bo.Prioritized = append(bo.Prioritized, regs[rng.Intn(len(regs))])
		}
	}
	c := &oneCase{Class: "builder", Features: []string{"builder:" + bo.Compression}}
	if noZstd && bo.Compression == "zstdchunked" {
		// race build: klauspost zstd set-up costs seconds per blob there; zstd blobs are
		// covered by the plain stage
		c.BuildErr = errSkipped
		return c
	}
	c.Desc = fmt.Sprintf("builder{%s} tar{%s}", bo.String(), gen.Describe(es))
	c.Replay = map[string]any{"kind": "builder", "opts": bo.String(), "tar": gen.Describe(es)}
	var b *blob.Built
	var err error
	if load != nil {
		b, err = load(bo)
	} else {
		b, err = blob.Build(gen.TarBytes(es), bo)
	}
	if err != nil {
		c.BuildErr = err
		return c
	}
	c.Blob = b.Blob
	c.built = b
	c.Light = bo.Compression == "zstdchunked"
	c.Decomp = b.Decompressors()
	c.Truth = &truth{fs: fsm}
	// the classifier's facts come from the TOC the stores are given (the builder drops
	// earlier duplicates and may reorder), extracted independently of /repo
	factEntries := es
	if js, err := extractTOC(b); err == nil {
		if tes, err := tocEntries(js); err == nil {
			factEntries = tes
			c.tocParsed = true
		}
		if len(js) <= 48<<10 {
			c.Replay["toc_json"] = string(js)
		}
	}
	c.Facts = mkFacts(factEntries, "builder")
	c.Facts.tocTruth = b.TOCDigest.String()
	if bo.MinChunkSize > 0 {
		c.Features = append(c.Features, "builder:minchunk")
	}
	if len(bo.Prioritized) > 0 {
		c.Features = append(c.Features, "builder:prioritized")
	}
	return c
}

type hb struct {
	rng  *prng.R
	es   []hEntry
	next uint64
	c    int64
}

func (b *hb) meta(e *hEntry) {
	e.UID = b.rng.Pick(0, 0, 1, 1000, 65534)
	e.GID = b.rng.Pick(0, 0, 5, 1000)
	e.ModTime = int64(b.rng.Pick(0, 1, 1500000000, 1700000000)) + int64(b.rng.Intn(1000))
	if b.rng.Chance(1, 5) {
		e.Uname, e.Gname = "user", "staff"
	}
}

func (b *hb) dir(name string, mode int64) *hEntry {
	e := hEntry{Entry: gen.Entry{Name: name, Type: tar.TypeDir, Mode: mode}}
	b.meta(&e)
	b.es = append(b.es, e)
	return &b.es[len(b.es)-1]
}

// reg adds a regular file cut into chunks of size c, each in its own gzip member.
func (b *hb) reg(name string, size int64) *hEntry {
	b.next += 2
	e := hEntry{Entry: gen.Entry{Name: name, Type: tar.TypeReg, Mode: int64(b.rng.Pick(0o644, 0o600, 0o755, 0o4755)), Size: size, ContentID: b.next}}
	b.meta(&e)
	for rem := size; rem > 0; rem -= b.c {
		e.Chunks = append(e.Chunks, min64(rem, b.c))
	}
	b.es = append(b.es, e)
	return &b.es[len(b.es)-1]
}

func (b *hb) link(name, target string) {
	e := hEntry{Entry: gen.Entry{Name: name, Type: tar.TypeLink, Linkname: target, Mode: 0o644}}
	b.es = append(b.es, e)
}

func (b *hb) sym(name, target string) {
	e := hEntry{Entry: gen.Entry{Name: name, Type: tar.TypeSymlink, Linkname: target, Mode: 0o777}}
	b.meta(&e)
	b.es = append(b.es, e)
}

func (b *hb) size() int64 {
	c := b.c
	return []int64{1, c - 1, c, c + 1, 2 * c, 2*c + 3, 3*c + 1}[b.rng.Intn(7)]
}

// handCase builds a spec with the given features. minimal: nothing but the feature.
func handCase(rng *prng.R, feats []string, minimal bool) *oneCase {
	b := &hb{rng: rng, next: rng.U64() | 1, c: int64(rng.Pick(2, 7, 64, 512))}
	on := map[string]bool{}
	for _, f := range feats {
		on[f] = true
	}
	s := handSpec{Level: rng.Pick(1, 6, 9), Features: feats}
	if on["rootentry"] {
		r := b.dir(rng.PickS("./", "/", "."), int64(rng.Pick(0o700, 0o711, 0o755)))
		r.UID, r.GID = 1000, 1000
		r.ModTime = 1600000000
		if rng.Bool() {
			r.Xattrs = map[string]string{"user.root": "r"}
		}
	}
	if !minimal {
		b.dir("base/", 0o755)
		b.reg("base/small", 1+rng.Int63n(b.c))
		b.reg("base/multi", 2*b.c+3)
		b.reg("empty", 0)
		b.sym("base/sl", "small")
		if rng.Bool() {
			d := hEntry{Entry: gen.Entry{Name: "base/null", Type: tar.TypeChar, Mode: 0o666, Devmajor: 1, Devminor: 3}}
			b.es = append(b.es, d)
		}
	}
	if on["implicit"] {
		b.reg("imp/deep/er/file", b.size())
		b.dir("imp2/sub/", 0o700)
		b.sym("imp3/l", "../imp/deep")
		if minimal || rng.Bool() {
			// the directory is declared only after an entry beneath it made it exist
			b.dir("imp/deep/", 0o750)
		}
	}
	if on["dupdir"] {
		d1 := b.dir("d/", 0o700)
		d1.UID, d1.GID, d1.ModTime = 1, 5, 1500000000
		if rng.Bool() {
			d1.Xattrs = map[string]string{"user.a": "x"}
			if on["emptyxattr"] {
				d1.Xattrs["user.e"] = ""
			}
		}
		b.reg("d/inner", b.size())
		if rng.Bool() {
			b.dir("d/sub/", 0o755)
		}
		d2 := b.dir(rng.PickS("d/", "./d/", "d"), 0o755)
		d2.Uname, d2.Gname = "", ""
		d2.UID = rng.Pick(0, 0, 2)
		d2.GID = rng.Pick(0, 0, 6)
		d2.ModTime = int64(rng.Pick(0, 0, 1600000000))
		if rng.Chance(1, 3) {
			d2.Xattrs = map[string]string{"user.b": "y"}
		}
		if rng.Chance(1, 3) {
			d3 := b.dir("d/", int64(rng.Pick(0o755, 0o1777)))
			d3.UID, d3.GID, d3.ModTime = 0, 0, 0
		}
		if rng.Bool() {
			b.reg("d/after", b.size())
		}
	}
	if on["hardchain"] {
		b.dir("h/", 0o755)
		b.reg("h/base", b.size())
		b.link("h/l1", "h/base")
		b.link("h/l2", rng.PickS("h/l1", "./h/l1", "/h/l1"))
		b.link("l3", rng.PickS("h/l2", "./h/l2"))
		if rng.Bool() {
			b.link("h/l4", "l3")
		}
		if on["dupdir"] {
			b.link("d/hl", "h/l2")
		}
	}
	if on["dotnames"] {
		b.dir("./dn/", 0o755)
		b.reg("./dn/y", b.size())
		b.dir("../esc/", 0o711)
		b.reg("../esc/e", b.size())
		b.reg("/abs", b.size())
		b.reg("dn/./z", b.size())
		b.reg("dn/../dn/w", 0)
		b.sym("./dn/s", "../abs")
		if on["hardchain"] {
			b.link("../esc/hl", "./dn/../h/l1")
		}
	}
	if on["emptyxattr"] {
		b.dir("xa/", 0o755)
		e1 := b.reg("xa/e1", b.size())
		e1.TOCXattrs = map[string][]byte{"user.empty": {}}
		e2 := b.reg("xa/e2", 1)
		e2.Xattrs = map[string]string{"user.a": "v"}
		e2.TOCXattrs = map[string][]byte{"user.a": []byte("v"), "user.empty": {}}
		e3 := b.reg("xa/e3", 0)
		e3.TOCXattrs = map[string][]byte{"user.e1": {}, "user.e2": {}, "user.e3": {}}
		d := b.dir("xa/d/", 0o755)
		d.Xattrs = map[string]string{"trusted.overlay.opaque": "y"}
		d.TOCXattrs = map[string][]byte{"trusted.overlay.opaque": []byte("y"), "user.e": {}, "user.f": {}}
	}
	if on["innershared"] {
		b.dir("in/", 0o755)
		a := b.reg("in/a", 1+rng.Int63n(b.c))
		// minimal: "in/a" is the first payload of the blob and stays in the member that
		// begins at blob offset 0 (offset 0 is omitted from the TOC, innerOffset = header
		// bytes), as the builder lays it out with MinChunkSize > 0
		a.Chunks, a.NewStream = nil, []bool{!minimal}
		if minimal || rng.Bool() {
			b.reg("in/empty0", 0)
		}
		x := b.reg("in/b", 1+rng.Int63n(b.c))
		x.Chunks, x.NewStream = nil, []bool{false}
		if rng.Bool() {
			b.dir("in/dd/", 0o755)
		}
		y := b.reg("in/c", b.c)
		y.Chunks, y.NewStream = nil, []bool{false}
		big := b.reg("in/big", 3*b.c+1)
		big.NewStream = []bool{minimal || rng.Bool(), false, false, true}
		mix := b.reg("in/mix", b.c+2)
		mix.NewStream = []bool{false, rng.Bool()}
		last := b.reg("in/last", 2*b.c)
		last.NewStream = []bool{false, false}
	}
	if on["nodigest"] {
		if minimal {
			b.reg("nd", b.size())
		}
		n := 0
		for i := range b.es {
			if b.es[i].Type == tar.TypeReg && (n == 0 || rng.Bool()) {
				b.es[i].NoDigest = true
				n++
			}
		}
	}
	if on["trailing"] {
		if minimal {
			b.reg("t", b.size())
		}
		s.Trailing = rng.PickS("\n", " ", "\r\n\t \n", strings.Repeat(" ", 600)+"\n", strings.Repeat("\n", 5000), strings.Repeat(" \n", 40000))
		if minimal {
			s.Trailing = strings.Repeat("\n", 5000)
		}
	}
	if len(b.es) == 0 {
		b.reg("only", b.size())
	}
	s.Entries = b.es
	hbk := assemble(s)
	es := s.genEntries()
	sort.Strings(feats)
	c := &oneCase{Class: "hand", Features: feats, Blob: hbk.Blob, Truth: &truth{fs: gen.Model(es)}, Facts: mkFacts(es, "hand")}
	c.Facts.trailing = s.Trailing != ""
	c.Facts.tocTruth = hbk.TOCDigest.String()
	c.Desc = fmt.Sprintf("hand{%s minimal=%v chunk=%d trailing=%q} %s", strings.Join(feats, "+"), minimal, b.c, trunc(s.Trailing, 8), gen.Describe(es))
	c.Replay = map[string]any{"kind": "hand", "features": feats, "minimal": minimal, "toc_json": string(hbk.TOCJSON), "toc_digest_of_whole_file": hbk.TOCDigest.String()}
	if len(hbk.Blob) <= 8192 {
		c.Replay["blob_hex"] = fmt.Sprintf("%x", hbk.Blob)
	}
	return c
}

// handList is the deterministic list of hand cases of a tier: per feature a minimal blob
// and variants inside a base tree, then pairs, then random larger combinations.
func handList(thorough bool) (list [][]string, minimal []bool) {
	add := func(m bool, fs ...string) {
		list = append(list, append([]string(nil), fs...))
		minimal = append(minimal, m)
	}
	for _, f := range handFeatures {
		add(true, f)
		add(false, f)
	}
	nv := 0
	if thorough {
		nv = 4
	}
	for v := 0; v < nv; v++ {
		for _, f := range handFeatures {
			add(false, f)
		}
	}
	pairs := [][2]string{{"dupdir", "emptyxattr"}, {"hardchain", "dotnames"}, {"innershared", "nodigest"}, {"rootentry", "implicit"}, {"trailing", "innershared"}, {"dupdir", "hardchain"}}
	if thorough {
		pairs = nil
		for i := range handFeatures {
			for j := i + 1; j < len(handFeatures); j++ {
				pairs = append(pairs, [2]string{handFeatures[i], handFeatures[j]}, [2]string{handFeatures[i], handFeatures[j]})
			}
		}
	}
	for _, p := range pairs {
		add(false, p[0], p[1])
	}
	// everything but the features with a defect already known: keeps the other clauses
	// observable on blobs where the walk is not cut short
	add(false, "implicit", "hardchain", "nodigest", "dotnames", "innershared")
	add(false, handFeatures...)
	return
}

// randomCombo draws 3..6 features.
func randomCombo(rng *prng.R) []string {
	n := rng.Range(3, 6)
	p := rng.Perm(len(handFeatures))
	var fs []string
	for _, i := range p[:n] {
		fs = append(fs, handFeatures[i])
	}
	sort.Strings(fs)
	return fs
}
