package main

// Path-keyed comparison of two dumps + the classifier that gives every divergence class
// its own stable key. Only what the statement names is compared: TOC digest, tree of
// names, attributes (incl. link counts, xattrs), chunk boundaries and digests, file bytes,
// accept/reject. Slack (each one is a place where correct code may differ):
//   - ForeachChild order: children are compared as sorted sets.
//   - NumLink 0 == 1 (documented in estargz/types.go).
//   - node ids are store-private: only the partition "which paths share a node" is compared.
//   - error texts are not compared, only nil / io.EOF / other.
//   - GetOffset is compared for non-empty regular files only (its only consumers, prefetch
//     filter and landmark offset, ask it for those); other node types are counted, not judged.
//   - which chunks a pre-reader is offered is an optimisation and not compared; the bytes
//     and digests it is offered must be right.

import (
	"archive/tar"
	"fmt"
	"os"
	"sort"
	"strings"

	"verifharness/internal/gen"
)

type facts struct {
	entries      []gen.Entry      // in archive order, xattrs as the TOC states them
	dirEntries   map[string][]int // clean path -> indices of its "dir" entries
	explicitRoot bool
	trailing     bool   // TOC JSON is followed by whitespace
	tocTruth     string // sha256 over the whole TOC JSON payload ("" unknown)
	class        string // "builder" | "hand"
	lateDirs     map[string]bool
}

func mkFacts(es []gen.Entry, class string) *facts {
	f := &facts{entries: es, dirEntries: map[string][]int{}, class: class, lateDirs: map[string]bool{}}
	exists := map[string]bool{"": true}
	for i := range es {
		cn := gen.Clean(es[i].Name)
		if es[i].Type == tar.TypeDir && exists[cn] && len(f.dirEntries[cn]) == 0 && cn != "" {
			f.lateDirs[cn] = true
		}
		for d := cn; ; {
			exists[d] = true
			j := strings.LastIndex(d, "/")
			if j < 0 {
				break
			}
			d = d[:j]
		}
		if es[i].Type == tar.TypeDir {
			c := gen.Clean(es[i].Name)
			f.dirEntries[c] = append(f.dirEntries[c], i)
			if c == "" {
				f.explicitRoot = true
			}
		}
	}
	return f
}

func (f *facts) repeatedDir(p string) bool { return f != nil && len(f.dirEntries[p]) >= 2 }

// hasRepeatedChildDir: some direct sub-directory of p has two or more "dir" entries.
func (f *facts) hasRepeatedChildDir(p string) bool {
	if f == nil {
		return false
	}
	for d, idx := range f.dirEntries {
		if len(idx) < 2 || d == "" {
			continue
		}
		par := ""
		if i := strings.LastIndex(d, "/"); i >= 0 {
			par = d[:i]
		}
		if par == p {
			return true
		}
	}
	return false
}

// hasLateChildDir: some direct sub-directory of p got its (first) explicit entry only
// after an entry located beneath it had already made it exist implicitly.
func (f *facts) hasLateChildDir(p string) bool {
	if f == nil {
		return false
	}
	for d := range f.lateDirs {
		par := ""
		if i := strings.LastIndex(d, "/"); i >= 0 {
			par = d[:i]
		}
		if par == p {
			return true
		}
	}
	return false
}

type finding struct {
	Key    string
	What   string
	Path   string
	Detail map[string]any
}

type cmpCtx struct {
	mode   string // "stores" (a=memory,b=db) | "sharing" (a=alone,b=shared) | "rewalk" (a=first,b=second) | "concurrent"
	an, bn string
	f      *facts
	out    []finding
	obs    map[string]int
}

func (c *cmpCtx) key(k string) string {
	if c.mode == "stores" {
		return k
	}
	return c.mode + ":" + k
}

func (c *cmpCtx) add(k, what, path string, av, bv any) {
	c.out = append(c.out, finding{Key: c.key(k), What: what, Path: path, Detail: map[string]any{"path": path, c.an: av, c.bn: bv}})
}

// staleFrom reports whether, for a repeated directory, value bv is what an EARLIER entry
// of the same path states while av is what the LAST one states.
func (c *cmpCtx) staleDir(path string, get func(e *gen.Entry) any, av, bv any) bool {
	if c.f == nil || !c.f.repeatedDir(path) {
		return false
	}
	idx := c.f.dirEntries[path]
	last := &c.f.entries[idx[len(idx)-1]]
	if fmt.Sprint(get(last)) != fmt.Sprint(av) {
		return false
	}
	for _, i := range idx[:len(idx)-1] {
		if fmt.Sprint(get(&c.f.entries[i])) == fmt.Sprint(bv) {
			return true
		}
	}
	return false
}

// cmpAttr compares two attribute records of one path. suffix distinguishes the access
// path (GetAttr / GetChild).
func (c *cmpCtx) cmpAttr(path string, a, b *attrRec, suffix string, seen map[string]bool) {
	emit := func(k, what string, av, bv any) {
		if seen != nil {
			if seen[k] {
				return
			}
			seen[k] = true
		}
		c.add(k+suffix, what, path, av, bv)
	}
	if a == nil || b == nil {
		if (a == nil) != (b == nil) {
			emit("attr:asked-on-one-side-only", "internal: attribute recorded on one side only", a != nil, b != nil)
		}
		return
	}
	if a.Err != b.Err {
		emit("attr:error@"+pick(a.Err != "", c.an, c.bn), "attribute call fails on one side only", a.Err, b.Err)
		return
	}
	if a.Err != "" {
		return
	}
	isDir := a.Mode.IsDir() && b.Mode.IsDir()
	type fld struct {
		name   string
		av, bv any
		get    func(e *gen.Entry) any
	}
	modeOf := func(e *gen.Entry) any { return fmt.Sprintf("%o", e.Mode&0o7777) }
	flds := []fld{
		{"mode", fmt.Sprintf("%v", a.Mode), fmt.Sprintf("%v", b.Mode), nil},
		{"uid", a.UID, b.UID, func(e *gen.Entry) any { return e.UID }},
		{"gid", a.GID, b.GID, func(e *gen.Entry) any { return e.GID }},
		{"size", a.Size, b.Size, nil},
		{"linkname", a.LinkName, b.LinkName, nil},
		{"devmajor", a.DevMajor, b.DevMajor, nil},
		{"devminor", a.DevMinor, b.DevMinor, nil},
	}
	for _, f := range flds {
		if f.av == f.bv {
			continue
		}
		stale := false
		switch f.name {
		case "mode":
			stale = c.staleDir(path, modeOf, fmt.Sprintf("%o", permBits(a)), fmt.Sprintf("%o", permBits(b)))
		default:
			if f.get != nil {
				stale = c.staleDir(path, f.get, f.av, f.bv)
			}
		}
		if stale {
			emit("dup-dir:stale-fields@"+c.bn, "repeated directory entry: "+c.bn+" keeps the value of an earlier entry where the last entry states another ("+f.name+")", f.av, f.bv)
		} else {
			emit("attr:"+f.name+"-differs", "attribute "+f.name+" differs", f.av, f.bv)
		}
	}
	if a.MZero != b.MZero || a.MTime != b.MTime {
		av, bv := mt(a), mt(b)
		if c.staleDir(path, func(e *gen.Entry) any { return mtE(e.ModTime) }, av, bv) {
			emit("dup-dir:stale-fields@"+c.bn, "repeated directory entry: "+c.bn+" keeps the modtime of an earlier entry where the last entry states none", av, bv)
		} else {
			emit("attr:modtime-differs", "attribute modtime differs", av, bv)
		}
	}
	if nlink(a.NumLink) != nlink(b.NumLink) {
		switch {
		case isDir && c.f.hasRepeatedChildDir(path):
			emit("nlink:dir-differs@parent-of-repeated-dir", "link count of a directory differs when one of its sub-directories has several entries in the TOC (one store counts the sub-directory once per entry)", a.NumLink, b.NumLink)
		case isDir && c.f.hasLateChildDir(path):
			emit("nlink:dir-differs@child-dir-declared-after-use", "link count of a directory differs when one of its sub-directories is declared by an entry that comes after entries beneath it (implicit creation first, explicit entry later)", a.NumLink, b.NumLink)
		case isDir && path == "" && c.f != nil && c.f.explicitRoot:
			emit("nlink:dir-differs@explicit-root", "link count of the root directory differs when the archive has an explicit root entry", a.NumLink, b.NumLink)
		case isDir && c.f.repeatedDir(path):
			emit("nlink:dir-differs@repeated-dir", "link count of a repeated directory differs", a.NumLink, b.NumLink)
		case isDir:
			emit("nlink:dir-differs", "link count of a directory differs", a.NumLink, b.NumLink)
		default:
			emit("nlink:file-differs", "link count of a non-directory differs", a.NumLink, b.NumLink)
		}
	}
	// xattrs
	var onlyA, onlyB, valDiff []string
	for k, v := range a.Xattrs {
		if w, ok := b.Xattrs[k]; !ok {
			onlyA = append(onlyA, k)
		} else if w != v {
			valDiff = append(valDiff, k)
		}
	}
	for k := range b.Xattrs {
		if _, ok := a.Xattrs[k]; !ok {
			onlyB = append(onlyB, k)
		}
	}
	sort.Strings(onlyA)
	sort.Strings(onlyB)
	sort.Strings(valDiff)
	if len(onlyA)+len(onlyB)+len(valDiff) == 0 {
		return
	}
	var emptyDropped, other []string
	var staleX, otherB []string
	for _, k := range onlyA {
		switch {
		case a.Xattrs[k] == "":
			emptyDropped = append(emptyDropped, k)
		case c.mode != "stores" && c.xattrInEarlierDirEntry(path, k, a.Xattrs[k]):
			// db-vs-db: which stale xattr of an earlier entry survives depends on the
			// db store's random choice of a "first" xattr, so either side may have it
			staleX = append(staleX, k)
		default:
			other = append(other, k)
		}
	}
	for _, k := range onlyB {
		switch {
		case b.Xattrs[k] == "" && c.mode != "stores":
			emptyDropped = append(emptyDropped, k) // db-vs-db: either side may have dropped it
		case c.xattrInEarlierDirEntry(path, k, b.Xattrs[k]):
			staleX = append(staleX, k)
		default:
			otherB = append(otherB, k)
		}
	}
	for _, k := range valDiff {
		if c.xattrInEarlierDirEntry(path, k, b.Xattrs[k]) {
			staleX = append(staleX, k)
		} else {
			other = append(other, k)
		}
	}
	if len(emptyDropped) > 0 {
		emit("xattr:empty-value-dropped-by-db", "an xattr whose value is empty is missing (the db store drops every empty-valued xattr except the one it happens to pick as first)", xs(a.Xattrs), xs(b.Xattrs))
	}
	if len(staleX) > 0 {
		emit("dup-dir:stale-xattrs@"+c.bn, "repeated directory entry: "+c.bn+" keeps xattrs of an earlier entry that the last entry does not state", xs(a.Xattrs), xs(b.Xattrs))
	}
	if len(other)+len(otherB) > 0 {
		emit("xattr:differs", "xattrs differ", xs(a.Xattrs), xs(b.Xattrs))
	}
}

func (c *cmpCtx) xattrInEarlierDirEntry(path, k, v string) bool {
	if c.f == nil || !c.f.repeatedDir(path) {
		return false
	}
	idx := c.f.dirEntries[path]
	for _, i := range idx[:len(idx)-1] {
		if w, ok := c.f.entries[i].Xattrs[k]; ok && w == v {
			return true
		}
	}
	return false
}

func permBits(a *attrRec) int64 {
	m := int64(a.Mode.Perm())
	if a.Mode&(1<<23) != 0 { // os.ModeSetuid
		m |= 0o4000
	}
	if a.Mode&(1<<22) != 0 { // os.ModeSetgid
		m |= 0o2000
	}
	if a.Mode&(1<<20) != 0 { // os.ModeSticky
		m |= 0o1000
	}
	return m
}

func mt(a *attrRec) string {
	if a.MZero {
		return "zero"
	}
	return fmt.Sprint(a.MTime / 1e9)
}

func mtE(sec int64) string {
	if sec == 0 {
		return "zero"
	}
	return fmt.Sprint(sec)
}

func xs(m map[string]string) string {
	var ks []string
	for k := range m {
		ks = append(ks, k)
	}
	sort.Strings(ks)
	var sb strings.Builder
	for _, k := range ks {
		fmt.Fprintf(&sb, "%s=%q ", k, trunc(m[k], 24))
	}
	return sb.String()
}

func trunc(s string, n int) string {
	if len(s) > n {
		return s[:n] + "…"
	}
	return s
}

func pick(c bool, a, b string) string {
	if c {
		return a
	}
	return b
}

func readKind(k string) string {
	if i := strings.IndexByte(k, '@'); i >= 0 {
		return k[:i]
	}
	return k
}

// compareDumps is the whole oracle for one pair.
func compareDumps(mode, an, bn string, a, b *Dump, f *facts) *cmpCtx {
	c := &cmpCtx{mode: mode, an: an, bn: bn, f: f, obs: map[string]int{}}
	// --- reader level
	if a.TOCDigest != b.TOCDigest {
		switch {
		case f != nil && f.trailing && f.tocTruth != "":
			wrong := an
			if b.TOCDigest != f.tocTruth {
				wrong = bn
			}
			if a.TOCDigest != f.tocTruth && b.TOCDigest != f.tocTruth {
				wrong = "both"
			}
			c.add("tocdigest:trailing-bytes@"+wrong, "TOC JSON followed by whitespace: the stores hash different byte ranges of stargz.index.json; sha256 of the whole file is "+f.tocTruth, "", a.TOCDigest, b.TOCDigest)
		default:
			c.add("tocdigest:differs", "TOCDigest() differs", "", a.TOCDigest, b.TOCDigest)
		}
	}
	if a.TOCDigest == b.TOCDigest && f != nil && f.tocTruth != "" && a.TOCDigest != f.tocTruth && c.mode == "stores" {
		c.obs["tocdigest_equal_in_both_stores_but_not_sha256_of_whole_toc_file(not a store divergence)"]++
	}
	for _, d := range []*Dump{a, b} {
		n := pick(d == a, an, bn)
		if !d.RootIDOK {
			c.add("rootid:unstable@"+n, "RootID() changed during the walk or across Clone", "", nil, nil)
		}
		if !d.DigestOK {
			c.add("tocdigest:unstable@"+n, "TOCDigest() of one reader changed during the walk", "", nil, nil)
		}
		if c.mode != "stores" {
			continue // a reader-internal inconsistency is the stores comparison's business
		}
		for _, cd := range d.CloneDgst {
			if cd != d.TOCDigest {
				k := "tocdigest:changed-on-clone@" + n
				if cd == "" {
					k = "tocdigest:empty-on-clone@" + n
				}
				c.add(k, "Clone().TOCDigest() differs from the digest of the reader it was cloned from", "", d.TOCDigest, cd)
				break
			}
		}
	}
	if len(a.CloneErr) != len(b.CloneErr) {
		c.add("clone:error@"+pick(len(a.CloneErr) > len(b.CloneErr), an, bn), "Clone fails on one side only", "", len(a.CloneErr), len(b.CloneErr))
	}
	// --- tree of names
	trunc := a.Truncated != "" || b.Truncated != ""
	if c.mode == "stores" {
		for _, d := range []*Dump{a, b} {
			n := pick(d == a, an, bn)
			for p, nd := range d.Nodes {
				for _, sc := range nd.SelfChild {
					if p == "" && sc == "." {
						c.add("root:self-child-dot@"+n, "the root directory lists a child \".\" whose node is the root itself (explicit root entry in the archive)", p, nil, sc)
					} else {
						c.add("tree:self-child@"+n, "a directory lists a child that is the directory itself", p, nil, sc)
					}
				}
			}
		}
	} else {
		for p, na := range a.Nodes {
			if nb := b.Nodes[p]; nb != nil && na.Listed && nb.Listed && fmt.Sprint(na.Children) != fmt.Sprint(nb.Children) {
				c.add("tree:children-differ", "the same directory lists different names in two walks", p, fmt.Sprint(na.Children), fmt.Sprint(nb.Children))
			}
		}
	}
	paths := map[string]bool{}
	for p := range a.Nodes {
		paths[p] = true
	}
	for p := range b.Nodes {
		paths[p] = true
	}
	var ps []string
	for p := range paths {
		ps = append(ps, p)
	}
	sort.Strings(ps)
	for _, p := range ps {
		na, nb := a.Nodes[p], b.Nodes[p]
		if na == nil || nb == nil {
			if trunc {
				c.obs["path_only_on_one_side_but_walk_truncated"]++
				continue
			}
			// report only the topmost differing path
			if i := strings.LastIndex(p, "/"); i >= 0 {
				if a.Nodes[p[:i]] == nil || b.Nodes[p[:i]] == nil {
					continue
				}
			}
			if na == nil {
				c.add("tree:extra-path@"+bn, "a name exists on one side only", p, false, true)
			} else {
				c.add("tree:missing-path@"+bn, "a name exists on one side only", p, true, false)
			}
			continue
		}
		seen := map[string]bool{}
		c.cmpAttr(p, na.Attr, nb.Attr, "", seen)
		if p != "" {
			c.cmpAttr(p, na.Via, nb.Via, "@getchild", seen2(seen))
			if na.HasFE && nb.HasFE && na.FEMode != nb.FEMode {
				if c.staleDir(p, func(e *gen.Entry) any { return fmt.Sprintf("%o", e.Mode&0o7777) },
					fmt.Sprintf("%o", permBits(&attrRec{Mode: na.FEMode})), fmt.Sprintf("%o", permBits(&attrRec{Mode: nb.FEMode}))) {
					if !seen["dup-dir:stale-fields@"+bn] {
						c.add("dup-dir:stale-fields@"+bn, "repeated directory entry: stale mode passed to the ForeachChild callback", p, na.FEMode.String(), nb.FEMode.String())
					}
				} else if !seen["attr:mode-differs"] {
					c.add("foreachchild:mode-differs", "mode passed to the ForeachChild callback differs", p, na.FEMode.String(), nb.FEMode.String())
				}
			}
		}
		if na.LookupID != nb.LookupID {
			c.add("getchild:id-differs-from-foreachchild@"+pick(na.LookupID != "", an, bn), "GetChild and ForeachChild disagree on the node of a name on one side only", p, na.LookupID, nb.LookupID)
		}
		if na.IDKey != nb.IDKey && !trunc {
			c.add("hardlink:identity-partition-differs", "the sets of names sharing one node differ", p, na.IDKey, nb.IDKey)
		}
		if na.Listed && nb.Listed && na.ChildErr != nb.ChildErr {
			c.add("foreachchild:error@"+pick(na.ChildErr != "", an, bn), "ForeachChild fails on one side only", p, na.ChildErr, nb.ChildErr)
		}
		if na.MissingOK != nb.MissingOK && na.MissingOK != "" && nb.MissingOK != "" {
			c.add("getchild:absent-name@"+pick(na.MissingOK == "found", an, bn), "lookup of an absent name succeeds on one side", p, na.MissingOK, nb.MissingOK)
		}
		if na.OffsetAsked && nb.OffsetAsked && (na.Offset != nb.Offset || na.OffsetErr != nb.OffsetErr) {
			if na.Attr != nil && nb.Attr != nil && na.Attr.Size > 0 && nb.Attr.Size > 0 {
				c.add("getoffset:differs", "GetOffset of a non-empty regular file differs", p, fmt.Sprint(na.Offset, na.OffsetErr), fmt.Sprint(nb.Offset, nb.OffsetErr))
			} else {
				c.obs["getoffset_differs_for_empty_file(not judged)"]++
			}
		}
		if na.Opened && nb.Opened && na.OpenErr != nb.OpenErr {
			c.add("openfile:error@"+pick(na.OpenErr != "", an, bn), "OpenFile fails on one side only", p, na.OpenErr, nb.OpenErr)
		}
		if na.POpenErr != nb.POpenErr {
			c.add("openfilewithprereader:error@"+pick(na.POpenErr != "", an, bn), "OpenFileWithPreReader fails on one side only", p, na.POpenErr, nb.POpenErr)
		}
		if na.Chunks != nil && nb.Chunks != nil {
			if fmt.Sprint(na.Starts) != fmt.Sprint(nb.Starts) {
				c.add("chunks:boundaries-differ", "chunk starts enumerated from offset 0 differ", p, fmt.Sprint(na.Starts), fmt.Sprint(nb.Starts))
			}
			var offs []int64
			for o := range na.Chunks {
				if _, ok := nb.Chunks[o]; ok {
					offs = append(offs, o)
				}
			}
			sort.Slice(offs, func(i, j int) bool { return offs[i] < offs[j] })
			for _, o := range offs {
				x, y := na.Chunks[o], nb.Chunks[o]
				if x == y {
					continue
				}
				k := "chunks:entry-differs"
				if x.OK == y.OK && x.Off == y.Off && x.Size == y.Size {
					k = "chunks:digest-differs"
				} else if x.OK != y.OK {
					k = "chunks:found-differs"
				}
				where := "inside"
				sz := na.Attr.Size
				switch {
				case o < 0:
					where = "negative-offset"
				case o >= sz:
					where = "at-or-past-size"
				}
				if where != "inside" && c.mode == "stores" {
					// "for every file offset": a position outside [0,size) is not a file
					// offset; fs/reader never asks for one. Counted, not judged.
					c.obs["chunkentry_differs_"+where+"(not a file offset, not judged)"]++
					continue
				}
				c.add(k+"@"+where, fmt.Sprintf("ChunkEntryForOffset differs (probe %s the file)", where), p, fmt.Sprintf("probe %d of size %d: %+v", o, sz, x), fmt.Sprintf("%+v", y))
				break
			}
		}
		cmpReads := func(kind string, ra, rb map[string]readRes) {
			var ks []string
			for k := range ra {
				if _, ok := rb[k]; ok {
					ks = append(ks, k)
				}
			}
			sort.Strings(ks)
			for _, k := range ks {
				x, y := ra[k], rb[k]
				if x.Err == "error" && y.Err == "error" {
					c.obs["readat_fails_on_both_sides(agreement, not judged): "+c.mode+":"+kind]++
					if os.Getenv("VERIF_C05_VERBOSE") != "" {
						fmt.Fprintf(os.Stderr, "both fail: %s %s | %s | %s\n", p, k, x.ErrText, y.ErrText)
					}
				}
				if (x.Err == "error") != (y.Err == "error") {
					side, et := an, x.ErrText
					if y.Err == "error" {
						side, et = bn, y.ErrText
					}
					c.add("bytes:"+kind+"-fails@"+side+":"+errShapeS(et), "ReadAt fails on one side only: "+et, p, fmt.Sprintf("%s -> n=%d err=%q %s", k, x.N, x.Err, x.ErrText), fmt.Sprintf("n=%d err=%q %s", y.N, y.Err, y.ErrText))
				} else if x.N != y.N || x.Err != y.Err || x.Sum != y.Sum {
					c.add("bytes:"+kind+"-differs@"+readKind(k), "ReadAt returns different results for the same request", p, fmt.Sprintf("%s -> n=%d err=%q sum=%s %s", k, x.N, x.Err, x.Sum, x.ErrText), fmt.Sprintf("n=%d err=%q sum=%s %s", y.N, y.Err, y.Sum, y.ErrText))
				}
			}
			for side, rm := range []map[string]readRes{ra, rb} {
				n := pick(side == 0, an, bn)
				if c.mode != "stores" {
					break // absolute checks belong to the stores comparison; here only differences count
				}
				for k, x := range rm {
					if x.Truth != "" && x.Truth != "?" {
						c.add("bytes:"+kind+"-wrong-content@"+n, "ReadAt returned bytes that are not the file's bytes: "+x.Truth, p, k, nil)
						break
					}
				}
			}
		}
		if na.Reads != nil && nb.Reads != nil {
			cmpReads("readat", na.Reads, nb.Reads)
		}
		if na.PReads != nil && nb.PReads != nil {
			cmpReads("prereader-readat", na.PReads, nb.PReads)
		}
		if c.mode != "stores" && (len(na.PreCB) > 0) != (len(nb.PreCB) > 0) {
			c.add("preread:bad-callback-on-one-side", "a pre-read callback was handed wrong data in one of two walks of the same blob", p, fmt.Sprint(na.PreCB), fmt.Sprint(nb.PreCB))
		}
		for side, nd := range []*nodeRec{na, nb} {
			n := pick(side == 0, an, bn)
			if c.mode != "stores" {
				break
			}
			for _, pc := range nd.PreCB {
				c.add("preread:bad-callback@"+n, pc, p, nil, nil)
				break
			}
		}
	}
	return c
}

func seen2(m map[string]bool) map[string]bool {
	// GetChild findings are reported only for keys GetAttr did not already produce
	r := map[string]bool{}
	for k, v := range m {
		r[k] = v
	}
	return r
}

func errShapeS(s string) string {
	if s == "" {
		return ""
	}
	return errShape(fmt.Errorf("%s", s))
}
