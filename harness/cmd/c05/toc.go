package main

// Independent extraction of the TOC JSON from a blob written by the repo's builder, so
// that the classifier knows the ORDER of entries the stores were given (the builder drops
// earlier duplicates and moves prioritized files). Std gzip/tar/json + klauspost zstd only.

import (
	"archive/tar"
	"bytes"
	"compress/gzip"
	"encoding/binary"
	"encoding/json"
	"fmt"
	"io"
	"strconv"
	"time"

	"github.com/klauspost/compress/zstd"

	"verifharness/internal/blob"
	"verifharness/internal/gen"
)

func tocFromGzipTar(gz []byte) ([]byte, error) {
	zr, err := gzip.NewReader(bytes.NewReader(gz))
	if err != nil {
		return nil, err
	}
	zr.Multistream(false)
	tr := tar.NewReader(zr)
	h, err := tr.Next()
	if err != nil {
		return nil, err
	}
	if h.Name != "stargz.index.json" {
		return nil, fmt.Errorf("unexpected TOC entry name %q", h.Name)
	}
	return io.ReadAll(tr)
}

func extractTOC(b *blob.Built) ([]byte, error) {
	switch b.Opts.Compression {
	case "externaltoc":
		return tocFromGzipTar(b.ExternalTOC)
	case "zstdchunked":
		if len(b.Blob) < 40 {
			return nil, fmt.Errorf("short blob")
		}
		f := b.Blob[len(b.Blob)-40:]
		off, ln := binary.LittleEndian.Uint64(f[0:8]), binary.LittleEndian.Uint64(f[8:16])
		if off+ln > uint64(len(b.Blob)) {
			return nil, fmt.Errorf("bad zstd footer")
		}
		d, err := zstd.NewReader(bytes.NewReader(b.Blob[off : off+ln]))
		if err != nil {
			return nil, err
		}
		defer d.Close()
		return io.ReadAll(d)
	default:
		if len(b.Blob) < 51 {
			return nil, fmt.Errorf("short blob")
		}
		f := b.Blob[len(b.Blob)-51:]
		off, err := strconv.ParseInt(string(f[16:32]), 16, 64)
		if err != nil || off < 0 || off > int64(len(b.Blob)-51) {
			return nil, fmt.Errorf("bad footer: %v", err)
		}
		return tocFromGzipTar(b.Blob[off : len(b.Blob)-51])
	}
}

// tocEntries converts the non-chunk TOC entries into gen.Entry records (only the fields
// the classifier looks at).
func tocEntries(js []byte) ([]gen.Entry, error) {
	var t jTOC
	if err := json.Unmarshal(js, &t); err != nil {
		return nil, err
	}
	var es []gen.Entry
	for _, e := range t.Entries {
		var ty byte
		switch e.Type {
		case "chunk":
			continue
		case "reg":
			ty = tar.TypeReg
		case "dir":
			ty = tar.TypeDir
		case "symlink":
			ty = tar.TypeSymlink
		case "hardlink":
			ty = tar.TypeLink
		case "char":
			ty = tar.TypeChar
		case "block":
			ty = tar.TypeBlock
		case "fifo":
			ty = tar.TypeFifo
		default:
			return nil, fmt.Errorf("unknown type %q", e.Type)
		}
		g := gen.Entry{Name: e.Name, Type: ty, Mode: e.Mode, UID: e.UID, GID: e.GID, Linkname: e.LinkName, Size: e.Size}
		if e.ModTime != "" {
			if tm, err := time.Parse(time.RFC3339, e.ModTime); err == nil {
				g.ModTime = tm.Unix()
			}
		}
		if len(e.Xattrs) > 0 {
			g.Xattrs = map[string]string{}
			for k, v := range e.Xattrs {
				g.Xattrs[k] = string(v)
			}
		}
		es = append(es, g)
	}
	return es, nil
}
